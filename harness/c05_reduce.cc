// C05 stage 2 harness: the REAL Grid::simplify (both overloads), Grid::conversion (both directions) and
// Grid::normalize_divisors on seeded systems; the raw rows (Linear_Expression entries as the library
// holds them), the dim_kinds and the results are journalled, one call per line:
//
//   ND <id> <n> <divisor> ROWS <r> {<line> <len> e…}  => <divisor'> ROWS …
//   SG <id> <n> <norm> DK <k> d… ROWS …               => DK … ROWS …
//   GC <id> <n> DK … ROWS …                           => DK … CROWS <r> {<len> e… <m>}
//   SC <id> <n> DK … CROWS …                          => DK … CROWS … FLAG <0|1>
//   CG <id> <n> DK … CROWS …                          => DK … ROWS …
//   GX <a> <b> <g> <s> <t>                            gcdext_assign(g, s, t, a, b)
//
//   c05_reduce --seed S --first A --last B [--per-batch K]
// The native driver lean/Driver/GridRed.lean replays the code-shaped model on every line.
#include <cstdio>
#include <cstdlib>
#include <cstring>
#include <cstdint>
#include <string>
#include <sstream>
#include <iostream>
#include <vector>
#include <map>
#include <set>
#include <list>
#include <deque>
#include <algorithm>
#include <limits>
#include <stdexcept>
#include <gmpxx.h>
#define private public
#define protected public
#include "ppl.hh"
#undef private
#undef protected
#include "common.hh"

using namespace Parma_Polyhedra_Library;
typedef Grid_Generator GG;
typedef Grid::Dimension_Kinds DKs;

static pplv::Journal J(1);

static std::string zs(const Coefficient& c) { std::ostringstream s; s << c; return s.str(); }

static std::string dk_str(const DKs& dk) {
  std::ostringstream s; s << "DK " << dk.size();
  for (size_t i = 0; i < dk.size(); ++i) s << ' ' << (int)dk[i];
  return s.str();
}
// every entry of the expression: indices 0 .. space_dimension()
static std::string expr_str(const Linear_Expression& e) {
  std::ostringstream s; dimension_type len = e.space_dimension() + 1; s << len;
  for (dimension_type i = 0; i < len; ++i) s << ' ' << zs(e.get(i));
  return s.str();
}
static std::string rows_str(const Grid_Generator_System& gs) {
  std::ostringstream s; s << "ROWS " << gs.sys.rows.size();
  for (dimension_type i = 0; i < gs.sys.rows.size(); ++i) {
    const GG& g = gs.sys.rows[i];
    s << ' ' << (g.is_line_or_equality() ? 1 : 0) << ' ' << expr_str(g.expr);
  }
  return s.str();
}
static std::string crows_str(const Congruence_System& cs) {
  std::ostringstream s; s << "CROWS " << cs.rows.size();
  for (dimension_type i = 0; i < cs.rows.size(); ++i) {
    const Congruence& c = cs.rows[i];
    s << ' ' << expr_str(c.expr) << ' ' << zs(c.modulus());
  }
  return s.str();
}

struct Gen {
  pplv::Rng& R;
  explicit Gen(pplv::Rng& r) : R(r) {}
  Coefficient coef() {
    unsigned k = R.below(100);
    if (k < 25) return 0;
    if (k < 80) return Coefficient((long)R.range(-4, 4));
    if (k < 93) return Coefficient((long)R.range(-30, 30));
    if (k < 97) return Coefficient((long)R.range(-1000003, 1000003));
    Coefficient c = 1; c <<= (20 + R.below(60)); c += (long)R.range(-5, 5); if (R.chance(1, 2)) c = -c; return c;
  }
  Coefficient modulus() {
    static const long ms[] = {0, 0, 1, 1, 2, 2, 3, 3, 4, 5, 6, 7, 12, 30, 1000003};
    unsigned k = R.below(100);
    if (k < 92) return Coefficient(ms[R.below(sizeof(ms) / sizeof(ms[0]))]);
    Coefficient c = 1; c <<= (33 + R.below(40)); if (R.chance(1, 2)) c *= 3; return c;
  }
  Coefficient divisor() {
    static const long ds[] = {1, 1, 1, 2, 2, 3, 4, 6, 10, 35};
    if (R.chance(1, 25)) { Coefficient c = 1; c <<= (30 + R.below(40)); return c; }
    return Coefficient(ds[R.below(sizeof(ds) / sizeof(ds[0]))]);
  }
  Linear_Expression lin(dimension_type n) {
    Linear_Expression e;
    if (n > 0) e += 0 * Variable(n - 1);
    for (dimension_type i = 0; i < n; ++i) e += coef() * Variable(i);
    return e;
  }
  // kind: 0 line, 1 parameter, 2 point
  GG gen(dimension_type n, int kind) {
    Linear_Expression e = lin(n);
    if (kind == 2 || n == 0) return grid_point(e, divisor());
    if (e.all_homogeneous_terms_are_zero()) e += Variable(R.below(n));
    if (kind == 1) return parameter(e, divisor());
    return grid_line(e);
  }
  Grid_Generator_System gens(dimension_type n) {
    std::vector<GG> rows;
    rows.push_back(gen(n, 2));
    unsigned k = R.below(n + 4);
    for (unsigned i = 0; i < k; ++i) {
      unsigned t = R.below(10);
      int kind = n == 0 ? 2 : (t < 3 ? 2 : (t < 7 ? 1 : 0));
      if (!rows.empty() && R.chance(1, 6)) {
        // redundant: a copy, or the sum of two earlier rows of the same sort
        rows.push_back(rows[R.below(rows.size())]);
        continue;
      }
      rows.push_back(gen(n, kind));
    }
    for (size_t i = rows.size(); i > 1; --i) std::swap(rows[i - 1], rows[R.below(i)]);
    Grid_Generator_System gs(n);
    for (size_t i = 0; i < rows.size(); ++i) gs.insert(rows[i]);
    return gs;
  }
  Congruence cg(dimension_type n) {
    Linear_Expression e = lin(n);
    Coefficient b = coef();
    Coefficient m = modulus();
    return ((e + b) %= 0) / m;
  }
  Congruence_System cgs(dimension_type n) {
    Congruence_System cs(n);
    unsigned k = R.below(n + 4);
    std::vector<Congruence> made;
    for (unsigned i = 0; i < k; ++i) {
      if (!made.empty() && R.chance(1, 6)) {
        // redundant or inconsistent: an earlier row again, possibly with another inhomogeneous term
        Congruence c = made[R.below(made.size())];
        if (R.chance(1, 2)) {
          Linear_Expression e(c.expression());
          e += Coefficient((long)R.range(-3, 3));
          c = (e %= 0) / c.modulus();
        }
        made.push_back(c);
      }
      else made.push_back(cg(n));
      cs.insert(made.back());
    }
    return cs;
  }
  DKs kinds(dimension_type n) {
    DKs dk;
    unsigned w = R.below(4);
    size_t len = w == 0 ? 0 : (w == 1 ? n + 1 : R.below(n + 4));
    for (size_t i = 0; i < len; ++i) dk.push_back((Grid::Dimension_Kind)R.below(3));
    return dk;
  }
};

static void gx(const Coefficient& a, const Coefficient& b) {
  if (a == 0 || b == 0) return;
  Coefficient g, s, t;
  gcdext_assign(g, s, t, a, b);
  J.line("GX " + zs(a) + " " + zs(b) + " " + zs(g) + " " + zs(s) + " " + zs(t));
}

static void one_case(uint64_t seed, long id) {
  pplv::Rng R(seed);
  Gen G(R);
  static const dimension_type dims[] = {0, 1, 1, 2, 2, 2, 3, 3, 3, 4, 4};
  dimension_type n = dims[R.below(sizeof(dims) / sizeof(dims[0]))];
  std::string sid = std::to_string(id);
  // --- a few gcdext samples
  for (int i = 0; i < 2; ++i) gx(G.coef(), G.coef());
  if (R.chance(1, 4)) { Coefficient a = G.coef(), b = G.coef(), c = G.divisor(); gx(a * c, b * c); gx(a, a); gx(a, -a); gx(2 * a, a); }

  // --- generators: normalize_divisors, simplify, conversion
  {
    Grid_Generator_System gs = G.gens(n);
    // a line that is not in normal form (Grid operations produce such rows)
    if (R.chance(1, 4))
      for (dimension_type i = 0; i < gs.sys.rows.size(); ++i)
        if (gs.sys.rows[i].is_line() && R.chance(1, 2)) {
          Coefficient c((long)R.range(-6, 6)); if (c == 0) c = -1;
          gs.sys.rows[i].expr *= c;
        }
    bool norm = !R.chance(1, 8);
    if (norm) {
      Coefficient d = R.chance(1, 3) ? G.divisor() : Coefficient(1);
      std::string pre = "ND " + sid + " " + std::to_string(n) + " " + zs(d) + " " + rows_str(gs);
      Grid::normalize_divisors(gs, d);
      J.line(pre + " => " + zs(d) + " " + rows_str(gs));
    }
    DKs dk = G.kinds(n);
    std::string pre = "SG " + sid + " " + std::to_string(n) + " " + (norm ? "1" : "0") + " " + dk_str(dk) + " " + rows_str(gs);
    J.line("try SG " + sid);
    Grid::simplify(gs, dk);
    J.line(pre + " => " + dk_str(dk) + " " + rows_str(gs));
    if (norm) {
      Congruence_System cs;
      std::string pre2 = "GC " + sid + " " + std::to_string(n) + " " + dk_str(dk) + " " + rows_str(gs);
      J.line("try GC " + sid);
      Grid::conversion(gs, cs, dk);
      J.line(pre2 + " => " + dk_str(dk) + " " + crows_str(cs));
    }
  }
  // --- congruences: simplify, conversion
  {
    Congruence_System cs = G.cgs(n);
    DKs dk = G.kinds(n);
    std::string pre = "SC " + sid + " " + std::to_string(n) + " " + dk_str(dk) + " " + crows_str(cs);
    J.line("try SC " + sid);
    bool empty = Grid::simplify(cs, dk);
    J.line(pre + " => " + dk_str(dk) + " " + crows_str(cs) + " FLAG " + (empty ? "1" : "0"));
    if (!empty) {
      Grid_Generator_System gs;
      std::string pre2 = "CG " + sid + " " + std::to_string(n) + " " + dk_str(dk) + " " + crows_str(cs);
      J.line("try CG " + sid);
      Grid::conversion(cs, gs, dk);
      J.line(pre2 + " => " + dk_str(dk) + " " + rows_str(gs));
    }
  }
}

int main(int argc, char** argv) {
  long seed = pplv::arg_long(argc, argv, "--seed", 1);
  long first = pplv::arg_long(argc, argv, "--first", 0);
  long last = pplv::arg_long(argc, argv, "--last", 100);
  long per = pplv::arg_long(argc, argv, "--per-batch", 200);
  long nb = (last - first + per - 1) / per;
  return pplv::run_batches(0, nb, [&](long b) {
    for (long h = first + b * per; h < std::min(last, first + (b + 1) * per); ++h) {
      try { one_case((uint64_t)seed * 1000003ull + (uint64_t)h, h); }
      catch (...) { J.line("exc " + std::to_string(h) + " " + pplv::exc_class()); }
    }
  }, 120);
}
