// Journal encoding of PPL linear objects + seeded random generators of them (shared by harnesses).
// Encoding: see lean/PPLV/Lin/Parse.lean.
#ifndef PPLV_POLY_IO_HH
#define PPLV_POLY_IO_HH 1
#include "ppl.hh"
#include "common.hh"
namespace pplv_io {
using namespace Parma_Polyhedra_Library;
using pplv::Rng;
typedef std::ostringstream OS;

// ---- printing ---------------------------------------------------------------------------
static void put_con(OS& o, const Constraint& c, dimension_type n) {
  o << (c.is_equality() ? " =" : c.is_strict_inequality() ? " >" : " >=") << " " << c.inhomogeneous_term();
  for (dimension_type i = 0; i < n; ++i)
    o << " " << (i < c.space_dimension() ? c.coefficient(Variable(i)) : Coefficient(0));
}
static void put_cs(OS& o, const Constraint_System& cs, dimension_type n) {
  dimension_type m = 0;
  for (Constraint_System::const_iterator i = cs.begin(); i != cs.end(); ++i) ++m;
  o << " " << m;
  for (Constraint_System::const_iterator i = cs.begin(); i != cs.end(); ++i) put_con(o, *i, n);
}
static void put_gen(OS& o, const Generator& g, dimension_type n) {
  const char* k = g.is_line() ? "l" : g.is_ray() ? "r" : g.is_point() ? "p" : "c";
  o << " " << k << " ";
  if (g.is_point() || g.is_closure_point()) o << g.divisor(); else o << 1;
  for (dimension_type i = 0; i < n; ++i)
    o << " " << (i < g.space_dimension() ? g.coefficient(Variable(i)) : Coefficient(0));
}
static void put_gs(OS& o, const Generator_System& gs, dimension_type n) {
  dimension_type m = 0;
  for (Generator_System::const_iterator i = gs.begin(); i != gs.end(); ++i) ++m;
  o << " " << m;
  for (Generator_System::const_iterator i = gs.begin(); i != gs.end(); ++i) put_gen(o, *i, n);
}
static void put_expr(OS& o, const Linear_Expression& e, dimension_type n) {
  o << " " << e.inhomogeneous_term();
  for (dimension_type i = 0; i < n; ++i)
    o << " " << (i < e.space_dimension() ? e.coefficient(Variable(i)) : Coefficient(0));
}

// ---- random data --------------------------------------------------------------------------
static long small(Rng& r, long b) {       // biased towards small magnitudes and zero
  unsigned k = r.below(10);
  if (k < 3) return 0;
  if (k < 7) return r.range(-1, 1);
  return r.range(-b, b);
}
static Linear_Expression rnd_expr(Rng& r, dimension_type n, long b, bool big) {
  Linear_Expression e;
  if (n > 0) e += 0 * Variable(n - 1);
  for (dimension_type i = 0; i < n; ++i) {
    Coefficient c = small(r, b);
    if (big && r.chance(1, 3)) { c *= 1000003; c *= 998244353; c *= 1000000007; c += r.range(-5, 5); }
    e += c * Variable(i);
  }
  Coefficient k = r.range(-2 * b, 2 * b);
  if (big && r.chance(1, 3)) { k *= 1000003; k *= 998244353; k *= 1000000007; }
  e += k;
  return e;
}
static bool all_zero(const Linear_Expression& e, dimension_type n) {
  for (dimension_type i = 0; i < n; ++i) if (e.coefficient(Variable(i)) != 0) return false;
  return true;
}
static Constraint rnd_con(Rng& r, dimension_type n, bool nnc, bool big) {
  Linear_Expression e = rnd_expr(r, n, 3, big);
  unsigned k = r.below(20);
  if (k < 3) return e == 0;
  if (nnc && k < 8) return e > 0;
  return e >= 0;
}
static Constraint_System rnd_cs(Rng& r, dimension_type n, bool nnc, unsigned maxm, bool big) {
  Constraint_System cs;
  if (n > 0) cs.insert(0 * Variable(n - 1) >= -1);   // fixes the space dimension; trivially true
  unsigned m = r.below(maxm + 1);
  // one time in three: a cylinder (some variable does not occur at all, so the set has a line)
  dimension_type skip = (n > 1 && r.chance(1, 3)) ? r.below((unsigned)n) : n;
  for (unsigned i = 0; i < m; ++i) {
    Constraint c = rnd_con(r, n, nnc, big);
    if (skip < n && c.coefficient(Variable(skip)) != 0) {
      Linear_Expression e(c.expression());
      e -= c.coefficient(Variable(skip)) * Variable(skip);
      if (c.is_equality()) cs.insert(e == 0); else if (c.is_strict_inequality()) cs.insert(e > 0); else cs.insert(e >= 0);
    }
    else cs.insert(c);
  }
  return cs;
}
static Generator rnd_gen(Rng& r, dimension_type n, bool nnc, bool must_point) {
  Linear_Expression e;
  if (n > 0) e += 0 * Variable(n - 1);
  for (dimension_type i = 0; i < n; ++i) e += Coefficient(small(r, 4)) * Variable(i);
  unsigned k = must_point ? 0 : r.below(10);
  Coefficient d = r.chance(1, 3) ? r.range(2, 3) : 1;
  if (k < 5 || all_zero(e, n)) return point(e, d);
  if (nnc && k < 7) return closure_point(e, d);
  if (k < 9) return ray(e);
  return line(e);
}
static Generator_System rnd_gs(Rng& r, dimension_type n, bool nnc, unsigned maxm) {
  Generator_System gs;
  gs.insert(rnd_gen(r, n, nnc, true));
  unsigned m = r.below(maxm);
  for (unsigned i = 0; i < m; ++i) gs.insert(rnd_gen(r, n, nnc, false));
  return gs;
}


static const char* relsym_str(Relation_Symbol s) {
  switch (s) { case LESS_THAN: return "<"; case LESS_OR_EQUAL: return "<="; case EQUAL: return "=";
    case GREATER_OR_EQUAL: return ">="; default: return ">"; }
}
} // namespace pplv_io
#endif
