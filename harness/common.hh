// Shared pieces of the C++ harnesses: deterministic PRNG, crash-isolated batches with an
// unbuffered journal, exception classification.
#ifndef PPLV_HARNESS_COMMON_HH
#define PPLV_HARNESS_COMMON_HH 1

#include <cstdio>
#include <cstdlib>
#include <cstring>
#include <cstdint>
#include <string>
#include <sstream>
#include <vector>
#include <stdexcept>
#include <new>
#include <unistd.h>
#include <signal.h>
#include <sys/wait.h>
#include <sys/resource.h>

namespace pplv {

// ---- PRNG: splitmix64; every random choice of a harness derives from one seed -------------
struct Rng {
  uint64_t s;
  // The seed is scrambled first: with s = seed*G the streams of seeds k and k+1 would be the
  // same sequence shifted by one step (splitmix64 advances its state by G).
  static uint64_t mix(uint64_t z) {
    z = (z ^ (z >> 33)) * 0xff51afd7ed558ccdull;
    z = (z ^ (z >> 33)) * 0xc4ceb9fe1a85ec53ull;
    return z ^ (z >> 33);
  }
  explicit Rng(uint64_t seed) : s(mix(mix(seed + 0x9E3779B97F4A7C15ull) ^ 0x1234567ull)) {}
  uint64_t next() {
    uint64_t z = (s += 0x9E3779B97F4A7C15ull);
    z = (z ^ (z >> 30)) * 0xBF58476D1CE4E5B9ull;
    z = (z ^ (z >> 27)) * 0x94D049BB133111EBull;
    return z ^ (z >> 31);
  }
  // uniform in [0, n)
  unsigned below(unsigned n) { return n ? (unsigned)(next() % n) : 0; }
  // uniform in [lo, hi]
  long range(long lo, long hi) { return lo + (long)(next() % (uint64_t)(hi - lo + 1)); }
  bool chance(unsigned num, unsigned den) { return below(den) < num; }
};

// ---- journal: one line per event, written with write(2) so a crash loses nothing -----------
struct Journal {
  int fd;
  explicit Journal(int fd_ = 1) : fd(fd_) {}
  void line(const std::string& s) {
    std::string t = s; t.push_back('\n');
    const char* p = t.data(); size_t n = t.size();
    while (n) { ssize_t w = ::write(fd, p, n); if (w <= 0) break; p += w; n -= (size_t)w; }
  }
};

inline const char* signal_name(int sig) {
  switch (sig) {
    case SIGABRT: return "SIGABRT"; case SIGSEGV: return "SIGSEGV"; case SIGFPE: return "SIGFPE";
    case SIGBUS: return "SIGBUS"; case SIGILL: return "SIGILL"; case SIGXCPU: return "SIGXCPU";
    case SIGKILL: return "SIGKILL"; case SIGALRM: return "SIGALRM"; default: return "SIG?";
  }
}

// Run `body(batch)` for batch = first..last-1, each in a forked child that writes to stdout.
// If the child dies, the parent appends `crash <signal>` (or `crash exit <code>`).
// cpu_limit_s: RLIMIT_CPU of each child (a runaway operation becomes `crash SIGXCPU`).
template <typename F>
int run_batches(long first, long last, F body, int cpu_limit_s = 120) {
  Journal J(1);
  for (long b = first; b < last; ++b) {
    fflush(stdout);
    pid_t pid = fork();
    if (pid < 0) { perror("fork"); return 2; }
    if (pid == 0) {
      struct rlimit rl; rl.rlim_cur = (rlim_t)cpu_limit_s; rl.rlim_max = (rlim_t)cpu_limit_s + 5;
      setrlimit(RLIMIT_CPU, &rl);
      struct rlimit core; core.rlim_cur = core.rlim_max = 0; setrlimit(RLIMIT_CORE, &core);
      body(b);
      fflush(stdout);
      _exit(0);
    }
    int st = 0;
    waitpid(pid, &st, 0);
    if (WIFSIGNALED(st)) { J.line(std::string("crash ") + signal_name(WTERMSIG(st))); J.line("end"); }
    else if (WIFEXITED(st) && WEXITSTATUS(st) != 0) {
      J.line("crash exit " + std::to_string(WEXITSTATUS(st))); J.line("end");
    }
  }
  return 0;
}

// classify the exception in flight (call inside catch (...))
inline std::string exc_class() {
  try { throw; }
  catch (const std::invalid_argument&) { return "invalid_argument"; }
  catch (const std::domain_error&) { return "domain_error"; }
  catch (const std::length_error&) { return "length_error"; }
  catch (const std::overflow_error&) { return "overflow_error"; }
  catch (const std::out_of_range&) { return "out_of_range"; }
  catch (const std::logic_error&) { return "logic_error"; }
  catch (const std::runtime_error&) { return "runtime_error"; }
  catch (const std::bad_alloc&) { return "bad_alloc"; }
  catch (const std::exception&) { return "exception"; }
  catch (...) { return "unknown"; }
}

inline long arg_long(int argc, char** argv, const char* name, long dflt) {
  for (int i = 1; i + 1 < argc; ++i) if (!strcmp(argv[i], name)) return atol(argv[i + 1]);
  return dflt;
}
inline const char* arg_str(int argc, char** argv, const char* name, const char* dflt) {
  for (int i = 1; i + 1 < argc; ++i) if (!strcmp(argv[i], name)) return argv[i + 1];
  return dflt;
}

} // namespace pplv
#endif
