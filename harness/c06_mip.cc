// C06 harness: seeded histories over MIP_Problem objects, every step journalled.
// Grammar of the journal: see lean/Driver/MIP.lean (pplv_mip).
//   c06_mip --seed S --first A --last B [--batch N] [--call-ms T] [--maxdim D]
//   c06_mip --replay FILE      re-executes the op/obs lines of a journal (one history) on the real library
#include "ppl.hh"
#include "common.hh"
#include "poly_io.hh"
#include <memory>
#include <fstream>
#include <set>
#include <sys/time.h>

using namespace Parma_Polyhedra_Library;
using namespace pplv_io;
using pplv::Rng;

static pplv::Journal J(1);

// ---- per-call CPU limit: a virtual-time alarm makes the library abandon the computation -------
struct Call_Timeout {};
struct Abandon : public Throwable {
  void throw_me() const { throw Call_Timeout(); }
  int priority() const { return 0; }
};
static Abandon g_abandon;
static long g_call_ms = 300;
static void on_alarm(int) { abandon_expensive_computations = &g_abandon; }
static void arm() {
  abandon_expensive_computations = 0;
  struct itimerval it; memset(&it, 0, sizeof it);
  it.it_value.tv_sec = g_call_ms / 1000; it.it_value.tv_usec = (g_call_ms % 1000) * 1000;
  setitimer(ITIMER_VIRTUAL, &it, 0);
}
static void disarm() {
  struct itimerval it; memset(&it, 0, sizeof it);
  setitimer(ITIMER_VIRTUAL, &it, 0);
  abandon_expensive_computations = 0;
}

// ---- the data a problem has received so far (what a fresh problem is built from) ---------------
struct Data {
  dimension_type dim;
  std::vector<Constraint> cs;
  std::set<dimension_type> ints;
  Linear_Expression obj;
  Optimization_Mode mode;
  std::vector<bool> boxed;      // variable already has a finite box (generator bookkeeping only)
  Data() : dim(0), mode(MAXIMIZATION) {}
};

struct Slot {
  std::unique_ptr<MIP_Problem> p;
  Data d;
  bool unsat = false;   // generator bookkeeping: an observer said unfeasible (the status is sticky)
  bool live() const { return (bool)p; }
};

static void put_pt(OS& o, const Generator& g, dimension_type n) {
  o << " " << g.divisor();
  for (dimension_type i = 0; i < n; ++i)
    o << " " << (i < g.space_dimension() ? g.coefficient(Variable(i)) : Coefficient(0));
}

static MIP_Problem::Control_Parameter_Value pricing_of(unsigned k) {
  return k == 0 ? MIP_Problem::PRICING_STEEPEST_EDGE_FLOAT
       : k == 1 ? MIP_Problem::PRICING_STEEPEST_EDGE_EXACT : MIP_Problem::PRICING_TEXTBOOK;
}

static long g_ok_calls = 0;
static bool g_last_unsat = false;     // the last observation said "no feasible point"

// One observation of `q` (kind 0 solve, 1 sat, 2 fpoint, 3 opoint, 4 oval); returns false on timeout.
static bool observe_one(const char* tag, int s, const MIP_Problem& q, dimension_type n, int kind) {
  OS o; o << tag << " " << s << " ";
  const char* kn = kind == 0 ? "solve" : kind == 1 ? "sat" : kind == 2 ? "fpoint" : kind == 3 ? "opoint" : "oval";
  o << kn;
  bool timed_out = false;
  g_last_unsat = false;
  arm();
  try {
    switch (kind) {
    case 0: {
      MIP_Problem_Status st = q.solve();
      if (st == UNFEASIBLE_MIP_PROBLEM) { o << " unfeasible"; g_last_unsat = true; }
      else if (st == UNBOUNDED_MIP_PROBLEM) {
        o << " unbounded fp";
        try { const Generator& g = q.feasible_point(); put_pt(o, g, n); }
        catch (const std::domain_error&) { o << " none"; }
      } else {
        Coefficient num, den; q.optimal_value(num, den);
        o << " optimized val " << num << " " << den << " pt";
        try {
          const Generator& g = q.optimizing_point(); put_pt(o, g, n);
          Coefficient en, ed; q.evaluate_objective_function(g, en, ed);
          o << " ev " << en << " " << ed;
        } catch (const std::domain_error&) { o << " none"; }
      }
      break; }
    case 1:
      if (q.is_satisfiable()) {
        o << " 1 fp";   // the witness of the positive answer
        try { const Generator& g = q.feasible_point(); put_pt(o, g, n); }
        catch (const std::domain_error&) { o << " none"; }
      } else { o << " 0"; g_last_unsat = true; }
      break;
    case 2:
      try { const Generator& g = q.feasible_point(); put_pt(o, g, n); }
      catch (const std::domain_error&) { o << " none"; }
      break;
    case 3:
      try { const Generator& g = q.optimizing_point(); put_pt(o, g, n); }
      catch (const std::domain_error&) { o << " none"; }
      break;
    default:
      try { Coefficient num, den; q.optimal_value(num, den); o << " " << num << " " << den; }
      catch (const std::domain_error&) { o << " none"; }
      break;
    }
  } catch (const Call_Timeout&) {
    timed_out = true;
  }
  disarm();
  if (timed_out) {
    OS t; t << tag << " " << s << " " << kn << " timeout"; J.line(t.str());
    return false;
  }
  J.line(o.str());
  ++g_ok_calls;
  if (!q.OK()) { OS k; k << tag << " " << s << " okinv 0"; J.line(k.str()); }
  return true;
}

static void build_fresh(MIP_Problem& f, const Data& d, unsigned pricing) {
  f.set_control_parameter(pricing_of(pricing));
  for (size_t i = 0; i < d.cs.size(); ++i) f.add_constraint(d.cs[i]);
  Variables_Set vs;
  for (std::set<dimension_type>::const_iterator i = d.ints.begin(); i != d.ints.end(); ++i) vs.insert(Variable(*i));
  if (!vs.empty()) f.add_to_integer_space_dimensions(vs);
  f.set_objective_function(d.obj);
  f.set_optimization_mode(d.mode);
}

struct Hist {
  Rng r;
  Slot slot[3];
  dimension_type maxdim;
  bool big;
  bool boxy;         // integer variables get a finite box before they are declared integer
  Hist(uint64_t seed) : r(seed) {}

  int pick_live() { int c[3], k = 0; for (int i = 0; i < 3; ++i) if (slot[i].live()) c[k++] = i; return k ? c[r.below(k)] : -1; }

  // ---- random data ------------------------------------------------------------------------
  Constraint gen_con(const Data& d) {
    dimension_type n = d.dim;
    unsigned k = r.below(100);
    if (n == 0) { long c = r.range(-2, 3); return Linear_Expression(Coefficient(c)) >= 0; }
    if (k < 28) {            // bound on one variable (sign restriction, box side)
      Variable v(r.below(n)); long a = r.chance(1, 3) ? 0 : r.range(-4, 4);
      long m = r.chance(1, 5) ? r.range(2, 3) : 1;
      if (r.chance(1, 2)) return m * v >= a; else return m * v <= a;
    }
    if (k < 40 && !d.cs.empty()) {   // parallel / duplicate / opposite of an existing row: degenerate vertices
      const Constraint& c = d.cs[r.below(d.cs.size())];
      Linear_Expression e; e += 0 * Variable(n - 1);
      for (dimension_type i = 0; i < c.space_dimension(); ++i) e += c.coefficient(Variable(i)) * Variable(i);
      Coefficient b = c.inhomogeneous_term();
      unsigned t = r.below(4);
      if (t == 0) return e + b >= 0;
      if (t == 1) return 2 * e + 2 * b >= 0;
      if (t == 2) return e + b + r.range(-2, 2) >= 0;
      return -e - b + r.range(0, 3) >= 0;
    }
    Linear_Expression e = rnd_expr(r, n, 3, big && r.chance(1, 3));
    if (k < 52) {            // through-the-origin rows give degenerate pivots
      e -= e.inhomogeneous_term();
    }
    unsigned t = r.below(20);
    if (t < 3) return e == 0;
    if (t < 11) return e <= 0;
    return e >= 0;
  }
  Linear_Expression gen_obj(const Data& d) {
    Linear_Expression e;
    if (d.dim > 0) e += 0 * Variable(d.dim - 1);
    for (dimension_type i = 0; i < d.dim; ++i) e += Coefficient(small(r, 4)) * Variable(i);
    if (r.chance(1, 3)) e += r.range(-3, 3);
    if (big && r.chance(1, 4)) e *= Coefficient(1000003) * 998244353;
    return e;
  }

  // ---- mutators (journal first: the call may crash) -------------------------------------------
  void do_add_con(int s, const Constraint& c) {
    Slot& S = slot[s];
    OS o; o << "op " << s << " add_con"; put_con(o, c, S.d.dim); J.line(o.str());
    S.p->add_constraint(c); S.d.cs.push_back(c);
  }
  void do_add_cons(int s, const std::vector<Constraint>& v) {
    Slot& S = slot[s];
    Constraint_System cs;
    for (size_t i = 0; i < v.size(); ++i) cs.insert(v[i]);
    // a Constraint_System may reorder / drop nothing, but journal what the library receives
    OS o; o << "op " << s << " add_cons"; put_cs(o, cs, S.d.dim); J.line(o.str());
    S.p->add_constraints(cs);
    for (Constraint_System::const_iterator i = cs.begin(); i != cs.end(); ++i) S.d.cs.push_back(*i);
  }
  void do_add_dims(int s, dimension_type m) {
    Slot& S = slot[s];
    OS o; o << "op " << s << " add_dims " << m; J.line(o.str());
    S.p->add_space_dimensions_and_embed(m); S.d.dim += m; S.d.boxed.resize(S.d.dim, false);
  }
  void do_box(int s, dimension_type v) {
    Slot& S = slot[s];
    if (S.d.boxed[v]) return;
    long lo = r.range(-4, 1), hi = lo + r.range(0, 5);
    if (r.chance(1, 2)) { do_add_con(s, Variable(v) >= lo); do_add_con(s, Variable(v) <= hi); }
    else { std::vector<Constraint> cv; cv.push_back(Variable(v) >= lo); cv.push_back(Variable(v) <= hi); do_add_cons(s, cv); }
    S.d.boxed[v] = true;
  }
  void do_add_ints(int s, const std::set<dimension_type>& vs) {
    Slot& S = slot[s];
    Variables_Set V;
    OS o; o << "op " << s << " add_ints " << vs.size();
    for (std::set<dimension_type>::const_iterator i = vs.begin(); i != vs.end(); ++i) { o << " " << *i; V.insert(Variable(*i)); }
    J.line(o.str());
    S.p->add_to_integer_space_dimensions(V);
    S.d.ints.insert(vs.begin(), vs.end());
  }
  void do_set_obj(int s, const Linear_Expression& e) {
    Slot& S = slot[s];
    OS o; o << "op " << s << " set_obj"; put_expr(o, e, S.d.dim); J.line(o.str());
    S.p->set_objective_function(e); S.d.obj = e;
  }
  void do_set_mode(int s, bool mx) {
    Slot& S = slot[s];
    OS o; o << "op " << s << " set_mode " << (mx ? "max" : "min"); J.line(o.str());
    S.p->set_optimization_mode(mx ? MAXIMIZATION : MINIMIZATION); S.d.mode = mx ? MAXIMIZATION : MINIMIZATION;
  }
  void do_set_pricing(int s, unsigned k) {
    OS o; o << "op " << s << " set_pricing " << k; J.line(o.str());
    slot[s].p->set_control_parameter(pricing_of(k));
  }
  void do_new(int s, dimension_type n) {
    OS o; o << "new " << s << " " << n; J.line(o.str());
    slot[s].p.reset(new MIP_Problem(n)); slot[s].d = Data(); slot[s].d.dim = n; slot[s].d.boxed.assign(n, false);
    slot[s].unsat = false;
  }
  void do_newc(int s, dimension_type n) {
    Data d; d.dim = n; d.boxed.assign(n, false);
    Constraint_System cs;
    unsigned m = r.below(5);
    { Data e; e.dim = n; for (unsigned i = 0; i < m; ++i) { Constraint c = gen_con(e); cs.insert(c); e.cs.push_back(c); } }
    Linear_Expression obj = gen_obj(d);
    bool mx = r.chance(1, 2);
    // journal exactly the system handed over
    OS o; o << "newc " << s << " " << n << " " << (mx ? "max" : "min"); put_cs(o, cs, n); put_expr(o, obj, n); J.line(o.str());
    slot[s].p.reset(new MIP_Problem(n, cs, obj, mx ? MAXIMIZATION : MINIMIZATION));
    for (Constraint_System::const_iterator i = cs.begin(); i != cs.end(); ++i) d.cs.push_back(*i);
    d.obj = obj; d.mode = mx ? MAXIMIZATION : MINIMIZATION;
    slot[s].d = d;
  }
  void do_copy(int dst, int src) {
    OS o; o << "copy " << dst << " " << src; J.line(o.str());
    if (slot[dst].live() && r.chance(1, 2)) *slot[dst].p = *slot[src].p;
    else slot[dst].p.reset(new MIP_Problem(*slot[src].p));
    slot[dst].d = slot[src].d; slot[dst].unsat = slot[src].unsat;
  }
  void drop(int s) { OS o; o << "drop " << s; J.line(o.str()); slot[s].p.reset(); }

  // ---- observers ----------------------------------------------------------------------------
  // observe slot s with `kind`; then the same question to a fresh problem built from the same data
  void observe(int s, int kind) {
    Slot& S = slot[s];
    bool okc = observe_one("obs", s, *S.p, S.d.dim, kind);
    if (!okc) { drop(s); return; }
    if (g_last_unsat) S.unsat = true;
    MIP_Problem f(S.d.dim);
    build_fresh(f, S.d, r.below(3));
    observe_one("fresh", s, f, S.d.dim, kind);
    // optimizing_point() / optimal_value() run solve() but do not show the status: show it now
    if (kind >= 3) observe(s, 0);
  }
  void observe_some(int s) {
    unsigned k = 1 + r.below(2);
    for (unsigned i = 0; i < k && slot[s].live(); ++i) {
      unsigned t = r.below(10);
      observe(s, t < 5 ? 0 : t < 7 ? 1 : t == 7 ? 2 : t == 8 ? 3 : 4);
    }
  }

  // ---- one random mutator ---------------------------------------------------------------------
  void mutate() {
    int s = pick_live(); if (s < 0) return;
    Slot& S = slot[s];
    // an unfeasible problem stays unfeasible whatever is added: mostly start the slot afresh
    if (S.unsat && r.chance(3, 5)) { do_new(s, 1 + r.below((unsigned)maxdim)); return; }
    unsigned k = r.below(100);
    if (k < 34) { if (S.d.cs.size() < 9) do_add_con(s, gen_con(S.d)); }
    else if (k < 44) {
      if (S.d.cs.size() < 8) { std::vector<Constraint> v; unsigned m = 1 + r.below(3);
        Data tmp = S.d; for (unsigned i = 0; i < m; ++i) { Constraint c = gen_con(tmp); v.push_back(c); tmp.cs.push_back(c); }
        do_add_cons(s, v); } }
    else if (k < 52) { if (S.d.dim < maxdim) do_add_dims(s, 1 + (S.d.dim + 2 <= maxdim && r.chance(1, 4) ? 1 : 0)); }
    else if (k < 66) {
      if (S.d.dim == 0) return;
      std::set<dimension_type> vs; unsigned m = 1 + r.below(S.d.dim);
      for (unsigned i = 0; i < m; ++i) vs.insert(r.below(S.d.dim));
      if (boxy) for (std::set<dimension_type>::const_iterator i = vs.begin(); i != vs.end(); ++i) do_box(s, *i);
      do_add_ints(s, vs); }
    else if (k < 78) do_set_obj(s, gen_obj(S.d));
    else if (k < 86) do_set_mode(s, r.chance(1, 2));
    else if (k < 92) do_set_pricing(s, r.below(3));
    else if (k < 97) { int d = r.below(3); if (d != s) do_copy(d, s); }
    else { if (S.d.dim > 0 && !S.d.boxed[r.below(S.d.dim)]) do_box(s, r.below(S.d.dim)); }
  }

  void random_walk(long len) {
    for (long i = 0; i < len; ++i) {
      mutate();
      if (r.chance(2, 5)) { int s = pick_live(); if (s < 0) return; observe_some(s); }
    }
  }

  // template: box, rows, objective, solve, more rows, (is_satisfiable), integer variables, solve
  void staged(dimension_type n) {
    do_new(0, n);
    do_set_pricing(0, r.below(3));
    for (dimension_type i = 0; i < n; ++i) { long B = r.range(2, 4);
      do_add_con(0, Variable(i) >= -B); do_add_con(0, Variable(i) <= B); slot[0].d.boxed[i] = true; }
    unsigned m = r.below(5);
    std::vector<Constraint> rows; { Data tmp = slot[0].d; for (unsigned i = 0; i < m; ++i) { Constraint c = gen_con(tmp); rows.push_back(c); tmp.cs.push_back(c); } }
    unsigned half = m / 2;
    for (unsigned i = 0; i < half; ++i) do_add_con(0, rows[i]);
    do_set_obj(0, gen_obj(slot[0].d));
    do_set_mode(0, r.chance(1, 2));
    observe(0, r.chance(3, 4) ? 0 : (int)r.below(5));
    if (!slot[0].live()) return;
    for (unsigned i = half; i < m; ++i) do_add_con(0, rows[i]);
    if (r.chance(1, 2)) { observe(0, 1); if (!slot[0].live()) return; }
    std::set<dimension_type> vs;
    if (r.chance(1, 2)) for (dimension_type i = 0; i < n; ++i) vs.insert(i);
    else for (dimension_type i = 0; i < n; ++i) if (r.chance(1, 2)) vs.insert(i);
    if (!vs.empty()) do_add_ints(0, vs);
    observe(0, 0);
  }
};

static void run_history(long h, long seed, long maxdim) {
  // (consecutive splitmix seeds give shifted copies of one stream: scramble the seed first)
  Hist H(Rng((uint64_t)seed * 1000003ull + (uint64_t)h).next() ^ 0x5bd1e995u);
  H.maxdim = (dimension_type)maxdim;
  H.big = H.r.chance(1, 12);
  H.boxy = !H.r.chance(1, 6);
  { OS o; o << "hist " << h << " " << seed; J.line(o.str()); }
  g_ok_calls = 0;
  try {
    unsigned tpl = H.r.below(10);
    dimension_type n = 1 + H.r.below((unsigned)maxdim);
    if (tpl < 3) { H.staged(n); if (H.slot[0].live()) H.random_walk(4); }
    else if (tpl == 3) { H.do_newc(0, n); H.random_walk(8 + H.r.below(6)); }
    else {
      dimension_type n0 = H.r.chance(1, 3) ? H.r.below(n + 1) : n;
      H.do_new(0, n0);
      if (H.r.chance(1, 2)) H.do_set_pricing(0, H.r.below(3));
      H.random_walk(10 + H.r.below(10));
    }
    for (int s = 0; s < 3; ++s) if (H.slot[s].live()) H.observe(s, 0);
  } catch (const Call_Timeout&) {
    disarm();
    J.line("exc timeout-outside-observer");
  } catch (...) {
    disarm();
    J.line("exc " + pplv::exc_class() + " mutator");
  }
  { OS o; o << "end " << g_ok_calls; J.line(o.str()); }
}

// ---- replay: re-execute the new/op/copy/obs lines of one history -----------------------------------
static Constraint parse_con(std::istringstream& in, dimension_type n) {
  std::string rel; in >> rel; Coefficient k; in >> k;
  Linear_Expression e; if (n > 0) e += 0 * Variable(n - 1);
  for (dimension_type i = 0; i < n; ++i) { Coefficient a; in >> a; e += a * Variable(i); }
  e += k;
  if (rel == "=") return e == 0;
  return e >= 0;
}
static Linear_Expression parse_expr(std::istringstream& in, dimension_type n) {
  Coefficient k; in >> k; Linear_Expression e; if (n > 0) e += 0 * Variable(n - 1);
  for (dimension_type i = 0; i < n; ++i) { Coefficient a; in >> a; e += a * Variable(i); }
  e += k; return e;
}
static int replay(const char* path) {
  std::ifstream f(path); std::string line;
  Slot slot[3];
  while (std::getline(f, line)) {
    std::istringstream in(line); std::string w; in >> w;
    if (w == "hist") { J.line(line); continue; }
    if (w == "new") { int s; dimension_type n; in >> s >> n; J.line(line);
      slot[s].p.reset(new MIP_Problem(n)); slot[s].d = Data(); slot[s].d.dim = n; continue; }
    if (w == "newc") { int s; dimension_type n; std::string mode; in >> s >> n >> mode; J.line(line);
      size_t m; in >> m; Constraint_System cs; Data d; d.dim = n;
      for (size_t i = 0; i < m; ++i) { Constraint c = parse_con(in, n); cs.insert(c); }
      Linear_Expression obj = parse_expr(in, n);
      slot[s].p.reset(new MIP_Problem(n, cs, obj, mode == "max" ? MAXIMIZATION : MINIMIZATION));
      for (Constraint_System::const_iterator i = cs.begin(); i != cs.end(); ++i) d.cs.push_back(*i);
      d.obj = obj; d.mode = mode == "max" ? MAXIMIZATION : MINIMIZATION; slot[s].d = d; continue; }
    if (w == "copy") { int d, s; in >> d >> s; J.line(line); slot[d].p.reset(new MIP_Problem(*slot[s].p)); slot[d].d = slot[s].d; continue; }
    if (w == "drop") { int s; in >> s; J.line(line); slot[s].p.reset(); continue; }
    if (w == "op") {
      int s; std::string name; in >> s >> name; J.line(line);
      Slot& S = slot[s]; if (!S.live()) continue;
      if (name == "add_con") { Constraint c = parse_con(in, S.d.dim); S.p->add_constraint(c); S.d.cs.push_back(c); }
      else if (name == "add_cons") { size_t m; in >> m; Constraint_System cs;
        for (size_t i = 0; i < m; ++i) cs.insert(parse_con(in, S.d.dim));
        S.p->add_constraints(cs); for (Constraint_System::const_iterator i = cs.begin(); i != cs.end(); ++i) S.d.cs.push_back(*i); }
      else if (name == "add_dims") { dimension_type m; in >> m; S.p->add_space_dimensions_and_embed(m); S.d.dim += m; }
      else if (name == "add_ints") { size_t k; in >> k; Variables_Set V; for (size_t i = 0; i < k; ++i) { dimension_type v; in >> v; V.insert(Variable(v)); S.d.ints.insert(v); }
        S.p->add_to_integer_space_dimensions(V); }
      else if (name == "set_obj") { Linear_Expression e = parse_expr(in, S.d.dim); S.p->set_objective_function(e); S.d.obj = e; }
      else if (name == "set_mode") { std::string m; in >> m; S.d.mode = m == "max" ? MAXIMIZATION : MINIMIZATION; S.p->set_optimization_mode(S.d.mode); }
      else if (name == "set_pricing") { unsigned k; in >> k; S.p->set_control_parameter(pricing_of(k)); }
      continue;
    }
    if (w == "obs") {
      int s; std::string kind; in >> s >> kind;
      if (kind == "okinv" || !slot[s].live()) continue;
      int k = kind == "solve" ? 0 : kind == "sat" ? 1 : kind == "fpoint" ? 2 : kind == "opoint" ? 3 : 4;
      if (!observe_one("obs", s, *slot[s].p, slot[s].d.dim, k)) { slot[s].p.reset(); J.line("drop " + std::to_string(s)); continue; }
      MIP_Problem fr(slot[s].d.dim); build_fresh(fr, slot[s].d, 1);
      observe_one("fresh", s, fr, slot[s].d.dim, k);
      continue;
    }
  }
  J.line("end 0");
  return 0;
}

int main(int argc, char** argv) {
  long seed = pplv::arg_long(argc, argv, "--seed", 1);
  long first = pplv::arg_long(argc, argv, "--first", 0);
  long last = pplv::arg_long(argc, argv, "--last", 10);
  long maxdim = pplv::arg_long(argc, argv, "--maxdim", 4);
  long batch = pplv::arg_long(argc, argv, "--batch", 20);
  g_call_ms = pplv::arg_long(argc, argv, "--call-ms", 300);
  const char* rp = pplv::arg_str(argc, argv, "--replay", "");
  struct sigaction sa; memset(&sa, 0, sizeof sa); sa.sa_handler = on_alarm; sigaction(SIGVTALRM, &sa, 0);
  if (*rp) {
    return pplv::run_batches(0, 1, [&](long) { replay(rp); }, 60);
  }
  long nb = (last - first + batch - 1) / batch;
  return pplv::run_batches(0, nb, [&](long b) {
    for (long h = first + b * batch; h < std::min(last, first + (b + 1) * batch); ++h) run_history(h, seed, maxdim);
  }, 120);
}
