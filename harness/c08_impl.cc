// C08 stage 2 harness (polyhedra): the REAL `Polyhedron::H79_widening_assign` / `BHRZ03_widening_assign`
// with their private helpers, journalled step by step along adversarial ascending chains and on
// direct pairs y <= x.
//
//   c08_impl --seed S --first A --last B [--batch K] [--limit L]
//
// For every widening step (`#define private public` around ppl.hh only; nothing is rebuilt):
//   * the state of x and y as the function sees them (raw rows of con_sys / gen_sys, status flags);
//   * the function's own preamble replayed on copies with the same private calls in the same order
//     (y.minimize() resp. yy.intersection_assign(x) + is_empty(); process_pending_generators() /
//     update_constraints()), and then the REAL private `select_CH78_constraints` /
//     `select_H79_constraints` on those copies: selected / not selected rows, y's con_sys, gen_sys, sat_g;
//   * BHRZ03: y.minimize(), x.minimize(), y_cert.is_stabilizing(x), y.contains(x), H79, and the REAL
//     private techniques BHRZ03_combining_constraints / evolving_points / evolving_rays in order on copies;
//   * the real public call on fresh copies (with and without tokens): the result and `*tp`.
// Journal grammar: lean/Driver/WidenImpl.lean.
#include <cstdio>
#include <cstdlib>
#include <cstring>
#include <string>
#include <sstream>
#include <vector>
#include <algorithm>
#include <gmpxx.h>
#define private public
#define protected public
#include "ppl.hh"
#undef private
#undef protected
#include "common.hh"
#include "poly_io.hh"

using namespace Parma_Polyhedra_Library;
using namespace pplv_io;
using pplv::Rng;
static pplv::Journal J(1);
static long g_limit = 12;
static void jl(const std::string& s) { J.line(s); }

// ---- raw rows
template <typename Sys>
static void put_rows(OS& o, const Sys& s, dimension_type ncols) {
  o << " " << s.sys.rows.size();
  for (dimension_type i = 0; i < s.sys.rows.size(); ++i) {
    o << " " << (s.sys.rows[i].is_line_or_equality() ? 1 : 0);
    for (dimension_type c = 0; c < ncols; ++c) o << " " << s.sys.rows[i].expr.get(c);
  }
}
static void put_sat(OS& o, const Bit_Matrix& m, dimension_type ncols) {
  o << " " << m.num_rows() << " " << ncols;
  for (dimension_type i = 0; i < m.num_rows(); ++i) {
    o << " ";
    if (ncols == 0) o << "-";
    for (dimension_type j = 0; j < ncols; ++j) o << (m[i][j] ? '1' : '0');
  }
}
static dimension_type ncols_of(const Polyhedron& p) { return p.space_dim + 1 + (p.is_necessarily_closed() ? 0 : 1); }

// the state of a polyhedron: flags and the systems that are up to date
static std::string state_line(const char* tag, const Polyhedron& p) {
  OS o; dimension_type nc = ncols_of(p);
  o << tag << " me=" << (p.marked_empty() ? 1 : 0) << " pg=" << (p.has_pending_generators() ? 1 : 0)
    << " pc=" << (p.has_pending_constraints() ? 1 : 0)
    << " cu=" << (p.constraints_are_up_to_date() ? 1 : 0) << " gu=" << (p.generators_are_up_to_date() ? 1 : 0)
    << " cm=" << (p.constraints_are_minimized() ? 1 : 0) << " gm=" << (p.generators_are_minimized() ? 1 : 0);
  o << " cs";
  if (!p.marked_empty() && p.constraints_are_up_to_date()) put_rows(o, p.con_sys, nc); else o << " 0";
  o << " gs";
  if (!p.marked_empty() && p.generators_are_up_to_date()) put_rows(o, p.gen_sys, nc); else o << " 0";
  return o.str();
}
static std::string ymin_line(const char* tag, const Polyhedron& y) {
  OS o; dimension_type nc = ncols_of(y);
  o << tag << " cs"; put_rows(o, y.con_sys, nc);
  o << " gs"; put_rows(o, y.gen_sys, nc);
  o << " sat";
  if (y.sat_g_is_up_to_date()) put_sat(o, y.sat_g, y.gen_sys.num_rows()); else o << " 0 0";
  return o.str();
}
static std::string rows_line(const char* tag, const Constraint_System& cs, dimension_type nc) {
  OS o; o << tag; put_rows(o, cs, nc); return o.str();
}
// the set, in the K1 encoding (constraints() of a copy), and the certificate data (minimized systems of a copy)
template <class PH> static std::string set_line(const char* tag, const PH& p, dimension_type n) {
  PH c(p); OS o; o << tag;
  if (c.is_empty()) { o << " empty"; return o.str(); }
  put_cs(o, c.constraints(), n); return o.str();
}
template <class PH> static std::string cert_line(const char* tag, const PH& p, dimension_type n) {
  PH c(p); OS o; o << tag;
  if (c.is_empty()) { o << " empty"; return o.str(); }
  put_cs(o, c.minimized_constraints(), n); o << " |"; put_gs(o, c.minimized_generators(), n);
  return o.str();
}

// the members of a REAL certificate object (computed in place by the library on the very object)
static std::string bc_line(const char* tag, const BHRZ03_Certificate& c) {
  OS o; o << tag << " " << c.affine_dim << " " << c.lin_space_dim << " " << c.num_constraints << " " << c.num_points
          << " " << c.num_rays_null_coord.size();
  for (size_t i = 0; i < c.num_rays_null_coord.size(); ++i) o << " " << c.num_rays_null_coord[i];
  return o.str();
}

// ---- H79
template <class PH> static void h79_step(long id, const PH& x0, const PH& y0, dimension_type n) {
  const Topology topol = x0.topology();
  const dimension_type nc = ncols_of(x0);
  { OS o; o << "h79 " << id << " nnc=" << (x0.is_necessarily_closed() ? 0 : 1) << " n=" << n; jl(o.str()); }
  jl(set_line("XK", x0, n)); jl(set_line("YK", y0, n));
  jl(state_line("X0", x0)); jl(state_line("Y0", y0));
  // ---- the function's preamble on copies
  PH xa(x0), ya(y0);
  bool reached_select = false;
  try {
    if (!(n == 0 || xa.marked_empty() || ya.marked_empty())) {
      bool y_nonempty;
      if (ya.is_necessarily_closed()) y_nonempty = ya.minimize();
      else { ya.intersection_assign(xa); y_nonempty = !ya.is_empty(); }
      jl(state_line("X", xa));                          // x at the CH78 test
      if (!y_nonempty) jl("YA none");
      else {
        jl(ymin_line("YA", ya));
        bool done = false;
        if (xa.has_pending_generators() || !xa.constraints_are_up_to_date()) {
          Constraint_System ch(topol);
          xa.select_CH78_constraints(ya, ch);
          jl(rows_line("CH", ch, nc));
          if (ch.num_rows() == ya.con_sys.num_rows()) done = true;
          else if (ch.num_equalities() == ya.con_sys.num_equalities()) done = true;
        }
        if (!done) {
          if (xa.has_pending_generators()) xa.process_pending_generators();
          else if (!xa.constraints_are_up_to_date()) xa.update_constraints();
          jl(rows_line("XU", xa.con_sys, nc));
          Constraint_System sel(topol), nsel(topol);
          xa.select_H79_constraints(ya, sel, nsel);
          jl(ymin_line("YS", ya));
          jl(rows_line("SEL", sel, nc)); jl(rows_line("NSEL", nsel, nc));
          reached_select = true;
        }
      }
    } else jl("TRIVIAL");
  } catch (...) { jl("exc " + pplv::exc_class() + " preamble"); }
  // ---- the real calls: no token, tokens 1 (and 2)
  for (int tp0 = -1; tp0 <= 1; ++tp0) {
    if (tp0 == 0) continue;
    try {
      PH xr(x0), yr(y0); unsigned tp = (unsigned)std::max(tp0, 0);
      { OS o; o << "run h79 tp=" << tp0; jl(o.str()); }
      xr.H79_widening_assign(yr, tp0 < 0 ? nullptr : &tp);
      OS o; o << "R tp0=" << tp0 << " tp=" << (tp0 < 0 ? -1 : (long)tp);
      o << " raw";
      if (!xr.marked_empty() && xr.constraints_are_up_to_date()) put_rows(o, xr.con_sys, nc); else o << " 0";
      jl(o.str());
      jl(set_line("RK", xr, n));
      if (tp0 < 0) { jl(cert_line("CY", y0, n)); jl(cert_line("CR", xr, n)); jl(set_line("YAK", yr, n)); }
    } catch (...) { jl("exc " + pplv::exc_class() + " call"); }
  }
  (void)reached_select;
  jl("endstep");
}

// ---- BHRZ03
template <class PH> static void bhrz_step(long id, const PH& x0, const PH& y0, dimension_type n) {
  const Topology topol = x0.topology();
  const dimension_type nc = ncols_of(x0);
  { OS o; o << "bhrz " << id << " nnc=" << (x0.is_necessarily_closed() ? 0 : 1) << " n=" << n; jl(o.str()); }
  jl(set_line("XK", x0, n)); jl(set_line("YK", y0, n));
  jl(state_line("X0", x0)); jl(state_line("Y0", y0));
  PH xa(x0), ya(y0);
  try {
    if (!(n == 0 || xa.marked_empty() || ya.marked_empty())) {
      if (!ya.minimize()) jl("YA none");
      else {
        xa.minimize();
        jl(ymin_line("YA", ya)); jl(state_line("X", xa));
        jl(cert_line("CYA", ya, n)); jl(cert_line("CXA", xa, n));
        const BHRZ03_Certificate y_cert(ya);
        jl(bc_line("BCY", y_cert));
        // (what `y_cert.compare(x)` computes for x is not observable: it reads the rays after one more
        //  minimize() than the constructor does, and BHRZ03_Certificate is not a function of the point set,
        //  KF-C08-5/6/9/10; the driver recomputes it from the CXA line and reports a disagreement as `precheck`)
        bool stab = y_cert.is_stabilizing(xa);
        bool ycx = ya.contains(xa);
        { OS o; o << "PRE stab=" << (stab ? 1 : 0) << " ycx=" << (ycx ? 1 : 0); jl(o.str()); }
        if (!(stab || ycx)) {
          Constraint_System sel(topol), nsel(topol);
          jl(rows_line("XU", xa.con_sys, nc));           // (the certificate / containment tests may have re-sorted the rows)
          xa.select_H79_constraints(ya, sel, nsel);
          jl(ymin_line("YS", ya));
          jl(rows_line("SEL", sel, nc)); jl(rows_line("NSEL", nsel, nc));
          PH H79(n, UNIVERSE);
          { Constraint_System sc(sel); H79.add_recycled_constraints(sc); }
          H79.minimize();
          jl(rows_line("H79", H79.con_sys, nc)); jl(set_line("HK", H79, n)); jl(cert_line("CH79", H79, n));
          { PH hc(H79); const BHRZ03_Certificate h_cert(hc); jl(bc_line("BCH", h_cert)); }
          int tech = 4;
          PH res(H79);
          std::string bct;      // the certificate of the accepted candidate, computed on the very object the technique left
          { PH x1(xa); if (x1.BHRZ03_combining_constraints(ya, y_cert, H79, nsel)) { tech = 1; { const BHRZ03_Certificate t(x1); bct = bc_line("BCT", t); } res = x1; } }
          if (tech == 4) { PH x2(xa); if (x2.BHRZ03_evolving_points(ya, y_cert, H79)) { tech = 2; { const BHRZ03_Certificate t(x2); bct = bc_line("BCT", t); } res = x2; } }
          if (tech == 4) { PH x3(xa); if (x3.BHRZ03_evolving_rays(ya, y_cert, H79)) { tech = 3; { const BHRZ03_Certificate t(x3); bct = bc_line("BCT", t); } res = x3; } }
          { OS o; o << "TECH " << tech; jl(o.str()); }
          jl(set_line("TK", res, n)); jl(cert_line("CT", res, n));
          if (!bct.empty()) jl(bct);
        }
      }
    } else jl("TRIVIAL");
  } catch (...) { jl("exc " + pplv::exc_class() + " preamble"); }
  for (int tp0 = -1; tp0 <= 1; ++tp0) {
    if (tp0 == 0) continue;
    try {
      PH xr(x0), yr(y0); unsigned tp = (unsigned)std::max(tp0, 0);
      { OS o; o << "run bhrz tp=" << tp0; jl(o.str()); }
      xr.BHRZ03_widening_assign(yr, tp0 < 0 ? nullptr : &tp);
      OS o; o << "R tp0=" << tp0 << " tp=" << (tp0 < 0 ? -1 : (long)tp) << " raw 0"; jl(o.str());
      jl(set_line("RK", xr, n));
      if (tp0 < 0) {
        jl(cert_line("CY", y0, n)); jl(cert_line("CR", xr, n)); jl(set_line("YAK", yr, n));
        if (!xr.is_empty() && !yr.is_empty()) {     // the certificates as the library computes them on the objects of the call
          const BHRZ03_Certificate ry(yr); jl(bc_line("BRY", ry));
          const BHRZ03_Certificate rr(xr); jl(bc_line("BRR", rr));
        }
      }
    } catch (...) { jl("exc " + pplv::exc_class() + " call"); }
  }
  jl("endstep");
}

// ---- generators of pairs y <= x
static Linear_Expression dimfix(dimension_type n) { Linear_Expression e; if (n > 0) e += 0 * Variable(n - 1); return e; }
static Generator_System rnd_small_gs(Rng& r, dimension_type n, int richness) {
  Generator_System gs;
  unsigned np = 1 + r.below(richness >= 2 ? 3 : 2);
  for (unsigned k = 0; k < np; ++k) {
    Linear_Expression e = dimfix(n);
    for (dimension_type i = 0; i < n; ++i) e += Coefficient(r.range(-3, 3)) * Variable(i);
    gs.insert(point(e, r.chance(1, 4) ? 2 : 1));
  }
  if (richness >= 1 && r.chance(1, 3)) {
    Linear_Expression e = dimfix(n); bool nz = false;
    for (dimension_type i = 0; i < n; ++i) { long c = r.range(-1, 1); if (c) nz = true; e += Coefficient(c) * Variable(i); }
    if (nz) { if (r.chance(1, 5)) gs.insert(line(e)); else gs.insert(ray(e)); }
  }
  return gs;
}
static Generator rnd_near_point(Rng& r, dimension_type n, const Generator_System& gs, int attempt) {
  std::vector<Generator> pts;
  for (Generator_System::const_iterator i = gs.begin(); i != gs.end(); ++i) if (i->is_point()) pts.push_back(*i);
  Linear_Expression e = dimfix(n); Coefficient d = 1;
  if (!pts.empty() && attempt < 8) {
    const Generator& p = pts[r.below((unsigned)pts.size())];
    long step = 1 + attempt / 3;
    for (dimension_type i = 0; i < n; ++i) {
      Coefficient q = p.coefficient(Variable(i)) / p.divisor();
      e += (q + Coefficient(r.range(-step, step))) * Variable(i);
    }
  } else {
    long b = 4 + 2 * attempt;
    for (dimension_type i = 0; i < n; ++i) e += Coefficient(r.range(-b, b)) * Variable(i);
    d = r.chance(1, 4) ? 2 : 1;
  }
  return point(e, d);
}
// a different representation of the same polyhedron (what is up to date / minimized / pending varies)
template <class PH> static PH rehist(Rng& r, const PH& x, dimension_type n) {
  PH c(x);
  switch (r.below(9)) {
    case 0: return c;
    case 1: { PH p(n, UNIVERSE); p.add_constraints(c.constraints()); return p; }
    case 2: { PH p(n, UNIVERSE); p.add_constraints(c.minimized_constraints()); return p; }
    case 3: { if (c.is_empty()) return c; return PH(c.generators()); }
    case 4: { if (c.is_empty()) return c; return PH(c.minimized_generators()); }
    case 5: { (void)c.minimized_generators(); (void)c.minimized_constraints(); return c; }
    case 6: { // redundant constraint + pending
      PH p(n, UNIVERSE); p.add_constraints(c.constraints());
      std::vector<Constraint> v; const Constraint_System& cs = c.constraints();
      for (Constraint_System::const_iterator i = cs.begin(); i != cs.end(); ++i) if (i->is_nonstrict_inequality()) v.push_back(*i);
      if (v.size() >= 2) { Linear_Expression e = Linear_Expression(v[0].expression()) + Linear_Expression(v[v.size() - 1].expression()); e += 1; p.add_constraint(e >= 0); }
      return p; }
    case 7: { if (c.is_empty()) return c; (void)c.minimized_constraints(); // constraints minimized, then a pending generator already inside
      const Generator_System& gs = c.generators(); for (Generator_System::const_iterator i = gs.begin(); i != gs.end(); ++i) if (i->is_point()) { c.add_generator(*i); break; }
      return c; }
    default: { c.add_space_dimensions_and_embed(1); c.remove_higher_space_dimensions(n); return c; }
  }
}
template <class PH> static PH make_nnc_variant(Rng& r, const PH& x) { return x; }
template <> NNC_Polyhedron make_nnc_variant<NNC_Polyhedron>(Rng& r, const NNC_Polyhedron& x) {
  if (!r.chance(1, 2)) return x;
  NNC_Polyhedron c(x);
  std::vector<Constraint> ineq; const Constraint_System& cs = c.constraints();
  for (Constraint_System::const_iterator i = cs.begin(); i != cs.end(); ++i) if (i->is_nonstrict_inequality()) ineq.push_back(*i);
  if (ineq.empty()) return x;
  const Constraint& k = ineq[r.below((unsigned)ineq.size())];
  Linear_Expression e(k.expression());
  NNC_Polyhedron x1(x); x1.add_constraint(e > 0);
  if (x1.is_empty()) return x;
  return x1;
}

template <class PH> static void run_chain(long h, Rng& r, dimension_type n, bool bhrz) {
  PH x(n, EMPTY);
  try { x = PH(rnd_small_gs(r, n, r.below(3))); x = make_nnc_variant(r, x); }
  catch (...) { jl("exc " + pplv::exc_class() + " start"); return; }
  for (long step = 0; step < g_limit; ++step) {
    try {
      PH piece(n, EMPTY); bool found = false;
      for (int attempt = 0; attempt < 14 && !found; ++attempt) {
        Generator_System pg; { PH c(x); pg.insert(rnd_near_point(r, n, c.generators(), attempt)); }
        if (r.chance(1, 6)) { PH c(x); pg.insert(rnd_near_point(r, n, c.generators(), attempt)); }
        if (r.chance(1, 10)) {
          Linear_Expression e = dimfix(n); bool nz = false;
          for (dimension_type i = 0; i < n; ++i) { long c = r.range(-1, 1); if (c) nz = true; e += Coefficient(c) * Variable(i); }
          if (nz) pg.insert(ray(e));
        }
        piece = PH(pg);
        if (!x.contains(piece)) found = true;
      }
      if (!found) break;
      PH z(x);
      if (r.chance(1, 2)) { z.upper_bound_assign(piece); if (r.chance(2, 3)) z = rehist(r, z, n); }
      else { PH p1 = rehist(r, piece, n); PH x1 = rehist(r, x, n); z = p1; z.upper_bound_assign(x1); }
      PH y = rehist(r, x, n);
      long id = h * 100 + step;
      if (bhrz) bhrz_step(id, z, y, n); else h79_step(id, z, y, n);
      PH res(z), yy(x);
      if (bhrz) res.BHRZ03_widening_assign(yy); else res.H79_widening_assign(yy);
      bool stationary = x.contains(res);
      x = res;
      if (stationary) break;
    } catch (...) { jl("exc " + pplv::exc_class() + " chain"); break; }
  }
}
// direct pairs: y = x cut by random constraints (same or lower dimension), x rich in constraints
template <class PH> static void run_pair(long h, Rng& r, dimension_type n, bool bhrz) {
  try {
    PH x(n, UNIVERSE);
    x.add_constraints(rnd_cs(r, n, !x.is_necessarily_closed() && r.chance(1, 2), 2 + r.below(4), false));
    if (r.chance(1, 2)) { PH b(n, UNIVERSE); long k = r.range(2, 5); for (dimension_type i = 0; i < n; ++i) { b.add_constraint(Variable(i) <= k); b.add_constraint(Variable(i) >= -k); } x.intersection_assign(b); }
    if (x.is_empty()) return;
    PH y(x);
    y.add_constraints(rnd_cs(r, n, false, 1 + r.below(3), false));
    if (r.chance(1, 4)) { Constraint c = rnd_con(r, n, false, false); Linear_Expression e(c.expression()); y.add_constraint(e == 0); }
    if (y.is_empty()) return;
    PH z = rehist(r, x, n), y2 = rehist(r, y, n);
    if (bhrz) bhrz_step(h * 100, z, y2, n); else h79_step(h * 100, z, y2, n);
  } catch (...) { jl("exc " + pplv::exc_class() + " pair"); }
}

int main(int argc, char** argv) {
  long seed = pplv::arg_long(argc, argv, "--seed", 1);
  long first = pplv::arg_long(argc, argv, "--first", 0);
  long last = pplv::arg_long(argc, argv, "--last", 40);
  long batch = pplv::arg_long(argc, argv, "--batch", 8);
  g_limit = pplv::arg_long(argc, argv, "--limit", 12);
  long nb = (last - first + batch - 1) / batch;
  return pplv::run_batches(0, nb, [&](long b) {
    for (long h = first + b * batch; h < std::min(last, first + (b + 1) * batch); ++h) {
      Rng r((uint64_t)seed * 1000003ull + (uint64_t)h * 7919ull + 17ull);
      dimension_type n = 1 + r.below(3);
      unsigned which = (unsigned)(h % 8);
      { OS o; o << "hist " << h << " kind=" << which << " n=" << n; jl(o.str()); }
      switch (which) {
        case 0: run_chain<C_Polyhedron>(h, r, n, false); break;
        case 1: run_chain<NNC_Polyhedron>(h, r, n, false); break;
        case 2: run_chain<C_Polyhedron>(h, r, n, true); break;
        case 3: run_chain<NNC_Polyhedron>(h, r, n, true); break;
        case 4: run_pair<C_Polyhedron>(h, r, n, false); break;
        case 5: run_pair<NNC_Polyhedron>(h, r, n, false); break;
        case 6: run_pair<C_Polyhedron>(h, r, n, true); break;
        default: run_pair<NNC_Polyhedron>(h, r, n, true); break;
      }
    }
  }, 120);
}
