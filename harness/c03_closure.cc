// C03 — correspondence harness for the closure kernels and deduction helpers of BD_Shape<T> and
// Octagonal_Shape<T> (the M-code models of lean/PPLV/WR/Closure.lean, driver pplv_wrc).
//
//   g++ -O1 -w -std=gnu++17 -I/repo/src -I/verif/harness c03_closure.cc -o c03_closure \
//       -L/repo/src/.libs -lppl -lgmpxx -lgmp
//   LD_LIBRARY_PATH=/repo/src/.libs ./c03_closure --seed 1 --first 0 --last 20 \
//       | /verif/lean/.lake/build/bin/pplv_wrc
//
// The kernels are private members; the harness reads and writes `dbm` / `matrix` directly and calls
// the kernels themselves, so that the matrix before and after each call is observed exactly
// (`#define private public` around ppl.hh only — layout is unchanged, nothing in libppl is rebuilt).
// Half of the closure cases build the shape through the public interface instead
// (`BD_Shape<T>(cs)` / `Octagonal_Shape<T>(cs)`, closure triggered by `is_empty()`).
//
// Journal, one event per line (see lean/Driver/WRC.lean):
//   <id> <kind> <mode> <n> <before> <after|E>
#include <cstdio>
#include <cstdlib>
#include <cstring>
#include <cstdint>
#include <string>
#include <sstream>
#include <iostream>
#include <vector>
#include <map>
#include <set>
#include <list>
#include <deque>
#include <algorithm>
#include <limits>
#include <stdexcept>
#include <gmpxx.h>
#define private public
#define protected public
#include "ppl.hh"
#undef private
#undef protected
#include "common.hh"

using namespace Parma_Polyhedra_Library;
using namespace Parma_Polyhedra_Library::IO_Operators;

template <typename T> struct Ty;
template <> struct Ty<mpq_class> { static const char* mode() { return "id"; } static const bool integer = false; static const long big = 0; };
template <> struct Ty<mpz_class> { static const char* mode() { return "ceil"; } static const bool integer = true; static const long big = 0; };
template <> struct Ty<int8_t> { static const char* mode() { return "range:-126:126"; } static const bool integer = true; static const long big = 126; };

template <typename N> std::string show(const N& x) { std::ostringstream s; s << x; return s.str(); }

template <typename T> std::string dump(const BD_Shape<T>& bd) {
  std::string r; dimension_type rows = bd.space_dimension() + 1;
  for (dimension_type i = 0; i < rows; ++i) {
    if (i) r += ";";
    for (dimension_type j = 0; j < rows; ++j) { if (j) r += ","; r += show(bd.dbm[i][j]); }
  }
  return r;
}
template <typename T> std::string dump(const Octagonal_Shape<T>& oc) {
  std::string r; bool first = true;
  for (typename OR_Matrix<typename Octagonal_Shape<T>::N>::const_row_iterator i = oc.matrix.row_begin(),
         e = oc.matrix.row_end(); i != e; ++i) {
    if (!first) r += ";"; first = false;
    typename OR_Matrix<typename Octagonal_Shape<T>::N>::const_row_reference_type row = *i;
    for (dimension_type j = 0, rs = i.row_size(); j < rs; ++j) { if (j) r += ","; r += show(row[j]); }
  }
  return r;
}

// a random finite bound: small integers, for mpq also fractions, for bounded T values near the range
template <typename T, typename N> void rnd_bound(pplv::Rng& g, N& x, bool nonneg_bias) {
  long num = g.range(nonneg_bias ? -2 : -6, 9), den = 1;
  if (!Ty<T>::integer && g.chance(1, 3)) den = g.range(2, 4);
  if (Ty<T>::big && g.chance(1, 4)) num = g.chance(1, 2) ? g.range(Ty<T>::big - 30, Ty<T>::big) : -g.range(Ty<T>::big - 30, Ty<T>::big);
  mpq_class q(num, den); q.canonicalize();
  assign_r(x, q, ROUND_UP);
}

template <typename T> void fill(pplv::Rng& g, BD_Shape<T>& bd, unsigned dens, bool unary_finite) {
  dimension_type rows = bd.space_dimension() + 1;
  bool bias = g.chance(2, 3);
  for (dimension_type i = 0; i < rows; ++i)
    for (dimension_type j = 0; j < rows; ++j) {
      if (i == j) continue;
      bool unary = (i == 0 || j == 0);
      if ((unary && unary_finite) || g.below(100) < dens) rnd_bound<T>(g, bd.dbm[i][j], bias);
    }
  bd.reset_shortest_path_closed();
}
template <typename T> void fill(pplv::Rng& g, Octagonal_Shape<T>& oc, unsigned dens, bool unary_finite) {
  bool bias = g.chance(2, 3);
  typedef typename OR_Matrix<typename Octagonal_Shape<T>::N>::row_iterator RI;
  for (RI i = oc.matrix.row_begin(), e = oc.matrix.row_end(); i != e; ++i) {
    typename OR_Matrix<typename Octagonal_Shape<T>::N>::row_reference_type row = *i;
    dimension_type ii = i.index();
    for (dimension_type j = 0, rs = i.row_size(); j < rs; ++j) {
      if (ii == j) continue;
      bool unary = (j == (ii ^ 1u));
      if ((unary && unary_finite) || g.below(100) < dens) rnd_bound<T>(g, row[j], bias);
    }
  }
  oc.reset_strongly_closed();
}

// a random system of bounded-difference (octagonal) constraints, coefficients ±1
template <typename T> Constraint_System rnd_cs(pplv::Rng& g, dimension_type n, bool oct) {
  Constraint_System cs;
  cs.insert(Linear_Expression(Variable(n - 1)) * 0 <= 1);     // fix the space dimension
  unsigned k = 1 + g.below(2 * n + 2);
  for (unsigned t = 0; t < k; ++t) {
    dimension_type a = g.below(n), b = g.below(n);
    long rhs = g.range(-3, 8);
    if (Ty<T>::big && g.chance(1, 4)) rhs = g.range(Ty<T>::big - 20, Ty<T>::big);
    int sa = g.chance(1, 2) ? 1 : -1, sb = g.chance(1, 2) ? 1 : -1;
    Linear_Expression e;
    if (a == b || g.chance(1, 3)) e = sa * Variable(a);
    else if (oct) e = sa * Variable(a) + sb * Variable(b);
    else e = sa * Variable(a) - sa * Variable(b);
    if (g.chance(1, 8)) cs.insert(e == rhs); else cs.insert(e <= rhs);
  }
  return cs;
}

static std::string coeffs(const std::vector<long>& e) {
  std::string r; for (size_t i = 0; i < e.size(); ++i) { if (i) r += ","; r += std::to_string(e[i]); } return r;
}

template <typename T> typename std::enable_if<Ty<T>::integer>::type
tight(pplv::Rng& g, std::ostringstream& L, const std::string& id, const std::string& mode, dimension_type n, unsigned dens) {
  Octagonal_Shape<T> oc(n, UNIVERSE); fill(g, oc, dens, false);
  std::string b = dump(oc); oc.tight_closure_assign();
  L << id << " otight " << mode << " " << n << " " << b << " " << (oc.marked_empty() ? "E" : dump(oc));
}
template <typename T> typename std::enable_if<!Ty<T>::integer>::type
tight(pplv::Rng&, std::ostringstream&, const std::string&, const std::string&, dimension_type, unsigned) {}

template <typename T> void run_T(pplv::Rng& g, pplv::Journal& J, const std::string& idp, int per) {
  typedef typename BD_Shape<T>::N NB;
  typedef typename Octagonal_Shape<T>::N NO;
  const std::string mode = Ty<T>::mode();
  for (int c = 0; c < per; ++c) {
    dimension_type n = 1 + g.below(4);
    unsigned dens = 15 + g.below(60);
    std::string id = idp + "." + std::to_string(c);
    unsigned what = g.below(Ty<T>::integer ? 10 : 9);
    std::ostringstream L;
    try {
      switch (what) {
      case 0: {  // shortest_path_closure_assign on a directly written matrix
        BD_Shape<T> bd(n, UNIVERSE); fill(g, bd, dens, false);
        std::string b = dump(bd); bd.shortest_path_closure_assign();
        L << id << " bds " << mode << " " << n << " " << b << " " << (bd.marked_empty() ? "E" : dump(bd));
        break; }
      case 1: {  // through the public interface
        Constraint_System cs = rnd_cs<T>(g, n, false);
        BD_Shape<T> bd(cs);
        if (bd.marked_empty() || bd.marked_shortest_path_closed()) continue;
        std::string b = dump(bd); bool em = bd.is_empty();
        L << id << " bds " << mode << " " << n << " " << b << " " << (em ? "E" : dump(bd));
        break; }
      case 2: {  // incremental_shortest_path_closure_assign
        BD_Shape<T> bd(n, UNIVERSE); fill(g, bd, dens, false);
        if (g.chance(2, 3)) {           // the intended use: closed, then new constraints on one variable
          bd.shortest_path_closure_assign();
          if (bd.marked_empty()) continue;
        }
        dimension_type v = 1 + g.below(n);
        for (dimension_type i = 0; i <= n; ++i) {
          if (i == v) continue;
          if (g.chance(1, 3)) rnd_bound<T>(g, bd.dbm[i][v], true);
          if (g.chance(1, 3)) rnd_bound<T>(g, bd.dbm[v][i], true);
        }
        bd.reset_shortest_path_closed();
        std::string b = dump(bd); bd.incremental_shortest_path_closure_assign(Variable(v - 1));
        L << id << " binc:" << v << " " << mode << " " << n << " " << b << " " << (bd.marked_empty() ? "E" : dump(bd));
        break; }
      case 3: {  // strong_closure_assign
        Octagonal_Shape<T> oc(n, UNIVERSE); fill(g, oc, dens, false);
        std::string b = dump(oc); oc.strong_closure_assign();
        L << id << " oct " << mode << " " << n << " " << b << " " << (oc.marked_empty() ? "E" : dump(oc));
        break; }
      case 4: {
        Constraint_System cs = rnd_cs<T>(g, n, true);
        Octagonal_Shape<T> oc(cs);
        if (oc.marked_empty() || oc.marked_strongly_closed()) continue;
        std::string b = dump(oc); bool em = oc.is_empty();
        L << id << " oct " << mode << " " << n << " " << b << " " << (em ? "E" : dump(oc));
        break; }
      case 5: {  // strong_coherence_assign alone
        Octagonal_Shape<T> oc(n, UNIVERSE); fill(g, oc, dens, false);
        std::string b = dump(oc); oc.strong_coherence_assign();
        L << id << " ocoh " << mode << " " << n << " " << b << " " << dump(oc);
        break; }
      case 6: {  // incremental_strong_closure_assign
        Octagonal_Shape<T> oc(n, UNIVERSE); fill(g, oc, dens, false);
        if (g.chance(2, 3)) { oc.strong_closure_assign(); if (oc.marked_empty()) continue; }
        dimension_type vid = g.below(n);
        typename OR_Matrix<NO>::row_iterator ri = oc.matrix.row_begin() + 2 * vid;
        for (int s = 0; s < 2; ++s, ++ri) {
          typename OR_Matrix<NO>::row_reference_type row = *ri;
          for (dimension_type j = 0, rs = ri.row_size(); j < rs; ++j)
            if (j != ri.index() && g.chance(1, 3)) rnd_bound<T>(g, row[j], true);
        }
        oc.reset_strongly_closed();
        std::string b = dump(oc); oc.incremental_strong_closure_assign(Variable(vid));
        L << id << " oinc:" << vid << " " << mode << " " << n << " " << b << " " << (oc.marked_empty() ? "E" : dump(oc));
        break; }
      case 7: {  // deduce_v_minus_u_bounds / deduce_u_minus_v_bounds (finite unary bounds: precondition)
        BD_Shape<T> bd(n, UNIVERSE); fill(g, bd, dens, true);
        dimension_type v = 1 + g.below(n);
        std::vector<long> e(n); Linear_Expression le;
        for (dimension_type i = 0; i < n; ++i) { e[i] = g.chance(1, 4) ? 0 : g.range(-4, 4); le += e[i] * Variable(i); }
        le += g.range(-3, 3);
        long d = g.range(1, 4);
        NB ub; rnd_bound<T>(g, ub, false);
        dimension_type w = le.last_nonzero();
        bool upper = g.chance(1, 2);
        std::string b = dump(bd);
        if (upper) bd.deduce_v_minus_u_bounds(v, w, le, Coefficient(d), ub);
        else bd.deduce_u_minus_v_bounds(v, w, le, Coefficient(d), ub);
        L << id << (upper ? " dvmu:" : " dumv:") << v << ":" << w << ":" << d << ":" << show(ub) << ":" << coeffs(e)
          << " " << mode << " " << n << " " << b << " " << dump(bd);
        break; }
      case 8: {  // deduce_v_pm_u_bounds / deduce_minus_v_pm_u_bounds
        Octagonal_Shape<T> oc(n, UNIVERSE); fill(g, oc, dens, true);
        dimension_type vid = g.below(n);
        std::vector<long> e(n); Linear_Expression le;
        for (dimension_type i = 0; i < n; ++i) { e[i] = g.chance(1, 4) ? 0 : g.range(-4, 4); le += e[i] * Variable(i); }
        le += g.range(-3, 3);
        long d = g.range(1, 4);
        NO ub; rnd_bound<T>(g, ub, false);
        dimension_type w = le.last_nonzero();
        if (w == 0) continue;
        dimension_type w_id = w - 1;
        bool upper = g.chance(1, 2);
        std::string b = dump(oc);
        if (upper) oc.deduce_v_pm_u_bounds(vid, w_id, le, Coefficient(d), ub);
        else oc.deduce_minus_v_pm_u_bounds(vid, w_id, le, Coefficient(d), ub);
        L << id << (upper ? " dvpm:" : " dmvpm:") << vid << ":" << w_id << ":" << d << ":" << show(ub) << ":" << coeffs(e)
          << " " << mode << " " << n << " " << b << " " << dump(oc);
        break; }
      case 9: {  // tight_closure_assign (integer T only)
        tight<T>(g, L, id, mode, n, dens);
        break; }
      }
    } catch (...) {
      L.str(""); L << id << " exc:" << pplv::exc_class() << " " << mode << " " << n << " - -";
    }
    if (!L.str().empty()) J.line(L.str());
  }
}

int main(int argc, char** argv) {
  long seed = pplv::arg_long(argc, argv, "--seed", 1), first = pplv::arg_long(argc, argv, "--first", 0),
       last = pplv::arg_long(argc, argv, "--last", 10), per = pplv::arg_long(argc, argv, "--per", 40);
  return pplv::run_batches(first, last, [&](long b) {
    pplv::Journal J(1);
    pplv::Rng g((uint64_t)seed * 1000003ull + (uint64_t)b);
    std::string p = std::to_string(seed) + "." + std::to_string(b);
    run_T<mpq_class>(g, J, p + ".q", (int)per);
    run_T<mpz_class>(g, J, p + ".z", (int)per);
    run_T<int8_t>(g, J, p + ".i8", (int)per);
  }, 120);
}
