// C20 harness: calls the real C interface (libppl_c.so) in-process.
//
//   c20_ciface --what sweep|dispatch|faults|timeouts|oracle|all [--seed N] [--only NAME] [--cases N]
//
// The table-driven part (one synthesised call per entry point, type table, per-domain API tables) is
// generated from the entry-point table by gen/c20_harness.py into c20_ciface_gen.inc.
//
// Journal (on the original stdout; the process' own stdout is redirected to /dev/null because the
// ppl_io_print_* entry points write there), one event per line:
//   sweep <idx> <name> mode=<0|1> ret=<r> hcalls=<n> hcode=<c> hout=<n> esc=<class|-> constchg=<n> unusable=<n> delfail=<n>
//   crash <SIG> sweep <idx> <name> mode=<m>
//   disp <id> <via> <class> ret=<r> hcalls=<n> hcode=<c> esc=<class|->
//   oom <name> k=<k> ret=<r> hcalls=<n> hcode=<c> esc=<class|-> usable=<0|1>
//   oomsum <name> failures=<n> succeeded_at=<k>
//   strdup <name> ret=<r> hcalls=<n> hcode=<c>
//   timeout <wall|det> ret=<r> hcalls=<n> hcode=<c> same=<r> fresh=<r> afterreset=<r>
//   orc <id> <domain> <op> c=<ret> cxx=<value|exc:class> hcalls=<n> hcode=<c> same=<0|1> [detail]
//   end <what> <count>
#define PPL_NO_AUTOMATIC_INITIALIZATION
#include "ppl_c_implementation_common_defs.hh"   // ppl.hh, ppl_c.h, the two timeout exception classes
#include "interfaced_boxes.hh"
#include "common.hh"
#include <functional>
#include <cstdarg>
#include <typeinfo>
#include <sys/mman.h>

namespace PPL = Parma_Polyhedra_Library;
typedef PPL::Domain_Product<PPL::C_Polyhedron, PPL::Grid>::Constraints_Product Constraints_Product_C_Polyhedron_Grid;

// ------------------------------------------------------------------ fault injection hooks
static volatile long g_new_countdown = -1;      // >= 0: the (k+1)-th operator new from now throws
static volatile long g_new_calls = 0;
static volatile int g_strdup_fail = 0;

void* operator new(std::size_t n) {
  ++g_new_calls;
  if (g_new_countdown >= 0) {
    if (g_new_countdown == 0) { g_new_countdown = -1; throw std::bad_alloc(); }
    --g_new_countdown;
  }
  void* p = std::malloc(n ? n : 1);
  if (!p) throw std::bad_alloc();
  return p;
}
void* operator new[](std::size_t n) { return operator new(n); }
void operator delete(void* p) noexcept { std::free(p); }
void operator delete[](void* p) noexcept { std::free(p); }
void operator delete(void* p, std::size_t) noexcept { std::free(p); }
void operator delete[](void* p, std::size_t) noexcept { std::free(p); }

extern "C" char* strdup(const char* s) {
  if (g_strdup_fail) return 0;
  size_t n = strlen(s) + 1;
  char* p = (char*) malloc(n);
  if (p) memcpy(p, s, n);
  return p;
}

// armed only for the duration of the call under test (see Sweep::run)
static int g_throw = -1, g_throw_armed = -1, g_thrown = 0;
static int g_strdup_armed = 0;

// ------------------------------------------------------------------ error handler bookkeeping
static int g_hcalls = 0, g_hcode = 0, g_hout = 0;
static bool g_in_call = false;
extern "C" void c20_handler(enum ppl_enum_error_code code, const char* d) {
  ++g_hcalls; g_hcode = (int) code;
  if (getenv("C20_VERBOSE")) fprintf(stderr, "handler(%d): %s\n", (int) code, d);
  if (!g_in_call) ++g_hout;
}

static pplv::Journal* J = 0;
static std::string fmt(const char* f, ...) {
  char buf[2048]; va_list ap; va_start(ap, f); vsnprintf(buf, sizeof buf, f, ap); va_end(ap); return buf;
}

// ------------------------------------------------------------------ type table (filled by the generated file)
struct TypeInfo {
  const char* name;
  int (*del)(const void*);
  int (*ok)(const void*);
  int (*asprint)(char**, const void*);
  int (*copy)(void**, const void*);
  int (*equals)(const void*, const void*);
  int (*newdim)(void**, ppl_dimension_type, int);
  int (*refine)(void*, ppl_const_Constraint_t);
};
struct Sweep;
struct SweepEntry { int idx; const char* name; const char* op; const char* cls; int (*fn)(Sweep&); };

static const TypeInfo* types();
static bool is_type(int t, const char* n);

// ------------------------------------------------------------------ small builders over the C API
static ppl_Coefficient_t mk_coeff(long v) {
  mpz_t z; mpz_init_set_si(z, v); ppl_Coefficient_t c = 0; ppl_new_Coefficient_from_mpz_t(&c, z); mpz_clear(z); return c;
}
// sum_i co[i]*x_i + k, of space dimension exactly `dim`
static ppl_Linear_Expression_t mk_le(int dim, const long* co, long k) {
  ppl_Linear_Expression_t le = 0;
  ppl_new_Linear_Expression_with_dimension(&le, (ppl_dimension_type) dim);
  for (int i = 0; i < dim; ++i) if (co[i]) {
    ppl_Coefficient_t c = mk_coeff(co[i]); ppl_Linear_Expression_add_to_coefficient(le, i, c); ppl_delete_Coefficient(c);
  }
  if (k) { ppl_Coefficient_t c = mk_coeff(k); ppl_Linear_Expression_add_to_inhomogeneous(le, c); ppl_delete_Coefficient(c); }
  return le;
}
static ppl_Linear_Expression_t mk_le1(int dim, int var, long a, long k) {
  long co[16] = {0}; if (var < dim && var < 16) co[var] = a; return mk_le(dim, co, k);
}
static ppl_Constraint_t mk_con(int dim, int var, long a, long k, enum ppl_enum_Constraint_Type t) {
  ppl_Linear_Expression_t le = mk_le1(dim, var, a, k); ppl_Constraint_t c = 0;
  ppl_new_Constraint(&c, le, t); ppl_delete_Linear_Expression(le); return c;
}

// ------------------------------------------------------------------ PIP example (interfaces/C/tests/pip_test.c)
struct PipWorld {
  ppl_PIP_Problem_t pip; ppl_const_PIP_Tree_Node_t root, with_art; ppl_const_PIP_Decision_Node_t dec;
  ppl_const_PIP_Solution_Node_t sol;
};
static void pip_dfs(ppl_const_PIP_Tree_Node_t n, PipWorld& w, int depth) {
  if (!n || depth > 12) return;
  ppl_dimension_type na = 0; ppl_PIP_Tree_Node_number_of_artificials(n, &na);
  if (na > 0 && !w.with_art) w.with_art = n;
  ppl_const_PIP_Decision_Node_t dn = 0; ppl_PIP_Tree_Node_as_decision(n, &dn);
  if (dn) {
    if (!w.dec) w.dec = dn;
    for (int b = 1; b >= 0; --b) { ppl_const_PIP_Tree_Node_t ch = 0; ppl_PIP_Decision_Node_get_child_node(dn, b, &ch); pip_dfs(ch, w, depth + 1); }
  } else {
    ppl_const_PIP_Solution_Node_t sn = 0; ppl_PIP_Tree_Node_as_solution(n, &sn);
    if (sn && !w.sol) w.sol = sn;
  }
}
static PipWorld mk_pip() {
  static const long coef[4][5] = {{2, 3, 0, 0, -8}, {4, -1, 0, 0, -4}, {0, -1, 0, 1, 0}, {-1, 0, 1, 0, 0}};
  PipWorld w; memset(&w, 0, sizeof w);
  ppl_new_PIP_Problem_from_space_dimension(&w.pip, 4);
  ppl_dimension_type pd[2] = {2, 3};
  ppl_PIP_Problem_add_to_parameter_space_dimensions(w.pip, pd, 2);
  for (int i = 0; i < 4; ++i) {
    ppl_Linear_Expression_t le = mk_le(4, coef[i], coef[i][4]); ppl_Constraint_t c = 0;
    ppl_new_Constraint(&c, le, PPL_CONSTRAINT_TYPE_GREATER_OR_EQUAL);
    ppl_PIP_Problem_add_constraint(w.pip, c); ppl_delete_Constraint(c); ppl_delete_Linear_Expression(le);
  }
  if (ppl_PIP_Problem_solve(w.pip) == PPL_PIP_PROBLEM_STATUS_OPTIMIZED) {
    ppl_PIP_Problem_solution(w.pip, &w.root);
    pip_dfs(w.root, w, 0);
  }
  return w;
}

// ------------------------------------------------------------------ the sweep context
struct ArgRec { int t; void* h; bool is_const; bool owned; std::string before; void* clone; int argi; };

struct Sweep {
  int mode; const SweepEntry* e;
  std::vector<ArgRec> args;            // in creation order (helpers included, argi = -1)
  std::vector<FILE*> files;
  bool seen_dimful;
  mpz_t z;
  ppl_dimension_type dsbuf[4];
  int delfail;
  // result of the last run
  int ret, hcalls, hcode, constchg, unusable; std::string esc;
  std::vector<PipWorld> pips;

  Sweep(int m, const SweepEntry* en) : mode(m), e(en), seen_dimful(false), delfail(0), ret(0), hcalls(0), hcode(0),
                                       constchg(0), unusable(0), esc("-") { mpz_init_set_si(z, 1); }
  ~Sweep() { mpz_clear(z); }

  bool op_is(const char* s) const { return !strcmp(e->op, s); }
  bool op_has(const char* s) const { return strstr(e->op, s) != 0; }
  bool name_has(const char* s) const { return strstr(e->name, s) != 0; }

  void* reg(int t, void* h, bool owned, int argi = -1, bool is_const = false) {
    ArgRec r; r.t = t; r.h = h; r.is_const = is_const; r.owned = owned; r.clone = 0; r.argi = argi; args.push_back(r); return h;
  }
  void adopt(int t, void* h) { reg(t, h, true); }
  void* prev_of_type(const char* name) {
    for (size_t i = args.size(); i-- > 0; ) if (args[i].argi >= 0 && is_type(args[i].t, name)) return args[i].h;
    return 0;
  }
  int count_args_of_type(int t) { int n = 0; for (auto& a : args) if (a.argi >= 0 && a.t == t) ++n; return n; }

  static bool dimful(int t) {
    const char* n = types()[t].name;
    if (strstr(n, "iterator") || strstr(n, "PIP_") || strstr(n, "Artificial") || !strcmp(n, "Coefficient")) return false;
    return true;
  }
  void* make(int t, int dim, int argi);
  void* obj(int t, int argi, bool is_const) {
    int dim = 2;
    if (mode == 1 && dimful(t)) { if (seen_dimful) dim = 3; seen_dimful = true; }
    void* h = make(t, dim, argi);
    // `make` registered h as its last record (owned or borrowed); tag it as the argument
    for (size_t i = args.size(); i-- > 0; ) if (args[i].h == h && args[i].t == t) { args[i].argi = argi; args[i].is_const = is_const; break; }
    return h;
  }
  ppl_dimension_type dim(const char* pn) {
    if (!strcmp(pn, "d")) return (e->name == strstr(e->name, "ppl_new_")) ? 2 : 1;
    if (!strcmp(pn, "var") || !strcmp(pn, "i")) return mode == 1 ? 7 : 0;
    return 1;
  }
  ppl_dimension_type* dims() {
    if (op_is("map_space_dimensions")) { dsbuf[0] = 1; dsbuf[1] = 0; }
    else if (op_is("wrap_assign")) { dsbuf[0] = (mode == 1) ? 7 : 1; }
    else { dsbuf[0] = (mode == 1) ? 7 : 0; dsbuf[1] = 1; }
    return dsbuf;
  }
  size_t ndims() { return op_is("map_space_dimensions") ? 2 : 1; }
  int ival(const char* pn) {
    if (!strcmp(pn, "complexity")) return (int) PPL_COMPLEXITY_CLASS_ANY;
    if (!strcmp(pn, "mode") || (!strcmp(pn, "m") && name_has("MIP_Problem"))) return PPL_OPTIMIZATION_MODE_MAXIMIZATION;
    if (!strcmp(pn, "name")) return name_has("PIP_") ? PPL_PIP_PROBLEM_CONTROL_PARAMETER_NAME_CUTTING_STRATEGY
                                                     : PPL_MIP_PROBLEM_CONTROL_PARAMETER_NAME_PRICING;
    if (!strcmp(pn, "value")) return name_has("PIP_") ? PPL_PIP_PROBLEM_CONTROL_PARAMETER_CUTTING_STRATEGY_FIRST
                                                      : PPL_MIP_PROBLEM_CONTROL_PARAMETER_PRICING_TEXTBOOK;
    if (!strcmp(pn, "b") || !strcmp(pn, "wrap_individually")) return 1;
    return 0;
  }
  unsigned uval(const char* pn) {
    if (!strcmp(pn, "disjuncts")) return 2;
    if (!strcmp(pn, "complexity_threshold")) return 16;
    return 1;
  }
  int enumval(const char* en) {
    bool bad = (mode == 1) && (e->name == strstr(e->name, "ppl_new_"));
    if (!strcmp(en, "ppl_enum_Constraint_Type")) return bad ? 99 : (int) PPL_CONSTRAINT_TYPE_GREATER_OR_EQUAL;
    if (!strcmp(en, "ppl_enum_Generator_Type")) return bad ? 99 : (int) PPL_GENERATOR_TYPE_POINT;
    if (!strcmp(en, "ppl_enum_Grid_Generator_Type")) return bad ? 99 : (int) PPL_GRID_GENERATOR_TYPE_POINT;
    if (!strcmp(en, "ppl_enum_Bounded_Integer_Type_Width")) return (int) PPL_BITS_8;
    if (!strcmp(en, "ppl_enum_Bounded_Integer_Type_Representation")) return (int) PPL_UNSIGNED;
    if (!strcmp(en, "ppl_enum_Bounded_Integer_Type_Overflow")) return (int) PPL_OVERFLOW_WRAPS;
    return 0;
  }
  FILE* file();

  void snapshot() {
    for (auto& a : args) {
      if (a.argi < 0 || !a.is_const) continue;
      const TypeInfo& ti = types()[a.t];
      if (ti.copy && ti.equals) { void* c = 0; if (ti.copy(&c, a.h) >= 0) a.clone = c; }
      else if (ti.asprint) { char* s = 0; if (ti.asprint(&s, a.h) >= 0 && s) { a.before = s; free(s); } }
    }
  }
  template <typename F> int run(F f) {
    snapshot();
    g_hcalls = 0; g_hcode = 0; esc = "-"; ret = -9999; g_thrown = 0;
    g_throw = g_throw_armed; g_strdup_fail = g_strdup_armed;
    g_in_call = true;
    try { ret = f(); } catch (...) { esc = pplv::exc_class(); }
    g_in_call = false;
    g_throw = -1; g_strdup_fail = 0;
    hcalls = g_hcalls; hcode = g_hcode;
    // post-conditions: const arguments unchanged, every argument still usable
    constchg = 0; unusable = 0;
    for (auto& a : args) {
      if (a.argi < 0) continue;
      const TypeInfo& ti = types()[a.t];
      if (a.is_const) {
        if (a.clone) { if (ti.equals(a.clone, a.h) <= 0) ++constchg; }
        else if (ti.asprint && !a.before.empty()) {
          char* s = 0; if (ti.asprint(&s, a.h) < 0 || !s || a.before != s) ++constchg; if (s) free(s);
        }
      }
      if (ti.ok && ti.ok(a.h) <= 0) ++unusable;
    }
    return ret;
  }
  void cleanup() {
    for (auto& a : args) if (a.clone) { if (types()[a.t].del(a.clone) != 0) ++delfail; a.clone = 0; }
    for (size_t i = args.size(); i-- > 0; ) {
      ArgRec& a = args[i];
      if (a.owned && types()[a.t].del) { if (types()[a.t].del(a.h) != 0) ++delfail; }
    }
    args.clear();
    for (auto& w : pips) ppl_delete_PIP_Problem(w.pip);
    pips.clear();
    for (FILE* f : files) fclose(f);
    files.clear();
  }
};

#define C20_COMMA ,
#include "c20_ciface_gen.inc"

static const TypeInfo* types() { return g_types; }
static bool is_type(int t, const char* n) { return !strcmp(g_types[t].name, n); }
static int type_by_name(const char* n) { for (int i = 0; i < T_COUNT; ++i) if (!strcmp(g_types[i].name, n)) return i; return -1; }

FILE* Sweep::file() {
  FILE* f = 0;
  if (op_is("ascii_load") && !args.empty()) {
    // feed the object its own dump
    f = tmpfile();
    extern int c20_dump_by_type(int, const void*, FILE*);
    c20_dump_by_type(args[0].t, args[0].h, f);
    rewind(f);
  } else {
    f = fopen("/dev/null", "w");
  }
  files.push_back(f);
  return f;
}

// ascii_dump by handle type, through asprint-independent C entry points (looked up once in the sweep table)
int c20_dump_by_type(int t, const void* h, FILE* f) {
  const char* n = g_types[t].name;
#define D(T) if (!strcmp(n, #T)) return ppl_##T##_ascii_dump((ppl_const_##T##_t) h, f);
  D(Polyhedron) D(Grid) D(Rational_Box) D(Double_Box) D(BD_Shape_mpz_class) D(BD_Shape_mpq_class) D(BD_Shape_double)
  D(Octagonal_Shape_mpz_class) D(Octagonal_Shape_mpq_class) D(Octagonal_Shape_double)
  D(Pointset_Powerset_C_Polyhedron) D(Pointset_Powerset_NNC_Polyhedron) D(Constraints_Product_C_Polyhedron_Grid)
  D(Linear_Expression) D(Constraint) D(Constraint_System) D(Generator) D(Generator_System)
  D(Congruence) D(Congruence_System) D(Grid_Generator) D(Grid_Generator_System) D(MIP_Problem) D(PIP_Problem)
  D(PIP_Tree_Node) D(PIP_Decision_Node) D(PIP_Solution_Node) D(Artificial_Parameter)
#undef D
  return -1;
}

void* Sweep::make(int t, int dim, int argi) {
  const char* n = g_types[t].name;
  const enum ppl_enum_Constraint_Type GE = PPL_CONSTRAINT_TYPE_GREATER_OR_EQUAL, LE = PPL_CONSTRAINT_TYPE_LESS_OR_EQUAL;
  if (!strcmp(n, "Coefficient")) return reg(t, mk_coeff(1), true);
  if (!strcmp(n, "Linear_Expression")) { long co[16] = {0}; co[0] = 1; co[dim - 1] += 2; return reg(t, mk_le(dim, co, 1), true); }
  if (!strcmp(n, "Constraint")) {
    ppl_Linear_Expression_t le = mk_le1(dim, 0, 1, 0); ppl_Constraint_t c = 0; ppl_new_Constraint(&c, le, GE);
    ppl_delete_Linear_Expression(le); return reg(t, c, true);
  }
  if (!strcmp(n, "Constraint_System")) {
    ppl_Constraint_System_t cs = 0; ppl_new_Constraint_System(&cs);
    ppl_Constraint_t a = mk_con(dim, 0, 1, 0, GE), b = mk_con(dim, dim - 1, 1, -5, LE);
    ppl_Constraint_System_insert_Constraint(cs, a); ppl_Constraint_System_insert_Constraint(cs, b);
    ppl_delete_Constraint(a); ppl_delete_Constraint(b); return reg(t, cs, true);
  }
  if (!strcmp(n, "Generator") || !strcmp(n, "Generator_System")) {
    ppl_Linear_Expression_t le = mk_le1(dim, 0, 1, 0); ppl_Coefficient_t one = mk_coeff(1); ppl_Generator_t g = 0;
    ppl_new_Generator(&g, le, PPL_GENERATOR_TYPE_POINT, one);
    ppl_delete_Linear_Expression(le); ppl_delete_Coefficient(one);
    if (!strcmp(n, "Generator")) return reg(t, g, true);
    ppl_Generator_System_t gs = 0; ppl_new_Generator_System_from_Generator(&gs, g); ppl_delete_Generator(g);
    ppl_Linear_Expression_t r = mk_le1(dim, dim - 1, 1, 0); ppl_Coefficient_t o = mk_coeff(1);
    ppl_new_Generator(&g, r, PPL_GENERATOR_TYPE_RAY, o); ppl_Generator_System_insert_Generator(gs, g);
    ppl_delete_Generator(g); ppl_delete_Linear_Expression(r); ppl_delete_Coefficient(o);
    return reg(t, gs, true);
  }
  if (!strcmp(n, "Congruence") || !strcmp(n, "Congruence_System")) {
    // a proper congruence for grids, an equality (modulus 0) elsewhere: the other domains reject proper ones
    ppl_Linear_Expression_t le = mk_le1(dim, 0, 1, 0); ppl_Coefficient_t two = mk_coeff(name_has("Grid") ? 2 : 0); ppl_Congruence_t c = 0;
    ppl_new_Congruence(&c, le, two); ppl_delete_Linear_Expression(le); ppl_delete_Coefficient(two);
    if (!strcmp(n, "Congruence")) return reg(t, c, true);
    ppl_Congruence_System_t cs = 0; ppl_new_Congruence_System_from_Congruence(&cs, c); ppl_delete_Congruence(c);
    return reg(t, cs, true);
  }
  if (!strcmp(n, "Grid_Generator") || !strcmp(n, "Grid_Generator_System")) {
    ppl_Linear_Expression_t le = mk_le1(dim, 0, 1, 0); ppl_Coefficient_t one = mk_coeff(1); ppl_Grid_Generator_t g = 0;
    ppl_new_Grid_Generator(&g, le, PPL_GRID_GENERATOR_TYPE_POINT, one);
    ppl_delete_Linear_Expression(le); ppl_delete_Coefficient(one);
    if (!strcmp(n, "Grid_Generator")) return reg(t, g, true);
    ppl_Grid_Generator_System_t gs = 0; ppl_new_Grid_Generator_System_from_Grid_Generator(&gs, g); ppl_delete_Grid_Generator(g);
    return reg(t, gs, true);
  }
  // iterators over the four kinds of systems: begin of the system argument before it (or of a fresh
  // system); a second iterator argument of the same type is `end` of the same system
#define SYS_IT(SYS) \
  if (!strcmp(n, #SYS "_const_iterator")) { \
    bool second = count_args_of_type(t) > 0; \
    void* parent = prev_of_type(#SYS); \
    static void* last_parent = 0; \
    if (second && last_parent) parent = last_parent; \
    if (!parent) parent = make(type_by_name(#SYS), dim, -1); \
    last_parent = parent; \
    ppl_##SYS##_const_iterator_t it = 0; ppl_new_##SYS##_const_iterator(&it); \
    if (second) ppl_##SYS##_end((ppl_const_##SYS##_t) parent, it); else ppl_##SYS##_begin((ppl_const_##SYS##_t) parent, it); \
    return reg(t, it, true); \
  }
  SYS_IT(Constraint_System) SYS_IT(Generator_System) SYS_IT(Congruence_System) SYS_IT(Grid_Generator_System)
#undef SYS_IT
#define PS_IT(PS, KIND, CONSTQ) \
  if (!strcmp(n, #PS "_" #KIND)) { \
    bool second = count_args_of_type(t) > 0 || op_is("decrement"); \
    void* parent = prev_of_type(#PS); \
    static void* last_parent = 0; \
    if (count_args_of_type(t) > 0 && last_parent) parent = last_parent; \
    if (!parent) parent = make(type_by_name(#PS), dim, -1); \
    last_parent = parent; \
    ppl_##PS##_##KIND##_t it = 0; ppl_new_##PS##_##KIND(&it); \
    if (second && !op_is("drop_disjunct")) ppl_##PS##_##KIND##_end((CONSTQ) parent, it); \
    else ppl_##PS##_##KIND##_begin((CONSTQ) parent, it); \
    return reg(t, it, true); \
  }
  PS_IT(Pointset_Powerset_C_Polyhedron, iterator, ppl_Pointset_Powerset_C_Polyhedron_t)
  PS_IT(Pointset_Powerset_C_Polyhedron, const_iterator, ppl_const_Pointset_Powerset_C_Polyhedron_t)
  PS_IT(Pointset_Powerset_NNC_Polyhedron, iterator, ppl_Pointset_Powerset_NNC_Polyhedron_t)
  PS_IT(Pointset_Powerset_NNC_Polyhedron, const_iterator, ppl_const_Pointset_Powerset_NNC_Polyhedron_t)
#undef PS_IT
  if (!strcmp(n, "MIP_Problem")) {
    ppl_MIP_Problem_t m = 0; ppl_new_MIP_Problem_from_space_dimension(&m, dim);
    ppl_Constraint_t a = mk_con(dim, 0, 1, 0, GE), b = mk_con(dim, 0, 1, -5, LE);
    ppl_MIP_Problem_add_constraint(m, a); ppl_MIP_Problem_add_constraint(m, b); ppl_delete_Constraint(a); ppl_delete_Constraint(b);
    for (int i = 1; i < dim; ++i) { ppl_Constraint_t c = mk_con(dim, i, 1, 0, GE), d = mk_con(dim, i, 1, -3, LE);
      ppl_MIP_Problem_add_constraint(m, c); ppl_MIP_Problem_add_constraint(m, d); ppl_delete_Constraint(c); ppl_delete_Constraint(d); }
    ppl_Linear_Expression_t le = mk_le1(dim, 0, 1, 0); ppl_MIP_Problem_set_objective_function(m, le); ppl_delete_Linear_Expression(le);
    ppl_MIP_Problem_set_optimization_mode(m, PPL_OPTIMIZATION_MODE_MAXIMIZATION);
    return reg(t, m, true);
  }
  if (!strncmp(n, "PIP_", 4) || !strncmp(n, "Artificial_Parameter", 20)) {
    pips.push_back(mk_pip()); PipWorld& w = pips.back();
    if (!strcmp(n, "PIP_Problem")) { void* p = w.pip; pips.pop_back(); return reg(t, p, true); }
    if (!strcmp(n, "PIP_Tree_Node")) return reg(t, (void*) w.root, false);
    if (!strcmp(n, "PIP_Decision_Node")) return reg(t, (void*) w.dec, false);
    if (!strcmp(n, "PIP_Solution_Node")) return reg(t, (void*) w.sol, false);
    ppl_Artificial_Parameter_Sequence_const_iterator_t it = 0; ppl_new_Artificial_Parameter_Sequence_const_iterator(&it);
    bool second = count_args_of_type(t) > 0;
    ppl_const_PIP_Tree_Node_t node = w.with_art ? w.with_art : w.root;
    if (void* pn = prev_of_type("PIP_Tree_Node")) node = (ppl_const_PIP_Tree_Node_t) pn;
    if (second) ppl_PIP_Tree_Node_end(node, it); else ppl_PIP_Tree_Node_begin(node, it);
    if (!strcmp(n, "Artificial_Parameter_Sequence_const_iterator")) return reg(t, it, true);
    reg(type_by_name("Artificial_Parameter_Sequence_const_iterator"), it, true);
    ppl_const_Artificial_Parameter_t ap = 0; ppl_Artificial_Parameter_Sequence_const_iterator_dereference(it, &ap);
    return reg(t, (void*) ap, false);
  }
  // the 13 domains: 0 <= x_i <= 4 for every i
  if (g_types[t].newdim) {
    void* h = 0; g_types[t].newdim(&h, dim, 0);
    for (int i = 0; i < dim; ++i) {
      ppl_Constraint_t a = mk_con(dim, i, 1, 0, GE), b = mk_con(dim, i, 1, -4, LE);
      g_types[t].refine(h, a); g_types[t].refine(h, b); ppl_delete_Constraint(a); ppl_delete_Constraint(b);
    }
    return reg(t, h, true);
  }
  fprintf(stderr, "c20_ciface: no factory for handle type %s\n", n);
  _exit(3);
}

// ------------------------------------------------------------------ layer A: every entry point, two argument modes
struct Progress { volatile int next; volatile int mode; volatile int done; };

static void sweep_range(Progress* P, const char* only) {
  for (int m = P->mode; m < 2; ++m) {
    for (int i = P->next; i < g_nsweep; ++i) {
      P->mode = m; P->next = i;
      const SweepEntry& e = g_sweep[i];
      if (only && strcmp(only, e.name)) continue;
      Sweep S(m, &e);
      g_hout = 0;
      e.fn(S);
      S.cleanup();
      J->line(fmt("sweep %d %s mode=%d ret=%d hcalls=%d hcode=%d hout=%d esc=%s constchg=%d unusable=%d delfail=%d",
                  e.idx, e.name, m, S.ret, S.hcalls, S.hcode, g_hout, S.esc.c_str(), S.constchg, S.unusable, S.delfail));
    }
    P->next = 0;
  }
  P->done = 1;
}

static int run_sweep(const char* only) {
  Progress* P = (Progress*) mmap(0, sizeof(Progress), PROT_READ | PROT_WRITE, MAP_SHARED | MAP_ANONYMOUS, -1, 0);
  P->next = 0; P->mode = 0; P->done = 0;
  int crashes = 0;
  while (!P->done && crashes < 200) {
    pid_t pid = fork();
    if (pid == 0) {
      struct rlimit rl; rl.rlim_cur = 240; rl.rlim_max = 245; setrlimit(RLIMIT_CPU, &rl);
      struct rlimit core; core.rlim_cur = core.rlim_max = 0; setrlimit(RLIMIT_CORE, &core);
      sweep_range(P, only);
      _exit(0);
    }
    int st = 0; waitpid(pid, &st, 0);
    if (P->done) break;
    const SweepEntry& e = g_sweep[P->next];
    if (WIFSIGNALED(st)) J->line(fmt("crash %s sweep %d %s mode=%d", pplv::signal_name(WTERMSIG(st)), e.idx, e.name, (int) P->mode));
    else J->line(fmt("crash exit%d sweep %d %s mode=%d", WEXITSTATUS(st), e.idx, e.name, (int) P->mode));
    ++crashes;
    P->next = P->next + 1;
    if (P->next >= g_nsweep) { P->next = 0; P->mode = P->mode + 1; if (P->mode >= 2) P->done = 1; }
  }
  J->line(fmt("end sweep %d", g_nsweep));
  return 0;
}

// ------------------------------------------------------------------ layer C1: handler selection on the real binary
// The variable output function is a user callback run deep inside operator<<; throwing from it makes
// an exception of a chosen class travel through PPL into the wrapper's CATCH_ALL.
struct weird_std_exception : std::exception { const char* what() const noexcept { return "weird"; } };
static const char* const g_classes[] = { "badAlloc", "invalidArgument", "domainError", "lengthError", "outOfRange",
  "logicError", "overflowError", "underflowError", "rangeError", "runtimeError", "stdException", "timeout",
  "detTimeout", "unknown" };
extern "C" const char* c20_varname(ppl_dimension_type) {
  using namespace Parma_Polyhedra_Library::Interfaces::C;
  if (g_throw >= 0) g_thrown = 1;
  switch (g_throw) {
    case 0: throw std::bad_alloc();
    case 1: throw std::invalid_argument("c20");
    case 2: throw std::domain_error("c20");
    case 3: throw std::length_error("c20");
    case 4: throw std::out_of_range("c20");
    case 5: throw std::logic_error("c20");
    case 6: throw std::overflow_error("c20");
    case 7: throw std::underflow_error("c20");
    case 8: throw std::range_error("c20");
    case 9: throw std::runtime_error("c20");
    case 10: throw weird_std_exception();
    case 11: throw timeout_exception();
    case 12: throw deterministic_timeout_exception();
    case 13: throw 42;
    default: return "V";
  }
}

static int run_dispatch(const char* only) {
  ppl_io_variable_output_function_type* saved = 0;
  ppl_io_get_variable_output_function(&saved);
  ppl_io_set_variable_output_function(c20_varname);
  int id = 0;
  // every ppl_io_asprint_* / fprint / print of a type whose text contains a variable name
  for (int i = 0; i < g_nsweep; ++i) {
    const SweepEntry& e = g_sweep[i];
    bool printer = !strncmp(e.name, "ppl_io_asprint_", 15) || !strncmp(e.name, "ppl_io_fprint_", 14) || !strncmp(e.name, "ppl_io_print_", 13);
    if (!printer || strstr(e.name, "Coefficient") || strstr(e.name, "_variable")) continue;
    if (only && strcmp(only, e.name)) continue;
    for (int k = 0; k < 14; ++k) {
      Sweep S(0, &e);
      g_throw_armed = k;      // Sweep::run arms the callback for the call under test only
      e.fn(S);
      g_throw_armed = -1;
      int thrown = g_thrown;
      S.cleanup();
      J->line(fmt("disp %d %s %s thrown=%d ret=%d hcalls=%d hcode=%d esc=%s", id++, e.name, g_classes[k], thrown, S.ret, S.hcalls, S.hcode, S.esc.c_str()));
    }
  }
  ppl_io_set_variable_output_function(saved);
  J->line(fmt("end dispatch %d", id));
  return 0;
}

// ------------------------------------------------------------------ layer C2: memory exhaustion
static ppl_Polyhedron_t mk_cube(int n) {
  ppl_Polyhedron_t ph = 0; ppl_new_C_Polyhedron_from_space_dimension(&ph, n, 0);
  for (int i = 0; i < n; ++i) {
    ppl_Constraint_t a = mk_con(n, i, 1, 0, PPL_CONSTRAINT_TYPE_GREATER_OR_EQUAL), b = mk_con(n, i, 1, -1, PPL_CONSTRAINT_TYPE_LESS_OR_EQUAL);
    ppl_Polyhedron_add_constraint(ph, a); ppl_Polyhedron_add_constraint(ph, b); ppl_delete_Constraint(a); ppl_delete_Constraint(b);
  }
  return ph;
}

struct OomCase { const char* name; std::function<int()> call; std::function<int()> usable; };

static void oom_loop(const OomCase& c, int maxk) {
  int failures = 0, ok_at = -1;
  for (int k = 0; k < maxk; ++k) {
    g_hcalls = 0; g_hcode = 0; std::string esc = "-"; int r = -9999;
    g_in_call = true;
    g_new_countdown = k;
    try { r = c.call(); } catch (...) { esc = pplv::exc_class(); }
    g_new_countdown = -1;
    g_in_call = false;
    int hc = g_hcalls, hco = g_hcode;
    int us = c.usable ? (c.usable() > 0) : 1;
    if (r >= 0 && esc == "-") { ok_at = k; J->line(fmt("oom %s k=%d ret=%d hcalls=%d hcode=%d esc=%s usable=%d", c.name, k, r, hc, hco, esc.c_str(), us)); break; }
    ++failures;
    J->line(fmt("oom %s k=%d ret=%d hcalls=%d hcode=%d esc=%s usable=%d", c.name, k, r, hc, hco, esc.c_str(), us));
  }
  J->line(fmt("oomsum %s failures=%d succeeded_at=%d", c.name, failures, ok_at));
}

static int run_faults() {
  // objects shared by the cases (built without faults)
  ppl_Polyhedron_t ph = mk_cube(3);
  ppl_Constraint_t con = mk_con(3, 0, 1, -1, PPL_CONSTRAINT_TYPE_LESS_OR_EQUAL);
  ppl_Linear_Expression_t le = mk_le1(3, 1, 1, 0);
  int bds_t = type_by_name("BD_Shape_mpq_class");
  void* bds = 0; g_types[bds_t].newdim(&bds, 3, 0);
  auto ph_ok = [&]() { return ppl_Polyhedron_OK(ph); };
  std::vector<void*> made;
  std::vector<OomCase> cases;
  cases.push_back({"ppl_new_C_Polyhedron_from_space_dimension", [&]() { ppl_Polyhedron_t p = 0; int r = ppl_new_C_Polyhedron_from_space_dimension(&p, 3, 0); if (r >= 0) ppl_delete_Polyhedron(p); return r; }, ph_ok});
  cases.push_back({"ppl_new_C_Polyhedron_from_C_Polyhedron", [&]() { ppl_Polyhedron_t p = 0; int r = ppl_new_C_Polyhedron_from_C_Polyhedron(&p, ph); if (r >= 0) ppl_delete_Polyhedron(p); return r; }, ph_ok});
  cases.push_back({"ppl_Polyhedron_add_constraint", [&]() { return ppl_Polyhedron_add_constraint(ph, con); }, ph_ok});
  cases.push_back({"ppl_Polyhedron_get_minimized_generators", [&]() { ppl_const_Generator_System_t gs = 0; return ppl_Polyhedron_get_minimized_generators(ph, &gs); }, ph_ok});
  ppl_Coefficient_t den = mk_coeff(1);
  cases.push_back({"ppl_Polyhedron_affine_image", [&]() { return ppl_Polyhedron_affine_image(ph, 0, le, den); }, ph_ok});
  cases.push_back({"ppl_new_Linear_Expression_with_dimension", [&]() { ppl_Linear_Expression_t l = 0; int r = ppl_new_Linear_Expression_with_dimension(&l, 5); if (r >= 0) ppl_delete_Linear_Expression(l); return r; }, ph_ok});
  cases.push_back({"ppl_io_asprint_Polyhedron", [&]() { char* s = 0; int r = ppl_io_asprint_Polyhedron(&s, ph); if (s) free(s); return r; }, ph_ok});
  cases.push_back({"ppl_new_BD_Shape_mpq_class_from_C_Polyhedron", [&]() { ppl_BD_Shape_mpq_class_t b = 0; int r = ppl_new_BD_Shape_mpq_class_from_C_Polyhedron(&b, ph); if (r >= 0) ppl_delete_BD_Shape_mpq_class(b); return r; }, ph_ok});
  cases.push_back({"ppl_BD_Shape_mpq_class_add_constraint", [&]() { return ppl_BD_Shape_mpq_class_add_constraint((ppl_BD_Shape_mpq_class_t) bds, con); }, [&]() { return ppl_BD_Shape_mpq_class_OK((ppl_const_BD_Shape_mpq_class_t) bds); }});
  cases.push_back({"ppl_new_MIP_Problem_from_space_dimension", [&]() { ppl_MIP_Problem_t m = 0; int r = ppl_new_MIP_Problem_from_space_dimension(&m, 3); if (r >= 0) ppl_delete_MIP_Problem(m); return r; }, ph_ok});
  // the char*-returning entry point without a try block: the exception crosses the boundary
  cases.push_back({"ppl_io_wrap_string", [&]() { char* s = ppl_io_wrap_string("the quick brown fox jumps over the lazy dog, twice over", 2, 10, 12); int r = s ? 0 : -1; if (s) free(s); return r; }, ph_ok});
  for (auto& c : cases) {
    // each case in its own child: a throwing operator new inside a noexcept context would terminate
    fflush(stdout);
    pid_t pid = fork();
    if (pid == 0) { oom_loop(c, 400); _exit(0); }
    int st = 0; waitpid(pid, &st, 0);
    if (WIFSIGNALED(st)) J->line(fmt("crash %s oom %s", pplv::signal_name(WTERMSIG(st)), c.name));
  }
  // failed strdup in the asprint family: documented code, but is the handler told?
  for (int i = 0; i < g_nsweep; ++i) {
    const SweepEntry& e = g_sweep[i];
    if (strncmp(e.name, "ppl_io_asprint_", 15)) continue;
    Sweep S(0, &e);
    g_strdup_armed = 1;
    e.fn(S);
    g_strdup_armed = 0;
    S.cleanup();
    J->line(fmt("strdup %s ret=%d hcalls=%d hcode=%d", e.name, S.ret, S.hcalls, S.hcode));
  }
  J->line("end faults 0");
  return 0;
}

// ------------------------------------------------------------------ layer C3: timeouts
static void timeout_case(bool det) {
  ppl_Polyhedron_t big = mk_cube(22), small = mk_cube(8);
  ppl_const_Generator_System_t gs = 0;
  g_hcalls = 0; g_hcode = 0;
  int s = det ? ppl_set_deterministic_timeout(2000, 0) : ppl_set_timeout(3);
  g_in_call = true;
  int r = ppl_Polyhedron_get_minimized_generators(big, &gs);
  g_in_call = false;
  int hc = g_hcalls, hco = g_hcode;
  // are the handles usable again, without any reset by the client?
  int same = ppl_Polyhedron_is_empty(big);
  int fresh = ppl_Polyhedron_get_minimized_generators(small, &gs);
  if (det) ppl_reset_deterministic_timeout(); else ppl_reset_timeout();
  int after = ppl_Polyhedron_get_minimized_generators(small, &gs);
  J->line(fmt("timeout %s set=%d ret=%d hcalls=%d hcode=%d same=%d fresh=%d afterreset=%d", det ? "det" : "wall", s, r, hc, hco, same, fresh, after));
  ppl_delete_Polyhedron(big); ppl_delete_Polyhedron(small);
}
static int run_timeouts() {
  for (int det = 0; det < 2; ++det) {
    pid_t pid = fork();
    if (pid == 0) {
      struct rlimit rl; rl.rlim_cur = 60; rl.rlim_max = 65; setrlimit(RLIMIT_CPU, &rl);
      struct rlimit as; as.rlim_cur = as.rlim_max = (rlim_t) 4 << 30; setrlimit(RLIMIT_AS, &as);
      timeout_case(det != 0); _exit(0);
    }
    int st = 0; waitpid(pid, &st, 0);
    if (WIFSIGNALED(st)) J->line(fmt("crash %s timeout %s", pplv::signal_name(WTERMSIG(st)), det ? "det" : "wall"));
  }
  J->line("end timeouts 2");
  return 0;
}


// ------------------------------------------------------------------ layer B: the C++ operation as oracle
// For each of the 13 interfaced domains: random small objects are built twice, through the C interface
// and directly in C++; every operation of the per-domain table is then applied to a C handle and to a
// C++ clone of the same object.  Boolean answers, out-values and resulting objects must agree; when the
// C++ operation throws, the C entry point must return the documented code of that class (judged by the
// Lean driver from the `disp` line) after calling the handler, and leave the handle usable.
struct RCon { int dim; long co[4]; long k; int rel; };   // rel: 0 >=, 1 <=, 2 ==, 3 > (strict)

static RCon rand_con(pplv::Rng& R, int dim, bool simple) {
  RCon c; c.dim = dim; memset(c.co, 0, sizeof c.co);
  if (simple) {              // an interval or bounded-difference constraint
    int i = R.below(dim); c.co[i] = R.chance(1, 2) ? 1 : -1;
    if (dim > 1 && R.chance(1, 3)) { int j = (i + 1 + R.below(dim - 1)) % dim; c.co[j] = -c.co[i]; }
  } else for (int i = 0; i < dim; ++i) c.co[i] = R.range(-3, 3);
  c.k = R.range(-4, 6);
  unsigned r = R.below(20); c.rel = r < 9 ? 0 : r < 16 ? 1 : r < 19 ? 2 : 3;
  return c;
}
static ppl_Constraint_t c_con(const RCon& c) {
  static const enum ppl_enum_Constraint_Type T[4] = { PPL_CONSTRAINT_TYPE_GREATER_OR_EQUAL, PPL_CONSTRAINT_TYPE_LESS_OR_EQUAL,
                                                       PPL_CONSTRAINT_TYPE_EQUAL, PPL_CONSTRAINT_TYPE_GREATER_THAN };
  ppl_Linear_Expression_t le = mk_le(c.dim, c.co, c.k); ppl_Constraint_t r = 0;
  ppl_new_Constraint(&r, le, T[c.rel]); ppl_delete_Linear_Expression(le); return r;
}
static PPL::Linear_Expression x_le(int dim, const long* co, long k) {
  PPL::Linear_Expression e;
  if (dim > 0) e += 0 * PPL::Variable(dim - 1);
  for (int i = 0; i < dim; ++i) e += co[i] * PPL::Variable(i);
  e += k; return e;
}
static PPL::Constraint x_con(const RCon& c) {
  PPL::Linear_Expression e = x_le(c.dim, c.co, c.k);
  switch (c.rel) { case 0: return e >= 0; case 1: return e <= 0; case 2: return e == 0; default: return e > 0; }
}
static const char* model_class(const std::string& c) {
  if (c == "invalid_argument") return "invalidArgument"; if (c == "domain_error") return "domainError";
  if (c == "length_error") return "lengthError"; if (c == "overflow_error") return "overflowError";
  if (c == "out_of_range") return "outOfRange"; if (c == "logic_error") return "logicError";
  if (c == "runtime_error") return "runtimeError"; if (c == "bad_alloc") return "badAlloc";
  if (c == "exception") return "stdException"; return "unknown";
}

template <typename T, typename = void> struct has_cip : std::false_type {};
template <typename T> struct has_cip<T, std::void_t<decltype(std::declval<const T&>().contains_integer_point())>> : std::true_type {};
template <typename T, typename = void> struct has_suc : std::false_type {};
template <typename T> struct has_suc<T, std::void_t<decltype(std::declval<T&>().simplify_using_context_assign(std::declval<const T&>()))>> : std::true_type {};
template <typename T, typename = void> struct has_wid : std::false_type {};
template <typename T> struct has_wid<T, std::void_t<decltype(std::declval<T&>().widening_assign(std::declval<const T&>()))>> : std::true_type {};

// progress of the oracle child, shared with the parent so that a crash is attributed to an operation and a side
struct OrcProgress { volatile long next_case; volatile int side; volatile int done; char op[64]; volatile long events;
                     volatile int cur_op; volatile int skip_upto; };
static OrcProgress* g_op = 0;
struct Orc { pplv::Rng R; int id; long events; const char* only; long seed; int opidx;
             Orc(long s) : R(s), id(0), events(0), only(0), seed(s), opidx(0) {} };

enum { CMP_BOOL = 1, CMP_OBJ = 2, CMP_VAL = 4 };

// cfun(long& out) -> C return value, acting on handle hx ; xfun(T& cx, long& out) -> C++ bool/ignored, acting on the clone
template <typename T, typename FC, typename FX>
static void orc_check(Orc& O, const char* dom, const char* op, const TypeInfo& ti, void* hx, int cmp, FC cfun, FX xfun) {
  if (O.only && strcmp(O.only, op)) return;
  T cx(*reinterpret_cast<const T*>(hx));
  std::string cxx = "ok"; long xout = 0, xret = 0;
  if (g_op) { strncpy(g_op->op, op, 63); g_op->cur_op = O.opidx; g_op->side = 1; }
  try { xret = xfun(cx, xout); } catch (...) { cxx = pplv::exc_class(); }
  if (g_op) g_op->side = 3;
  bool cxx_ok = cx.OK();      // if the C++ object itself is broken by the operation, that is not the wrapper's doing
  g_hcalls = 0; g_hcode = 0; std::string esc = "-"; long cout_ = 0; int r = -9999;
  if (g_op) g_op->side = 2;
  g_in_call = true;
  try { r = cfun(cout_); } catch (...) { esc = pplv::exc_class(); }
  g_in_call = false;
  if (g_op) g_op->side = 4;
  int hc = g_hcalls, hco = g_hcode;
  // (when the C++ result fails its own OK() the library has corrupted the object: do not touch the C one either)
  int usable = (cxx_ok && ti.ok) ? (ti.ok(hx) > 0) : 1;
  bool same = true; std::string why;
  if (cxx == "ok") {
    if (r < 0 || esc != "-" || hc != 0) { same = false; why = "c_failed"; }
    if (same && (cmp & CMP_BOOL) && r != (xret ? 1 : 0)) { same = false; why = "bool"; }
    if (same && (cmp & CMP_VAL) && cout_ != xout) { same = false; why = "value"; }
    // (a C++ result that fails its own OK() is a library defect, not the wrapper's: no object comparison then)
    if (same && cxx_ok && (cmp & CMP_OBJ) && !(*reinterpret_cast<const T*>(hx) == cx)) { same = false; why = "object"; }
    if (!cxx_ok) why = "cxx_result_not_OK";
  } else {
    // the C++ operation threw: code and handler are judged by the driver; the handle must stay usable
    J->line(fmt("disp %d ppl_%s_%s %s thrown=1 ret=%d hcalls=%d hcode=%d esc=%s", 1000000 + O.id, dom, op, model_class(cxx), r, hc, hco, esc.c_str()));
    if (!usable) { same = false; why = "unusable"; }
  }
  if (g_op) g_op->side = 0;
  J->line(fmt("orc %d %s %s c=%d cxx=%s%s hcalls=%d hcode=%d usable=%d same=%d %s", O.id++, dom, op, r,
              cxx == "ok" ? "ok:" : "exc:", cxx == "ok" ? std::to_string(xret).c_str() : cxx.c_str(), hc, hco, usable, same ? 1 : 0, why.c_str()));
  ++O.events;
}

template <typename T, typename H, typename CH>
static void oracle_domain(const DomApi<H, CH>& A, Orc& O, long cases) {
  const TypeInfo& ti = g_types[A.tid];
  const bool relational_only = strstr(A.name, "BD_Shape") || strstr(A.name, "Octagonal") || strstr(A.name, "Box");
  for (long cs = g_op->next_case; cs < cases; ++cs) {
    g_op->next_case = cs;
    pplv::Rng R((uint64_t) O.seed * 7919 + (uint64_t) A.tid * 104729 + (uint64_t) cs);   // one stream per case: a restart replays nothing
    O.id = 100000 * (int) A.tid + 100 * (int) cs;
    O.opidx = 0;
    int dx = 1 + R.below(3);
    int dy = R.chance(1, 6) ? 1 + R.below(3) : dx;          // sometimes a dimension-incompatible operand
    // build X and Y on both sides
    std::vector<RCon> xs, ys;
    int nx = R.below(4), ny = R.below(4);
    for (int i = 0; i < nx; ++i) { RCon c = rand_con(R, dx, relational_only || R.chance(1, 2)); if (c.rel == 3) c.rel = 0; xs.push_back(c); }
    bool y_sub = (dy == dx) && R.chance(1, 2);
    if (y_sub) ys = xs;
    for (int i = 0; i < ny; ++i) { RCon c = rand_con(R, dy, relational_only || R.chance(1, 2)); if (c.rel == 3) c.rel = 0; ys.push_back(c); }
    if (getenv("C20_VERBOSE")) {
      fprintf(stderr, "case %ld %s dx=%d dy=%d\n", cs, A.name, dx, dy);
      for (auto& c : xs) fprintf(stderr, "  X: %ld %ld %ld | %ld rel %d\n", c.co[0], c.co[1], c.co[2], c.k, c.rel);
      for (auto& c : ys) fprintf(stderr, "  Y: %ld %ld %ld | %ld rel %d\n", c.co[0], c.co[1], c.co[2], c.k, c.rel);
    }
    void* hx0 = 0; void* hy = 0;
    ti.newdim(&hx0, dx, 0); ti.newdim(&hy, dy, 0);
    T X(dx), Y(dy);
    for (auto& c : xs) { ppl_Constraint_t k = c_con(c); ti.refine(hx0, k); ppl_delete_Constraint(k); X.refine_with_constraint(x_con(c)); }
    for (auto& c : ys) { ppl_Constraint_t k = c_con(c); ti.refine(hy, k); ppl_delete_Constraint(k); Y.refine_with_constraint(x_con(c)); }
    if (g_op->skip_upto == 0) {
      bool same = (*reinterpret_cast<const T*>(hx0) == X) && (*reinterpret_cast<const T*>(hy) == Y);
      J->line(fmt("orc %d %s build c=0 cxx=ok:0 hcalls=0 hcode=0 usable=1 same=%d %s", O.id++, A.name, same ? 1 : 0, same ? "" : "object"));
      ++O.events;
    }
    const T& Yc = *reinterpret_cast<const T*>(hy);
    CH chy = (CH) hy;
    // operands of the other kinds
    RCon rc = rand_con(R, R.chance(1, 8) ? 1 + R.below(3) : dx, relational_only ? R.chance(3, 4) : R.chance(1, 2));
    ppl_Constraint_t kc = c_con(rc); PPL::Constraint xc = x_con(rc);
    long lco[4] = {0}; int ldim = R.chance(1, 8) ? 1 + R.below(3) : dx;
    for (int i = 0; i < ldim; ++i) lco[i] = R.range(-2, 2);
    long lk = R.range(-3, 3);
    ppl_Linear_Expression_t kle = mk_le(ldim, lco, lk); PPL::Linear_Expression xle = x_le(ldim, lco, lk);
    unsigned var = R.chance(1, 8) ? (unsigned) dx + R.below(2) : R.below(dx);
    long den = R.chance(1, 10) ? 0 : (R.chance(1, 2) ? 1 : R.range(1, 3));
    ppl_Coefficient_t kden = mk_coeff(den); PPL::Coefficient xden(den);
    unsigned m = 1 + R.below(2);
    if (getenv("C20_VERBOSE")) fprintf(stderr, "  var=%u m=%u den=%ld le=%ld %ld %ld | %ld (dim %d)\n", var, m, den, lco[0], lco[1], lco[2], lk, ldim);
    long cgm = R.chance(1, 2) ? 0 : 2;
    ppl_Coefficient_t kmod = mk_coeff(cgm); ppl_Congruence_t kcg = 0; ppl_new_Congruence(&kcg, kle, kmod);
    PPL::Congruence xcg = (xle %= 0) / cgm;

    // a fresh copy of X per operation
    auto fresh = [&]() -> void* { void* h = 0; ti.copy(&h, hx0); return h; };
#define OP(NAME, CMP, CCALL, ...) \
    ++O.opidx; \
    if (A.NAME && O.opidx > g_op->skip_upto) { void* hx = fresh(); H hh = (H) hx; CH ch = (CH) hx; (void) hh; (void) ch; \
      orc_check<T>(O, A.name, #NAME, ti, hx, CMP, [&](long& out) -> int { (void) out; return CCALL; }, \
                   [&](T& cx, long& out) -> long { (void) out; (void) cx; __VA_ARGS__; }); \
      ti.del(hx); }
    OP(is_empty, CMP_BOOL, A.is_empty(ch), return cx.is_empty())
    OP(is_universe, CMP_BOOL, A.is_universe(ch), return cx.is_universe())
    OP(is_bounded, CMP_BOOL, A.is_bounded(ch), return cx.is_bounded())
    OP(is_topologically_closed, CMP_BOOL, A.is_topologically_closed(ch), return cx.is_topologically_closed())
    OP(is_discrete, CMP_BOOL, A.is_discrete(ch), return cx.is_discrete())
    if constexpr (has_cip<T>::value) if (X.is_bounded()) { OP(contains_integer_point, CMP_BOOL, A.contains_integer_point(ch), return cx.contains_integer_point()) }
    OP(OK, CMP_BOOL, A.OK(ch), return cx.OK())
    OP(space_dimension, CMP_VAL, ({ ppl_dimension_type d = 99; int r_ = A.space_dimension(ch, &d); out = (long) d; r_; }), out = (long) cx.space_dimension(); return 0)
    OP(affine_dimension, CMP_VAL, ({ ppl_dimension_type d = 99; int r_ = A.affine_dimension(ch, &d); out = (long) d; r_; }), out = (long) cx.affine_dimension(); return 0)
    OP(constrains, CMP_BOOL, A.constrains(hh, var), return cx.constrains(PPL::Variable(var)))
    OP(bounds_from_above, CMP_BOOL, A.bounds_from_above(ch, kle), return cx.bounds_from_above(xle))
    OP(bounds_from_below, CMP_BOOL, A.bounds_from_below(ch, kle), return cx.bounds_from_below(xle))
    OP(maximize, CMP_BOOL | CMP_VAL,
       ({ ppl_Coefficient_t n_ = mk_coeff(0), d_ = mk_coeff(1); int mx = 0; int r_ = A.maximize(ch, kle, n_, d_, &mx);
          mpz_t zn, zd; mpz_init(zn); mpz_init(zd); ppl_Coefficient_to_mpz_t(n_, zn); ppl_Coefficient_to_mpz_t(d_, zd);
          out = r_ > 0 ? (mpz_get_si(zn) * 1000 + mpz_get_si(zd)) * 2 + mx : 0; mpz_clear(zn); mpz_clear(zd);
          ppl_delete_Coefficient(n_); ppl_delete_Coefficient(d_); r_; }),
       PPL::Coefficient n_, d_; bool mx = false; bool b = cx.maximize(xle, n_, d_, mx);
       out = b ? (n_.get_si() * 1000 + d_.get_si()) * 2 + (mx ? 1 : 0) : 0; return b)
    OP(minimize, CMP_BOOL | CMP_VAL,
       ({ ppl_Coefficient_t n_ = mk_coeff(0), d_ = mk_coeff(1); int mx = 0; int r_ = A.minimize(ch, kle, n_, d_, &mx);
          mpz_t zn, zd; mpz_init(zn); mpz_init(zd); ppl_Coefficient_to_mpz_t(n_, zn); ppl_Coefficient_to_mpz_t(d_, zd);
          out = r_ > 0 ? (mpz_get_si(zn) * 1000 + mpz_get_si(zd)) * 2 + mx : 0; mpz_clear(zn); mpz_clear(zd);
          ppl_delete_Coefficient(n_); ppl_delete_Coefficient(d_); r_; }),
       PPL::Coefficient n_, d_; bool mx = false; bool b = cx.minimize(xle, n_, d_, mx);
       out = b ? (n_.get_si() * 1000 + d_.get_si()) * 2 + (mx ? 1 : 0) : 0; return b)
    OP(relation_with_Constraint, CMP_VAL, ({ int r_ = A.relation_with_Constraint(ch, kc); out = r_; r_ < 0 ? r_ : 0; }),
       out = (long) cx.relation_with(xc).get_flags(); return 0)
    OP(contains, CMP_BOOL, A.contains(ch, chy), return cx.contains(Yc))
    OP(strictly_contains, CMP_BOOL, A.strictly_contains(ch, chy), return cx.strictly_contains(Yc))
    OP(is_disjoint_from, CMP_BOOL, A.is_disjoint_from(ch, chy), return cx.is_disjoint_from(Yc))
    OP(equals, CMP_BOOL, A.equals(ch, chy), return cx == Yc)
    OP(intersection_assign, CMP_OBJ, A.intersection_assign(hh, chy), cx.intersection_assign(Yc); return 0)
    OP(upper_bound_assign, CMP_OBJ, A.upper_bound_assign(hh, chy), cx.upper_bound_assign(Yc); return 0)
    OP(difference_assign, CMP_OBJ, A.difference_assign(hh, chy), cx.difference_assign(Yc); return 0)
    OP(concatenate_assign, CMP_OBJ, A.concatenate_assign(hh, chy), cx.concatenate_assign(Yc); return 0)
    OP(time_elapse_assign, CMP_OBJ, A.time_elapse_assign(hh, chy), cx.time_elapse_assign(Yc); return 0)
    OP(upper_bound_assign_if_exact, CMP_BOOL | CMP_OBJ, A.upper_bound_assign_if_exact(hh, chy), return cx.upper_bound_assign_if_exact(Yc))
    if constexpr (has_suc<T>::value) { OP(simplify_using_context_assign, CMP_BOOL | CMP_OBJ, A.simplify_using_context_assign(hh, chy), return cx.simplify_using_context_assign(Yc)) }
    if constexpr (has_wid<T>::value) { if (y_sub) { OP(widening_assign, CMP_OBJ, A.widening_assign(hh, chy), cx.widening_assign(Yc); return 0) } }
    OP(topological_closure_assign, CMP_OBJ, A.topological_closure_assign(hh), cx.topological_closure_assign(); return 0)
    OP(add_constraint, CMP_OBJ, A.add_constraint(hh, kc), cx.add_constraint(xc); return 0)
    OP(refine_with_constraint, CMP_OBJ, A.refine_with_constraint(hh, kc), cx.refine_with_constraint(xc); return 0)
    OP(add_congruence, CMP_OBJ, A.add_congruence(hh, kcg), cx.add_congruence(xcg); return 0)
    OP(refine_with_congruence, CMP_OBJ, A.refine_with_congruence(hh, kcg), cx.refine_with_congruence(xcg); return 0)
    OP(affine_image, CMP_OBJ, A.affine_image(hh, var, kle, kden), cx.affine_image(PPL::Variable(var), xle, xden); return 0)
    OP(affine_preimage, CMP_OBJ, A.affine_preimage(hh, var, kle, kden), cx.affine_preimage(PPL::Variable(var), xle, xden); return 0)
    OP(generalized_affine_image, CMP_OBJ, A.generalized_affine_image(hh, var, PPL_CONSTRAINT_TYPE_LESS_OR_EQUAL, kle, kden),
       cx.generalized_affine_image(PPL::Variable(var), PPL::LESS_OR_EQUAL, xle, xden); return 0)
    OP(add_space_dimensions_and_embed, CMP_OBJ, A.add_space_dimensions_and_embed(hh, m), cx.add_space_dimensions_and_embed(m); return 0)
    OP(add_space_dimensions_and_project, CMP_OBJ, A.add_space_dimensions_and_project(hh, m), cx.add_space_dimensions_and_project(m); return 0)
    OP(remove_higher_space_dimensions, CMP_OBJ, A.remove_higher_space_dimensions(hh, var), cx.remove_higher_space_dimensions(var); return 0)
    OP(unconstrain_space_dimension, CMP_OBJ, A.unconstrain_space_dimension(hh, var), cx.unconstrain(PPL::Variable(var)); return 0)
    OP(expand_space_dimension, CMP_OBJ, A.expand_space_dimension(hh, var, m), cx.expand_space_dimension(PPL::Variable(var), m); return 0)
    OP(remove_space_dimensions, CMP_OBJ, ({ ppl_dimension_type ds_[1] = { var }; A.remove_space_dimensions(hh, ds_, 1); }),
       PPL::Variables_Set vs; vs.insert(var); cx.remove_space_dimensions(vs); return 0)
#undef OP
    ppl_delete_Constraint(kc); ppl_delete_Linear_Expression(kle); ppl_delete_Coefficient(kden);
    ppl_delete_Coefficient(kmod); ppl_delete_Congruence(kcg);
    ti.del(hx0); ti.del(hy);
    g_op->events = O.events;
    g_op->skip_upto = 0;
  }
  g_op->done = 1;
}

static int run_oracle(long seed, long cases, const char* only) {
  using namespace Parma_Polyhedra_Library;
  // each domain in its own child: PPL itself aborts on some inputs of the unchanged tree
  g_op = (OrcProgress*) mmap(0, sizeof(OrcProgress), PROT_READ | PROT_WRITE, MAP_SHARED | MAP_ANONYMOUS, -1, 0);
  const char* domf = getenv("C20_DOM");
#define DOM(HN, CXX) if (!domf || !strcmp(domf, #HN)) { \
    memset((void*) g_op, 0, sizeof *g_op); int crashes = 0; long total = 0; \
    if (getenv("C20_NOFORK")) { Orc Od(seed); Od.only = only; oracle_domain<CXX>(api_##HN, Od, cases); } \
    while (!g_op->done && crashes < 50) { \
      Orc Od(seed); Od.only = only; \
      fflush(stdout); pid_t pid = fork(); \
      if (pid == 0) { struct rlimit rl; rl.rlim_cur = 40; rl.rlim_max = 45; setrlimit(RLIMIT_CPU, &rl); \
        struct rlimit core; core.rlim_cur = core.rlim_max = 0; setrlimit(RLIMIT_CORE, &core); \
        oracle_domain<CXX>(api_##HN, Od, cases); _exit(0); } \
      int st = 0; waitpid(pid, &st, 0); total += g_op->events; g_op->events = 0; \
      if (g_op->done) break; \
      J->line(fmt("crash %s oracle %s %s side=%s case=%ld seed=%ld", WIFSIGNALED(st) ? pplv::signal_name(WTERMSIG(st)) : "exit", \
                  #HN, g_op->op, g_op->side == 1 ? "cxx" : g_op->side == 2 ? "c" : g_op->side == 3 ? "cxx_post" : g_op->side == 4 ? "c_post" : "harness", (long) g_op->next_case, seed)); \
      ++crashes; g_op->skip_upto = g_op->cur_op; g_op->side = 0;   /* resume the same case after the crashed operation */ \
    } \
    J->line(fmt("end oracle_%s %ld", #HN, total)); }
  C20_FOR_EACH_DOMAIN(DOM)
#undef DOM
  J->line("end oracle 13");
  return 0;
}


int main(int argc, char** argv) {
  const char* what = pplv::arg_str(argc, argv, "--what", "all");
  const char* only = pplv::arg_str(argc, argv, "--only", 0);
  long seed = pplv::arg_long(argc, argv, "--seed", 1);
  long cases = pplv::arg_long(argc, argv, "--cases", 40);
  int jfd = dup(1);
  if (!freopen("/dev/null", "w", stdout)) return 2;
  pplv::Journal journal(jfd); J = &journal;
  if (ppl_initialize() < 0) return 2;
  ppl_set_error_handler(c20_handler);
  bool all = !strcmp(what, "all");
  if (all || !strcmp(what, "sweep")) run_sweep(only);
  if (all || !strcmp(what, "dispatch")) run_dispatch(only);
  if (all || !strcmp(what, "faults")) run_faults();
  if (all || !strcmp(what, "timeouts")) run_timeouts();
  if (all || !strcmp(what, "oracle")) run_oracle(seed, cases, only);
  ppl_finalize();
  return 0;
}
