// C01 stage 3 harness: the REAL double-description engine of Polyhedron, journalled call by call.
//
// For seeded constraint / generator systems (harness/poly_io.hh rnd_cs / rnd_gs, plus degenerate
// shapes: equalities, duplicates, redundant rows, empty, universe, cylinders, dimension 0..4) it calls
// the static members themselves (`#define private public` around ppl.hh only; nothing is rebuilt):
//
//   conv  Polyhedron::conversion(source, 0, dest, tmp_sat, ncols)   dest = identity matrix of lines,
//                                                                   set up as Polyhedron::minimize does
//   simp  Polyhedron::simplify(source, sat)                         on the result of `conv` (when it has a point)
//   sort  Linear_System::sort_rows()                                 when the system is not flagged sorted
//   mini  Polyhedron::minimize(con_to_gen, source, dest, sat)       the real driver on a fresh copy (start = is_sorted())
//   addm  Polyhedron::add_and_minimize(con_to_gen, source, dest, sat)  pending rows on a minimized DD pair,
//                                                                   prepared as process_pending_* does
//
// Journal: for every call one `in` line and one `out` line (see lean/Driver/Conv.lean):
//   in  <kind> <id> dir=<cg|gc> nnc=<0|1> ncols=<c> start=<s> nle=<l> src <m> {<le> <c coefficients>}* dst <d> {…}* sat <r> <w> {<bits>}*
//   out <kind> <id> ret=<value> src <m> {…}* dst <d> {…}* sat <r> <w> {<bits>}*
// `ret` = returned num_lines_or_equalities (conv), rank (simp), empty flag (mini, addm).
// A call that throws writes `out <kind> <id> exc <class>`.
//
//   c01_conv --seed S --first A --last B [--batch K] [--maxdim D] [--maxrows M]
#include <cstdio>
#include <cstdlib>
#include <cstring>
#include <string>
#include <sstream>
#include <vector>
#include <map>
#include <set>
#include <deque>
#include <list>
#include <algorithm>
#include <limits>
#include <stdexcept>
#include <iostream>
#include <gmpxx.h>
#define private public
#define protected public
#include "ppl.hh"
#undef private
#undef protected
#include "common.hh"
#include "poly_io.hh"

using namespace Parma_Polyhedra_Library;
using namespace pplv_io;
static pplv::Journal J(1);

template <typename Sys>
static void put_sys(OS& o, const Sys& s, dimension_type ncols) {
  o << " " << s.sys.rows.size();
  for (dimension_type i = 0; i < s.sys.rows.size(); ++i) {
    o << " " << (s.sys.rows[i].is_line_or_equality() ? 1 : 0);
    for (dimension_type c = 0; c < ncols; ++c) o << " " << s.sys.rows[i].expr.get(c);
  }
}
static void put_sat(OS& o, const Bit_Matrix& m) {
  o << " sat " << m.num_rows() << " " << m.num_columns();
  for (dimension_type i = 0; i < m.num_rows(); ++i) {
    o << " ";
    if (m.num_columns() == 0) o << "-";
    for (dimension_type j = 0; j < m.num_columns(); ++j) o << (m[i][j] ? '1' : '0');
  }
}
template <typename S, typename D>
static void put_in(const char* kind, long id, bool cg, bool nnc, dimension_type ncols, dimension_type start,
                   dimension_type nle, const S& src, const D& dst, const Bit_Matrix& sat) {
  OS o; o << "in " << kind << " " << id << " dir=" << (cg ? "cg" : "gc") << " nnc=" << (nnc ? 1 : 0) << " ncols=" << ncols
          << " start=" << start << " nle=" << nle << " src"; put_sys(o, src, ncols); o << " dst"; put_sys(o, dst, ncols);
  put_sat(o, sat); J.line(o.str());
}
template <typename S, typename D>
static void put_out(const char* kind, long id, long ret, dimension_type ncols, const S& src, const D& dst, const Bit_Matrix& sat) {
  OS o; o << "out " << kind << " " << id << " ret=" << ret << " src"; put_sys(o, src, ncols); o << " dst"; put_sys(o, dst, ncols);
  put_sat(o, sat); J.line(o.str());
}
static void put_exc(const char* kind, long id) {
  OS o; o << "out " << kind << " " << id << " exc " << pplv::exc_class(); J.line(o.str());
}

// the identity matrix of lines, exactly as Polyhedron::minimize builds it (Polyhedron_minimize_templates.hh:98-123)
template <typename S, typename D>
static dimension_type init_dest(const S& source, D& dest) {
  typedef typename D::row_type dest_row_type;
  dimension_type dest_num_rows = source.topology() == NECESSARILY_CLOSED ? source.space_dimension() + 1 : source.space_dimension() + 2;
  dest.clear();
  dest.set_space_dimension(source.space_dimension());
  for (dimension_type i = 0; i < dest_num_rows; ++i) {
    Linear_Expression expr;
    expr.set_space_dimension(dest_num_rows - 1);
    if (i == 0) expr += 1; else expr += Variable(i - 1);
    dest_row_type dest_i(expr, dest_row_type::LINE_OR_EQUALITY, NECESSARILY_CLOSED);
    if (dest.topology() == NOT_NECESSARILY_CLOSED) dest_i.mark_as_not_necessarily_closed();
    dest.sys.insert_no_ok(dest_i, Recycle_Input());
  }
  dest.set_sorted(false);
  return dest_num_rows;
}

template <typename D>
static bool has_point(const D& dest, dimension_type nle) {
  for (dimension_type i = nle; i < dest.num_rows(); ++i) {
    if (dest.is_necessarily_closed()) { if (dest[i].expr.inhomogeneous_term() > 0) return true; }
    else if (dest[i].expr.get(Variable(dest.space_dimension())) > 0) return true;
  }
  return false;
}

// conv + simp + mini on one source system
template <typename S, typename D>
static void run_static(long id, bool cg, bool nnc, const S& source0, Topology topol) {
  S src = source0;
  const dimension_type ncols = src.space_dimension() + (src.is_necessarily_closed() ? 1U : 2U);
  if (!src.is_sorted()) {
    // --- sort: Linear_System::sort_rows() as the head of minimize calls it
    D none(topol); Bit_Matrix nosat;
    put_in("sort", id, cg, nnc, ncols, 0, 0, src, none, nosat);
    src.sort_rows();
    put_out("sort", id, 0, ncols, src, none, nosat);
  }
  // --- conv
  D dst(topol);
  dimension_type dn = init_dest(src, dst);
  Bit_Matrix tmp_sat(dn, src.num_rows());
  put_in("conv", id, cg, nnc, ncols, 0, dn, src, dst, tmp_sat);
  dimension_type nle = 0;
  bool ok = true;
  try { nle = Polyhedron::conversion(src, 0U, dst, tmp_sat, dn); put_out("conv", id, (long)nle, ncols, src, dst, tmp_sat); }
  catch (...) { put_exc("conv", id); ok = false; }
  // --- simp
  if (ok && has_point(dst, nle)) {
    Bit_Matrix sat;
    sat.transpose_assign(tmp_sat);
    D none(topol);
    put_in("simp", id, cg, nnc, ncols, 0, 0, src, none, sat);
    try { dimension_type rank = Polyhedron::simplify(src, sat); put_out("simp", id, (long)rank, ncols, src, none, sat); }
    catch (...) { put_exc("simp", id); }
  }
  // --- mini: the real driver
  {
    S s2 = source0;                 // as the caller holds it: minimize sorts it itself when the flag is clear
    D d2(topol);
    Bit_Matrix sat2;
    put_in("mini", id, cg, nnc, ncols, s2.is_sorted() ? 1 : 0, 0, s2, d2, sat2);   // `start` carries is_sorted()
    try { bool e = Polyhedron::minimize(cg, s2, d2, sat2); put_out("mini", id, e ? 1 : 0, ncols, s2, d2, sat2); }
    catch (...) { put_exc("mini", id); }
  }
}

static Constraint_System mk_cs(Rng& r, dimension_type n, bool nnc, unsigned maxm, bool big) {
  Constraint_System cs = rnd_cs(r, n, nnc, maxm, big);
  unsigned shape = r.below(12);
  if (shape == 0) {                       // duplicates and multiples of existing rows
    Constraint_System d;
    for (Constraint_System::const_iterator i = cs.begin(); i != cs.end(); ++i) {
      d.insert(*i);
      if (r.chance(1, 2)) d.insert(*i);
      if (r.chance(1, 3) && !i->is_equality()) {
        Linear_Expression e(i->expression()); e *= 2;
        if (i->is_strict_inequality()) d.insert(e > 0); else d.insert(e >= 0);
      }
    }
    return d;
  }
  if (shape == 1 && n > 0) {              // a box with redundant bounds
    for (dimension_type i = 0; i < n; ++i) {
      cs.insert(Variable(i) >= 0); cs.insert(Variable(i) <= 2);
      if (r.chance(1, 2)) cs.insert(Variable(i) <= 3);
    }
    return cs;
  }
  if (shape == 2 && n > 0) {              // inequalities that pair up into equalities
    Linear_Expression e = rnd_expr(r, n, 3, false);
    cs.insert(e >= 0); cs.insert(e <= 0);
    return cs;
  }
  if (shape == 3) {                       // plainly empty
    cs.insert(Linear_Expression(-1) >= 0);
    return cs;
  }
  if (shape == 4) {                       // universe
    Constraint_System u;
    if (n > 0) u.insert(0 * Variable(n - 1) >= -1);
    return u;
  }
  if (shape == 5 && n > 1) {              // sum of rows (a redundant consequence)
    Linear_Expression s; bool any = false; bool all_ineq = true;
    for (Constraint_System::const_iterator i = cs.begin(); i != cs.end(); ++i)
      if (i->is_nonstrict_inequality()) { s += Linear_Expression(i->expression()); any = true; }
    if (any && all_ineq) cs.insert(s >= 0);
    return cs;
  }
  return cs;
}
static Generator_System mk_gs(Rng& r, dimension_type n, bool nnc, unsigned maxm) {
  Generator_System gs = rnd_gs(r, n, nnc, maxm);
  unsigned shape = r.below(10);
  if (shape == 0) {                       // duplicates
    Generator_System d;
    for (Generator_System::const_iterator i = gs.begin(); i != gs.end(); ++i) { d.insert(*i); if (r.chance(1, 2)) d.insert(*i); }
    return d;
  }
  if (shape == 1 && n > 0) {              // the corners of a box and its centre (redundant)
    Generator_System b;
    for (unsigned m = 0; m < (1u << n); ++m) {
      Linear_Expression e; e += 0 * Variable(n - 1);
      for (dimension_type i = 0; i < n; ++i) if (m & (1u << i)) e += 2 * Variable(i);
      b.insert(point(e));
    }
    Linear_Expression c; for (dimension_type i = 0; i < n; ++i) c += Variable(i);
    b.insert(point(c));
    return b;
  }
  if (shape == 2 && n > 0) {              // opposite rays: a line in disguise
    Generator_System d = gs;
    Linear_Expression e; e += 0 * Variable(n - 1); e += Variable(r.below((unsigned)n));
    d.insert(ray(e)); d.insert(ray(-e));
    return d;
  }
  return gs;
}

int main(int argc, char** argv) {
  long seed = pplv::arg_long(argc, argv, "--seed", 1);
  long first = pplv::arg_long(argc, argv, "--first", 0);
  long last = pplv::arg_long(argc, argv, "--last", 100);
  long batch = pplv::arg_long(argc, argv, "--batch", 50);
  long maxdim = pplv::arg_long(argc, argv, "--maxdim", 4);
  long maxrows = pplv::arg_long(argc, argv, "--maxrows", 8);
  long nb = (last - first + batch - 1) / batch;
  return pplv::run_batches(0, nb, [&](long b) {
    for (long id = first + b * batch; id < std::min(last, first + (b + 1) * batch); ++id) {
      Rng r((uint64_t)seed * 1000003ull + (uint64_t)id * 7919ull + 17);
      bool nnc = r.chance(1, 3);
      bool cg = r.chance(2, 3);
      unsigned dk = r.below(10);
      dimension_type n = dk < 1 ? 0 : dk < 3 ? 1 : dk < 6 ? 2 : dk < 9 ? 3 : (dimension_type)std::min(4L, maxdim);
      if ((long)n > maxdim) n = (dimension_type)maxdim;
      bool big = r.chance(1, 20);
      Topology topol = nnc ? NOT_NECESSARILY_CLOSED : NECESSARILY_CLOSED;
      { OS o; o << "case " << id << " dir=" << (cg ? "cg" : "gc") << " nnc=" << nnc << " n=" << n; J.line(o.str()); }
      try {
        if (cg) {
          Constraint_System cs = mk_cs(r, n, nnc, (unsigned)maxrows, big);
          n = cs.space_dimension();       // `0 * Variable(k)` does not fix the dimension: follow the system
          Constraint_System src(topol);
          if (n > 0) {
            Polyhedron* ph = nnc ? (Polyhedron*) new NNC_Polyhedron(cs) : (Polyhedron*) new C_Polyhedron(cs);
            src = ph->con_sys;
            delete ph;
          }
          else {
            // space dimension 0: the polyhedron keeps no rows; build the system as the n > 0 constructor does
            src = cs;
            src.adjust_topology_and_space_dimension(topol, 0);
            if (src.num_pending_rows() > 0) { src.unset_pending_rows(); src.set_sorted(false); }
            src.add_low_level_constraints();
          }
          run_static<Constraint_System, Generator_System>(id, true, nnc, src, topol);
          // --- addm: pending constraints on a minimized pair, prepared as process_pending_constraints does
          if (n > 0) {
            Polyhedron* ph = nnc ? (Polyhedron*) new NNC_Polyhedron(cs) : (Polyhedron*) new C_Polyhedron(cs);
            if (!ph->is_empty()) {
              (void) ph->minimized_generators();
              Constraint_System extra = mk_cs(r, n, nnc, 3, false);
              ph->add_constraints(extra);
              if (ph->has_pending_constraints() && !ph->marked_empty()) {
                Polyhedron& x = *ph;
                if (!x.sat_c_is_up_to_date()) x.sat_c.transpose_assign(x.sat_g);
                if (!x.con_sys.is_sorted()) x.obtain_sorted_constraints_with_sat_c();
                x.con_sys.sort_pending_and_remove_duplicates();
                if (x.con_sys.num_pending_rows() > 0) {
                  Constraint_System s(topol); s.assign_with_pending(x.con_sys); Generator_System d = x.gen_sys; Bit_Matrix sat = x.sat_c;
                  const dimension_type ncols = n + (nnc ? 2U : 1U);
                  put_in("addm", id, true, nnc, ncols, s.first_pending_row(), d.num_lines_or_equalities(), s, d, sat);
                  try { bool e = Polyhedron::add_and_minimize(true, s, d, sat); put_out("addm", id, e ? 1 : 0, ncols, s, d, sat); }
                  catch (...) { put_exc("addm", id); }
                }
              }
            }
            delete ph;
          }
        }
        else {
          Generator_System gs = mk_gs(r, n, nnc, (unsigned)maxrows);
          n = gs.space_dimension();
          Generator_System src(topol);
          if (n > 0) {
            Polyhedron* ph = nnc ? (Polyhedron*) new NNC_Polyhedron(gs) : (Polyhedron*) new C_Polyhedron(gs);
            src = ph->gen_sys;
            delete ph;
          }
          else {
            src = gs;
            src.adjust_topology_and_space_dimension(topol, 0);
            if (nnc) src.add_corresponding_closure_points();
            if (src.num_pending_rows() > 0) { src.unset_pending_rows(); src.set_sorted(false); }
          }
          run_static<Generator_System, Constraint_System>(id, false, nnc, src, topol);
          if (n > 0) {
            Polyhedron* ph = nnc ? (Polyhedron*) new NNC_Polyhedron(gs) : (Polyhedron*) new C_Polyhedron(gs);
            (void) ph->minimized_constraints();
            Generator_System extra = mk_gs(r, n, nnc, 3);
            ph->add_generators(extra);
            if (ph->has_pending_generators() && !ph->marked_empty()) {
              Polyhedron& x = *ph;
              if (!x.sat_g_is_up_to_date()) x.sat_g.transpose_assign(x.sat_c);
              if (!x.gen_sys.is_sorted()) x.obtain_sorted_generators_with_sat_g();
              x.gen_sys.sort_pending_and_remove_duplicates();
              if (x.gen_sys.num_pending_rows() > 0) {
                Generator_System s(topol); s.assign_with_pending(x.gen_sys); Constraint_System d = x.con_sys; Bit_Matrix sat = x.sat_g;
                const dimension_type ncols = n + (nnc ? 2U : 1U);
                put_in("addm", id, false, nnc, ncols, s.first_pending_row(), d.num_lines_or_equalities(), s, d, sat);
                try { bool e = Polyhedron::add_and_minimize(false, s, d, sat); put_out("addm", id, e ? 1 : 0, ncols, s, d, sat); }
                catch (...) { put_exc("addm", id); }
              }
            }
            delete ph;
          }
        }
      }
      catch (...) { OS o; o << "setup-exc " << id << " " << pplv::exc_class(); J.line(o.str()); }
      J.line("end");
    }
  }, 60);
}
