// C06 stage 3 harness: the REAL branch-and-bound tree of MIP_Problem::solve_mip / is_mip_satisfiable,
// journalled node by node.
//
// solve_mip / is_mip_satisfiable are private static functions taking the LP of the node by reference.
// For every node N (an LP object in exactly the state the library passes down: an Inherit_Constraints
// copy of the solved parent plus one add_constraint) and the incumbent state at its entry we
//   1. call the REAL function on an Inherit_Constraints copy of N  -> status + incumbent after the
//      whole subtree of N,
//   2. run the REAL LP machinery (is_lp_satisfiable, second_phase, last_generator; for the
//      satisfiability tree also the real choose_branching_variable) on another copy -> what the node
//      sees,
//   3. build the two children the way the library does and recurse: the left child starts from the
//      entry incumbent, the right child from the incumbent the real call on the left child left.
// The Lean driver (pplv_mip --bb) replays the model on every node with the journalled LP results as
// oracle (each checked against the verified LP reference) and compares status and incumbent exactly.
//
// Journal (in addition to the hist/new/op/obs lines of harness/c06_mip.cc that carry the public
// answers to the existing judges):
//   root <case> <n> <max|min> <m> {<rel> <k> <a>*n}*m ivars <k> <v>*k obj <k> <a>*n
//   bb <case> <id> <parent> <L|R|-> <var> <bound> inc <has> <num> <den> <pt> lp <unfeasible|unbounded <pt>|optimized <pt>>
//        res <unfeasible|unbounded|optimized|timeout> inc <has> <num> <den> <pt>
//   sat <case> <id> <parent> <L|R|-> <var> <bound> lp <0|1 <pt>> br <var|-> res <0|1 <pt>|timeout>
//   top <case> solve <unfeasible|unbounded <pt>|optimized <num> <den> <pt>|timeout>
//   top <case> sat <0|1 <pt>|timeout>
//   extra <case> <rows given> <rows in input_cs>   the object holds branching rows left by is_satisfiable()
//   cut <case> <nodes>          the enumeration stopped at the node limit (ancestors cannot be replayed)
// <pt> = <div> <a_0> … <a_{n-1}>
#include <cstdio>
#include <cstdlib>
#include <cstring>
#include <cstdint>
#include <string>
#include <sstream>
#include <iostream>
#include <fstream>
#include <memory>
#include <vector>
#include <map>
#include <set>
#include <list>
#include <deque>
#include <algorithm>
#include <limits>
#include <stdexcept>
#include <sys/time.h>
#include <gmpxx.h>
#define private public
#define protected public
#include "ppl.hh"
#undef private
#undef protected
#include "common.hh"
#include "poly_io.hh"

using namespace Parma_Polyhedra_Library;
using namespace pplv_io;
using pplv::Rng;

static pplv::Journal J(1);

struct Call_Timeout {};
struct Abandon : public Throwable {
  void throw_me() const { throw Call_Timeout(); }
  int priority() const { return 0; }
};
static Abandon g_abandon;
static long g_call_ms = 300;
static void on_alarm(int) { abandon_expensive_computations = &g_abandon; }
static void arm() {
  abandon_expensive_computations = 0;
  struct itimerval it; memset(&it, 0, sizeof it);
  it.it_value.tv_sec = g_call_ms / 1000; it.it_value.tv_usec = (g_call_ms % 1000) * 1000;
  setitimer(ITIMER_VIRTUAL, &it, 0);
}
static void disarm() {
  struct itimerval it; memset(&it, 0, sizeof it);
  setitimer(ITIMER_VIRTUAL, &it, 0);
  abandon_expensive_computations = 0;
}

static void put_pt(OS& o, const Generator& g, dimension_type n) {
  o << " " << g.divisor();
  for (dimension_type i = 0; i < n; ++i)
    o << " " << (i < g.space_dimension() ? g.coefficient(Variable(i)) : Coefficient(0));
}

struct Data {
  dimension_type dim;
  std::vector<Constraint> cs;
  std::set<dimension_type> ints;
  Linear_Expression obj;
  Optimization_Mode mode;
  Data() : dim(0), mode(MAXIMIZATION) {}
};

static MIP_Problem::Control_Parameter_Value pricing_of(unsigned k) {
  return k == 0 ? MIP_Problem::PRICING_STEEPEST_EDGE_FLOAT
       : k == 1 ? MIP_Problem::PRICING_STEEPEST_EDGE_EXACT : MIP_Problem::PRICING_TEXTBOOK;
}

struct IncState {
  bool has;
  mpq_class val;
  Generator pt;
  IncState() : has(false), val(0), pt(point()) {}
};

static void put_inc(OS& o, const IncState& s, dimension_type n) {
  o << " inc " << (s.has ? 1 : 0) << " " << s.val.get_num() << " " << s.val.get_den();
  put_pt(o, s.pt, n);
}

static bool non_integral(const Generator& p, dimension_type v) {
  Coefficient g;
  Coefficient c = v < p.space_dimension() ? p.coefficient(Variable(v)) : Coefficient(0);
  gcd_assign(g, c, p.divisor());
  return g != p.divisor();
}

static void floor_ceil(const Generator& p, dimension_type v, Coefficient& f, Coefficient& c) {
  mpq_class q;
  q.get_num() = v < p.space_dimension() ? p.coefficient(Variable(v)) : Coefficient(0);
  q.get_den() = p.divisor();
  q.canonicalize();
  mpz_fdiv_q(f.get_mpz_t(), q.get_num().get_mpz_t(), q.get_den().get_mpz_t());
  mpz_cdiv_q(c.get_mpz_t(), q.get_num().get_mpz_t(), q.get_den().get_mpz_t());
}

struct Tree {
  long cs_id;
  dimension_type n;
  Variables_Set ivars;
  long next_id;
  long max_nodes;
  long max_depth;
  bool cut;
  Tree() : next_id(0), max_nodes(60), max_depth(14), cut(false) {}

  // ---- solve_mip ------------------------------------------------------------------------------
  // `M` is the object handed to solve_mip; returns the incumbent the REAL call left (or entry on timeout)
  IncState bb_node(MIP_Problem& M, long parent, char side, dimension_type var, const Coefficient& bound,
                   const IncState& entry, int depth, bool& timed_out, bool* unbounded = 0) {
    long id = next_id++;
    OS o; o << "bb " << cs_id << " " << id << " " << parent << " " << side << " " << var << " " << bound;
    put_inc(o, entry, n);
    // 2. what the node sees
    MIP_Problem C2(M, MIP_Problem::Inherit_Constraints());
    int lp = 0;   // 0 unfeasible 1 unbounded 2 optimized
    Generator p = point();
    arm();
    try {
      if (C2.is_lp_satisfiable()) {
        C2.second_phase();
        lp = (C2.status == MIP_Problem::OPTIMIZED) ? 2 : 1;
        p = C2.last_generator;
      }
    } catch (const Call_Timeout&) { disarm(); timed_out = true; o << " lp timeout"; J.line(o.str()); return entry; }
    disarm();
    o << " lp " << (lp == 0 ? "unfeasible" : lp == 1 ? "unbounded" : "optimized");
    if (lp) put_pt(o, p, n);
    // 1. the real subtree
    IncState out = entry;
    MIP_Problem_Status st = UNFEASIBLE_MIP_PROBLEM;
    {
      MIP_Problem C1(M, MIP_Problem::Inherit_Constraints());
      arm();
      try {
        st = MIP_Problem::solve_mip(out.has, out.val, out.pt, C1, ivars);
      } catch (const Call_Timeout&) { disarm(); timed_out = true; o << " res timeout"; J.line(o.str()); return entry; }
      disarm();
    }
    o << " res " << (st == UNFEASIBLE_MIP_PROBLEM ? "unfeasible" : st == UNBOUNDED_MIP_PROBLEM ? "unbounded" : "optimized");
    put_inc(o, out, n);
    J.line(o.str());
    if (unbounded) *unbounded = (st == UNBOUNDED_MIP_PROBLEM);
    // 3. the children
    if (lp == 0) return out;
    dimension_type br = n; bool all_int = true;
    for (Variables_Set::const_iterator v = ivars.begin(); v != ivars.end(); ++v)
      if (non_integral(p, *v)) { br = *v; all_int = false; break; }
    if (all_int) return out;
    if (depth >= max_depth || next_id + 2 > max_nodes) { cut = true; return out; }
    Coefficient f, c; floor_ceil(p, br, f, c);
    IncState mid;
    {
      MIP_Problem aux(C2, MIP_Problem::Inherit_Constraints());
      aux.add_constraint(Variable(br) <= f);
      bool left_unbounded = false;
      mid = bb_node(aux, id, 'L', br, f, entry, depth + 1, timed_out, &left_unbounded);
      if (timed_out) return out;
      // the library returns at once (MIP_Problem.cc:2163); the incumbent state is stale then
      if (left_unbounded) return out;
    }
    C2.add_constraint(Variable(br) >= c);
    bb_node(C2, id, 'R', br, c, mid, depth + 1, timed_out);
    return out;
  }

  // ---- is_mip_satisfiable ---------------------------------------------------------------------
  void sat_node(MIP_Problem& M, long parent, char side, dimension_type var, const Coefficient& bound,
                int depth, bool& timed_out) {
    long id = next_id++;
    OS o; o << "sat " << cs_id << " " << id << " " << parent << " " << side << " " << var << " " << bound;
    MIP_Problem C2(M, MIP_Problem::Inherit_Constraints());
    bool lp = false; Generator p = point();
    arm();
    try { lp = C2.is_lp_satisfiable(); if (lp) p = C2.last_generator; }
    catch (const Call_Timeout&) { disarm(); timed_out = true; o << " lp timeout"; J.line(o.str()); return; }
    disarm();
    o << " lp " << (lp ? 1 : 0); if (lp) put_pt(o, p, n);
    dimension_type br = n; bool all_int = true;
    if (lp) all_int = MIP_Problem::choose_branching_variable(C2, ivars, br);
    o << " br "; if (lp && !all_int) o << br; else o << "-";
    {
      MIP_Problem C1(M, MIP_Problem::Inherit_Constraints());
      Generator q = point(); bool r = false;
      arm();
      try { r = MIP_Problem::is_mip_satisfiable(C1, ivars, q); }
      catch (const Call_Timeout&) { disarm(); timed_out = true; o << " res timeout"; J.line(o.str()); return; }
      disarm();
      o << " res " << (r ? 1 : 0); if (r) put_pt(o, q, n);
    }
    J.line(o.str());
    if (!lp || all_int) return;
    if (depth >= max_depth || next_id + 2 > max_nodes) { cut = true; return; }
    Coefficient f, c; floor_ceil(p, br, f, c);
    {
      MIP_Problem aux(C2, MIP_Problem::Inherit_Constraints());
      aux.add_constraint(Variable(br) <= f);
      sat_node(aux, id, 'L', br, f, depth + 1, timed_out);
      if (timed_out) return;
    }
    C2.add_constraint(Variable(br) >= c);
    sat_node(C2, id, 'R', br, c, depth + 1, timed_out);
  }
};

// ---- instance generator ------------------------------------------------------------------------
struct Gen {
  Rng r;
  Data d;
  std::unique_ptr<MIP_Problem> p;
  long cs_id;
  unsigned family;
  Gen(uint64_t seed) : r(seed) {}

  void add_con(const Constraint& c) {
    OS o; o << "op 0 add_con"; put_con(o, c, d.dim); J.line(o.str());
    p->add_constraint(c); d.cs.push_back(c);
  }
  void set_obj(const Linear_Expression& e) {
    OS o; o << "op 0 set_obj"; put_expr(o, e, d.dim); J.line(o.str());
    p->set_objective_function(e); d.obj = e;
  }
  void set_mode(bool mx) {
    OS o; o << "op 0 set_mode " << (mx ? "max" : "min"); J.line(o.str());
    p->set_optimization_mode(mx ? MAXIMIZATION : MINIMIZATION); d.mode = mx ? MAXIMIZATION : MINIMIZATION;
  }
  void add_ints(const std::set<dimension_type>& vs) {
    Variables_Set V;
    OS o; o << "op 0 add_ints " << vs.size();
    for (std::set<dimension_type>::const_iterator i = vs.begin(); i != vs.end(); ++i) { o << " " << *i; V.insert(Variable(*i)); }
    J.line(o.str());
    p->add_to_integer_space_dimensions(V); d.ints.insert(vs.begin(), vs.end());
  }
  Linear_Expression gen_obj() {
    Linear_Expression e; e += 0 * Variable(d.dim - 1);
    for (dimension_type i = 0; i < d.dim; ++i) e += Coefficient(r.chance(1, 6) ? 0 : r.range(-4, 4)) * Variable(i);
    if (r.chance(1, 3)) e += r.range(-3, 3);
    return e;
  }
  std::vector<long> hidden;       // a hidden integral point most rows are built around (keeps the trees alive)
  Constraint gen_row() {
    dimension_type n = d.dim;
    unsigned k = r.below(100);
    if (k < 12 && !d.cs.empty()) {     // parallel / duplicate / opposite rows: degenerate vertices, ties
      const Constraint& c = d.cs[r.below(d.cs.size())];
      Linear_Expression e; e += 0 * Variable(n - 1);
      for (dimension_type i = 0; i < c.space_dimension(); ++i) e += c.coefficient(Variable(i)) * Variable(i);
      Coefficient b = c.inhomogeneous_term();
      unsigned t = r.below(3);
      if (t == 0) return e + b >= 0;
      if (t == 1) return 2 * e + 2 * b + r.range(0, 1) >= 0;
      return -e - b + r.range(0, 3) >= 0;
    }
    Linear_Expression e; e += 0 * Variable(n - 1);
    long s = 0;
    for (dimension_type i = 0; i < n; ++i) {
      long a = r.chance(1, 5) ? 0 : r.range(-4, 4);
      e += Coefficient(a) * Variable(i); s += a * hidden[i];
    }
    bool around = !r.chance(1, 6);          // the row holds at the hidden point
    long m = r.chance(1, 3) ? 1 : r.range(2, 3);
    unsigned t = r.below(20);
    bool eqheavy = family == 2;
    if (t < (eqheavy ? 8u : 2u)) {
      // equality through the hidden point, or (eq-heavy) m*e = m*s + 1: no integral point on it
      if (eqheavy && r.chance(1, 3)) return 2 * e == 2 * s + 1;
      return e == (around ? s : s + r.range(-2, 2));
    }
    long slack = around ? r.range(0, 3) : r.range(-4, 1);
    long frac = m > 1 ? r.range(0, m - 1) : 0;
    if (t < 11) return m * e <= m * (s + slack) + frac;       //  e <= s + slack + frac/m
    return m * e >= m * (s - slack) - frac;
  }

  // max c.x  s.t.  a.x <= b (one or two rows), 0 <= x (<= u), all integer (or one continuous): deep trees,
  // pruning and incumbent updates
  void knapsack(dimension_type n) {
    d = Data(); d.dim = n;
    { OS o; o << "new 0 " << n; J.line(o.str()); }
    p.reset(new MIP_Problem(n));
    unsigned pr = r.below(3);
    { OS o; o << "op 0 set_pricing " << pr; J.line(o.str()); }
    p->set_control_parameter(pricing_of(pr));
    hidden.assign(n, 0);
    std::set<dimension_type> vs;
    for (dimension_type i = 0; i < n; ++i) if (!r.chance(1, 6)) vs.insert(i);
    if (vs.empty()) vs.insert(0);
    for (dimension_type i = 0; i < n; ++i) {
      add_con(Variable(i) >= 0);
      if (r.chance(2, 3)) add_con(Variable(i) <= r.range(1, 6));
    }
    unsigned rows = 1 + r.below(2);
    for (unsigned k = 0; k < rows; ++k) {
      Linear_Expression e; e += 0 * Variable(n - 1);
      for (dimension_type i = 0; i < n; ++i) e += Coefficient(r.range(2, 7)) * Variable(i);
      if (r.chance(1, 5)) add_con(e == r.range(5, 20)); else add_con(e <= r.range(5, 20));
    }
    Linear_Expression c; c += 0 * Variable(n - 1);
    for (dimension_type i = 0; i < n; ++i) c += Coefficient(r.range(1, 9)) * Variable(i);
    set_obj(c);
    bool mx = !r.chance(1, 5);
    set_mode(mx);
    if (r.chance(1, 4)) observe(1);
    add_ints(vs);
    if (r.chance(1, 4)) { observe(0); Linear_Expression c2; c2 += 0 * Variable(n - 1);
      for (dimension_type i = 0; i < n; ++i) c2 += Coefficient(r.range(-3, 9)) * Variable(i);
      set_obj(c2); }
  }

  void build() {
    family = r.below(8);      // 7: integer variables first, is_satisfiable() in the middle (it leaves branch rows in the object), then more rows / new objective; 0 boxed, 1 half-open boxes, 2 equality-heavy boxed, 3 degenerate, 4 objective changes, 5 tiny parity, 6 knapsack
    dimension_type n = r.chance(1, 6) ? 1 : r.chance(3, 5) ? 2 : 3;
    if (family == 5) n = 1 + r.below(2);
    if (family == 6) { knapsack(2 + r.below(2)); return; }
    d = Data(); d.dim = n;
    { OS o; o << "new 0 " << n; J.line(o.str()); }
    p.reset(new MIP_Problem(n));
    unsigned pr = r.below(3);
    { OS o; o << "op 0 set_pricing " << pr; J.line(o.str()); }
    p->set_control_parameter(pricing_of(pr));
    // integer variables: all, or a random non-empty subset
    std::set<dimension_type> vs;
    if (r.chance(1, 2)) for (dimension_type i = 0; i < n; ++i) vs.insert(i);
    else { for (dimension_type i = 0; i < n; ++i) if (r.chance(1, 2)) vs.insert(i); if (vs.empty()) vs.insert(r.below(n)); }
    bool ints_first = family == 7 || r.chance(1, 3);
    if (ints_first) add_ints(vs);
    // boxes
    hidden.assign(n, 0);
    for (dimension_type i = 0; i < n; ++i) {
      bool isint = vs.count(i) != 0;
      long lo = r.range(-3, 1), hi = lo + r.range(0, 5);
      hidden[i] = r.range(lo, hi);
      unsigned open = 0;   // 1: no upper bound, 2: no lower bound, 3: none
      if (family == 1 && r.chance(1, 2)) open = 1 + r.below(3);
      if (!isint && r.chance(1, 3)) open = 1 + r.below(3);
      long m = r.chance(2, 5) ? 2 : 1;     // 2x >= odd: fractional bounds
      if (!(open & 2)) add_con(m * Variable(i) >= (m == 2 ? 2 * lo - (long)r.below(2) : lo));
      if (!(open & 1)) add_con(m * Variable(i) <= (m == 2 ? 2 * hi + (long)r.below(2) : hi));
    }
    if (family == 5) {
      // 2x = 1 / 2x + 2y = 1 / 2x - 2y = 1 / 3x + 3y = 1 : feasible relaxation, no integral point
      Linear_Expression e; e += 0 * Variable(n - 1);
      long m = 2 + r.below(2);
      for (dimension_type i = 0; i < n; ++i) e += Coefficient(m * (r.chance(1, 4) ? -1 : 1)) * Variable(i);
      add_con(e == (r.chance(3, 4) ? 1 : m));
    }
    unsigned rows = family == 5 ? r.below(2) : 2 + r.below(5);
    unsigned half = rows / 2;
    std::vector<Constraint> rs;
    { Data tmp = d; for (unsigned i = 0; i < rows; ++i) { Constraint c = gen_row(); rs.push_back(c); } }
    for (unsigned i = 0; i < half; ++i) add_con(rs[i]);
    set_obj(gen_obj());
    set_mode(r.chance(1, 2));
    if (family == 7) observe(1);
    else if (family == 4 || r.chance(1, 4)) {
      // an intermediate solve: the later constraints / objective are processed incrementally
      observe(r.chance(2, 3) ? 0 : 1);
    }
    for (unsigned i = half; i < rows; ++i) add_con(rs[i]);
    if (!ints_first) add_ints(vs);
    if (family == 4 || family == 7) {
      if (r.chance(1, 2)) observe(0);
      if (r.chance(2, 3)) set_obj(gen_obj());
      if (r.chance(1, 2)) set_mode(r.chance(1, 2));
    }
  }

  // public answer in the grammar of harness/c06_mip.cc (judged by the existing driver)
  bool observe(int kind) {
    OS o; o << "obs 0 " << (kind == 0 ? "solve" : "sat");
    bool to = false;
    arm();
    try {
      if (kind == 0) {
        MIP_Problem_Status st = p->solve();
        if (st == UNFEASIBLE_MIP_PROBLEM) o << " unfeasible";
        else if (st == UNBOUNDED_MIP_PROBLEM) { o << " unbounded fp"; put_pt(o, p->feasible_point(), d.dim); }
        else {
          Coefficient num, den; p->optimal_value(num, den);
          o << " optimized val " << num << " " << den << " pt";
          const Generator& g = p->optimizing_point(); put_pt(o, g, d.dim);
          Coefficient en, ed; p->evaluate_objective_function(g, en, ed);
          o << " ev " << en << " " << ed;
        }
      } else {
        if (p->is_satisfiable()) { o << " 1 fp"; put_pt(o, p->feasible_point(), d.dim); }
        else o << " 0";
      }
    } catch (const Call_Timeout&) { to = true; }
    disarm();
    if (to) { OS t; t << "obs 0 " << (kind == 0 ? "solve" : "sat") << " timeout"; J.line(t.str()); return false; }
    J.line(o.str());
    return true;
  }

  // the data of the object ITSELF (input_cs, i_variables): is_satisfiable() runs is_mip_satisfiable on the
  // object and leaves the right-branch rows `x_i >= ceil` in input_cs (MIP_Problem.cc:285, :2345)
  void root_line() {
    OS o; o << "root " << cs_id << " " << d.dim << " " << (p->opt_mode == MAXIMIZATION ? "max" : "min") << " " << p->input_cs.size();
    for (size_t i = 0; i < p->input_cs.size(); ++i) put_con(o, *(p->input_cs[i]), d.dim);
    o << " ivars " << p->i_variables.size();
    for (Variables_Set::const_iterator i = p->i_variables.begin(); i != p->i_variables.end(); ++i) o << " " << *i;
    o << " obj"; put_expr(o, p->input_obj_function, d.dim);
    J.line(o.str());
    if (p->input_cs.size() != d.cs.size()) {
      OS q; q << "extra " << cs_id << " " << d.cs.size() << " " << p->input_cs.size(); J.line(q.str());
    }
  }

  // the two trees, each from an Inherit_Constraints copy of the object in its current state
  void trees(long max_nodes) {
    root_line();
    Variables_Set iv;
    for (std::set<dimension_type>::const_iterator i = d.ints.begin(); i != d.ints.end(); ++i) iv.insert(Variable(*i));
    // --- solve(): relax, is_lp_satisfiable + second_phase, lp_copy, solve_mip (MIP_Problem.cc:332)
    if (p->status == MIP_Problem::SATISFIABLE || p->status == MIP_Problem::PARTIALLY_SATISFIABLE) {
      MIP_Problem x(*p, MIP_Problem::Inherit_Constraints());
      x.i_variables.clear();
      bool sat = false, to = false;
      arm();
      try { sat = x.is_lp_satisfiable(); if (sat) x.second_phase(); }
      catch (const Call_Timeout&) { to = true; }
      disarm();
      if (!to) {
        Tree T; T.cs_id = cs_id; T.n = d.dim; T.ivars = iv; T.max_nodes = max_nodes;
        if (sat) {
          MIP_Problem lp_copy(x, MIP_Problem::Inherit_Constraints());
          IncState e; bool t2 = false;
          T.bb_node(lp_copy, -1, '-', 0, Coefficient(0), e, 0, t2);
        } else {
          OS o; o << "bb " << cs_id << " 0 -1 - 0 0"; IncState e; put_inc(o, e, d.dim);
          o << " lp unfeasible res unfeasible"; put_inc(o, e, d.dim); J.line(o.str());
        }
        if (T.cut) { OS o; o << "cut " << cs_id << " " << T.next_id; J.line(o.str()); }
      }
    }
    // --- is_satisfiable(): relax, is_lp_satisfiable, is_mip_satisfiable (MIP_Problem.cc:276)
    if (p->status == MIP_Problem::PARTIALLY_SATISFIABLE) {
      MIP_Problem x(*p, MIP_Problem::Inherit_Constraints());
      x.i_variables.clear();
      bool to = false;
      arm();
      try { x.is_lp_satisfiable(); }
      catch (const Call_Timeout&) { to = true; }
      disarm();
      if (!to) {
        Tree T; T.cs_id = cs_id; T.n = d.dim; T.ivars = iv; T.max_nodes = max_nodes;
        bool t2 = false;
        T.sat_node(x, -1, '-', 0, Coefficient(0), 0, t2);
        if (T.cut) { OS o; o << "cut " << cs_id << " " << T.next_id; J.line(o.str()); }
      }
    }
    // --- the public answers on the same state
    {
      MIP_Problem q(*p, MIP_Problem::Inherit_Constraints());
      OS o; o << "top " << cs_id << " solve";
      bool to = false;
      arm();
      try {
        MIP_Problem_Status st = q.solve();
        if (st == UNFEASIBLE_MIP_PROBLEM) o << " unfeasible";
        else if (st == UNBOUNDED_MIP_PROBLEM) { o << " unbounded"; put_pt(o, q.feasible_point(), d.dim); }
        else { Coefficient num, den; q.optimal_value(num, den); o << " optimized " << num << " " << den; put_pt(o, q.optimizing_point(), d.dim); }
      } catch (const Call_Timeout&) { to = true; }
      disarm();
      if (to) { OS t; t << "top " << cs_id << " solve timeout"; J.line(t.str()); } else J.line(o.str());
    }
    {
      MIP_Problem q(*p, MIP_Problem::Inherit_Constraints());
      OS o; o << "top " << cs_id << " sat";
      bool to = false;
      arm();
      try { if (q.is_satisfiable()) { o << " 1"; put_pt(o, q.feasible_point(), d.dim); } else o << " 0"; }
      catch (const Call_Timeout&) { to = true; }
      disarm();
      if (to) { OS t; t << "top " << cs_id << " sat timeout"; J.line(t.str()); } else J.line(o.str());
    }
  }
};

static void run_case(long h, long seed, long max_nodes) {
  Gen G(Rng((uint64_t)seed * 1000003ull + (uint64_t)h).next() ^ 0x6a09e667u);
  G.cs_id = h;
  { OS o; o << "hist " << h << " " << seed; J.line(o.str()); }
  try {
    G.build();
    G.trees(max_nodes);
    // the public answer through the existing judges (and its fresh twin is built by the old harness only)
    G.observe(0);
  } catch (const Call_Timeout&) {
    disarm(); J.line("exc timeout-outside-observer");
  } catch (...) {
    disarm(); J.line("exc " + pplv::exc_class() + " bb");
  }
  J.line("end 0");
}

// ---- replay: one root line (+ optional history) ----------------------------------------------------
static Constraint parse_con(std::istringstream& in, dimension_type n) {
  std::string rel; in >> rel; Coefficient k; in >> k;
  Linear_Expression e; if (n > 0) e += 0 * Variable(n - 1);
  for (dimension_type i = 0; i < n; ++i) { Coefficient a; in >> a; e += a * Variable(i); }
  e += k;
  if (rel == "=") return e == 0;
  return e >= 0;
}
static int replay(const char* path, long max_nodes) {
  std::ifstream f(path); std::string line;
  while (std::getline(f, line)) {
    std::istringstream in(line); std::string w; in >> w;
    if (w != "root") continue;
    Gen G(1); long id; dimension_type n; std::string mode; size_t m;
    in >> id >> n >> mode >> m;
    G.cs_id = id; G.d.dim = n; G.p.reset(new MIP_Problem(n));
    { OS o; o << "hist " << id << " 0"; J.line(o.str()); }
    { OS o; o << "new 0 " << n; J.line(o.str()); }
    for (size_t i = 0; i < m; ++i) G.add_con(parse_con(in, n));
    std::string tok; in >> tok; size_t k; in >> k; std::set<dimension_type> vs;
    for (size_t i = 0; i < k; ++i) { dimension_type v; in >> v; vs.insert(v); }
    if (!vs.empty()) G.add_ints(vs);
    in >> tok; Coefficient c0; in >> c0; Linear_Expression e; if (n > 0) e += 0 * Variable(n - 1);
    for (dimension_type i = 0; i < n; ++i) { Coefficient a; in >> a; e += a * Variable(i); }
    e += c0; G.set_obj(e); G.set_mode(mode == "max");
    G.trees(max_nodes);
    G.observe(0);
    J.line("end 0");
  }
  return 0;
}

int main(int argc, char** argv) {
  long seed = pplv::arg_long(argc, argv, "--seed", 1);
  long first = pplv::arg_long(argc, argv, "--first", 0);
  long last = pplv::arg_long(argc, argv, "--last", 10);
  long batch = pplv::arg_long(argc, argv, "--batch", 20);
  long max_nodes = pplv::arg_long(argc, argv, "--max-nodes", 60);
  g_call_ms = pplv::arg_long(argc, argv, "--call-ms", 300);
  const char* rp = pplv::arg_str(argc, argv, "--replay", "");
  struct sigaction sa; memset(&sa, 0, sizeof sa); sa.sa_handler = on_alarm; sigaction(SIGVTALRM, &sa, 0);
  if (*rp) return pplv::run_batches(0, 1, [&](long) { replay(rp, max_nodes); }, 60);
  long nb = (last - first + batch - 1) / batch;
  return pplv::run_batches(0, nb, [&](long b) {
    for (long h = first + b * batch; h < std::min(last, first + (b + 1) * batch); ++h) run_case(h, seed, max_nodes);
  }, 120);
}
