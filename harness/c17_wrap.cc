// C17 harness: wrap_assign / drop_some_non_integer_points / contains_integer_point on every
// simple domain, arguments and results journalled as constraint (and congruence) systems.
//
//   c17_wrap --seed S --first A --last B --cases K      seeded batches A..B-1, K cases each (forked)
//   c17_wrap --replay                                     case descriptions on stdin, one per line
//   c17_wrap --gridwrap --seed S --first A --last B --cases K   only Grid::wrap_assign cases (journal lines `gwrap`,
//                                                         judged by lean/Driver/GridWrap.lean, checks/c17_grid.py)
//
// A case DESCRIPTION (everything the real library is called with):
//   W <dom> <n> <nv> <v>*nv <w> <u|s> <w|u|i> <g:0|1> [<cs n>] <thr> <ind:0|1> <elem n>
//   D <dom> <n> <hasvars:0|1> [<nv> <v>*nv] <P|S|A> <elem n>
//   Q <dom> <n> <elem n>
//   elem  := <ndisj> ( c <cs n> <cgs n> | g <gs n> | G <ggs n> )*   how each disjunct is built
//   ggs   := <m> ( <l|q|p> <divisor> <a_0..a_{n-1}> )*     grid generators (line, parameter, point); Grid only
//   <g> = 2 : a guard of space dimension n+1 (Variable(n) >= 0), to exercise the dimension check of *cs_p
//   cgs   := <m> ( <modulus> <k> <a_0..a_{n-1}> )*         sum a_i x_i + k == 0 (mod modulus); 0: equality
//   cs/gs := the encodings of poly_io.hh
// JOURNAL line:  <wrap|drop|cip> <id> <description> | A <out-elem> | R <out-elem | answer> [| X <exception>]
//   out-elem := <ndisj> ( <cs n> <cgs n> )*    read back from the real objects (constraints()/congruences())
#include "ppl.hh"
#include "interfaced_boxes.hh"
#include "common.hh"
#include "poly_io.hh"
#include <iostream>
#include <memory>

using namespace Parma_Polyhedra_Library;
using namespace pplv_io;
using pplv::Rng;

static pplv::Journal J(1);

// ---------------------------------------------------------------------------- description data
struct Cg { Coefficient m, k; std::vector<Coefficient> a; };
struct GGen { char kind; Coefficient d; std::vector<Coefficient> a; };
struct Disj {
  char mode;                       // 'c', 'g' or 'G'
  Constraint_System cs;
  std::vector<Cg> cgs;
  Generator_System gs;
  std::vector<GGen> ggs;
};
struct Elem { std::vector<Disj> ds; };
struct Case {
  char kind;                       // W D Q
  std::string dom;
  dimension_type n;
  bool hasvars;
  std::vector<dimension_type> vars;
  unsigned w; char r, o;
  bool hasguard; Constraint_System guard; bool bigguard;
  unsigned thr; bool ind;
  char cc;
  Elem arg;
};

// ---------------------------------------------------------------------------- printing
static void put_cg_vec(OS& o, const std::vector<Cg>& v) {
  o << " " << v.size();
  for (size_t i = 0; i < v.size(); ++i) {
    o << " " << v[i].m << " " << v[i].k;
    for (size_t j = 0; j < v[i].a.size(); ++j) o << " " << v[i].a[j];
  }
}
static void put_cgs(OS& o, const Congruence_System& cgs, dimension_type n) {
  dimension_type m = 0;
  for (Congruence_System::const_iterator i = cgs.begin(); i != cgs.end(); ++i) ++m;
  o << " " << m;
  for (Congruence_System::const_iterator i = cgs.begin(); i != cgs.end(); ++i) {
    o << " " << i->modulus() << " " << i->inhomogeneous_term();
    for (dimension_type j = 0; j < n; ++j)
      o << " " << (j < i->space_dimension() ? i->coefficient(Variable(j)) : Coefficient(0));
  }
}
static void put_elem_desc(OS& o, const Elem& e, dimension_type n) {
  o << " " << e.ds.size();
  for (size_t i = 0; i < e.ds.size(); ++i) {
    const Disj& d = e.ds[i];
    if (d.mode == 'g') { o << " g"; put_gs(o, d.gs, n); }
    else if (d.mode == 'G') {
      o << " G " << d.ggs.size();
      for (size_t j = 0; j < d.ggs.size(); ++j) {
        o << " " << d.ggs[j].kind << " " << d.ggs[j].d;
        for (size_t q = 0; q < d.ggs[j].a.size(); ++q) o << " " << d.ggs[j].a[q];
      }
    }
    else { o << " c"; put_cs(o, d.cs, n); put_cg_vec(o, d.cgs); }
  }
}
static std::string describe(const Case& c) {
  OS o;
  o << c.kind << " " << c.dom << " " << c.n;
  if (c.kind == 'W') {
    o << " " << c.vars.size();
    for (size_t i = 0; i < c.vars.size(); ++i) o << " " << c.vars[i];
    o << " " << c.w << " " << c.r << " " << c.o << " " << (c.bigguard ? 2 : c.hasguard ? 1 : 0);
    if (c.hasguard && !c.bigguard) put_cs(o, c.guard, c.n);
    o << " " << c.thr << " " << (c.ind ? 1 : 0);
  } else if (c.kind == 'D') {
    o << " " << (c.hasvars ? 1 : 0);
    if (c.hasvars) { o << " " << c.vars.size(); for (size_t i = 0; i < c.vars.size(); ++i) o << " " << c.vars[i]; }
    o << " " << c.cc;
  }
  put_elem_desc(o, c.arg, c.n);
  return o.str();
}

// ---------------------------------------------------------------------------- parsing
struct Toks {
  std::vector<std::string> t; size_t p;
  explicit Toks(const std::string& s) : p(0) { std::istringstream is(s); std::string x; while (is >> x) t.push_back(x); }
  bool more() const { return p < t.size(); }
  std::string next() { if (p >= t.size()) throw std::runtime_error("description too short"); return t[p++]; }
  Coefficient coef() { Coefficient c; std::istringstream is(next()); is >> c; return c; }
  unsigned long num() { return strtoul(next().c_str(), 0, 10); }
};
static Linear_Expression parse_lin(Toks& T, dimension_type n, Coefficient& k) {
  k = T.coef();
  Linear_Expression e;
  if (n > 0) e += 0 * Variable(n - 1);
  for (dimension_type i = 0; i < n; ++i) { Coefficient a = T.coef(); e += a * Variable(i); }
  return e;
}
static Constraint_System parse_cs(Toks& T, dimension_type n) {
  Constraint_System cs;
  unsigned long m = T.num();
  for (unsigned long i = 0; i < m; ++i) {
    std::string rel = T.next(); Coefficient k;
    Linear_Expression e = parse_lin(T, n, k); e += k;
    if (rel == "=") cs.insert(e == 0); else if (rel == ">") cs.insert(e > 0); else cs.insert(e >= 0);
  }
  return cs;
}
static Generator_System parse_gs(Toks& T, dimension_type n) {
  Generator_System gs;
  unsigned long m = T.num();
  for (unsigned long i = 0; i < m; ++i) {
    std::string kd = T.next(); Coefficient d = T.coef();
    Linear_Expression e;
    if (n > 0) e += 0 * Variable(n - 1);
    for (dimension_type j = 0; j < n; ++j) { Coefficient a = T.coef(); e += a * Variable(j); }
    if (kd == "l") gs.insert(line(e)); else if (kd == "r") gs.insert(ray(e));
    else if (kd == "p") gs.insert(point(e, d)); else gs.insert(closure_point(e, d));
  }
  return gs;
}
static Elem parse_elem(Toks& T, dimension_type n) {
  Elem e; unsigned long nd = T.num();
  for (unsigned long i = 0; i < nd; ++i) {
    Disj d; d.mode = T.next()[0];
    if (d.mode == 'g') d.gs = parse_gs(T, n);
    else if (d.mode == 'G') {
      unsigned long m = T.num();
      for (unsigned long j = 0; j < m; ++j) {
        GGen g; g.kind = T.next()[0]; g.d = T.coef();
        for (dimension_type q = 0; q < n; ++q) g.a.push_back(T.coef());
        d.ggs.push_back(g);
      }
    }
    else {
      d.cs = parse_cs(T, n);
      unsigned long m = T.num();
      for (unsigned long j = 0; j < m; ++j) {
        Cg g; g.m = T.coef(); g.k = T.coef();
        for (dimension_type q = 0; q < n; ++q) g.a.push_back(T.coef());
        d.cgs.push_back(g);
      }
    }
    e.ds.push_back(d);
  }
  return e;
}
static Case parse_case(const std::string& line) {
  Toks T(line); Case c;
  c.kind = T.next()[0]; c.dom = T.next(); c.n = T.num();
  c.hasvars = false; c.hasguard = false; c.bigguard = false; c.w = 8; c.r = 'u'; c.o = 'w'; c.thr = 16; c.ind = false; c.cc = 'A';
  if (c.kind == 'W') {
    unsigned long nv = T.num(); c.hasvars = true;
    for (unsigned long i = 0; i < nv; ++i) c.vars.push_back(T.num());
    c.w = T.num(); c.r = T.next()[0]; c.o = T.next()[0];
    unsigned long gflag = T.num();
    c.hasguard = gflag != 0; c.bigguard = gflag == 2;
    if (c.bigguard) c.guard.insert(Variable(c.n) >= 0);
    else if (c.hasguard) c.guard = parse_cs(T, c.n);
    c.thr = T.num(); c.ind = T.num() != 0;
  } else if (c.kind == 'D') {
    c.hasvars = T.num() != 0;
    if (c.hasvars) { unsigned long nv = T.num(); for (unsigned long i = 0; i < nv; ++i) c.vars.push_back(T.num()); }
    c.cc = T.next()[0];
  }
  c.arg = parse_elem(T, c.n);
  return c;
}

// ---------------------------------------------------------------------------- building / reading elements
static Congruence_System to_cgs(const std::vector<Cg>& v, dimension_type n) {
  Congruence_System cgs(n);
  for (size_t i = 0; i < v.size(); ++i) {
    Linear_Expression e;
    if (n > 0) e += 0 * Variable(n - 1);
    for (dimension_type j = 0; j < n; ++j) e += v[i].a[j] * Variable(j);
    e += v[i].k;
    cgs.insert((e %= 0) / v[i].m);
  }
  return cgs;
}

template <typename D> struct Ops {       // constraint-based simple domains
  static D build(const Disj& d, dimension_type n) {
    D x(n, UNIVERSE);
    x.refine_with_constraints(d.cs);
    return x;
  }
  static void put(OS& o, const D& x, dimension_type n) {
    o << " 1"; put_cs(o, x.constraints(), n); o << " 0";
  }
  static D build_elem(const Elem& e, dimension_type n) { return build(e.ds.at(0), n); }
};
template <typename P> static P build_poly(const Disj& d, dimension_type n) {
  if (d.mode == 'g') {
    P x(d.gs);
    if (x.space_dimension() < n) x.add_space_dimensions_and_embed(n - x.space_dimension());
    return x;
  }
  P x(n, UNIVERSE);
  x.add_constraints(d.cs);           // NNC keeps strict rows; a C polyhedron gets none (see generator)
  return x;
}
template <> struct Ops<C_Polyhedron> {
  typedef C_Polyhedron D;
  static D build(const Disj& d, dimension_type n) { return build_poly<D>(d, n); }
  static void put(OS& o, const D& x, dimension_type n) { o << " 1"; put_cs(o, x.constraints(), n); o << " 0"; }
  static D build_elem(const Elem& e, dimension_type n) { return build(e.ds.at(0), n); }
};
template <> struct Ops<NNC_Polyhedron> {
  typedef NNC_Polyhedron D;
  static D build(const Disj& d, dimension_type n) { return build_poly<D>(d, n); }
  static void put(OS& o, const D& x, dimension_type n) { o << " 1"; put_cs(o, x.constraints(), n); o << " 0"; }
  static D build_elem(const Elem& e, dimension_type n) { return build(e.ds.at(0), n); }
};
template <> struct Ops<Grid> {
  typedef Grid D;
  static D build(const Disj& d, dimension_type n) {
    if (d.mode == 'G') {
      Grid_Generator_System ggs(n);
      for (size_t j = 0; j < d.ggs.size(); ++j) {
        Linear_Expression e;
        if (n > 0) e += 0 * Variable(n - 1);
        for (dimension_type q = 0; q < n; ++q) e += d.ggs[j].a[q] * Variable(q);
        if (d.ggs[j].kind == 'l') ggs.insert(grid_line(e));
        else if (d.ggs[j].kind == 'q') ggs.insert(parameter(e, d.ggs[j].d));
        else ggs.insert(grid_point(e, d.ggs[j].d));
      }
      return Grid(ggs);
    }
    Grid x(n, UNIVERSE);
    x.add_congruences(to_cgs(d.cgs, n));
    x.refine_with_constraints(d.cs);
    return x;
  }
  static void put(OS& o, const D& x, dimension_type n) {
    // (the copy of an empty grid reports no congruence: ask for emptiness first)
    if (x.is_empty()) { o << " 1 1 = 1"; for (dimension_type i = 0; i < n; ++i) o << " 0"; o << " 0"; return; }
    o << " 1 0"; put_cgs(o, x.congruences(), n);
  }
  static D build_elem(const Elem& e, dimension_type n) { return build(e.ds.at(0), n); }
};
template <typename P> struct Ops<Pointset_Powerset<P> > {
  typedef Pointset_Powerset<P> D;
  static D build_elem(const Elem& e, dimension_type n) {
    D x(n, EMPTY);
    for (size_t i = 0; i < e.ds.size(); ++i) x.add_disjunct(Ops<P>::build(e.ds[i], n));
    return x;
  }
  static void put(OS& o, const D& x, dimension_type n) {
    o << " " << x.size();
    for (typename D::const_iterator i = x.begin(); i != x.end(); ++i) {
      put_cs(o, i->pointset().constraints(), n); o << " 0";
    }
  }
};

static Bounded_Integer_Type_Width width_of(unsigned w) {
  switch (w) { case 8: return BITS_8; case 16: return BITS_16; case 32: return BITS_32; case 64: return BITS_64; default: return BITS_128; }
}

template <typename D> static void grid_info(const D&, const Case&, const std::string&) {}
template <> void grid_info<Grid>(const Grid& g, const Case& c, const std::string& id) {
  // PPL's own view of the frequency/value of every wrapped variable: used by the check only to
  // classify a failure that the Lean judge has already established, never to judge
  if (c.kind != 'W') return;
  OS o; o << "ginfo " << id;
  for (size_t i = 0; i < c.vars.size(); ++i) {
    Coefficient fn, fd, vn, vd;
    bool ok = false;
    try { ok = g.frequency(Linear_Expression(Variable(c.vars[i])), fn, fd, vn, vd); } catch (...) { ok = false; }
    o << " " << c.vars[i] << " " << (ok ? 1 : 0) << " " << fn << " " << fd << " " << vn << " " << vd;
  }
  J.line(o.str());
}

template <typename D> static void run_case(const Case& c, const std::string& id) {
  OS o;
  o << (c.kind == 'W' ? "wrap " : c.kind == 'D' ? "drop " : "cip ") << id << " " << describe(c) << " | A";
  try {
    D x = Ops<D>::build_elem(c.arg, c.n);
    { D y(x); Ops<D>::put(o, y, c.n); grid_info<D>(y, c, id); }
    o << " | R";
    Variables_Set vs;
    for (size_t i = 0; i < c.vars.size(); ++i) vs.insert(Variable(c.vars[i]));
    if (c.kind == 'W') {
      J.line("begin " + id + " " + describe(c));
      x.wrap_assign(vs, width_of(c.w), c.r == 'u' ? UNSIGNED : SIGNED_2_COMPLEMENT,
                    c.o == 'w' ? OVERFLOW_WRAPS : c.o == 'u' ? OVERFLOW_UNDEFINED : OVERFLOW_IMPOSSIBLE,
                    c.hasguard ? &c.guard : 0, c.thr, c.ind);
      Ops<D>::put(o, x, c.n);
    } else if (c.kind == 'D') {
      J.line("begin " + id + " " + describe(c));
      Complexity_Class cc = c.cc == 'P' ? POLYNOMIAL_COMPLEXITY : c.cc == 'S' ? SIMPLEX_COMPLEXITY : ANY_COMPLEXITY;
      if (c.hasvars) x.drop_some_non_integer_points(vs, cc); else x.drop_some_non_integer_points(cc);
      Ops<D>::put(o, x, c.n);
    } else {
      J.line("begin " + id + " " + describe(c));
      o << " " << (x.contains_integer_point() ? 1 : 0);
    }
  } catch (...) {
    o << " | X " << pplv::exc_class();
  }
  J.line(o.str());
}


// ---------------------------------------------------------------------------- Grid::wrap_assign, model tie
// gwrap <id> <description> | P <n> <nv> <v>* <w> <u|s> <w|u|i> <gdim|-1> <thr> <ind> <variant>
//                          | G <E | m (<l|q|p> <d> <a>*n)*>      minimized generators of a COPY of the argument
//                          | R <E | …> | C <cgs>                  minimized generators / congruences of the result
//                          | X <class> <method> | L <E | …>       exception, and the receiver as it was left
static void put_ggs(OS& o, const Grid& g, dimension_type n) {
  if (g.is_empty()) { o << " E"; return; }
  const Grid_Generator_System& gs = g.minimized_grid_generators();
  size_t m = 0;
  for (Grid_Generator_System::const_iterator i = gs.begin(); i != gs.end(); ++i) ++m;
  o << " " << m;
  for (Grid_Generator_System::const_iterator i = gs.begin(); i != gs.end(); ++i) {
    o << " " << (i->is_line() ? 'l' : i->is_parameter() ? 'q' : 'p') << " " << (i->is_line() ? Coefficient(1) : i->divisor());
    for (dimension_type j = 0; j < n; ++j)
      o << " " << (j < i->space_dimension() ? i->coefficient(Variable(j)) : Coefficient(0));
  }
}
static bool g_emit_gwrap = false;
static void gwrap_case(const Case& c, const std::string& id, unsigned variant) {
  OS o;
  o << "gwrap " << id << " " << describe(c) << " | P " << c.n << " " << c.vars.size();
  for (size_t i = 0; i < c.vars.size(); ++i) o << " " << c.vars[i];
  o << " " << c.w << " " << c.r << " " << c.o << " ";
  if (c.hasguard) o << c.guard.space_dimension(); else o << -1;
  o << " " << c.thr << " " << (c.ind ? 1 : 0) << " " << variant;
  Grid x(c.n, UNIVERSE);
  bool built = false;
  try {
    x = Ops<Grid>::build_elem(c.arg, c.n);
    // the state in which the receiver enters wrap_assign: as built / generators minimized / congruences minimized
    if (variant == 1) (void) x.minimized_grid_generators();
    else if (variant == 2) (void) x.minimized_congruences();
    { Grid y(x); o << " | G"; put_ggs(o, y, c.n); }
    built = true;
    Variables_Set vs;
    for (size_t i = 0; i < c.vars.size(); ++i) vs.insert(Variable(c.vars[i]));
    J.line("begin " + id + " " + describe(c));
    x.wrap_assign(vs, width_of(c.w), c.r == 'u' ? UNSIGNED : SIGNED_2_COMPLEMENT,
                  c.o == 'w' ? OVERFLOW_WRAPS : c.o == 'u' ? OVERFLOW_UNDEFINED : OVERFLOW_IMPOSSIBLE,
                  c.hasguard ? &c.guard : 0, c.thr, c.ind);
    o << " | R"; put_ggs(o, x, c.n);
    o << " | C";
    if (x.is_empty()) o << " E"; else put_cgs(o, x.minimized_congruences(), c.n);
  } catch (const std::exception& e) {
    std::string w = e.what(), m = "?";
    size_t a = w.find("PPL::Grid::");
    if (a != std::string::npos) { size_t b = w.find('(', a); if (b != std::string::npos) m = w.substr(a + 11, b - a - 11); }
    o << " | X " << pplv::exc_class() << " " << m;
    if (built) { try { o << " | L"; put_ggs(o, x, c.n); } catch (...) { o << " ?"; } }
  } catch (...) {
    o << " | X " << pplv::exc_class() << " ?";
  }
  J.line(o.str());
}

// ---------------------------------------------------------------------------- tracing PSET
// The real template Implementation::wrap_assign<PSET> (src/wrap_assign.hh) is instantiated with a
// wrapper of C_Polyhedron that records, for every object, the symbolic term of the operations that
// produced it, and every answer of is_empty / minimize / maximize.  The Lean driver runs the model
// `wrapAssign` over the symbolic domain with the recorded answers and compares the final terms.
//   term := I | B | R(term,row) | S(term,{row;row…}) | T(term,x,shift) | J(term,term) | U(term,x)
//   row  := rel:k:a0:…:a(n-1)      (an equality is written as its two inequalities)
struct TraceLog { std::vector<std::string> oracle; dimension_type n; };
static TraceLog* g_trace = 0;
static std::string row_str(const char* rel, const Coefficient& k, const std::vector<Coefficient>& a, bool neg) {
  OS o; o << rel << ":" << (neg ? Coefficient(-k) : k);
  for (size_t i = 0; i < a.size(); ++i) o << ":" << (neg ? Coefficient(-a[i]) : a[i]);
  return o.str();
}
static void rows_of(const Constraint& c, dimension_type n, std::vector<std::string>& out) {
  std::vector<Coefficient> a;
  for (dimension_type i = 0; i < n; ++i) a.push_back(i < c.space_dimension() ? c.coefficient(Variable(i)) : Coefficient(0));
  if (c.is_equality()) { out.push_back(row_str(">=", c.inhomogeneous_term(), a, false)); out.push_back(row_str(">=", c.inhomogeneous_term(), a, true)); }
  else out.push_back(row_str(c.is_strict_inequality() ? ">" : ">=", c.inhomogeneous_term(), a, false));
}
struct Trace_PSET {
  C_Polyhedron ph;
  std::string term;
  Trace_PSET(dimension_type n, Degenerate_Element k) : ph(n, k), term(k == EMPTY ? "B" : "I") {}
  Trace_PSET(const C_Polyhedron& p, const std::string& t) : ph(p), term(t) {}
  dimension_type space_dimension() const { return ph.space_dimension(); }
  bool is_empty() const {
    bool b = ph.is_empty();
    g_trace->oracle.push_back("E " + term + " " + (b ? "1" : "0"));
    return b;
  }
  bool opt(bool mx, const Linear_Expression& e, Coefficient& n, Coefficient& d, bool& ext) const {
    bool ok = mx ? ph.maximize(e, n, d, ext) : ph.minimize(e, n, d, ext);
    dimension_type x = e.space_dimension() - 1;
    OS o; o << (mx ? "M " : "m ") << term << " " << x << " ";
    if (ok) o << n << " " << d; else o << "none none";
    g_trace->oracle.push_back(o.str());
    return ok;
  }
  bool minimize(const Linear_Expression& e, Coefficient& n, Coefficient& d, bool& ext) const { return opt(false, e, n, d, ext); }
  bool maximize(const Linear_Expression& e, Coefficient& n, Coefficient& d, bool& ext) const { return opt(true, e, n, d, ext); }
  void unconstrain(Variable x) { ph.unconstrain(x); OS o; o << "U(" << term << "," << x.id() << ")"; term = o.str(); }
  void affine_image(Variable x, const Linear_Expression& e, const Coefficient& den) {
    ph.affine_image(x, e, den);
    OS o; o << "T(" << term << "," << x.id() << "," << Coefficient(-e.inhomogeneous_term()) << ")"; term = o.str();
  }
  void refine_with_constraint(const Constraint& c) {
    ph.refine_with_constraint(c);
    std::vector<std::string> rows; rows_of(c, g_trace->n, rows);
    for (size_t i = 0; i < rows.size(); ++i) term = "R(" + term + "," + rows[i] + ")";
  }
  void refine_with_constraints(const Constraint_System& cs) {
    ph.refine_with_constraints(cs);
    std::vector<std::string> rows;
    for (Constraint_System::const_iterator i = cs.begin(); i != cs.end(); ++i) rows_of(*i, g_trace->n, rows);
    std::string t = "S(" + term + ",{";
    for (size_t i = 0; i < rows.size(); ++i) { if (i) t += ";"; t += rows[i]; }
    term = t + "})";
  }
  void upper_bound_assign(const Trace_PSET& y) { ph.upper_bound_assign(y.ph); term = "J(" + term + "," + y.term + ")"; }
  void m_swap(Trace_PSET& y) { ph.m_swap(y.ph); term.swap(y.term); }
};

static void run_trace(const Case& c, const std::string& id) {
  OS o; o << "trace " << id << " " << describe(c) << " |";
  TraceLog log; log.n = c.n; g_trace = &log;
  try {
    C_Polyhedron arg = build_poly<C_Polyhedron>(c.arg.ds.at(0), c.n);
    Trace_PSET x(arg, "I");
    Variables_Set vs;
    for (size_t i = 0; i < c.vars.size(); ++i) vs.insert(Variable(c.vars[i]));
    Implementation::wrap_assign(x, vs, width_of(c.w), c.r == 'u' ? UNSIGNED : SIGNED_2_COMPLEMENT,
                                c.o == 'w' ? OVERFLOW_WRAPS : c.o == 'u' ? OVERFLOW_UNDEFINED : OVERFLOW_IMPOSSIBLE,
                                c.hasguard ? &c.guard : 0, c.thr, c.ind, "Trace_PSET");
    // the same call on the real class must give the same set (the template is what the library compiles)
    C_Polyhedron y(arg);
    y.wrap_assign(vs, width_of(c.w), c.r == 'u' ? UNSIGNED : SIGNED_2_COMPLEMENT,
                  c.o == 'w' ? OVERFLOW_WRAPS : c.o == 'u' ? OVERFLOW_UNDEFINED : OVERFLOW_IMPOSSIBLE,
                  c.hasguard ? &c.guard : 0, c.thr, c.ind);
    o << " O " << log.oracle.size();
    for (size_t i = 0; i < log.oracle.size(); ++i) o << " " << log.oracle[i];
    o << " | F " << x.term << " | Q " << (y == x.ph ? 1 : 0);
  } catch (...) {
    o << " | X " << pplv::exc_class();
  }
  g_trace = 0;
  J.line(o.str());
}

static void dispatch(const Case& c, const std::string& id) {
  const std::string& d = c.dom;
  // the template is also traced (on a C_Polyhedron carrier) with the cases of the other generic domains
  if (c.kind == 'W' && c.arg.ds.size() == 1 && c.arg.ds[0].mode == 'c'
      && (d == "C" || d == "BQ" || d == "BZ" || d == "BI" || d == "OQ" || d == "OZ")) run_trace(c, "t" + id);
  if (d == "C") run_case<C_Polyhedron>(c, id);
  else if (d == "N") run_case<NNC_Polyhedron>(c, id);
  else if (d == "BQ") run_case<BD_Shape<mpq_class> >(c, id);
  else if (d == "BZ") run_case<BD_Shape<mpz_class> >(c, id);
  else if (d == "BI") run_case<BD_Shape<int32_t> >(c, id);
  else if (d == "OQ") run_case<Octagonal_Shape<mpq_class> >(c, id);
  else if (d == "OZ") run_case<Octagonal_Shape<mpz_class> >(c, id);
  else if (d == "RB") run_case<Rational_Box>(c, id);
  else if (d == "ZB") run_case<Z_Box>(c, id);
  else if (d == "G") { run_case<Grid>(c, id); if (c.kind == 'W' && g_emit_gwrap) gwrap_case(c, "g" + id, c.thr % 3); }
  else if (d == "PC") run_case<Pointset_Powerset<C_Polyhedron> >(c, id);
  else if (d == "PN") run_case<Pointset_Powerset<NNC_Polyhedron> >(c, id);
  else J.line("skip " + id + " unknown-domain " + d);
}

// ---------------------------------------------------------------------------- random cases
static const char* DOMS[] = {"C", "N", "BQ", "BZ", "BI", "OQ", "OZ", "RB", "ZB", "G", "PC", "PN"};
static const int NDOMS = 12;

static bool is_poly(const std::string& d) { return d == "C" || d == "N" || d == "PC" || d == "PN"; }
static bool is_nnc(const std::string& d) { return d == "N" || d == "PN"; }

// anchors of the interesting range of a w-bit type, in units of 1 (w = 8) scaled for other widths
static Coefficient pow2c(unsigned w) { Coefficient p = 1; for (unsigned i = 0; i < w; ++i) p *= 2; return p; }

// the extent of one wrapped variable: lower/upper bound (optional), possibly rational (den 2 or 3)
static void rnd_extent(Rng& r, unsigned w, char rep, dimension_type x, Constraint_System& cs, bool allow_strict) {
  Coefficient P = pow2c(w);
  Coefficient mn = rep == 'u' ? Coefficient(0) : Coefficient(-P / 2);
  // base quadrant start: min + q*P, q in -2..2
  long q = r.range(-2, 2);
  if (r.chance(1, 3)) q = 0;
  Coefficient base = mn + q * P;
  Coefficient lo, hi;
  unsigned shape = r.below(16);
  long off = r.range(-6, 6);
  if (shape < 4) { lo = base + P - 1 + off - r.range(0, 8); hi = lo + r.range(0, 16); }          // thin, near a boundary
  else if (shape < 6) { lo = base + off; hi = lo + P; }                                          // width exactly 2^w
  else if (shape < 7) { lo = base + off; hi = lo + P - 1; }
  else if (shape < 8) { lo = base + off; hi = lo + P + 1; }
  else if (shape < 10) { lo = base + r.range(0, 255) * (P / 256); hi = lo + r.range(0, 40); }    // inside a quadrant (maybe across)
  else if (shape < 12) { lo = base + off; hi = lo + (P / 256) * r.range(200, 700); }             // 1..3 quadrants
  else if (shape < 13) { lo = base + off; hi = lo + 4 * P + r.range(0, 50); }                    // 5 quadrants
  else if (shape < 14) { lo = base + off; hi = lo; }                                             // a single value
  else { lo = base + off; hi = lo + r.range(0, 300); }
  unsigned unb = r.below(14);                                 // 0: no lower, 1: no upper, 2: neither
  Variable X(x);
  long dl = 1, dh = 1;
  if (r.chance(1, 6)) dl = r.range(2, 3);
  if (r.chance(1, 6)) dh = r.range(2, 3);
  Coefficient ln = lo * dl + (dl > 1 ? r.range(0, dl - 1) : 0), hn = hi * dh + (dh > 1 ? r.range(0, dh - 1) : 0);
  if (unb != 0 && unb != 2) { if (allow_strict && r.chance(1, 5)) cs.insert(dl * X > ln); else cs.insert(dl * X >= ln); }
  if (unb != 1 && unb != 2) { if (allow_strict && r.chance(1, 5)) cs.insert(dh * X < hn); else cs.insert(dh * X <= hn); }
}

static Constraint rnd_relational(Rng& r, dimension_type n, bool strict_ok, long kmax) {
  // a small relational or unary constraint over n >= 1 variables
  dimension_type a = r.below(n), b = r.below(n);
  long ca = r.range(-2, 2), cb = (a == b) ? 0 : r.range(-2, 2);
  if (ca == 0 && cb == 0) ca = 1;
  if (r.chance(2, 3)) { ca = ca < 0 ? -1 : (ca > 0 ? 1 : 0); cb = cb < 0 ? -1 : (cb > 0 ? 1 : 0); if (ca == 0 && cb == 0) ca = 1; }
  Linear_Expression e = ca * Variable(a) + cb * Variable(b) + r.range(-kmax, kmax);
  if (n > 0) e += 0 * Variable(n - 1);
  unsigned k = r.below(12);
  if (k == 0) return e == 0;
  if (strict_ok && k < 3) return e > 0;
  return e >= 0;
}

static Disj rnd_wrap_disj(Rng& r, const Case& c, bool nnc) {
  Disj d; d.mode = 'c';
  dimension_type n = c.n;
  if (n > 0) d.cs.insert(0 * Variable(n - 1) >= -1);
  std::vector<bool> wrapped(n, false);
  for (size_t i = 0; i < c.vars.size(); ++i) wrapped[c.vars[i]] = true;
  for (dimension_type i = 0; i < n; ++i) {
    if (wrapped[i]) rnd_extent(r, c.w, c.r, i, d.cs, nnc);
    else {
      unsigned k = r.below(5);
      if (k < 3) { long lo = r.range(-3, 2); d.cs.insert(Variable(i) >= lo); d.cs.insert(Variable(i) <= lo + r.range(0, 3)); }
      else if (k == 3) { d.cs.insert(2 * Variable(i) >= r.range(-5, 1)); }
    }
  }
  // relational rows
  unsigned m = n >= 2 ? r.below(3) : 0;
  Coefficient P = pow2c(c.w);
  for (unsigned j = 0; j < m; ++j) {
    dimension_type a = r.below(n), b = r.below(n);
    if (a == b) continue;
    long sa = r.chance(1, 2) ? 1 : -1, sb = r.chance(3, 4) ? -sa : sa;
    Coefficient k = (P / 256) * r.range(-300, 300);
    Linear_Expression e = sa * Variable(a) + sb * Variable(b) + k;
    unsigned t = r.below(8);
    if (t == 0) d.cs.insert(e == 0); else if (nnc && t == 1) d.cs.insert(e > 0); else d.cs.insert(e >= 0);
  }
  return d;
}

static Cg mk_cg(Coefficient m, Coefficient k, const std::vector<long>& a) {
  Cg g; g.m = m; g.k = k; for (size_t i = 0; i < a.size(); ++i) g.a.push_back(Coefficient(a[i])); return g;
}

static Disj rnd_grid_disj(Rng& r, const Case& c) {
  Disj d; d.mode = 'c';
  dimension_type n = c.n;
  Coefficient P = pow2c(c.w);
  for (dimension_type i = 0; i < n; ++i) {
    std::vector<long> a(n, 0);
    unsigned k = r.below(18);
    Coefficient off = r.range(-3, 3);
    if (r.chance(1, 2)) off += (P / 256) * r.range(-600, 600);
    if (k < 2) continue;                                          // unconstrained
    long coef = r.chance(1, 5) ? r.range(2, 3) : 1;               // coef*x ...
    a[i] = coef;
    if (k < 5) { d.cgs.push_back(mk_cg(0, -off, a)); }            // coef*x = off
    else if (k < 6) d.cgs.push_back(mk_cg(P, -off, a));           // modulus 2^w
    else if (k < 7) d.cgs.push_back(mk_cg(P / 2, -off, a));       // half
    else if (k < 8) d.cgs.push_back(mk_cg(P * 2, -off, a));
    else if (k < 9) d.cgs.push_back(mk_cg(P - 1, -off, a));
    else if (k < 10) d.cgs.push_back(mk_cg(r.range(1, 7), -off, a));
    else if (k < 11) { if (n >= 2) { dimension_type b = r.below(n); if (b != i) a[b] = r.chance(1, 2) ? 1 : -1; }
           d.cgs.push_back(mk_cg(r.chance(1, 2) ? Coefficient(0) : Coefficient(r.range(1, 5)), -off, a)); }
    // frequencies above 2^w that are not multiples of it: the points v + k*f of different quadrants wrap
    // to different residues (257, 300, 384, 513, 65537, ... and multiples of 2^w as well)
    else if (k < 12) d.cgs.push_back(mk_cg(P + 1, -off, a));
    else if (k < 13) d.cgs.push_back(mk_cg(P + (P / 256) * 44, -off, a));                 // 300 for 8 bits
    else if (k < 14) d.cgs.push_back(mk_cg(r.chance(1, 2) ? Coefficient(3 * P) : Coefficient(2 * P + 1), -off, a));
    else if (k < 15) d.cgs.push_back(mk_cg(P + P / 2, -off, a));                          // 384
    else if (k < 17) d.cgs.push_back(mk_cg(P + (P / 256) * r.range(1, 3 * 256) + r.range(0, 3), -off, a));
    else { // x tied to another variable that has a frequency above 2^w
      if (n >= 2) { dimension_type b = (i + 1) % n; a[b] = r.chance(1, 2) ? 1 : -1; }
      d.cgs.push_back(mk_cg(P + r.range(1, 200), -off, a)); }
  }
  return d;
}

static std::vector<dimension_type> rnd_vars(Rng& r, dimension_type n, bool allow_empty) {
  std::vector<dimension_type> v;
  if (n == 0) return v;
  if (allow_empty && r.chance(1, 25)) return v;
  for (dimension_type i = 0; i < n; ++i) if (r.chance(3, 5)) v.push_back(i);
  if (v.empty() && !(allow_empty && r.chance(1, 10))) v.push_back(r.below(n));
  return v;
}

static Case rnd_wrap_case(Rng& r, const std::string& dom) {
  Case c; c.kind = 'W'; c.dom = dom; c.hasvars = true;
  c.n = 1 + r.below(3);
  if (r.chance(1, 40)) c.n = 0;
  c.vars = rnd_vars(r, c.n, true);
  unsigned wk = r.below(20);
  c.w = wk < 15 ? 8 : wk < 17 ? 16 : wk < 18 ? 32 : wk < 19 ? 64 : 128;
  c.r = r.chance(1, 2) ? 'u' : 's';
  unsigned ok = r.below(10);
  c.o = ok < 6 ? 'w' : ok < 8 ? 'u' : 'i';
  static const unsigned THR[] = {0, 1, 16, 16, 16, 2, 3, 4, 6, 25};
  c.thr = THR[r.below(10)];
  c.ind = r.chance(1, 2);
  c.cc = 'A';
  c.hasguard = false; c.bigguard = false;
  bool nnc = is_nnc(dom);
  if (dom == "G") { c.arg.ds.push_back(rnd_grid_disj(r, c)); }
  else {
    unsigned nd = (dom == "PC" || dom == "PN") ? 1 + r.below(3) : 1;
    for (unsigned i = 0; i < nd; ++i) c.arg.ds.push_back(rnd_wrap_disj(r, c, nnc));
  }
  // guard: over the wrapped variables only, space dimension <= max var + 1
  if (!c.vars.empty() && r.chance(2, 5)) {
    c.hasguard = true;
    Coefficient P = pow2c(c.w);
    unsigned m = 1 + r.below(2);
    for (unsigned j = 0; j < m; ++j) {
      dimension_type a = c.vars[r.below(c.vars.size())], b = c.vars[r.below(c.vars.size())];
      Coefficient k = (P / 256) * r.range(-140, 260) + r.range(-2, 2);
      Linear_Expression e;
      long sa = r.chance(1, 2) ? 1 : -1;
      if (a == b || r.chance(1, 2)) e = sa * Variable(a) + k;
      else { k = (P / 256) * r.range(-60, 60); e = sa * Variable(a) - sa * Variable(b) + k; }
      unsigned t = r.below(10);
      if (t == 0) c.guard.insert(e == 0); else if (t < 3) c.guard.insert(e > 0); else c.guard.insert(e >= 0);
    }
  }
  return c;
}

static Disj rnd_small_disj(Rng& r, dimension_type n, bool nnc, bool gens_ok) {
  Disj d; d.mode = 'c';
  if (gens_ok && r.chance(1, 4)) { d.mode = 'g'; d.gs = rnd_gs(r, n, nnc, n <= 2 ? 5 : 4); return d; }
  if (n > 0) d.cs.insert(0 * Variable(n - 1) >= -1);
  // a bounding window most of the time, with rational bounds
  for (dimension_type i = 0; i < n; ++i) {
    unsigned k = r.below(8);
    long dl = r.chance(1, 2) ? 1 : r.range(2, 4), dh = r.chance(1, 2) ? 1 : r.range(2, 4);
    long lo = r.range(-9, 6), hi = lo + r.range(0, 9);
    if (k != 0) { if (nnc && r.chance(1, 4)) d.cs.insert(dl * Variable(i) > lo); else d.cs.insert(dl * Variable(i) >= lo); }
    if (k != 1) { if (nnc && r.chance(1, 4)) d.cs.insert(dh * Variable(i) < hi); else d.cs.insert(dh * Variable(i) <= hi); }
  }
  unsigned m = n == 0 ? 0 : r.below(4);
  for (unsigned j = 0; j < m; ++j) {
    if (r.chance(1, 2)) d.cs.insert(rnd_relational(r, n, nnc, 7));
    else d.cs.insert(rnd_con(r, n, nnc, false));
  }
  return d;
}

static Disj rnd_small_grid(Rng& r, dimension_type n) {
  Disj d; d.mode = 'c';
  unsigned m = r.below(n + 2);
  for (unsigned j = 0; j < m; ++j) {
    std::vector<long> a(n, 0);
    bool any = false;
    for (dimension_type i = 0; i < n; ++i) { a[i] = small(r, 3); if (a[i] != 0) any = true; }
    if (!any && n > 0) a[r.below(n)] = 1;
    long mod = r.chance(1, 3) ? 0 : r.range(1, 4);
    d.cgs.push_back(mk_cg(mod, r.range(-4, 4), a));
  }
  return d;
}

static Case rnd_small_case(Rng& r, const std::string& dom, char kind) {
  Case c; c.kind = kind; c.dom = dom;
  c.n = 1 + r.below(3);
  if (r.chance(1, 12)) c.n = 0;
  c.hasvars = false; c.hasguard = false; c.bigguard = false; c.w = 8; c.r = 'u'; c.o = 'w'; c.thr = 16; c.ind = false;
  c.cc = "PSA"[r.below(3)];
  if (kind == 'D' && r.chance(1, 2)) { c.hasvars = true; c.vars = rnd_vars(r, c.n, true); }
  bool nnc = is_nnc(dom);
  if (dom == "G") c.arg.ds.push_back(rnd_small_grid(r, c.n));
  else {
    unsigned nd = (dom == "PC" || dom == "PN") ? r.below(4) : 1;
    for (unsigned i = 0; i < nd; ++i) c.arg.ds.push_back(rnd_small_disj(r, c.n, nnc, is_poly(dom)));
  }
  return c;
}


// ---------------------------------------------------------------------------- random Grid::wrap_assign cases
// grids of every shape: per-variable and relational congruences with rational coefficients, generator systems
// with a common divisor, frequencies f_n/f_d with f_n below / equal to / a multiple of / above-and-coprime-to 2^w,
// constants inside / outside the range, variables moving along lines, empty grids
static Coefficient rnd_gw_mod(Rng& r, const Coefficient& P) {
  switch (r.below(12)) {
    case 0: return P; case 1: return P; case 2: return P / 2; case 3: return 2 * P; case 4: return 3 * P;
    case 5: return P + 1; case 6: return P - 1; case 7: return P + P / 2; case 8: return Coefficient(r.range(1, 9));
    case 9: return P + (P / 256) * r.range(1, 700) + r.range(0, 3); case 10: return P / 4;
    default: return Coefficient(0);
  }
}
static Coefficient rnd_gw_off(Rng& r, const Coefficient& P) {
  Coefficient off = r.range(-3, 3);
  switch (r.below(6)) {
    case 0: off += (P / 256) * r.range(-600, 600); break;
    case 1: off += P / 2 * r.range(-3, 3); break;          // around +-2^(w-1), +-2^w
    case 2: off += P * r.range(-2, 2) - r.range(0, 1); break;
    case 3: {                                               // exactly at / one beyond an end of either range
      const Coefficient anchors[8] = {Coefficient(0), Coefficient(-1), Coefficient(P - 1), P,
                                      Coefficient(-P / 2), Coefficient(-P / 2 - 1), Coefficient(P / 2 - 1), Coefficient(P / 2)};
      off = anchors[r.below(8)]; break; }
    default: break;
  }
  return off;
}
static Disj rnd_gw_cgs(Rng& r, const Case& c) {
  Disj d; d.mode = 'c';
  dimension_type n = c.n;
  Coefficient P = pow2c(c.w);
  // mostly one row per "main" variable (a triangular system is rarely inconsistent), sometimes extra rows
  std::vector<dimension_type> order;
  for (dimension_type i = 0; i < n; ++i) order.push_back(i);
  for (dimension_type i = n; i > 1; --i) std::swap(order[i - 1], order[r.below(i)]);
  unsigned m = n == 0 ? 0 : 1 + r.below(n);
  if (n > 0 && r.chance(1, 6)) m += 1;
  for (unsigned j = 0; j < m; ++j) {
    std::vector<long> a(n, 0);
    dimension_type i = j < n ? order[j] : (dimension_type)r.below(n);
    a[i] = r.chance(1, 3) ? r.range(2, 4) : (r.chance(1, 6) ? -1 : 1);
    // relational rows only mention variables that come later in the order (or any, for the extra rows)
    if (n >= 2 && r.chance(2, 5)) { dimension_type b = j + 1 < n ? order[j + 1 + r.below(n - j - 1)] : (dimension_type)r.below(n);
      if (b != i) a[b] = r.chance(1, 4) ? r.range(-3, 3) : (r.chance(1, 2) ? 1 : -1); }
    if (n >= 3 && r.chance(1, 8)) { dimension_type b = r.below(n); if (b != i) a[b] = r.range(-2, 2); }
    d.cgs.push_back(mk_cg(rnd_gw_mod(r, P), -rnd_gw_off(r, P), a));
  }
  return d;
}
// x (and, tied to it, y) in a/d + (2^w/d)Z with d odd: the frequency numerator is exactly 2^w, the representative
// closest to zero is not an integer
static Disj rnd_gw_feq(Rng& r, const Case& c) {
  Disj d; d.mode = 'G';
  dimension_type n = c.n;
  Coefficient P = pow2c(c.w);
  static const long ODD[] = {3, 3, 5, 7, 9};
  Coefficient div = ODD[r.below(5)];
  dimension_type x = c.vars.empty() ? 0 : c.vars[r.below(c.vars.size())];
  if (x >= n) x = 0;
  GGen pt; pt.kind = 'p'; pt.d = div;
  GGen q; q.kind = 'q'; q.d = div;
  Coefficient a = r.range(-20, 20);
  for (dimension_type k = 0; k < n; ++k) {
    bool tied = k != x && r.chance(1, 2);
    pt.a.push_back(k == x ? a : tied ? Coefficient(a * r.range(-1, 1) + div * r.range(-2, 2)) : Coefficient(div * r.range(-3, 3)));
    q.a.push_back(k == x ? P : tied ? Coefficient(P * r.range(-2, 2)) : Coefficient(0));
  }
  d.ggs.push_back(pt); d.ggs.push_back(q);
  if (n >= 2 && r.chance(1, 3)) {
    GGen q2; q2.kind = 'q'; q2.d = div;
    dimension_type y = r.below(n);
    for (dimension_type k = 0; k < n; ++k) q2.a.push_back(k == y && y != x ? Coefficient(div * r.range(1, 5)) : Coefficient(0));
    d.ggs.push_back(q2);
  }
  return d;
}
static Disj rnd_gw_gens(Rng& r, const Case& c) {
  Disj d; d.mode = 'G';
  dimension_type n = c.n;
  Coefficient P = pow2c(c.w);
  static const long DIVS[] = {1, 1, 1, 2, 3, 3, 4, 6};
  Coefficient div = DIVS[r.below(8)];
  GGen pt; pt.kind = 'p'; pt.d = div;
  for (dimension_type i = 0; i < n; ++i) pt.a.push_back(r.chance(1, 3) ? Coefficient(rnd_gw_off(r, P) * div) : rnd_gw_off(r, P));
  d.ggs.push_back(pt);
  unsigned np = r.below(n + 2), nl = r.chance(1, 4) ? 1 + r.below(n > 1 ? 2 : 1) : 0;
  if (n == 0) { np = 0; nl = 0; }
  for (unsigned j = 0; j < np; ++j) {
    GGen q; q.kind = 'q'; q.d = div;
    Coefficient f = rnd_gw_mod(r, P); if (f == 0) f = 1;
    bool rel = n >= 2 && r.chance(1, 2);
    dimension_type i = n > 0 ? r.below(n) : 0;
    for (dimension_type k = 0; k < n; ++k) {
      Coefficient v = 0;
      if (k == i) v = r.chance(1, 3) ? f : Coefficient(f * div);
      else if (rel && r.chance(1, 2)) v = r.chance(1, 2) ? (r.chance(1, 2) ? f : Coefficient(f * div)) : Coefficient(r.range(-3, 3));
      q.a.push_back(v);
    }
    d.ggs.push_back(q);
  }
  for (unsigned j = 0; j < nl; ++j) {
    GGen l; l.kind = 'l'; l.d = 1;
    dimension_type i = n > 0 ? r.below(n) : 0;
    for (dimension_type k = 0; k < n; ++k) l.a.push_back(k == i ? Coefficient(1) : (r.chance(1, 3) ? Coefficient(r.range(-2, 2)) : Coefficient(0)));
    d.ggs.push_back(l);
  }
  return d;
}
static Case rnd_gw_case(Rng& r) {
  Case c; c.kind = 'W'; c.dom = "G"; c.hasvars = true;
  c.n = 1 + r.below(4);
  if (r.chance(1, 60)) c.n = 0;
  c.vars = rnd_vars(r, c.n, true);
  if (c.n > 0 && r.chance(1, 50)) c.vars.push_back(c.n + r.below(2));        // beyond the space dimension: must throw
  unsigned wk = r.below(20);
  c.w = wk < 13 ? 8 : wk < 15 ? 16 : wk < 17 ? 32 : wk < 19 ? 64 : 128;
  c.r = r.chance(1, 2) ? 'u' : 's';
  unsigned ok = r.below(9);
  c.o = ok < 4 ? 'w' : ok < 6 ? 'u' : 'i';
  c.thr = r.below(30);
  c.ind = r.chance(1, 2);
  c.cc = 'A';
  c.hasguard = false; c.bigguard = false;
  if (c.n > 0 && r.chance(1, 10)) c.arg.ds.push_back(rnd_gw_feq(r, c));
  else c.arg.ds.push_back(r.chance(1, 2) ? rnd_gw_cgs(r, c) : rnd_gw_gens(r, c));
  if (r.chance(1, 40)) { c.hasguard = true; c.bigguard = true; c.guard.insert(Variable(c.n) >= 0); }
  else if (c.n > 0 && r.chance(1, 5)) {
    c.hasguard = true;
    Linear_Expression e = Variable(r.below(c.n)) + r.range(-300, 300);
    c.guard.insert(e >= 0);
  }
  return c;
}
static const char* GW_PLANTED[] = {
  "W G 1 1 0 8 u i 0 16 0 1 c 0 1 128 0 1",
  "W G 1 1 0 8 s w 0 16 0 1 c 0 1 0 -200 1",
  "W G 1 1 0 8 u w 0 16 0 1 c 0 1 256 -1 3",
  "W G 1 1 0 8 s w 0 16 0 1 c 0 1 256 -128 1",
  "W G 2 1 1 8 u w 0 6 0 1 c 0 1 0 2 1 1",
  "W G 1 1 0 8 u w 0 16 0 1 c 0 1 300 0 1",
  "W G 1 1 0 8 s w 0 16 0 1 c 0 1 257 -5 1",
  "W G 2 1 1 16 u w 0 16 0 1 c 0 2 65537 -7 0 1 0 0 1 0",
  // KF-C17-12: A = B, 3A = 1 (mod 256); A wrapped: (-341,-341) wraps to (171,-341)
  "W G 2 1 0 8 u w 0 16 0 1 c 0 2 256 -1 3 0 0 0 1 -1",
  // KF-C17-13: A in (1/2)Z, B = A + 1/2, both wrapped: the receiver becomes empty inside the loop
  "W G 2 2 0 1 8 u w 0 16 0 1 c 0 2 1 0 2 0 0 -1 -2 2",
  // the same grids given by generators
  "W G 2 1 0 8 u w 0 16 0 1 G 2 p 3 1 1 q 3 256 256",
  "W G 2 2 0 1 8 s w 0 16 0 1 G 2 p 2 0 1 q 2 1 1",
};
static const int NGW_PLANTED = 12;

static void gw_batch(uint64_t seed, long b, long cases) {
  Rng r(seed * 1000003ull + (uint64_t)b * 104729ull + 1717);
  { OS o; o << "batch " << b << " seed " << seed; J.line(o.str()); }
  if (b == 0)
    for (int i = 0; i < NGW_PLANTED; ++i) {
      OS id; id << "gp" << i;
      try { Case c = parse_case(GW_PLANTED[i]); gwrap_case(c, id.str(), i % 3); }
      catch (...) { J.line("skip " + id.str() + " bad-planted-case"); }
    }
  for (long i = 0; i < cases; ++i) {
    OS id; id << "gb" << b << "c" << i;
    Case c = rnd_gw_case(r);
    gwrap_case(c, id.str(), r.below(3));
  }
  J.line("end");
}

// the literal witnesses of the defects known at design time are part of every first batch
static const char* PLANTED[] = {
  "W RB 1 1 0 8 u w 0 16 0 1 c 2 >= 0 1 >= 256 -1 0",                  // [0,256] -> u8
  "W ZB 1 1 0 8 s w 0 16 0 1 c 2 >= 128 1 >= 128 -1 0",                // [-128,128] -> s8
  "D C 0 0 A 1 c 0 0",                                                  // zero-dimensional universe
  "D N 0 0 P 1 c 0 0",
  "W C 2 2 0 1 8 u w 0 4 0 1 c 4 >= 0 1 0 >= 600 -1 0 >= -300 0 1 >= 1000 0 -1 0",   // collective, too complex at B
  "W G 1 1 0 8 u i 0 16 0 1 c 0 1 128 0 1",                             // x = 0 mod 128, overflow impossible
  "W G 1 1 0 8 s w 0 16 0 1 c 0 1 0 -200 1",                            // x = 200, signed
  "W G 1 1 0 8 u w 0 16 0 1 c 0 1 256 -1 3",                            // 3x = 1 mod 256
  "W G 1 1 0 8 s w 0 16 0 1 c 0 1 256 -128 1",                          // x = 128 mod 256, signed
  "W G 2 1 1 8 u w 0 6 0 1 c 0 1 0 2 1 1",                              // A + B = -2, B wrapped (no frequency)
  "Q N 1 1 c 2 > -1 4 > 3 -4 0",                                        // 1/4 < A < 3/4
  "W ZB 1 1 0 8 u u 0 16 0 1 c 2 >= -250 1 >= 256 -1 0",                // [250,256], overflow undefined
  // frequency above 2^w, overflow wraps: the points of the other quadrants wrap to other residues
  "W G 1 1 0 8 u w 0 16 0 1 c 0 1 300 0 1",                             // x = 0 mod 300
  "W G 1 1 0 8 s w 0 16 0 1 c 0 1 257 -5 1",                            // x = 5 mod 257, signed
  "W G 2 1 1 16 u w 0 16 0 1 c 0 2 65537 -7 0 1 0 0 1 0",               // y = 7 mod 65537, x = 0
};
static const int NPLANTED = 15;

// shared with the parent: index of the case being executed (so that a batch is resumed after a crash)
static volatile long* g_progress = 0;

static void batch(uint64_t seed, long b, long cases, long resume_after) {
  Rng r(seed * 1000003ull + (uint64_t)b * 7919ull + 17);
  if (resume_after < -1) { OS o; o << "batch " << b << " seed " << seed; J.line(o.str()); }
  if (b == 0) {
    for (int i = 0; i < NPLANTED; ++i) {
      long idx = i - NPLANTED;                         // planted cases have negative indexes
      if (idx <= resume_after) continue;
      if (g_progress) *g_progress = idx;
      OS id; id << "p" << i;
      try { Case c = parse_case(PLANTED[i]); dispatch(c, id.str()); }
      catch (...) { J.line("skip " + id.str() + " bad-planted-case"); }
    }
  }
  for (long i = 0; i < cases; ++i) {
    OS id; id << "b" << b << "c" << i;
    std::string dom = DOMS[(i + b) % NDOMS];
    unsigned k = r.below(10);
    // the case is always generated (the stream of random choices does not depend on the resume point)
    Case c = k < 6 ? rnd_wrap_case(r, dom) : k < 8 ? rnd_small_case(r, dom, 'D') : rnd_small_case(r, dom, 'Q');
    if (i <= resume_after) continue;
    if (g_progress) *g_progress = i;
    dispatch(c, id.str());
  }
  J.line("end");
}

// like pplv::run_batches, but a batch whose child died is resumed after the case that killed it
#include <sys/mman.h>
template <typename F>
static int run_resumable(long first, long last, F body, int cpu_limit_s) {
  g_progress = (volatile long*)mmap(0, sizeof(long), PROT_READ | PROT_WRITE, MAP_SHARED | MAP_ANONYMOUS, -1, 0);
  if (g_progress == MAP_FAILED) { perror("mmap"); return 2; }
  for (long b = first; b < last; ++b) {
    long resume_after = -1000000;                      // below every index: a fresh batch
    for (int attempt = 0; attempt < 50; ++attempt) {
      *g_progress = resume_after;
      fflush(stdout);
      pid_t pid = fork();
      if (pid < 0) { perror("fork"); return 2; }
      if (pid == 0) {
        struct rlimit rl; rl.rlim_cur = (rlim_t)cpu_limit_s; rl.rlim_max = (rlim_t)cpu_limit_s + 2;
        setrlimit(RLIMIT_CPU, &rl);
        struct rlimit core; core.rlim_cur = core.rlim_max = 0; setrlimit(RLIMIT_CORE, &core);
        body(b, resume_after);
        fflush(stdout);
        _exit(0);
      }
      int st = 0;
      waitpid(pid, &st, 0);
      if (WIFSIGNALED(st)) J.line(std::string("crash ") + pplv::signal_name(WTERMSIG(st)));
      else if (WIFEXITED(st) && WEXITSTATUS(st) != 0) J.line("crash exit " + std::to_string(WEXITSTATUS(st)));
      else break;
      resume_after = *g_progress;                      // skip the case that killed the child
    }
  }
  return 0;
}

int main(int argc, char** argv) {
  bool replay = false;
  for (int i = 1; i < argc; ++i) if (!strcmp(argv[i], "--replay")) replay = true;
  long cpu = pplv::arg_long(argc, argv, "--cpu", 20);
  bool gridwrap = false;
  for (int i = 1; i < argc; ++i) if (!strcmp(argv[i], "--gridwrap")) gridwrap = true;
  g_emit_gwrap = replay || gridwrap;
  if (gridwrap && !replay) {
    uint64_t seed = (uint64_t)pplv::arg_long(argc, argv, "--seed", 1);
    long first = pplv::arg_long(argc, argv, "--first", 0), last = pplv::arg_long(argc, argv, "--last", 4);
    long cases = pplv::arg_long(argc, argv, "--cases", 200);
    return pplv::run_batches(first, last, [&](long b) { gw_batch(seed, b, cases); }, (int)cpu);
  }
  if (replay) {
    std::string line;
    std::vector<std::string> lines;
    while (std::getline(std::cin, line)) if (!line.empty()) lines.push_back(line);
    return pplv::run_batches(0, (long)lines.size(), [&](long b) {
      OS id; id << "r" << b;
      try { Case c = parse_case(lines[b]); dispatch(c, id.str()); }
      catch (...) { J.line("skip " + id.str() + " bad-description"); }
      J.line("end");
    }, (int)cpu);
  }
  uint64_t seed = (uint64_t)pplv::arg_long(argc, argv, "--seed", 1);
  long first = pplv::arg_long(argc, argv, "--first", 0), last = pplv::arg_long(argc, argv, "--last", 4);
  long cases = pplv::arg_long(argc, argv, "--cases", 60);
  return run_resumable(first, last, [&](long b, long resume_after) { batch(seed, b, cases, resume_after); }, (int)cpu);
}
