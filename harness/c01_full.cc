// C01/C02 integration stage — correspondence harness for the FULL model of `Polyhedron`
// (models: lean/PPLV/PolyFull/*.lean, driver: pplv_polyfull = lean/Driver/PolyFull.lean).
//
//   g++ -O1 -w -std=gnu++17 -I/repo/src -I/verif/harness c01_full.cc -o c01_full -L/repo/src/.libs -lppl -lgmpxx -lgmp
//   LD_LIBRARY_PATH=/repo/src/.libs ./c01_full --seed 1 --first 0 --last 100 | pplv_polyfull
//
// Every case is a HISTORY: two or three polyhedra are built in chosen lazy states, their whole raw state
// is dumped (con_sys, gen_sys with pending rows, index_first_pending, sorted flags, status word, sat_c,
// sat_g — `#define private public` around ppl.hh only), then 4–10 public calls follow (observers between
// mutators; the calls that run the Chernikova conversion included) and after EVERY call the raw state of
// every object the call could touch is dumped again, together with the answer of an observer.
//
// Journal:
//   begin <id> <nnc> <nslots>
//   init <slot> <fpoly>
//   step <k> <op> <args…> [R <answer…>] (S <slot> <fpoly>)*      |  step <k> <op> <args…> EXC <class>
//   end <id>
//   <fpoly> := <dim> <status:9 bits E CU GU CM GM SC SG CP GP> <sys> <sys> <mat> <mat>     (con_sys gen_sys sat_c sat_g)
//   <sys>   := <sdim> <nrows> <first_pending> <sorted> <row>*        <row> := <e|i> <inhomogeneous> <epsilon> <coefficient>*sdim
//   <mat>   := <nrows> <ncols> <bits>*nrows                           <bits> := string of 0/1 (or `-` when ncols = 0)
#include <cstdio>
#include <cstdlib>
#include <cstring>
#include <cstdint>
#include <string>
#include <sstream>
#include <iostream>
#include <vector>
#include <map>
#include <set>
#include <list>
#include <deque>
#include <algorithm>
#include <limits>
#include <stdexcept>
#include <gmpxx.h>
#define private public
#define protected public
#include "ppl.hh"
#undef private
#undef protected
#include "common.hh"
#include "poly_io.hh"

using namespace Parma_Polyhedra_Library;
using namespace pplv_io;
using pplv::Rng;

template <typename R>
static void dump_row(OS& o, const R& r, bool nnc, dimension_type sd) {
  const dimension_type esd = r.expr.space_dimension();     // sd (+1 with epsilon)
  o << " " << (r.is_line_or_equality() ? "e" : "i") << " " << r.expr.get(0);
  if (nnc && esd >= 1) o << " " << r.expr.get(esd); else o << " 0";
  const dimension_type rsd = nnc ? (esd >= 1 ? esd - 1 : 0) : esd;
  for (dimension_type j = 0; j < sd; ++j) {
    if (j < rsd) o << " " << r.expr.get(j + 1); else o << " 0";
  }
}

template <typename R>
static void dump_sys(OS& o, const Linear_System<R>& sys) {
  const bool nnc = !sys.is_necessarily_closed();
  const dimension_type sd = sys.space_dimension();
  o << " " << sd << " " << sys.rows.size() << " " << sys.index_first_pending << " " << (sys.sorted ? 1 : 0);
  for (dimension_type i = 0; i < sys.rows.size(); ++i) dump_row(o, sys.rows[i], nnc, sd);
}

static void dump_mat(OS& o, const Bit_Matrix& m) {
  const dimension_type nr = m.num_rows(), nc = m.num_columns();
  o << " " << nr << " " << nc;
  for (dimension_type i = 0; i < nr; ++i) {
    o << " ";
    if (nc == 0) o << "-";
    for (dimension_type j = 0; j < nc; ++j) o << (m[i][j] ? '1' : '0');
  }
}

static void dump_poly(OS& o, const Polyhedron& ph) {
  const Polyhedron::Status& s = ph.status;
  o << " " << ph.space_dim << " "
    << (s.test_empty() ? 1 : 0) << (s.test_c_up_to_date() ? 1 : 0) << (s.test_g_up_to_date() ? 1 : 0)
    << (s.test_c_minimized() ? 1 : 0) << (s.test_g_minimized() ? 1 : 0)
    << (s.test_sat_c_up_to_date() ? 1 : 0) << (s.test_sat_g_up_to_date() ? 1 : 0)
    << (s.test_c_pending() ? 1 : 0) << (s.test_g_pending() ? 1 : 0);
  dump_sys(o, ph.con_sys.sys);
  dump_sys(o, ph.gen_sys.sys);
  dump_mat(o, ph.sat_c);
  dump_mat(o, ph.sat_g);
}

// a constraint / generator ARGUMENT as a raw row of a polyhedron of topology `nnc` and dimension n
static void dump_con_arg(OS& o, const Constraint& c, dimension_type n) {
  const bool cn = !c.is_necessarily_closed();
  o << " " << (c.is_equality() ? "e" : "i") << " " << c.expr.get(0) << " ";
  if (cn) o << c.epsilon_coefficient(); else o << 0;
  for (dimension_type j = 0; j < n; ++j)
    o << " " << (j < c.space_dimension() ? c.coefficient(Variable(j)) : Coefficient(0));
}
static void dump_gen_arg(OS& o, const Generator& g, dimension_type n) {
  const bool gn = !g.is_necessarily_closed();
  const char* k = g.is_line() ? "l" : g.is_ray() ? "r" : g.is_point() ? "p" : "c";
  o << " " << k << " " << (g.is_line_or_equality() ? "e" : "i") << " " << g.expr.get(0) << " ";
  if (gn) o << g.epsilon_coefficient(); else o << 0;
  for (dimension_type j = 0; j < n; ++j)
    o << " " << (j < g.space_dimension() ? g.coefficient(Variable(j)) : Coefficient(0));
}

// a polyhedron of dimension n in lazy state `state`
//  0 only constraints   1 only generators   2 both, minimized   3 both + pending constraint
//  4 both + pending generator   5 marked empty   6 both minimized, then generators()/constraints() read
static Polyhedron* make_poly1(Rng& r, bool nnc, dimension_type n, unsigned state) {
  Polyhedron* p = 0;
  if (state == 5) {
    if (nnc) p = new NNC_Polyhedron(n, EMPTY); else p = new C_Polyhedron(n, EMPTY);
    return p;
  }
  if (state == 1) {
    Generator_System gs = rnd_gs(r, n, nnc, 4);
    if (nnc) p = new NNC_Polyhedron(gs); else p = new C_Polyhedron(gs);
    return p;
  }
  Constraint_System cs = rnd_cs(r, n, nnc, 4, false);
  if (r.chance(2, 3))
    for (dimension_type i = 0; i < n; ++i) {
      if (r.chance(2, 3)) cs.insert(Variable(i) >= r.range(-3, 0));
      if (r.chance(2, 3)) { if (nnc && r.chance(1, 3)) cs.insert(Variable(i) < r.range(1, 4)); else cs.insert(Variable(i) <= r.range(0, 4)); }
    }
  if (nnc) p = new NNC_Polyhedron(cs); else p = new C_Polyhedron(cs);
  if (state == 0) return p;
  p->minimize();
  if (p->marked_empty()) return p;
  if (state == 3) p->add_constraint(rnd_con(r, n, nnc, false));
  else if (state == 4) p->add_generator(rnd_gen(r, n, nnc, false));
  else if (state == 6) { (void) p->generators(); (void) p->constraints(); }
  return p;
}
static Polyhedron* make_poly(Rng& r, bool nnc, dimension_type n, unsigned state) {
  for (int k = 0; ; ++k) {
    Polyhedron* p = make_poly1(r, nnc, n, state);
    if (state == 5 || !p->marked_empty() || k >= 4) return p;
    delete p;
  }
}

static const char* OPS[] = {
  "is_empty", "constraints", "generators", "min_constraints", "min_generators", "contains", "equals",   // 0-6
  "rel_gen", "bounds", "max_min",                                                                      // 7-9
  "add_constraint", "refine_constraint", "add_generator", "affine_image", "affine_preimage",           // 10-14
  "gen_affine_image", "embed", "project", "remove", "remove_higher", "unconstrain", "closure",        // 15-21
  "intersection", "hull", "time_elapse", "concat", "copy",                                             // 22-26
  "expand", "fold", "map", "bounded_affine_image" };                                                   // 27-30
static const unsigned NOPS = 31;

struct PFunc {
  std::vector<long> m;     // -1 = undefined
  bool has_empty_codomain() const { for (long k : m) if (k >= 0) return false; return true; }
  dimension_type max_in_codomain() const { long mx = 0; for (long k : m) if (k > mx) mx = k; return (dimension_type) mx; }
  bool maps(dimension_type i, dimension_type& j) const {
    if (i >= m.size() || m[i] < 0) return false;
    j = (dimension_type) m[i]; return true;
  }
};

static void one_history(long id, uint64_t seed, long maxdim, unsigned long opmask, long maxlen) {
  Rng r(seed * 1000003ull + (uint64_t) id * 7919ull + 29);
  pplv::Journal J(1);
  bool nnc = r.chance(2, 5);
  dimension_type n = (dimension_type) r.range(r.chance(1, 25) ? 0 : 1, maxdim);
  const unsigned nslots = 3;
  Polyhedron* P[3];
  for (unsigned s = 0; s < nslots; ++s) {
    unsigned state = r.below(7);
    if (r.chance(1, 14)) state = 5;
    P[s] = make_poly(r, nnc, n, state);
  }
  { OS o; o << "begin " << id << " " << (nnc ? 1 : 0) << " " << nslots; J.line(o.str()); }
  for (unsigned s = 0; s < nslots; ++s) { OS o; o << "init " << s; dump_poly(o, *P[s]); J.line(o.str()); }
  long len = r.range(4, maxlen);
  for (long k = 0; k < len; ++k) {
    // choose an operation that is legal now
    unsigned op = 0, s = 0, t = 1;
    for (int tries = 0; tries < 50; ++tries) {
      op = r.below(NOPS);
      if (!((opmask >> op) & 1ul)) continue;
      s = r.below(nslots); t = (s + 1 + r.below(nslots - 1)) % nslots;
      const dimension_type ds = P[s]->space_dimension(), dt = P[t]->space_dimension();
      bool binary_same = (op == 5 || op == 6 || op == 22 || op == 23 || op == 24);
      if (binary_same && ds != dt) continue;
      if (op == 25 && ds + dt > (dimension_type) maxdim + 1) continue;
      if ((op == 16 || op == 17) && ds >= (dimension_type) maxdim + 1) continue;
      if ((op == 13 || op == 14 || op == 15 || op == 30) && ds == 0) continue;
      if (op == 30 && ds >= (dimension_type) maxdim + 1) continue;
      if (op == 21 && !nnc) continue;
      if (op == 27 && (ds == 0 || ds >= (dimension_type) maxdim + 1)) continue;
      if (op == 28 && ds < 2) continue;
      // receivers that are already marked empty are taken less often
      if (P[s]->marked_empty() && r.chance(3, 4)) continue;
      break;
    }
    Polyhedron& x = *P[s];
    Polyhedron& y = *P[t];
    const dimension_type d = x.space_dimension();
    OS o;
    o << "step " << k << " " << OPS[op];
    bool two = false;
    try {
      switch (op) {
      case 0: { o << " " << s; bool b = x.is_empty(); o << " R " << (b ? 1 : 0); break; }
      case 1: { o << " " << s; (void) x.constraints(); break; }
      case 2: { o << " " << s; (void) x.generators(); break; }
      case 3: { o << " " << s; (void) x.minimized_constraints(); break; }
      case 4: { o << " " << s; (void) x.minimized_generators(); break; }
      case 5: { o << " " << s << " " << t; two = true; bool b = x.contains(y); o << " R " << (b ? 1 : 0); break; }
      case 6: { o << " " << s << " " << t; two = true; bool b = (x == y); o << " R " << (b ? 1 : 0); break; }
      case 7: {
        Generator g = rnd_gen(r, d, nnc, false);
        o << " " << s; dump_gen_arg(o, g, d);
        Poly_Gen_Relation rel = x.relation_with(g);
        o << " R " << (rel.implies(Poly_Gen_Relation::subsumes()) ? 1 : 0);
        break; }
      case 8: {
        Linear_Expression e = rnd_expr(r, d, 3, false);
        bool above = r.chance(1, 2);
        o << " " << s << " " << (above ? 1 : 0); put_expr(o, e, d);
        bool b = above ? x.bounds_from_above(e) : x.bounds_from_below(e);
        o << " R " << (b ? 1 : 0);
        break; }
      case 9: {
        Linear_Expression e = rnd_expr(r, d, 3, false);
        bool mx = r.chance(1, 2);
        o << " " << s << " " << (mx ? 1 : 0); put_expr(o, e, d);
        Coefficient nn, dd; bool inc; Generator g = point();
        bool b = mx ? x.maximize(e, nn, dd, inc, g) : x.minimize(e, nn, dd, inc, g);
        o << " R " << (b ? 1 : 0);
        if (b) { o << " " << nn << " " << dd << " " << (inc ? 1 : 0); dump_row(o, g, !g.is_necessarily_closed(), d); }
        break; }
      case 10: case 11: {
        Constraint c = rnd_con(r, d, nnc, false);
        if (d > 0 && r.chance(1, 4)) c = (Variable(r.below((unsigned) d)) >= r.range(-2, 2));
        if (d == 0) c = (Linear_Expression(r.range(-1, 1)) >= 0);
        o << " " << s; dump_con_arg(o, c, d);
        if (op == 10) x.add_constraint(c); else x.refine_with_constraint(c);
        break; }
      case 12: {
        Generator g = rnd_gen(r, d, nnc, x.marked_empty() || r.chance(1, 2));
        o << " " << s; dump_gen_arg(o, g, d);
        x.add_generator(g);
        break; }
      case 13: case 14: case 15: {
        dimension_type v = r.below((unsigned) d);
        Linear_Expression e = rnd_expr(r, d, 3, false);
        if (r.chance(1, 2) && e.coefficient(Variable(v)) == 0) e += Coefficient(r.chance(1, 2) ? r.range(1, 3) : r.range(-3, -1)) * Variable(v);
        if (r.chance(1, 5)) e -= e.coefficient(Variable(v)) * Variable(v);
        Coefficient den = r.chance(1, 2) ? 1 : (r.chance(1, 2) ? r.range(2, 3) : r.range(-3, -1));
        if (op == 15) {
          static const Relation_Symbol rs[] = { LESS_OR_EQUAL, GREATER_OR_EQUAL, EQUAL, LESS_THAN, GREATER_THAN };
          Relation_Symbol rel = rs[(nnc && r.chance(1, 3)) ? 3 + r.below(2) : (r.chance(1, 8) ? 2 : r.below(2))];
          o << " " << s << " " << v << " " << relsym_str(rel) << " " << den; put_expr(o, e, d);
          x.generalized_affine_image(Variable(v), rel, e, den);
        }
        else {
          o << " " << s << " " << v << " " << den; put_expr(o, e, d);
          if (op == 13) x.affine_image(Variable(v), e, den); else x.affine_preimage(Variable(v), e, den);
        }
        break; }
      case 16: case 17: {
        dimension_type m = r.chance(1, 10) ? 0 : (dimension_type) r.range(1, 2);
        o << " " << s << " " << m;
        if (op == 16) x.add_space_dimensions_and_embed(m); else x.add_space_dimensions_and_project(m);
        break; }
      case 18: case 20: {
        Variables_Set vs;
        for (dimension_type i = 0; i < d; ++i) if (r.chance(1, 2)) vs.insert(i);
        o << " " << s << " " << vs.size();
        for (Variables_Set::const_iterator i = vs.begin(); i != vs.end(); ++i) o << " " << *i;
        if (op == 18) x.remove_space_dimensions(vs);
        else if (vs.size() == 1 && r.chance(1, 2)) x.unconstrain(Variable(*vs.begin())); else x.unconstrain(vs);
        break; }
      case 19: {
        dimension_type nd = r.below((unsigned) d + 1);
        o << " " << s << " " << nd;
        x.remove_higher_space_dimensions(nd);
        break; }
      case 21: { o << " " << s; x.topological_closure_assign(); break; }
      case 22: { o << " " << s << " " << t; two = true; x.intersection_assign(y); break; }
      case 23: { o << " " << s << " " << t; two = true; x.poly_hull_assign(y); break; }
      case 24: { o << " " << s << " " << t; two = true; x.time_elapse_assign(y); break; }
      case 25: { o << " " << s << " " << t; two = true; x.concatenate_assign(y); break; }
      case 27: {
        dimension_type v = r.below((unsigned) d), m = (dimension_type) r.range(0, 2);
        o << " " << s << " " << v << " " << m;
        x.expand_space_dimension(Variable(v), m);
        break; }
      case 28: {
        dimension_type dest = r.below((unsigned) d);
        Variables_Set vs;
        for (dimension_type i = 0; i < d; ++i) if (i != dest && r.chance(1, 2)) vs.insert(i);
        o << " " << s << " " << dest << " " << vs.size();
        for (Variables_Set::const_iterator i = vs.begin(); i != vs.end(); ++i) o << " " << *i;
        x.fold_space_dimensions(vs, Variable(dest));
        break; }
      case 29: {
        // a permutation of the dimensions, or (one time in six) a map with empty codomain
        PFunc f; f.m.assign(d, -1);
        if (!r.chance(1, 6)) {
          std::vector<long> tgt; for (dimension_type i = 0; i < d; ++i) tgt.push_back((long) i);
          for (dimension_type i = d; i > 1; --i) std::swap(tgt[i - 1], tgt[r.below((unsigned) i)]);
          for (dimension_type i = 0; i < d; ++i) f.m[i] = tgt[i];
        }
        o << " " << s << " " << d; for (dimension_type i = 0; i < d; ++i) o << " " << f.m[i];
        x.map_space_dimensions(f);
        break; }
      case 30: {
        dimension_type v = r.below((unsigned) d);
        Linear_Expression lb = rnd_expr(r, d, 3, false), ub = rnd_expr(r, d, 3, false);
        if (r.chance(1, 2)) lb -= lb.coefficient(Variable(v)) * Variable(v);
        if (r.chance(1, 2)) ub -= ub.coefficient(Variable(v)) * Variable(v);
        Coefficient den = r.chance(1, 2) ? 1 : (r.chance(1, 2) ? r.range(2, 3) : r.range(-3, -1));
        o << " " << s << " " << v << " " << den; put_expr(o, lb, d); put_expr(o, ub, d);
        x.bounded_affine_image(Variable(v), lb, ub, den);
        break; }
      default: {
        // copy construction: slot s := copy of slot t
        o << " " << s << " " << t; two = false;
        Polyhedron* c = nnc ? (Polyhedron*) new NNC_Polyhedron(*static_cast<NNC_Polyhedron*>(P[t]))
                            : (Polyhedron*) new C_Polyhedron(*static_cast<C_Polyhedron*>(P[t]));
        delete P[s]; P[s] = c;
        break; }
      }
      o << " S " << s; dump_poly(o, *P[s]);
      if (two) { o << " S " << t; dump_poly(o, *P[t]); }
      J.line(o.str());
    }
    catch (...) {
      o << " EXC " << pplv::exc_class();
      J.line(o.str());
      break;
    }
  }
  { OS o; o << "end " << id; J.line(o.str()); }
  for (unsigned s = 0; s < nslots; ++s) delete P[s];
}

int main(int argc, char** argv) {
  uint64_t seed = (uint64_t) pplv::arg_long(argc, argv, "--seed", 1);
  long first = pplv::arg_long(argc, argv, "--first", 0), last = pplv::arg_long(argc, argv, "--last", 100);
  long batch = pplv::arg_long(argc, argv, "--batch", 25), maxdim = pplv::arg_long(argc, argv, "--maxdim", 3);
  long maxlen = pplv::arg_long(argc, argv, "--maxlen", 10);
  unsigned long opmask = (unsigned long) pplv::arg_long(argc, argv, "--ops", (long) ((1ul << NOPS) - 1));
  long nb = (last - first + batch - 1) / batch;
  return pplv::run_batches(0, nb, [&](long b) {
    for (long id = first + b * batch; id < std::min(last, first + (b + 1) * batch); ++id) one_history(id, seed, maxdim, opmask, maxlen);
  });
}
