// C03 stage 4 — correspondence harness for the transformers of Box<ITV> (code-shaped model
// lean/PPLV/WR/BoxTrans.lean, BoxTrans2.lean; driver pplv_wrb).
//
//   g++ -O1 -w -std=gnu++17 -I/repo/src -I/repo/interfaces -I/verif/harness c03_box.cc -o c03_box \
//       -L/repo/src/.libs -lppl -lgmpxx -lgmp
//   LD_LIBRARY_PATH=/repo/src/.libs ./c03_box --seed 1 --first 0 --last 8 --per 60 | lean/.lake/build/bin/pplv_wrb
//   ./c03_box --replay <file>    re-executes the journal lines of <file> (their input part) on the current tree
//
// Instantiations:  Q Rational_Box (mpq_class, open bounds, SPECIAL infinities)   Z Z_Box (mpz_class, closed only)
//                  I Int8_Box (int8_t, closed only, SPECIAL infinities)           D Double_Box (binary64, open bounds)
// The interval sequence `seq` and the status bits are written and read directly (`#define private public`
// around ppl.hh only), so the exact state before and after each call is observed, including boxes whose
// emptiness has not been detected yet.
//
// Journal, one event per line:      <id> <ty> <op> <box> <args...> => <result>
//   box    : <n>:<utd><empty>:<I_0>;<I_1>;…     (`-` for n = 0); utd / empty = the two status bits (0/1);
//            an interval is `[l,u]`, `(l,u]`, … with the bracket = the REPORTED openness (lower_is_open()),
//            l,u exact rationals (doubles exactly) or `-inf` / `+inf` (is_boundary_infinity, or the value of a double)
//   expr   : c_0,c_1,…|b       (`|b` when there is no coefficient)
//   con    : eq|ge|gt:<expr>   as the Constraint object reports it (after its normalisation)
//   rel    : eq lt le gt ge
//   result : <box>  |  T <box> / F <box> (op isempty)  |  X:<exception class>;   the part before `=>` is written
//            BEFORE the call: a crash leaves `crash <signal>` on the next line (pplv::run_batches)
//   ops    : addc <con> | refine <con> | refs <k> <con>… | prop <con> | props <maxit> <k> <con>… |
//            aff <v> <expr> <den> | apre <v> <expr> <den> | gaff <v> <rel> <expr> <den> | gapre <v> <rel> <expr> <den> |
//            gaffl <lhs> <rel> <rhs> | gaprel <lhs> <rel> <rhs> | baff <v> <lb> <ub> <den> | bapre <v> <lb> <ub> <den> (run in a
//            child of its own: result `CRASH:<signal>` when the library dies) | unc <v> | uncs <k> <v>… |
//            isempty | meet <box> | join <box> | diff <box> | concat <box> | rmhi <nd>
#include <cstdio>
#include <cstdlib>
#include <cstring>
#include <cstdint>
#include <string>
#include <sstream>
#include <iostream>
#include <fstream>
#include <vector>
#include <cmath>
#include <limits>
#include <stdexcept>
#include <gmpxx.h>
#define private public
#define protected public
#include "ppl.hh"
#undef private
#undef protected
#include "interfaced_boxes.hh"
#include "common.hh"

using namespace Parma_Polyhedra_Library;

typedef Rational_Box QB;
typedef Z_Box ZB;
typedef Int8_Box IB;
typedef Double_Box DB;

template <typename B> struct Tr;
template <> struct Tr<QB> {
  typedef mpq_class V; static const char* name() { return "Q"; } static const bool can_open = true; static const bool integer = false;
  static V conv(const mpq_class& q) { return q; }
  static std::string show(const V& v) { mpq_class c(v); c.canonicalize(); return c.get_str(); }
};
template <> struct Tr<ZB> {
  typedef mpz_class V; static const char* name() { return "Z"; } static const bool can_open = false; static const bool integer = true;
  static V conv(const mpq_class& q) { mpz_class z; mpz_fdiv_q(z.get_mpz_t(), q.get_num_mpz_t(), q.get_den_mpz_t()); return z; }
  static std::string show(const V& v) { return v.get_str(); }
};
template <> struct Tr<IB> {
  typedef int8_t V; static const char* name() { return "I"; } static const bool can_open = false; static const bool integer = true;
  static V conv(const mpq_class& q) { mpz_class z; mpz_fdiv_q(z.get_mpz_t(), q.get_num_mpz_t(), q.get_den_mpz_t());
    long l = z.get_si(); if (l > 127) l = 127; if (l < -128) l = -128; return (int8_t)l; }
  static std::string show(const V& v) { return std::to_string((int)v); }
};
template <> struct Tr<DB> {
  typedef double V; static const char* name() { return "D"; } static const bool can_open = true; static const bool integer = false;
  static V conv(const mpq_class& q) { return q.get_d(); }
  static std::string show(const V& v) {
    if (std::isnan(v)) return "nan";
    if (std::isinf(v)) return v < 0 ? "-inf" : "+inf";
    mpq_class q(v); q.canonicalize(); return q.get_str();
  }
};

// ---- raw intervals ------------------------------------------------------------------------------------
struct RB { bool inf; mpq_class v; bool open; };        // a bound: infinite, or value + open flag
struct RI { RB lo, hi; };
struct RBox { std::vector<RI> seq; bool utd, empty; };

template <typename B>
typename B::interval_type make_itv(const RI& r) {
  typedef typename B::interval_type ITV;
  ITV x;
  x.assign(UNIVERSE);
  if (!r.lo.inf) {
    x.info().clear_boundary_properties(LOWER);
    x.lower() = Tr<B>::conv(r.lo.v);
    if (r.lo.open && Tr<B>::can_open) x.info().set_boundary_property(LOWER, OPEN);
  }
  if (!r.hi.inf) {
    x.info().clear_boundary_properties(UPPER);
    x.upper() = Tr<B>::conv(r.hi.v);
    if (r.hi.open && Tr<B>::can_open) x.info().set_boundary_property(UPPER, OPEN);
  }
  return x;
}

template <typename B>
B make_box(const RBox& r) {
  B b(r.seq.size(), UNIVERSE);
  for (size_t i = 0; i < r.seq.size(); ++i) b.seq[i] = make_itv<B>(r.seq[i]);
  if (r.empty) b.status.set_empty(); else b.status.reset_empty();
  if (r.utd) b.status.set_empty_up_to_date(); else b.status.reset_empty_up_to_date();
  return b;
}

template <typename B>
std::string show_itv(const typename B::interval_type& x) {
  std::string s = x.lower_is_open() ? "(" : "[";
  s += x.lower_is_boundary_infinity() ? std::string("-inf") : Tr<B>::show(x.lower());
  s += ",";
  s += x.upper_is_boundary_infinity() ? std::string("+inf") : Tr<B>::show(x.upper());
  s += x.upper_is_open() ? ")" : "]";
  return s;
}

template <typename B>
std::string show_box(const B& b) {
  std::string s = std::to_string(b.seq.size()) + ":" + (b.status.test_empty_up_to_date() ? "1" : "0")
    + (b.status.test_empty() ? "1" : "0") + ":";
  if (b.seq.empty()) return s + "-";
  for (size_t i = 0; i < b.seq.size(); ++i) { if (i) s += ";"; s += show_itv<B>(b.seq[i]); }
  return s;
}

// ---- expressions and constraints ----------------------------------------------------------------------
struct RE { std::vector<mpz_class> c; mpz_class b; };

static Linear_Expression mk_expr(const RE& e) {
  Linear_Expression le;
  for (size_t i = 0; i < e.c.size(); ++i) if (e.c[i] != 0) le += e.c[i] * Variable(i);
  le += e.b;
  return le;
}
static std::string show_expr(const RE& e) {
  std::string s;
  for (size_t i = 0; i < e.c.size(); ++i) { if (i) s += ","; s += e.c[i].get_str(); }
  return s + "|" + e.b.get_str();
}
static std::string show_con(const Constraint& c) {
  std::string s = c.is_equality() ? "eq:" : c.is_strict_inequality() ? "gt:" : "ge:";
  for (dimension_type i = 0; i < c.space_dimension(); ++i) { if (i) s += ","; s += mpz_class(c.coefficient(Variable(i))).get_str(); }
  return s + "|" + mpz_class(c.inhomogeneous_term()).get_str();
}
static Constraint mk_con(const std::string& ty, const RE& e) {
  Linear_Expression le = mk_expr(e);
  if (ty == "eq") return Constraint(le == 0);
  if (ty == "gt") return Constraint(le > 0);
  return Constraint(le >= 0);
}
static const char* REL_NAMES[5] = {"eq", "lt", "le", "gt", "ge"};
static const Relation_Symbol RELS[5] = {EQUAL, LESS_THAN, LESS_OR_EQUAL, GREATER_THAN, GREATER_OR_EQUAL};
static Relation_Symbol rel_of(const std::string& s) { for (int i = 0; i < 5; ++i) if (s == REL_NAMES[i]) return RELS[i]; return EQUAL; }

// ---- parsing (replay) -----------------------------------------------------------------------------------
static std::vector<std::string> split(const std::string& s, char d) {
  std::vector<std::string> r; std::string cur;
  for (char ch : s) { if (ch == d) { r.push_back(cur); cur.clear(); } else cur.push_back(ch); }
  r.push_back(cur); return r;
}
static RB parse_bound(const std::string& s, bool open) {
  RB b; b.open = open; b.inf = (s == "-inf" || s == "+inf");
  if (!b.inf) { b.v = mpq_class(s); b.v.canonicalize(); }
  return b;
}
static RI parse_itv(const std::string& s) {
  RI r; bool lo_open = s[0] == '(', hi_open = s[s.size() - 1] == ')';
  std::vector<std::string> p = split(s.substr(1, s.size() - 2), ',');
  r.lo = parse_bound(p[0], lo_open); r.hi = parse_bound(p[1], hi_open);
  // a bound that is infinite is stored without the OPEN bit by make_itv (assign(UNIVERSE) decides it)
  return r;
}
static RBox parse_box(const std::string& s) {
  std::vector<std::string> p = split(s, ':');
  RBox b; size_t n = (size_t)atol(p[0].c_str());
  b.utd = p[1][0] == '1'; b.empty = p[1][1] == '1';
  if (n > 0) { std::vector<std::string> is = split(p[2], ';'); for (auto& i : is) b.seq.push_back(parse_itv(i)); }
  return b;
}
static RE parse_expr(const std::string& s) {
  std::vector<std::string> p = split(s, '|');
  RE e; e.b = mpz_class(p[1]);
  if (!p[0].empty()) for (auto& c : split(p[0], ',')) e.c.push_back(mpz_class(c));
  return e;
}
static Constraint parse_con(const std::string& s) {
  size_t k = s.find(':');
  return mk_con(s.substr(0, k), parse_expr(s.substr(k + 1)));
}

// ---- one event ------------------------------------------------------------------------------------------
// args = the tokens after the box (op arguments); returns the result text
template <typename B>
std::string exec_op(B& b, const std::string& op, const std::vector<std::string>& a) {
  try {
    if (op == "addc") b.add_constraint(parse_con(a[0]));
    else if (op == "refine") b.refine_with_constraint(parse_con(a[0]));
    else if (op == "refs") { Constraint_System cs; for (size_t i = 1; i < a.size(); ++i) cs.insert(parse_con(a[i])); b.refine_with_constraints(cs); }
    else if (op == "prop") b.propagate_constraint(parse_con(a[0]));
    else if (op == "props") { Constraint_System cs; for (size_t i = 2; i < a.size(); ++i) cs.insert(parse_con(a[i])); b.propagate_constraints(cs, (dimension_type)atol(a[0].c_str())); }
    else if (op == "aff") b.affine_image(Variable(atol(a[0].c_str())), mk_expr(parse_expr(a[1])), mpz_class(a[2]));
    else if (op == "apre") b.affine_preimage(Variable(atol(a[0].c_str())), mk_expr(parse_expr(a[1])), mpz_class(a[2]));
    else if (op == "gaff") b.generalized_affine_image(Variable(atol(a[0].c_str())), rel_of(a[1]), mk_expr(parse_expr(a[2])), mpz_class(a[3]));
    else if (op == "gapre") b.generalized_affine_preimage(Variable(atol(a[0].c_str())), rel_of(a[1]), mk_expr(parse_expr(a[2])), mpz_class(a[3]));
    else if (op == "gaffl") b.generalized_affine_image(mk_expr(parse_expr(a[0])), rel_of(a[1]), mk_expr(parse_expr(a[2])));
    else if (op == "gaprel") b.generalized_affine_preimage(mk_expr(parse_expr(a[0])), rel_of(a[1]), mk_expr(parse_expr(a[2])));
    else if (op == "baff") b.bounded_affine_image(Variable(atol(a[0].c_str())), mk_expr(parse_expr(a[1])), mk_expr(parse_expr(a[2])), mpz_class(a[3]));
    else if (op == "bapre") b.bounded_affine_preimage(Variable(atol(a[0].c_str())), mk_expr(parse_expr(a[1])), mk_expr(parse_expr(a[2])), mpz_class(a[3]));
    else if (op == "unc") b.unconstrain(Variable(atol(a[0].c_str())));
    else if (op == "uncs") { Variables_Set vs; for (size_t i = 1; i < a.size(); ++i) vs.insert(Variable(atol(a[i].c_str()))); b.unconstrain(vs); }
    else if (op == "isempty") { bool r = b.is_empty(); return std::string(r ? "T " : "F ") + show_box(b); }
    else if (op == "meet") { B y = make_box<B>(parse_box(a[0])); b.intersection_assign(y); }
    else if (op == "join") { B y = make_box<B>(parse_box(a[0])); b.upper_bound_assign(y); }
    else if (op == "diff") { B y = make_box<B>(parse_box(a[0])); b.difference_assign(y); }
    else if (op == "concat") { B y = make_box<B>(parse_box(a[0])); b.concatenate_assign(y); }
    else if (op == "rmhi") b.remove_higher_space_dimensions((dimension_type)atol(a[0].c_str()));
    else return "X:unknown_op";
  } catch (...) { return "X:" + pplv::exc_class(); }
  return show_box(b);
}

template <typename B>
void run_event(pplv::Journal& J, const std::string& id, const std::string& boxs, const std::string& op,
               const std::vector<std::string>& a) {
  B b = make_box<B>(parse_box(boxs));
  std::string head = id + " " + Tr<B>::name() + " " + op + " " + show_box(b);
  for (auto& x : a) head += " " + x;
  head += " =>";
  // written before the call (no newline yet: the result completes the line; a crash leaves it unterminated)
  { const char* p = head.data(); size_t n = head.size(); while (n) { ssize_t w = ::write(1, p, n); if (w <= 0) break; p += w; n -= (size_t)w; } }
  if (op == "bapre") {
    // bounded_affine_preimage dies with SIGFPE on well-formed arguments (KF-C03-1): run it in a child of its own,
    // so that the rest of the batch survives; the result ` CRASH:<signal>` completes the line
    fflush(stdout);
    pid_t pid = fork();
    if (pid == 0) { std::string res = exec_op<B>(b, op, a); J.line(" " + res); _exit(0); }
    int st = 0; waitpid(pid, &st, 0);
    if (WIFSIGNALED(st)) J.line(std::string(" CRASH:") + pplv::signal_name(WTERMSIG(st)));
    else if (!WIFEXITED(st) || WEXITSTATUS(st) != 0) J.line(" CRASH:exit");
    return;
  }
  std::string res = exec_op<B>(b, op, a);
  J.line(" " + res);
}

// ---- generation -----------------------------------------------------------------------------------------
template <typename B>
struct Gen {
  pplv::Rng& g;
  explicit Gen(pplv::Rng& r) : g(r) {}
  mpq_class val() {
    const char* nm = Tr<B>::name();
    if (nm[0] == 'Q') {
      long d = g.chance(1, 2) ? 1 : g.range(2, 5);
      mpq_class q(g.range(-12, 12), d); q.canonicalize(); return q;
    }
    if (nm[0] == 'Z') return mpq_class(g.chance(1, 12) ? g.range(-100000, 100000) : g.range(-12, 12));
    if (nm[0] == 'I') {
      unsigned k = g.below(10);
      if (k == 0) return mpq_class(g.range(100, 127));
      if (k == 1) return mpq_class(g.range(-128, -100));
      if (k == 2) return mpq_class(g.range(-60, 60));
      return mpq_class(g.range(-12, 12));
    }
    // D
    unsigned k = g.below(12);
    if (k == 0) { mpq_class q(g.range(-40, 40), 8); q.canonicalize(); return q; }
    if (k == 1) { mpq_class q(1, 10); return mpq_class(q.get_d() * (double)g.range(-30, 30)); }   // a non-dyadic double
    if (k == 2) return mpq_class((double)g.range(-3, 3) * 9007199254740992.0);
    if (k == 3) { mpq_class q(g.range(-9, 9), 1024); q.canonicalize(); return q; }
    return mpq_class(g.range(-12, 12));
  }
  RI itv(bool allow_empty) {
    RI r;
    mpq_class a = val(), b = val();
    if (a > b && !(allow_empty && g.chance(1, 2))) std::swap(a, b);
    r.lo.inf = g.chance(1, 6); r.hi.inf = g.chance(1, 6);
    r.lo.v = a; r.hi.v = b;
    r.lo.open = Tr<B>::can_open && g.chance(1, 4); r.hi.open = Tr<B>::can_open && g.chance(1, 4);
    if (g.chance(1, 8)) { r.hi.v = r.lo.v; }                      // singleton (empty when a bound is open)
    if (!allow_empty && !r.lo.inf && !r.hi.inf && r.lo.v == r.hi.v) { r.lo.open = r.hi.open = false; }
    return r;
  }
  RBox box(size_t n) {
    RBox b; b.utd = true; b.empty = false;
    bool want_empty = g.chance(1, 9);
    for (size_t i = 0; i < n; ++i) b.seq.push_back(itv(false));
    unsigned k = g.below(10);
    if (want_empty && n > 0) {
      size_t j = g.below(n);
      RI e; e.lo.inf = e.hi.inf = false; e.lo.open = e.hi.open = false; e.lo.v = val(); e.hi.v = e.lo.v - 1;
      if (Tr<B>::can_open && g.chance(1, 3)) { e.hi.v = e.lo.v; e.lo.open = true; }
      b.seq[j] = e;
      if (k < 3) { b.utd = true; b.empty = true; } else { b.utd = false; b.empty = g.chance(1, 4); }
    } else {
      if (k == 0) { b.utd = true; b.empty = true; }               // marked empty with ordinary intervals
      else if (k <= 3) { b.utd = false; b.empty = g.chance(1, 4); }
    }
    return b;
  }
  // a coefficient beyond the temporaries of propagate_constraint_no_check (double: 53 bits; int8 boxes: long long)
  // or beyond the boundary type, about once in 50 coefficients
  mpz_class big_coef() {
    static const char* BIG[8] = {"9007199254740993", "-9007199254740993", "18014398509481986", "36028797018963971",
                                 "9223372036854775807", "-9223372036854775809", "9223372036854775811", "100000000000000000000"};
    unsigned k = g.below(12);
    if (k < 8) return mpz_class(BIG[k]);
    if (k < 10) return mpz_class(g.range(128, 300) * (g.chance(1, 2) ? 1 : -1));
    return mpz_class(g.range(-2000000, 2000000));
  }
  mpz_class coef(bool nonzero) {
    if (g.chance(1, 50)) { mpz_class c = big_coef(); if (c != 0) return c; }
    for (;;) {
      mpz_class c;
      unsigned k = g.below(16);
      if (k < 6) c = 0; else if (k < 14) c = g.range(-3, 3); else c = g.range(-9, 9);
      if (!nonzero || c != 0) return c;
    }
  }
  RE expr(size_t n, int shape) {          // shape: 0 any, 1 single variable, 2 constant
    RE e; e.c.assign(n, mpz_class(0));
    e.b = g.chance(1, 3) ? mpz_class(0) : mpz_class(g.range(-15, 15));
    if (n == 0 || shape == 2) return e;
    if (shape == 1) { e.c[g.below(n)] = coef(true); return e; }
    for (size_t i = 0; i < n; ++i) e.c[i] = coef(false);
    return e;
  }
  std::string con(size_t n) {
    unsigned k = g.below(10);
    RE e = expr(n, k < 3 ? 1 : k == 3 ? 2 : 0);
    unsigned t = g.below(8);
    const char* ty = t < 2 ? "eq" : t < 6 ? "ge" : "gt";
    return show_con(mk_con(ty, e));
  }
  mpz_class den() { unsigned k = g.below(8); if (k < 3) return 1; if (k == 3) return -1; mpz_class d = g.range(-4, 4); return d == 0 ? mpz_class(2) : d; }
};

// the constraints of a system as the library functions see them: Constraint_System::const_iterator skips the
// tautological rows (0 = 0, 1 >= 0, …) and presents the rows in the order of the system
template <typename G>
std::vector<std::string> as_iterated(G& gen, size_t n, size_t m) {
  Constraint_System cs;
  for (size_t i = 0; i < m; ++i) cs.insert(parse_con(gen.con(n)));
  std::vector<std::string> r;
  for (Constraint_System::const_iterator i = cs.begin(), e = cs.end(); i != e; ++i) r.push_back(show_con(*i));
  return r;
}

template <typename B>
void gen_events(pplv::Journal& J, pplv::Rng& g, long batch, long per) {
  Gen<B> G(g);
  for (long e = 0; e < per; ++e) {
    size_t n = g.chance(1, 20) ? 0 : (size_t)g.range(1, 3);
    RBox rb = G.box(n);
    B tmp = make_box<B>(rb);
    std::string boxs = show_box(tmp);
    std::string id = std::string(Tr<B>::name()) + std::to_string(batch) + "." + std::to_string(e);
    std::vector<std::string> a;
    unsigned k = g.below(40);
    std::string op;
    size_t v = n ? g.below(n) : 0;
    const char* rel = REL_NAMES[g.below(5)];
    if (k < 3) { op = "addc"; a.push_back(G.con(n)); }
    else if (k < 9) { op = "refine"; a.push_back(G.con(n)); }
    else if (k < 11) { op = "refs"; size_t m = g.range(1, 3); std::vector<std::string> cs = as_iterated(G, n, m); a.push_back(std::to_string(cs.size())); for (auto& c : cs) a.push_back(c); }
    else if (k < 14) { op = "prop"; a.push_back(G.con(n)); }
    else if (k < 17) { op = "props"; size_t m = g.range(1, 3); std::vector<std::string> cs = as_iterated(G, n, m); a.push_back(std::to_string(g.range(1, 4))); a.push_back(std::to_string(cs.size())); for (auto& c : cs) a.push_back(c); }
    else if (k < 20 && n) { op = "aff"; a = {std::to_string(v), show_expr(G.expr(n, g.chance(1, 4) ? 1 : 0)), G.den().get_str()}; }
    else if (k < 23 && n) { op = "apre"; a = {std::to_string(v), show_expr(G.expr(n, g.chance(1, 4) ? 1 : 0)), G.den().get_str()}; }
    else if (k < 26 && n) { op = "gaff"; a = {std::to_string(v), rel, show_expr(G.expr(n, 0)), G.den().get_str()}; }
    else if (k < 29 && n) { op = "gapre"; a = {std::to_string(v), rel, show_expr(G.expr(n, 0)), G.den().get_str()}; }
    else if (k < 31) { op = "gaffl"; unsigned s = g.below(4); a = {show_expr(G.expr(n, s == 0 ? 2 : s == 1 ? 0 : 1)), rel, show_expr(G.expr(n, 0))}; }
    else if (k < 33) { op = "gaprel"; unsigned s = g.below(4); a = {show_expr(G.expr(n, s == 0 ? 2 : s == 1 ? 0 : 1)), rel, show_expr(G.expr(n, 0))}; }
    else if (k < 34 && n) { op = "baff"; a = {std::to_string(v), show_expr(G.expr(n, 0)), show_expr(G.expr(n, 0)), G.den().get_str()}; }
    else if (k < 35 && n) { op = "bapre"; RE l = G.expr(n, 0), u = G.expr(n, 0);
      if (g.chance(2, 3)) { if (l.c[v] == 0) l.c[v] = G.coef(true); if (u.c[v] == 0) u.c[v] = G.coef(true); }   // both bounds mention var
      a = {std::to_string(v), show_expr(l), show_expr(u), G.den().get_str()}; }
    else if (k == 35 && n) { if (g.chance(1, 2)) { op = "unc"; a = {std::to_string(v)}; } else { op = "uncs"; std::vector<std::string> vs; for (size_t i = 0; i < n; ++i) if (g.chance(1, 2)) vs.push_back(std::to_string(i)); a.push_back(std::to_string(vs.size())); for (auto& s : vs) a.push_back(s); } }
    else if (k == 36) { op = "isempty"; }
    else if (k == 37) { unsigned s = g.below(3); op = s == 0 ? "meet" : s == 1 ? "join" : "diff"; B y = make_box<B>(G.box(n)); a = {show_box(y)}; }
    else if (k == 38) { op = "concat"; B y = make_box<B>(G.box((size_t)g.range(0, 2))); a = {show_box(y)}; }
    else { op = "rmhi"; a = {std::to_string(n ? g.below(n + 1) : 0)}; }
    if (op.empty()) { op = "isempty"; a.clear(); }
    run_event<B>(J, id, boxs, op, a);
  }
}

static int replay_file(const char* path) {
  std::ifstream in(path);
  std::string line;
  pplv::Journal J(1);
  while (std::getline(in, line)) {
    std::vector<std::string> t; { std::istringstream is(line); std::string w; while (is >> w) t.push_back(w); }
    if (t.size() < 4) continue;
    std::vector<std::string> a;
    for (size_t i = 4; i < t.size() && t[i] != "=>"; ++i) a.push_back(t[i]);
    if (t[1] == "Q") run_event<QB>(J, t[0], t[3], t[2], a);
    else if (t[1] == "Z") run_event<ZB>(J, t[0], t[3], t[2], a);
    else if (t[1] == "I") run_event<IB>(J, t[0], t[3], t[2], a);
    else if (t[1] == "D") run_event<DB>(J, t[0], t[3], t[2], a);
  }
  return 0;
}

int main(int argc, char** argv) {
  const char* rp = pplv::arg_str(argc, argv, "--replay", 0);
  if (rp) return replay_file(rp);
  long seed = pplv::arg_long(argc, argv, "--seed", 1);
  long first = pplv::arg_long(argc, argv, "--first", 0);
  long last = pplv::arg_long(argc, argv, "--last", 4);
  long per = pplv::arg_long(argc, argv, "--per", 50);
  const char* types = pplv::arg_str(argc, argv, "--types", "QZID");
  return pplv::run_batches(first, last, [&](long b) {
    pplv::Journal J(1);
    pplv::Rng g((uint64_t)seed * 1000003ull + (uint64_t)b);
    if (strchr(types, 'Q')) gen_events<QB>(J, g, b, per);
    if (strchr(types, 'Z')) gen_events<ZB>(J, g, b, per);
    if (strchr(types, 'I')) gen_events<IB>(J, g, b, per);
    if (strchr(types, 'D')) gen_events<DB>(J, g, b, per);
  }, 60);
}
