// C19 harness: the real PPL Watchdog / Threshold_Watcher under a virtual clock.
//
// The executable DEFINES setitimer/getitimer/sigaction: these definitions are the ones libppl.so
// binds to (including the sigaction call of the library initialiser), so the library's timer is a
// pair of variables (vnow, vremain) of this file and "the signal" is a call of the registered
// handler at an instant chosen by the schedule: between two public operations, or at the entry /
// exit of any timer system call issued by the bookkeeping code (i.e. inside the critical section).
//
// Journal (stdout, one event per line; inputs drive the Lean model, `obs` lines are compared):
//   eqbug 0|1                          measured: Time(0,1) == Time(0,2)
//   case <n> <kind>                    kind: rand | exh | neg
//   call create <id> <cs> | call destroy <id>
//   senter get|set                     the main program is about to enter the system call
//   sexit get <us> | sexit set <us> | sexit setfail      ... has returned from it
//   tick <d>                           d microseconds pass (clipped at timer expiry; if the timer
//                                      reaches 0 the handler runs at once, before the next line)
//   obs fired <id> <t>                 handler action of watchdog <id> ran at virtual time t
//   obs hset <us>                      setitimer issued from inside the signal handler
//   ret | exc <class>                  the call returned / threw
//   end
//   wcase <n> <w0> ; wcall add <d> | wcall create <id> <delta> | wcall destroy <id> | wcall check ;
//   obs wfired <id> ; ret | exc <class> ; end
#include "ppl.hh"
#include "common.hh"
#include <sys/time.h>
#include <cerrno>
#include <set>
#include <map>

using namespace Parma_Polyhedra_Library;
typedef Parma_Polyhedra_Library::Implementation::Watchdog::Time WTime;

// ------------------------------------------------------------------ virtual timer
static long long vnow = 0;        // virtual time, microseconds
static long long vremain = 0;     // microseconds until expiry; 0 = disarmed
static void (*g_handler)(int) = nullptr;
static int g_signum = 0;
static bool in_handler = false;
static bool in_call = false;      // inside a public Watchdog operation
static pplv::Journal J(1);
static std::string jbuf;

static bool unbuffered = false;    // negative-delay cases may abort at any moment: lose nothing
static void flush_j();
static void emit(const std::string& s) { jbuf += s; jbuf.push_back('\n'); if (unbuffered) flush_j(); }
static void flush_j() {
  const char* p = jbuf.data(); size_t n = jbuf.size();
  while (n) { ssize_t w = ::write(1, p, n); if (w <= 0) break; p += w; n -= (size_t)w; }
  jbuf.clear();
}
static std::string S(long long v) { return std::to_string(v); }

// time passes; the handler runs at the instant the timer reaches 0
static void advance(long long us) {
  while (us > 0) {
    if (vremain == 0) { emit("tick " + S(us)); vnow += us; return; }
    long long d = us < vremain ? us : vremain;
    emit("tick " + S(d));
    vnow += d; vremain -= d; us -= d;
    if (vremain == 0 && g_handler) {
      in_handler = true;
      g_handler(g_signum);
      in_handler = false;
    }
  }
}

// ---- placement of time passage at system call boundaries (inside public operations)
struct Plan {
  int mode = 0;                     // 0 none, 1 random, 2 explicit set of global boundary indices
  pplv::Rng* rng = nullptr;
  unsigned p_num = 0;               // probability p_num/16 of a tick at a boundary (mode 1)
  std::set<int> at;                 // mode 2: expire exactly at these boundaries
  std::map<int, long long> amount;  // mode 2: explicit amounts (0/absent = exact expiry)
  int counter = 0;
};
static Plan plan;

static long long pick_dt(pplv::Rng& r) {
  // amounts that matter: exact expiry, just before expiry, small, a centisecond
  switch (r.below(8)) {
    case 0: case 1: case 2: return vremain > 0 ? vremain : (long long)r.range(1, 20000);
    case 3: return vremain > 1 ? vremain - (long long)r.range(1, vremain < 9000 ? vremain - 1 : 9000) : 1;
    case 4: return r.range(1, 50);
    case 5: return r.range(1, 9999);
    case 6: return 10000;
    default: return r.range(1, 200000);
  }
}

static void boundary() {
  if (in_handler || !in_call) return;
  int k = plan.counter++;
  if (plan.mode == 1) {
    if (plan.rng->below(16) < plan.p_num) advance(pick_dt(*plan.rng));
  } else if (plan.mode == 2) {
    if (plan.at.count(k)) {
      auto it = plan.amount.find(k);
      long long d = (it != plan.amount.end() && it->second > 0) ? it->second : vremain;
      if (d > 0) advance(d);
    }
  }
}

extern "C" int setitimer(__itimer_which_t, const struct itimerval* v, struct itimerval*) {
  if (in_handler) {
    long long us = (long long)v->it_value.tv_sec * 1000000LL + v->it_value.tv_usec;
    if (v->it_value.tv_sec < 0 || v->it_value.tv_usec < 0 || v->it_value.tv_usec >= 1000000) {
      emit("obs hsetfail"); errno = EINVAL; return -1;
    }
    vremain = us;
    emit("obs hset " + S(us));
    return 0;
  }
  if (in_call) emit("senter set");
  boundary();
  if (v->it_value.tv_sec < 0 || v->it_value.tv_usec < 0 || v->it_value.tv_usec >= 1000000) {
    if (in_call) emit("sexit setfail");
    errno = EINVAL;                 // what the kernel does with an invalid timeval
    return -1;
  }
  vremain = (long long)v->it_value.tv_sec * 1000000LL + v->it_value.tv_usec;
  if (in_call) emit("sexit set " + S(vremain));
  boundary();
  return 0;
}
extern "C" int getitimer(__itimer_which_t, struct itimerval* v) {
  if (!in_handler && in_call) emit("senter get");
  boundary();
  long long r = vremain;
  v->it_value.tv_sec = r / 1000000; v->it_value.tv_usec = r % 1000000;
  v->it_interval.tv_sec = 0; v->it_interval.tv_usec = 0;
  if (!in_handler && in_call) emit("sexit get " + S(r));
  boundary();
  return 0;
}
extern "C" int sigaction(int sig, const struct sigaction* a, struct sigaction*) {
  if (a) { g_handler = a->sa_handler; g_signum = sig; }
  return 0;
}

// ------------------------------------------------------------------ watchdog actions
static const int MAXID = 24;
template <int N> static void fire() { emit("obs fired " + S(N) + " " + S(vnow)); }
typedef void (*fn_t)();
template <int N> struct Fill { static void go(fn_t* t) { t[N] = &fire<N>; Fill<N - 1>::go(t); } };
template <> struct Fill<-1> { static void go(fn_t*) {} };
static fn_t fire_tab[MAXID];

static Watchdog* wd[MAXID];

static void do_create(int id, long cs) {
  emit("call create " + S(id) + " " + S(cs));
  flush_j();                       // a crash inside the library is attributed to this call
  in_call = true;
  try { wd[id] = new Watchdog(cs, fire_tab[id]); in_call = false; emit("ret"); }
  catch (...) { in_call = false; wd[id] = nullptr; emit("exc " + pplv::exc_class()); }
}
static void do_destroy(int id) {
  emit("call destroy " + S(id));
  flush_j();
  in_call = true;
  try { delete wd[id]; in_call = false; emit("ret"); }
  catch (...) { in_call = false; emit("exc " + pplv::exc_class()); }
  wd[id] = nullptr;
}

// delays: centiseconds; chosen so that deadlines often share the seconds field and differ in the
// microseconds, and sometimes cross a second boundary
static long pick_cs(pplv::Rng& r) {
  switch (r.below(6)) {
    case 0: return r.range(1, 9);
    case 1: return r.range(10, 99);
    case 2: return r.range(95, 105);
    case 3: return r.range(100, 250);
    case 4: return 1;
    default: return r.range(1, 60);
  }
}
static long long pick_idle(pplv::Rng& r) {
  switch (r.below(8)) {
    case 0: case 1: return vremain > 0 ? vremain : (long long)r.range(1, 100000);
    case 2: return vremain > 1 ? (long long)r.range(1, vremain - 1) : 1;
    case 3: return r.range(1, 9999);
    case 4: return 10000 * r.range(1, 30);
    case 5: return r.range(1, 50);
    case 6: return vremain > 0 ? vremain + r.range(1, 300000) : (long long)r.range(1, 100000);
    default: return r.range(1, 1500000);
  }
}

struct Op { int kind; int id; long arg; };   // 0 create, 1 destroy, 2 advance (arg<0: pick online)

// a random sequence of creations/destructions (<= 6 alive), every watchdog destroyed at the end
static std::vector<Op> gen_ops(pplv::Rng& r, int nops, int max_live) {
  std::vector<Op> ops; std::vector<int> live; int next = 0;
  for (int i = 0; i < nops; ++i) {
    unsigned c = r.below(10);
    if (c < 4 && (int)live.size() < max_live && next < MAXID) {
      ops.push_back({0, next, pick_cs(r)}); live.push_back(next++);
    } else if (c < 7 && !live.empty()) {
      unsigned k = r.below(live.size());
      ops.push_back({1, live[k], 0}); live.erase(live.begin() + k);
    } else ops.push_back({2, 0, -1});
  }
  while (!live.empty()) {
    if (r.chance(1, 2)) ops.push_back({2, 0, -1});
    unsigned k = r.below(live.size());
    ops.push_back({1, live[k], 0}); live.erase(live.begin() + k);
  }
  return ops;
}

static void run_ops(const std::vector<Op>& ops, pplv::Rng& r) {
  for (const Op& o : ops) {
    if (o.kind == 0) do_create(o.id, o.arg);
    else if (o.kind == 1) do_destroy(o.id);
    else advance(o.arg >= 0 ? o.arg : pick_idle(r));
  }
}

static void reset_clock() { vnow = 0; vremain = 0; plan = Plan(); }

// exhaustive placements: run `ops` once without ticks to count the boundaries, then once per
// boundary (and per pair of boundaries) with an exact expiry there
static int count_boundaries(const std::vector<Op>& ops) {
  // dry run in a forked child would be cleaner, but the bookkeeping is reset by destroying everything
  std::string save; save.swap(jbuf);
  reset_clock(); plan.mode = 2;
  pplv::Rng dummy(0);
  run_ops(ops, dummy);
  int n = plan.counter;
  jbuf.swap(save);
  return n;
}

static long case_no = 0;
static void exh_case(const std::vector<Op>& ops, const std::set<int>& at, const std::map<int, long long>& amt) {
  emit("case " + S(case_no++) + " exh");
  reset_clock(); plan.mode = 2; plan.at = at; plan.amount = amt;
  pplv::Rng dummy(0);
  run_ops(ops, dummy);
  emit("end"); flush_j();
}

// ------------------------------------------------------------------ weight watcher
typedef Threshold_Watcher<Weightwatch_Traits> Weightwatch;
template <int N> static void wfire() { emit("obs wfired " + S(N)); }
template <int N> struct WFill { static void go(fn_t* t) { t[N] = &wfire<N>; WFill<N - 1>::go(t); } };
template <> struct WFill<-1> { static void go(fn_t*) {} };
static fn_t wfire_tab[MAXID];
static Weightwatch* ww[MAXID];

static void weight_case(pplv::Rng& r, long n) {
  typedef unsigned long long U;
  U w0;
  switch (r.below(4)) {
    case 0: w0 = 0; break;
    case 1: w0 = ~0ULL - (U)r.range(0, 40); break;                 // just below wrap-around
    case 2: w0 = (1ULL << 63) - (U)r.range(0, 40); break;          // just below the sign bit
    default: w0 = r.next(); break;
  }
  Weightwatch_Traits::weight = w0;
  emit("wcase " + S(n) + " " + std::to_string(w0));
  std::vector<int> live; int next = 0;
  int nops = (int)r.range(4, 14);
  for (int i = 0; i < nops || !live.empty(); ++i) {
    unsigned c = r.below(10);
    if (i >= nops) c = 4;                                          // wind down: destroy
    if (c < 3 && live.size() < 6 && next < MAXID) {
      U delta;
      switch (r.below(5)) {
        case 0: delta = (U)r.range(0, 3); break;
        case 1: delta = (U)r.range(1, 60); break;
        case 2: delta = (1ULL << 63) - (U)r.range(0, 3); break;    // at the edge of the comparison window
        case 3: delta = (1ULL << 63) + (U)r.range(0, 3); break;    // beyond it
        default: delta = (U)r.range(1, 20); break;
      }
      int id = next++;
      emit("wcall create " + S(id) + " " + std::to_string(delta));
      try { ww[id] = new Weightwatch(delta, wfire_tab[id]); live.push_back(id); emit("ret"); }
      catch (...) { ww[id] = nullptr; emit("exc " + pplv::exc_class()); }
    } else if (c < 5 && !live.empty()) {
      unsigned k = r.below(live.size()); int id = live[k]; live.erase(live.begin() + k);
      emit("wcall destroy " + S(id));
      delete ww[id]; ww[id] = nullptr; emit("ret");
    } else if (c < 8) {
      U d;
      switch (r.below(6)) {
        case 0: d = 1; break;
        case 1: d = (U)r.range(1, 10); break;
        case 2: d = (U)r.range(10, 70); break;
        case 3: d = (1ULL << 63) - (U)r.range(0, 2); break;        // a jump of half the range
        case 4: d = (1ULL << 62); break;
        default: d = (U)r.range(1, 30); break;
      }
      emit("wcall add " + std::to_string(d));
      Weightwatch_Traits::weight += d;                              // what WEIGHT_ADD does
      emit("ret");
    } else {
      emit("wcall check");
      try { maybe_abandon(); emit("ret"); } catch (...) { emit("exc " + pplv::exc_class()); }
    }
  }
  emit("end"); flush_j();
}

// ------------------------------------------------------------------ scripted case (replays, probes)
//   create <id> <cs> | destroy <id> | advance <us> | at <k> [<us>]   (tick at global boundary k; no
//   amount = exactly until expiry) -- `at` lines must precede the operations
static void script_case(const char* path) {
  FILE* f = fopen(path, "r"); if (!f) { perror(path); exit(2); }
  std::vector<Op> ops; std::set<int> at; std::map<int, long long> amt;
  char line[256];
  while (fgets(line, sizeof line, f)) {
    char w[32]; long a = 0, b = 0;
    int n = sscanf(line, "%31s %ld %ld", w, &a, &b);
    if (n < 1 || w[0] == '#') continue;
    if (!strcmp(w, "create")) ops.push_back({0, (int)a, b});
    else if (!strcmp(w, "destroy")) ops.push_back({1, (int)a, 0});
    else if (!strcmp(w, "advance")) ops.push_back({2, 0, a});
    else if (!strcmp(w, "at")) { at.insert((int)a); if (n >= 3) amt[(int)a] = b; }
  }
  fclose(f);
  exh_case(ops, at, amt);
}

int main(int argc, char** argv) {
  Fill<MAXID - 1>::go(fire_tab); WFill<MAXID - 1>::go(wfire_tab);
  Watchdog::initialize();          // in case the library initialiser ran before our table was ready
  long seed = pplv::arg_long(argc, argv, "--seed", 1);
  long n_rand = pplv::arg_long(argc, argv, "--rand", 600);
  long n_exh = pplv::arg_long(argc, argv, "--exh", 40);
  long n_weight = pplv::arg_long(argc, argv, "--weight", 400);
  long n_neg = pplv::arg_long(argc, argv, "--neg", 2);
  const char* script = pplv::arg_str(argc, argv, "--script", nullptr);
  emit(std::string("eqbug ") + ((WTime(0, 1) == WTime(0, 2)) ? "1" : "0")); flush_j();
  if (script) { script_case(script); return 0; }

  const long per_batch = 50;
  // batches: [0, R) random placements; [R, R+E) exhaustive placements; then negative delays (one
  // child each: the constructor must reject them; should it not, the process state is poisoned);
  // then the weight watcher
  long R = (n_rand + per_batch - 1) / per_batch, E = n_exh, N = n_neg, W = (n_weight + per_batch - 1) / per_batch;
  return pplv::run_batches(0, R + E + N + W, [&](long b) {
    if (b < R) {
      for (long i = b * per_batch; i < (b + 1) * per_batch && i < n_rand; ++i) {
        pplv::Rng r((uint64_t)seed * 1000003ull + (uint64_t)i);
        int nops = (int)r.range(3, 16);
        std::vector<Op> ops = gen_ops(r, nops, 6);
        emit("case " + S(i) + " rand");
        reset_clock(); plan.mode = 1; plan.rng = &r; plan.p_num = (unsigned)r.range(0, 6);
        run_ops(ops, r);
        emit("end"); flush_j();
      }
    } else if (b < R + E) {
      long i = b - R;
      case_no = 100000 + i * 1000;
      pplv::Rng r((uint64_t)seed * 7000003ull + (uint64_t)i);
      int nops = (int)r.range(3, 7);
      std::vector<Op> ops = gen_ops(r, nops, 3);
      // make idle advances concrete so that every placement sees the same sequence
      for (Op& o : ops) if (o.kind == 2) o.arg = (long)(r.chance(1, 2) ? r.range(1, 9999) : 10000 * r.range(1, 40));
      int nb = count_boundaries(ops);
      exh_case(ops, {}, {});
      for (int k = 0; k < nb; ++k) exh_case(ops, {k}, {});
      for (int k = 0; k < nb; ++k) {                      // a short advance, then exact expiry later
        std::map<int, long long> amt; amt[k] = r.range(1, 9999);
        for (int k2 = k + 1; k2 < nb && k2 < k + 4; ++k2) exh_case(ops, {k, k2}, amt);
      }
      if (nb <= 14) for (int k = 0; k < nb; ++k) for (int k2 = k + 1; k2 < nb; ++k2) exh_case(ops, {k, k2}, {});
    } else if (b < R + E + N) {
      long i = b - R - E;
      pplv::Rng r((uint64_t)seed * 9000011ull + (uint64_t)i);
      unbuffered = true;
      emit("case " + S(200000 + i) + " neg");
      reset_clock();
      long neg = -(long)r.range(1, 250);
      bool first = r.chance(1, 2);
      if (!first) { do_create(0, pick_cs(r)); advance(r.range(1, 5000)); }
      do_create(1, neg);
      do_create(2, pick_cs(r));
      advance(3000000);
      advance(3000000);
      emit("end"); flush_j();
      _exit(0);                                          // do not run destructors of poisoned state
    } else {
      long b0 = b - R - E - N;
      for (long i = b0 * per_batch; i < (b0 + 1) * per_batch && i < n_weight; ++i) {
        pplv::Rng r((uint64_t)seed * 5000011ull + (uint64_t)i);
        weight_case(r, i);
      }
    }
  });
}
