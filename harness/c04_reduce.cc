// C04 stage 2 — correspondence harness for the reduction and exact-join code of BD_Shape<mpq_class> and
// Octagonal_Shape<mpq_class> (models lean/PPLV/WR/Reduce.lean, ReduceOct.lean; driver pplv_wrr).
//
//   g++ -O1 -w -std=gnu++17 -I/repo/src -I/verif/harness c04_reduce.cc -o c04_reduce -L/repo/src/.libs -lppl -lgmpxx -lgmp
//   LD_LIBRARY_PATH=/repo/src/.libs ./c04_reduce --seed 1 --first 0 --last 8 | /verif/lean/.lake/build/bin/pplv_wrr
//
// For seeded non-empty shapes (equality chains, zero cycles made of inequalities, redundant sums, unbounded
// entries, fractions, dimension 1..5), reached either directly from a constraint system, from a matrix written
// into `dbm` / `matrix`, or through a short history that starts from an object already marked reduced, the
// REAL code is called and journalled:
//   bred: the closed dbm, `redundancy_dbm` left by shortest_path_reduction_assign() (through the public
//         minimized_constraints()), the list minimized_constraints(), constraints() of the not-reduced
//         closed shape, affine_dimension(), is_shortest_path_reduced()
//   ored: the strongly closed matrix, the output of non_redundant_matrix_entries() (on a copy), the matrix
//         left by strong_reduction_assign() (through minimized_constraints()), the two constraint lists,
//         affine_dimension()
//   bub / oub: two closed shapes, the answer of upper_bound_assign_if_exact and the matrix it leaves.
// `#define private public` around ppl.hh only (layout unchanged, nothing in libppl is rebuilt).
// Before each case `begin <id> <kind>` is journalled, so that a crash of the library (`crash <signal>` appended by
// run_batches; the rest of that batch is lost and counted by the check) is attributed to a case.
// `--only <id>` runs the single case with that id (replay of a recorded case: same seed, batch).
#include <cstdio>
#include <cstdlib>
#include <cstring>
#include <cstdint>
#include <string>
#include <sstream>
#include <iostream>
#include <vector>
#include <map>
#include <set>
#include <list>
#include <deque>
#include <algorithm>
#include <limits>
#include <stdexcept>
#include <gmpxx.h>
#define private public
#define protected public
#include "ppl.hh"
#undef private
#undef protected
#include "common.hh"

using namespace Parma_Polyhedra_Library;
using namespace Parma_Polyhedra_Library::IO_Operators;

typedef BD_Shape<mpq_class> BD;
typedef Octagonal_Shape<mpq_class> OC;

template <typename N> static std::string show(const N& x) { std::ostringstream s; s << x; return s.str(); }

static std::string dump(const BD& bd) {
  std::string r; dimension_type rows = bd.space_dimension() + 1;
  for (dimension_type i = 0; i < rows; ++i) {
    if (i) r += ";";
    for (dimension_type j = 0; j < rows; ++j) { if (j) r += ","; r += show(bd.dbm[i][j]); }
  }
  return r;
}
static std::string dump(const OC& oc) {
  std::string r; bool first = true;
  for (OR_Matrix<OC::N>::const_row_iterator i = oc.matrix.row_begin(), e = oc.matrix.row_end(); i != e; ++i) {
    if (!first) r += ";"; first = false;
    OR_Matrix<OC::N>::const_row_reference_type row = *i;
    for (dimension_type j = 0, rs = i.row_size(); j < rs; ++j) { if (j) r += ","; r += show(row[j]); }
  }
  return r;
}
static std::string dump_red(const BD& bd) {
  std::string r; dimension_type rows = bd.space_dimension() + 1;
  for (dimension_type i = 0; i < rows; ++i) {
    if (i) r += ";";
    for (dimension_type j = 0; j < rows; ++j)
      r += (i < bd.redundancy_dbm.num_rows() ? (bd.redundancy_dbm[i][j] ? "1" : "0") : "?");
  }
  return r;
}
static std::string dump_bits(const std::vector<Bit_Row>& b, dimension_type n) {
  std::string r;
  for (dimension_type i = 0; i < 2 * n; ++i) {
    if (i) r += ";";
    for (dimension_type j = 0, rs = OR_Matrix<OC::N>::row_size(i); j < rs; ++j) r += (i < b.size() && b[i][j]) ? "1" : "0";
  }
  return r;
}
static std::string dump_cs(const Constraint_System& cs, dimension_type n) {
  std::string r;
  for (Constraint_System::const_iterator i = cs.begin(), e = cs.end(); i != e; ++i) {
    if (!r.empty()) r += ";";
    r += i->is_equality() ? "E|" : "G|";
    r += show(i->inhomogeneous_term()); r += "|";
    for (dimension_type k = 0; k < n; ++k) {
      if (k) r += ",";
      r += (k < i->space_dimension()) ? show(i->coefficient(Variable(k))) : std::string("0");
    }
  }
  return r.empty() ? "-" : r;
}

// ---------------------------------------------------------------------------------------------------------
// random data: a rational point and constraints that hold at it, tight or with a slack from a small set, so
// that equalities, zero cycles made of inequalities and coinciding sums are frequent
static mpq_class rq(pplv::Rng& g) {
  long num = g.range(-6, 6), den = g.chance(1, 3) ? g.range(2, 3) : 1;
  mpq_class q(num, den); q.canonicalize(); return q;
}
static mpq_class slack(pplv::Rng& g, unsigned tight_pct) {
  if (g.below(100) < tight_pct) return mpq_class(0);
  static const long nums[] = {1, 1, 2, 3, 1, 5}; static const long dens[] = {1, 2, 1, 1, 3, 2};
  unsigned k = g.below(6); mpq_class q(nums[k], dens[k]); q.canonicalize(); return q;
}
// `e <= b` (or `==`) with a rational bound
static Constraint bound(const Linear_Expression& e, const mpq_class& b, bool eq) {
  Linear_Expression l = e; l *= Coefficient(b.get_den());
  Linear_Expression r; r += Coefficient(b.get_num());
  return eq ? (l == r) : (l <= r);
}
static std::vector<mpq_class> rnd_point(pplv::Rng& g, dimension_type n) {
  std::vector<mpq_class> p(n); for (dimension_type i = 0; i < n; ++i) p[i] = rq(g); return p;
}
static mpq_class eval(const std::vector<int>& c, const std::vector<mpq_class>& p) {
  mpq_class v = 0; for (size_t i = 0; i < c.size(); ++i) v += c[i] * p[i]; return v;
}
// one random constraint of the domain, satisfied by p
static Constraint rnd_con(pplv::Rng& g, dimension_type n, bool oct, const std::vector<mpq_class>& p, unsigned tight_pct) {
  std::vector<int> c(n, 0);
  dimension_type a = g.below(n), b = g.below(n);
  int sa = g.chance(1, 2) ? 1 : -1;
  if (a == b || g.chance(1, 3)) c[a] = sa;
  else { c[a] = sa; c[b] = oct ? (g.chance(1, 2) ? 1 : -1) : -sa; }
  Linear_Expression e; e += 0 * Variable(n - 1);
  for (dimension_type i = 0; i < n; ++i) e += c[i] * Variable(i);
  bool eq = g.chance(1, 7);
  mpq_class v = eval(c, p);
  return bound(e, eq ? v : mpq_class(v + slack(g, tight_pct)), eq);
}
static Constraint_System rnd_cs(pplv::Rng& g, dimension_type n, bool oct, const std::vector<mpq_class>& p) {
  Constraint_System cs;
  cs.insert(Linear_Expression(Variable(n - 1)) * 0 <= 1);     // fixes the space dimension
  unsigned style = g.below(4);
  unsigned tight = style == 0 ? 15 : style == 1 ? 45 : style == 2 ? 75 : 35;
  unsigned k = g.below(style == 3 ? 2 * n + 1 : 4 * n + 3);
  for (unsigned t = 0; t < k; ++t) cs.insert(rnd_con(g, n, oct, p, tight));
  if (g.chance(1, 4)) {        // an explicit chain of equalities through consecutive variables
    for (dimension_type i = 0; i + 1 < n; ++i)
      if (g.chance(2, 3)) {
        std::vector<int> c(n, 0); c[i] = 1; c[i + 1] = (oct && g.chance(1, 3)) ? 1 : -1;
        cs.insert(bound(c[i] * Variable(i) + c[i + 1] * Variable(i + 1), eval(c, p), true));
      }
    if (g.chance(1, 2)) { std::vector<int> c(n, 0); dimension_type a = g.below(n); c[a] = 1; cs.insert(bound(Linear_Expression(Variable(a)), eval(c, p), true)); }
  }
  return cs;
}
template <typename S> struct Kind;
template <> struct Kind<BD> { static const bool oct = false; };
template <> struct Kind<OC> { static const bool oct = true; };

static void fill(pplv::Rng& g, BD& bd, unsigned dens) {
  dimension_type rows = bd.space_dimension() + 1;
  for (dimension_type i = 0; i < rows; ++i)
    for (dimension_type j = 0; j < rows; ++j)
      if (i != j && g.below(100) < dens) { mpq_class q = rq(g); if (g.chance(2, 3) && q < 0) q = -q; assign_r(bd.dbm[i][j], q, ROUND_NOT_NEEDED); }
  bd.reset_shortest_path_closed(); bd.reset_shortest_path_reduced();
}
static void fill(pplv::Rng& g, OC& oc, unsigned dens) {
  for (OR_Matrix<OC::N>::row_iterator i = oc.matrix.row_begin(), e = oc.matrix.row_end(); i != e; ++i) {
    OR_Matrix<OC::N>::row_reference_type row = *i;
    for (dimension_type j = 0, rs = i.row_size(); j < rs; ++j)
      if (i.index() != j && g.below(100) < dens) { mpq_class q = rq(g); if (g.chance(2, 3) && q < 0) q = -q; assign_r(row[j], q, ROUND_NOT_NEEDED); }
  }
  oc.reset_strongly_closed();
}

// the shape under test: from constraints, from a written matrix, or through a history that starts reduced
static const char* OPS[] = {"fresh", "matrix", "again", "rmhigher", "rmdims", "embed", "project", "addcon", "meet", "join",
                            "unconstrain", "affimage", "copy", "assign", "concat", "expand", "fold", "elapse"};
template <typename S> bool make_shape(pplv::Rng& g, S& out, std::string& scen, dimension_type maxdim) {
  const bool oct = Kind<S>::oct;
  unsigned op = g.below(18);
  scen = OPS[op];
  dimension_type n = 1 + g.below(maxdim);
  if (op == 1) {
    S s(n, UNIVERSE); fill(g, s, 10 + g.below(50)); out = s; return true;
  }
  if (op == 3 || op == 4 || op == 16) n = std::min<dimension_type>(n + 1, maxdim + 1);
  std::vector<mpq_class> p = rnd_point(g, n);
  S s(rnd_cs(g, n, oct, p));
  if (op == 0) { out = s; return true; }
  // make it reduced first (BD: sets the flag and redundancy_dbm; octagon: throws away the redundant cells)
  if (s.is_empty()) return false;
  (void) s.minimized_constraints();
  switch (op) {
  case 2: break;
  case 3: s.remove_higher_space_dimensions(n - 1 - (n > 2 && g.chance(1, 3) ? 1 : 0)); break;
  case 4: { Variables_Set vs; vs.insert(Variable(g.below(n))); if (n > 2 && g.chance(1, 3)) vs.insert(Variable(g.below(n))); s.remove_space_dimensions(vs); break; }
  case 5: if (n >= maxdim) return false; s.add_space_dimensions_and_embed(1); break;
  case 6: if (n >= maxdim) return false; s.add_space_dimensions_and_project(1); break;
  case 7: s.add_constraint(rnd_con(g, n, oct, p, 50)); break;
  case 8: { S t(rnd_cs(g, n, oct, p)); s.intersection_assign(t); break; }
  case 9: { std::vector<mpq_class> p2 = g.chance(1, 2) ? p : rnd_point(g, n); S t(rnd_cs(g, n, oct, p2)); s.upper_bound_assign(t); break; }
  case 10: s.unconstrain(Variable(g.below(n))); break;
  case 11: { dimension_type v = g.below(n), w = g.below(n); s.affine_image(Variable(v), Linear_Expression(Variable(w)) + g.range(-2, 2)); break; }
  case 12: { S t(s); out = t; return true; }
  case 13: { S t(n, UNIVERSE); t = s; out = t; return true; }
  case 14: { if (n >= maxdim) return false; std::vector<mpq_class> p2 = rnd_point(g, 1); S t(rnd_cs(g, 1, oct, p2)); s.concatenate_assign(t); break; }
  case 15: if (n >= maxdim) return false; s.expand_space_dimension(Variable(g.below(n)), 1); break;
  case 16: { dimension_type d = g.below(n), v = (d + 1 + g.below(n - 1)) % n; Variables_Set vs; vs.insert(Variable(v)); s.fold_space_dimensions(vs, Variable(d)); break; }
  case 17: { S t(rnd_cs(g, n, oct, p)); s.time_elapse_assign(t); break; }
  }
  out = s; return true;
}

static void reduce_case(pplv::Rng& g, std::ostringstream& L, const std::string& id, BD*) {
  BD bd(1, UNIVERSE); std::string scen;
  if (!make_shape(g, bd, scen, 5)) return;
  dimension_type n = bd.space_dimension();
  if (n == 0 || bd.is_empty()) return;
  std::string closed = dump(bd);
  BD c(bd); c.reset_shortest_path_reduced();
  std::string allcs = dump_cs(c.constraints(), n);
  dimension_type aff = bd.affine_dimension();
  std::string mincs = dump_cs(bd.minimized_constraints(), n);
  std::string red = dump_red(bd);
  bool isr = bd.is_shortest_path_reduced();
  L << id << " bred " << n << " " << scen << " " << closed << " " << red << " " << mincs << " " << allcs << " " << aff << " " << (isr ? 1 : 0);
}
static void reduce_case(pplv::Rng& g, std::ostringstream& L, const std::string& id, OC*) {
  OC oc(1, UNIVERSE); std::string scen;
  if (!make_shape(g, oc, scen, 4)) return;
  dimension_type n = oc.space_dimension();
  if (n == 0 || oc.is_empty()) return;
  std::string closed = dump(oc);
  std::string allcs = dump_cs(oc.constraints(), n);
  dimension_type aff = oc.affine_dimension();
  OC c(oc); std::vector<Bit_Row> nr; c.non_redundant_matrix_entries(nr);
  std::string bits = dump_bits(nr, n);
  std::string mincs = dump_cs(oc.minimized_constraints(), n);
  std::string after = dump(oc);
  L << id << " ored " << n << " " << scen << " " << closed << " " << bits << " " << after << " " << mincs << " " << allcs << " " << aff;
}

// pairs for upper_bound_assign_if_exact: a shape cut in two along one of its own directions (adjacent, with a
// gap, overlapping), contained pairs, unrelated pairs
template <typename S> void ub_case(pplv::Rng& g, std::ostringstream& L, const std::string& id, const char* tag) {
  const bool oct = Kind<S>::oct;
  dimension_type n = 1 + g.below(3);
  std::vector<mpq_class> p = rnd_point(g, n);
  Constraint_System base = rnd_cs(g, n, oct, p);
  S x(base), y(base);
  unsigned style = g.below(6);
  std::string scen;
  std::vector<int> c(n, 0);
  dimension_type a = g.below(n), b = g.below(n);
  c[a] = 1; if (a != b && g.chance(2, 3)) c[b] = oct ? (g.chance(1, 2) ? 1 : -1) : -1;
  Linear_Expression e; e += 0 * Variable(n - 1);
  for (dimension_type i = 0; i < n; ++i) e += c[i] * Variable(i);
  mpq_class v = eval(c, p);
  if (style <= 2) {
    mpq_class cut = v + (g.chance(1, 2) ? mpq_class(0) : slack(g, 0));
    mpq_class lo = style == 0 ? cut : style == 1 ? mpq_class(cut + slack(g, 0)) : mpq_class(cut - slack(g, 0));
    x.add_constraint(bound(e, cut, false));
    y.add_constraint(bound(-e, -lo, false));
    scen = style == 0 ? "adjacent" : style == 1 ? "gap" : "overlap";
    if (g.chance(1, 2)) { x.add_constraint(rnd_con(g, n, oct, p, 30)); scen += "+x"; }
    if (g.chance(1, 3)) { y.add_constraint(rnd_con(g, n, oct, p, 30)); scen += "+y"; }
  } else if (style == 3) {
    y.add_constraint(rnd_con(g, n, oct, p, 40)); if (g.chance(1, 2)) y.add_constraint(rnd_con(g, n, oct, p, 40)); scen = "contained";
    if (g.chance(1, 2)) std::swap(x, y);
  } else if (style == 4) {
    std::vector<mpq_class> p2 = rnd_point(g, n); y = S(rnd_cs(g, n, oct, p2)); scen = "unrelated";
  } else {
    // a box-like staircase: two shapes sharing most constraints
    x.add_constraint(rnd_con(g, n, oct, p, 60)); y.add_constraint(rnd_con(g, n, oct, p, 60)); scen = "twocuts";
  }
  if (g.chance(1, 3)) { if (!x.is_empty()) (void) x.minimized_constraints(); scen += ".xred"; }
  if (g.chance(1, 3)) { if (!y.is_empty()) (void) y.minimized_constraints(); scen += ".yred"; }
  if (x.is_empty() || y.is_empty()) return;
  std::string xs = dump(x), ys = dump(y);
  bool ans = x.upper_bound_assign_if_exact(y);
  L << id << " " << tag << " " << n << " " << scen << " " << xs << " " << ys << " " << (ans ? 1 : 0) << " " << (ans ? dump(x) : std::string("-"));
}

static const char* KINDS[] = {"bred", "ored", "bub", "oub"};

int main(int argc, char** argv) {
  long seed = pplv::arg_long(argc, argv, "--seed", 1), first = pplv::arg_long(argc, argv, "--first", 0),
       last = pplv::arg_long(argc, argv, "--last", 4), per = pplv::arg_long(argc, argv, "--per", 60),
       ubper = pplv::arg_long(argc, argv, "--ub", 30);
  std::string only = pplv::arg_str(argc, argv, "--only", "");
  return pplv::run_batches(first, last, [&](long b) {
    pplv::Journal J(1);
    std::string p = std::to_string(seed) + "." + std::to_string(b);
    for (int kind = 0; kind < 4; ++kind) {
      long cnt = kind < 2 ? per : ubper;
      for (long c = 0; c < cnt; ++c) {
        // one generator per case: a case is reproducible from (seed, batch, kind, c) alone
        pplv::Rng g(((uint64_t)seed * 1000003ull + (uint64_t)b) * 4099ull + (uint64_t)kind * 1000ull + (uint64_t)c);
        std::string id = p + "." + "boBO"[kind] + std::to_string(c);
        if (!only.empty() && only != id) continue;
        std::ostringstream L;
        // the case about to run: a crash (journalled by run_batches as `crash <signal>`) is attributed to it
        J.line("begin " + id + " " + KINDS[kind]);
        try {
          switch (kind) {
          case 0: reduce_case(g, L, id, (BD*)0); break;
          case 1: reduce_case(g, L, id, (OC*)0); break;
          case 2: ub_case<BD>(g, L, id, "bub"); break;
          case 3: ub_case<OC>(g, L, id, "oub"); break;
          }
        } catch (...) {
          L.str(""); L << id << " exc " << 0 << " " << pplv::exc_class();
        }
        if (!L.str().empty()) J.line(L.str());
      }
    }
  }, 120);
}
