// C03 — correspondence harness for the sign-case transformers of BD_Shape<T> (the code-shaped model
// lean/PPLV/WR/Trans.lean, driver pplv_wrt) and, phase 2, Octagonal_Shape<T>::affine_image
// (lean/PPLV/WR/TransOct.lean).
//
//   g++ -O1 -w -std=gnu++17 -I/repo/src -I/verif/harness c03_trans.cc -o c03_trans \
//       -L/repo/src/.libs -lppl -lgmpxx -lgmp
//   LD_LIBRARY_PATH=/repo/src/.libs ./c03_trans --seed 1 --first 0 --last 20 --per 40 \
//       | /verif/lean/.lake/build/bin/pplv_wrt
//   ./c03_trans --replay <file>     re-executes the journal lines of <file> (id, op, T, matrix, closed flag and
//                                   arguments are taken from each line, its recorded outcome is ignored)
//
// T in {mpq_class, mpz_class, int8_t, double}.  The matrix `dbm` is written and read directly
// (`#define private public` around ppl.hh only — layout is unchanged, nothing in libppl is rebuilt), so
// that the matrix before and after each call is observed exactly.  In 3/4 of the cases the shape is
// closed first (`shortest_path_closure_assign()`; the case is dropped when that marks it empty), in 1/4
// it is left unclosed and the transformer closes it itself.
//
// Journal, one event per line (see lean/Driver/WRT.lean):
//
//   <id> <op> <mode> <n> <closed> <before> <args...> <after>
//
//   mode   : id (mpq_class) | ceil (mpz_class) | range:-126:126 (int8_t) | dbl (double)
//   n      : space dimension (1..4)
//   closed : marked_shortest_path_closed() read just before the call (0/1)
//   before : the matrix before the call, rows separated by `;`, entries by `,`; an entry is an integer,
//            `p/q` (exact value, also for double), `+inf`, `-inf` or `nan`
//            (octagons, op `oaff`: the 2n rows of the pseudo-triangular matrix, row i of row_size(i) entries)
//   after  : the matrix after the call | `E` (marked empty afterwards) | `X:<exception class>`
//            (`X:int`: the `throw(0)` of sgn() applied to a Not-a-Number).
//            The part of the line before <after> is written BEFORE the call: if the library crashes the
//            line ends with `crash <signal>` (appended by pplv::run_batches).
//   op and args:
//     refine <sd> <kind> <inhomo> <coeffs>   refine_no_check(const Constraint& c)  (private)
//     addc   <sd> <kind> <inhomo> <coeffs>   add_constraint(c)
//            the constraint as the Constraint object reports it: sd = c.space_dimension(),
//            kind = eq|ge|gt, inhomo = c.inhomogeneous_term(), coeffs = c.coefficient(Variable(i)), i < sd,
//            comma separated (`-` when sd = 0); it reads  coeffs·x + inhomo  (= | >= | >)  0
//     aff  <var> <den> <b> <coeffs>          affine_image(Variable(var), coeffs·x + b, den)     (n coefficients)
//     gaff <var> <le|ge|eq> <den> <b> <coeffs>   generalized_affine_image(Variable(var), relsym, coeffs·x + b, den)
//     baff <var> <den> <bl> <lcoeffs> <bu> <ucoeffs>  bounded_affine_image(Variable(var), lb, ub, den)
//     apre <var> <den> <b> <coeffs>          affine_preimage(Variable(var), coeffs·x + b, den)
//     gapre <var> <le|ge|eq> <den> <b> <coeffs>  generalized_affine_preimage(Variable(var), relsym, coeffs·x + b, den)
//     unc  <var>                             unconstrain(Variable(var))
//     oaff <var> <den> <b> <coeffs>          Octagonal_Shape<T>::affine_image (mpz, int8, mpq, double; --oct <cases>)
//   stage 5 (--s5 <cases per type per batch>): the op codes documented at `stage 5` below
#include <cstdio>
#include <cstdlib>
#include <cstring>
#include <cstdint>
#include <string>
#include <sstream>
#include <iostream>
#include <vector>
#include <map>
#include <set>
#include <list>
#include <deque>
#include <algorithm>
#include <limits>
#include <stdexcept>
#include <gmpxx.h>
#define private public
#define protected public
#include "ppl.hh"
#undef private
#undef protected
#include "common.hh"

using namespace Parma_Polyhedra_Library;

template <typename T> struct Ty;
template <> struct Ty<mpq_class> { static const char* mode() { return "id"; } static const bool integer = false; static const long big = 0; };
template <> struct Ty<mpz_class> { static const char* mode() { return "ceil"; } static const bool integer = true; static const long big = 0; };
template <> struct Ty<int8_t> { static const char* mode() { return "range:-126:126"; } static const bool integer = true; static const long big = 126; };
template <> struct Ty<double> { static const char* mode() { return "dbl"; } static const bool integer = false; static const long big = 0; };

// an entry, exactly
template <typename N> std::string show(const N& x) {
  if (is_not_a_number(x)) return "nan";
  if (is_plus_infinity(x)) return "+inf";
  if (is_minus_infinity(x)) return "-inf";
  mpq_class q;
  assign_r(q, x, ROUND_NOT_NEEDED);
  q.canonicalize();
  return q.get_str();
}

template <typename T> std::string dump(const BD_Shape<T>& bd) {
  std::string r; dimension_type rows = bd.space_dimension() + 1;
  for (dimension_type i = 0; i < rows; ++i) {
    if (i) r += ";";
    for (dimension_type j = 0; j < rows; ++j) { if (j) r += ","; r += show(bd.dbm[i][j]); }
  }
  return r;
}
template <typename T> std::string dump(const Octagonal_Shape<T>& oc) {
  std::string r; bool first = true;
  for (typename OR_Matrix<typename Octagonal_Shape<T>::N>::const_row_iterator i = oc.matrix.row_begin(),
         e = oc.matrix.row_end(); i != e; ++i) {
    if (!first) r += ";"; first = false;
    typename OR_Matrix<typename Octagonal_Shape<T>::N>::const_row_reference_type row = *i;
    for (dimension_type j = 0, rs = i.row_size(); j < rs; ++j) { if (j) r += ","; r += show(row[j]); }
  }
  return r;
}

// a random finite bound: small integers; mpq / double also fractions (1/3, 1/10, ... are not doubles:
// rounding matters); bounded T also values near the range
template <typename T, typename N> void rnd_bound(pplv::Rng& g, N& x, bool nonneg_bias, bool near_limit) {
  long num = g.range(nonneg_bias ? -2 : -6, 9), den = 1;
  if (!Ty<T>::integer && g.chance(1, 3)) { static const long ds[] = {2, 3, 4, 10, 7}; den = ds[g.below(5)]; }
  if (Ty<T>::big && near_limit && g.chance(1, 3))
    num = g.chance(1, 2) ? g.range(Ty<T>::big - 40, Ty<T>::big) : -g.range(Ty<T>::big - 40, Ty<T>::big);
  mpq_class q(num, den); q.canonicalize();
  assign_r(x, q, ROUND_UP);
}

// unary: 0 = every unary bound finite, 1 = all but one or two, 2 = as dense as the rest
template <typename T> void fill(pplv::Rng& g, BD_Shape<T>& bd, unsigned dens, unsigned unary, bool near_limit) {
  dimension_type rows = bd.space_dimension() + 1;
  bool bias = g.chance(2, 3);
  dimension_type hole1 = 1 + g.below(rows - 1), hole2 = 1 + g.below(rows - 1);
  bool hole1_up = g.chance(1, 2), hole2_up = g.chance(1, 2), two = g.chance(1, 3);
  for (dimension_type i = 0; i < rows; ++i)
    for (dimension_type j = 0; j < rows; ++j) {
      if (i == j) continue;
      bool un = (i == 0 || j == 0);
      bool put;
      if (un && unary == 0) put = true;
      else if (un && unary == 1) {
        dimension_type var = i + j; bool up = (i == 0);
        put = !((var == hole1 && up == hole1_up) || (two && var == hole2 && up == hole2_up));
      }
      else put = g.below(100) < dens;
      if (put) rnd_bound<T>(g, bd.dbm[i][j], bias, near_limit);
    }
  bd.reset_shortest_path_closed();
}

template <typename T> void fill(pplv::Rng& g, Octagonal_Shape<T>& oc, unsigned dens, unsigned unary, bool near_limit) {
  bool bias = g.chance(2, 3);
  typedef typename OR_Matrix<typename Octagonal_Shape<T>::N>::row_iterator RI;
  dimension_type nr = 2 * oc.space_dimension();
  dimension_type hole = g.below(nr);
  for (RI i = oc.matrix.row_begin(), e = oc.matrix.row_end(); i != e; ++i) {
    typename OR_Matrix<typename Octagonal_Shape<T>::N>::row_reference_type row = *i;
    dimension_type ii = i.index();
    for (dimension_type j = 0, rs = i.row_size(); j < rs; ++j) {
      if (ii == j) continue;
      bool un = (j == (ii ^ 1u));
      bool put;
      if (un && unary == 0) put = true;
      else if (un && unary == 1) put = (ii != hole);
      else put = g.below(100) < dens;
      if (put) rnd_bound<T>(g, row[j], bias, near_limit);
    }
  }
  oc.reset_strongly_closed();
}

static std::string coeffs(const std::vector<long>& e) {
  if (e.empty()) return "-";
  std::string r; for (size_t i = 0; i < e.size(); ++i) { if (i) r += ","; r += std::to_string(e[i]); } return r;
}

static long rnd_den(pplv::Rng& g) {
  static const long ds[] = {1, 1, 1, -1, -1, 2, -2, 3, -3, 5};
  return ds[g.below(10)];
}
static long rnd_coeff(pplv::Rng& g, long den) {
  // often +/- den (the `== sc_denom` tests of the pinf_count == 1 branches, the q >= 1 branch of deduce_*)
  unsigned k = g.below(6);
  if (k == 0) return den;
  if (k == 1) return -den;
  long c = g.range(-5, 5);
  return c == 0 ? (g.chance(1, 2) ? 2 : -3) : c;
}

// a random expression over n variables; form: 0 constant, 1 +/-den*var + b, 2 +/-den*w + b (w != var),
// 3 one variable with a coefficient != +/-den, 4 general (2..n variables, var itself included or not)
template <typename T>
void rnd_expr(pplv::Rng& g, dimension_type n, dimension_type var, long den, unsigned form,
              std::vector<long>& e, long& b, Linear_Expression& le) {
  e.assign(n, 0);
  if (n < 2 && (form == 2 || form == 4)) form = g.chance(1, 2) ? 1 : 3;
  switch (form) {
  case 0: break;
  case 1: e[var] = g.chance(1, 2) ? den : -den; break;
  case 2: { dimension_type w = g.below(n - 1); if (w >= var) ++w; e[w] = g.chance(1, 2) ? den : -den; break; }
  case 3: { dimension_type w = g.below(n); long c; do { c = rnd_coeff(g, den * 2); } while (c == den || c == -den); e[w] = c; break; }
  default: {
    unsigned k = 2 + g.below(n - 1), placed = 0;
    while (placed < k) { dimension_type w = g.below(n); if (e[w] == 0) { e[w] = rnd_coeff(g, den); ++placed; } }
    break; }
  }
  b = g.chance(1, 3) ? 0 : g.range(-8, 8);
  if (Ty<T>::big && g.chance(1, 12)) b = g.chance(1, 2) ? g.range(60, 200) : -g.range(60, 200);
  if (Ty<T>::big && g.chance(1, 40)) { dimension_type w = g.below(n); if (e[w] != 0) e[w] = g.chance(1, 2) ? g.range(127, 300) : -g.range(127, 300); }
  le = Linear_Expression();
  for (dimension_type i = 0; i < n; ++i) if (e[i] != 0) le += e[i] * Variable(i);
  le += b;
}

// a random constraint of space dimension <= n
template <typename T> Constraint rnd_con(pplv::Rng& g, dimension_type n) {
  Linear_Expression e;
  static const long as[] = {1, 1, -1, 2, 3, -5, -2, 4};
  unsigned form = g.below(10);
  long a = as[g.below(8)];
  if (form <= 3 && n >= 2) {            // bounded difference a*x - a*y
    dimension_type x = g.below(n), y = g.below(n - 1); if (y >= x) ++y;
    e = a * Variable(x) - a * Variable(y);
  }
  else if (form <= 6) e = a * Variable(g.below(n));           // single variable
  else if (form == 7) { if (g.chance(1, 2)) e = 0 * Variable(g.below(n)); }   // trivial
  else if (form == 8 && n >= 2) {       // two variables, not a bounded difference
    dimension_type x = g.below(n), y = g.below(n - 1); if (y >= x) ++y;
    if (g.chance(1, 2)) e = a * Variable(x) + a * Variable(y); else e = a * Variable(x) - (a + (a > 0 ? 1 : -1)) * Variable(y);
  }
  else if (n >= 3) {                    // three variables
    dimension_type x = g.below(n); e = Variable(x) - Variable((x + 1) % n) + (g.chance(1, 2) ? 1 : -1) * Variable((x + 2) % n);
  }
  else e = a * Variable(g.below(n));
  long k = g.range(-6, 9);
  if (form == 7) k = g.range(-2, 2);
  if (Ty<T>::big && g.chance(1, 6)) k = g.chance(1, 2) ? g.range(100, 400) : -g.range(100, 400);
  switch (g.below(8)) {
  case 0: case 1: return e == k;
  case 2: case 3: return e <= k;
  case 4: case 5: return e >= k;
  case 6: return e < k;
  default: return e > k;
  }
}

static std::string con_args(const Constraint& c) {
  dimension_type sd = c.space_dimension();
  std::vector<long> cf(sd);
  std::ostringstream s;
  s << sd << " " << (c.is_equality() ? "eq" : c.is_strict_inequality() ? "gt" : "ge") << " " << c.inhomogeneous_term() << " ";
  if (sd == 0) s << "-";
  for (dimension_type i = 0; i < sd; ++i) { if (i) s << ","; s << c.coefficient(Variable(i)); }
  return s.str();
}

static void put(const std::string& s) {
  const char* p = s.data(); size_t n = s.size();
  while (n) { ssize_t w = ::write(1, p, n); if (w <= 0) break; p += w; n -= (size_t)w; }
}

template <typename S> std::string outcome(const S& s) { return s.marked_empty() ? std::string("E") : dump(s); }

template <typename T> void run_T(pplv::Rng& g, const std::string& idp, int per) {
  const std::string mode = Ty<T>::mode();
  for (int c = 0; c < per; ++c) {
    static const dimension_type ns[] = {1, 1, 2, 2, 2, 2, 3, 3, 3, 3, 3, 4};
    dimension_type n = ns[g.below(12)];
    unsigned unary = g.below(3);
    // one or two unary bounds missing: few binary constraints, so that closure does not restore them
    unsigned dens = unary == 1 ? g.below(35) : 10 + g.below(70);
    bool near_limit = g.chance(1, 4);
    std::string id = idp + "." + std::to_string(c);
    unsigned what = g.below(22);
    BD_Shape<T> bd(n, UNIVERSE);
    fill(g, bd, dens, unary, near_limit);
    if (g.chance(3, 4)) {
      bd.shortest_path_closure_assign();
      if (bd.marked_empty()) continue;
    }
    else {
      // left unclosed: most random matrices are empty; keep only a quarter of the empty ones
      BD_Shape<T> probe(bd);
      probe.shortest_path_closure_assign();
      if (probe.marked_empty() && !g.chance(1, 4)) continue;
    }
    int closed = bd.marked_shortest_path_closed() ? 1 : 0;
    dimension_type var = g.below(n);
    long den = rnd_den(g);
    // bounded T: now and then a denominator that T cannot represent (div_round_up_by_positive rounds it)
    if (Ty<T>::big && g.chance(1, 12)) den = g.chance(1, 2) ? g.range(127, 300) : -g.range(127, 300);
    std::ostringstream L;
    std::string after;
    auto head = [&](const char* op) { L << id << " " << op << " " << mode << " " << n << " " << closed << " " << dump(bd) << " "; };
    try {
      if (what <= 2) {          // refine_no_check / add_constraint
        Constraint cc = rnd_con<T>(g, n);
        bool refine = g.chance(1, 2);
        head(refine ? "refine" : "addc"); L << con_args(cc) << " "; put(L.str());
        if (refine) bd.refine_no_check(cc); else bd.add_constraint(cc);
      }
      else if (what <= 6) {     // affine_image
        std::vector<long> e; long b; Linear_Expression le;
        rnd_expr<T>(g, n, var, den, g.chance(1, 3) ? 4 : g.below(5), e, b, le);
        head("aff"); L << var << " " << den << " " << b << " " << coeffs(e) << " "; put(L.str());
        bd.affine_image(Variable(var), le, Coefficient(den));
      }
      else if (what <= 10) {    // generalized_affine_image(var, relsym, expr, den)
        std::vector<long> e; long b; Linear_Expression le;
        if (g.chance(1, 2)) den = -labs(den);       // negative denominators often
        rnd_expr<T>(g, n, var, den, g.chance(1, 2) ? 4 : g.below(5), e, b, le);
        unsigned r = g.below(5);
        Relation_Symbol rs = r <= 1 ? LESS_OR_EQUAL : r <= 3 ? GREATER_OR_EQUAL : EQUAL;
        head("gaff"); L << var << " " << (r <= 1 ? "le" : r <= 3 ? "ge" : "eq") << " " << den << " " << b << " " << coeffs(e) << " "; put(L.str());
        bd.generalized_affine_image(Variable(var), rs, le, Coefficient(den));
      }
      else if (what <= 14) {    // bounded_affine_image
        std::vector<long> el, eu; long bl, bu; Linear_Expression ll, lu;
        rnd_expr<T>(g, n, var, den, g.below(5), el, bl, ll);
        rnd_expr<T>(g, n, var, den, g.chance(1, 3) ? 4 : g.below(5), eu, bu, lu);
        head("baff"); L << var << " " << den << " " << bl << " " << coeffs(el) << " " << bu << " " << coeffs(eu) << " "; put(L.str());
        bd.bounded_affine_image(Variable(var), ll, lu, Coefficient(den));
      }
      else if (what == 15) {    // unconstrain
        head("unc"); L << var << " "; put(L.str());
        bd.unconstrain(Variable(var));
      }
      else if (what <= 18) {    // affine_preimage: invertible (var occurs in expr) or not
        std::vector<long> e; long b; Linear_Expression le;
        rnd_expr<T>(g, n, var, den, g.chance(1, 3) ? 4 : g.below(5), e, b, le);
        head("apre"); L << var << " " << den << " " << b << " " << coeffs(e) << " "; put(L.str());
        bd.affine_preimage(Variable(var), le, Coefficient(den));
      }
      else {                    // generalized_affine_preimage(var, relsym, expr, den)
        std::vector<long> e; long b; Linear_Expression le;
        if (g.chance(1, 3)) den = -labs(den);
        rnd_expr<T>(g, n, var, den, g.chance(1, 2) ? 4 : g.below(5), e, b, le);
        unsigned r = g.below(5);
        Relation_Symbol rs = r <= 1 ? LESS_OR_EQUAL : r <= 3 ? GREATER_OR_EQUAL : EQUAL;
        head("gapre"); L << var << " " << (r <= 1 ? "le" : r <= 3 ? "ge" : "eq") << " " << den << " " << b << " " << coeffs(e) << " "; put(L.str());
        bd.generalized_affine_preimage(Variable(var), rs, le, Coefficient(den));
      }
      after = outcome(bd);
    } catch (int) {             // sgn() of a Not-a-Number: `throw(0)` (Checked_Number_inlines.hh)
      after = "X:int";
    } catch (...) {
      after = "X:" + pplv::exc_class();
    }
    put(after + "\n");
  }
}

// phase 2: Octagonal_Shape<T>::affine_image.  The matrix is closed by strong_closure_assign (odd cells in
// the doubled unary bounds arise there) in 3/4 of the cases.
template <typename T> void run_oct(pplv::Rng& g, const std::string& idp, int per) {
  const std::string mode = Ty<T>::mode();
  for (int c = 0; c < per; ++c) {
    dimension_type n = 1 + g.below(3);
    unsigned dens = 10 + g.below(70);
    unsigned unary = g.below(3);
    bool near_limit = g.chance(1, 5);
    std::string id = idp + "." + std::to_string(c);
    Octagonal_Shape<T> oc(n, UNIVERSE);
    fill(g, oc, dens, unary, near_limit);
    if (g.chance(3, 4)) {
      oc.strong_closure_assign();
      if (oc.marked_empty()) continue;
    }
    int closed = oc.marked_strongly_closed() ? 1 : 0;
    dimension_type var = g.below(n);
    long den = rnd_den(g);
    if (Ty<T>::big && g.chance(1, 12)) den = g.chance(1, 2) ? g.range(127, 300) : -g.range(127, 300);
    std::vector<long> e; long b; Linear_Expression le;
    rnd_expr<T>(g, n, var, den, g.chance(1, 2) ? 4 : g.below(5), e, b, le);
    std::ostringstream L;
    L << id << " oaff " << mode << " " << n << " " << closed << " " << dump(oc) << " " << var << " " << den << " " << b << " " << coeffs(e) << " ";
    put(L.str());
    std::string after;
    try {
      oc.affine_image(Variable(var), le, Coefficient(den));
      after = outcome(oc);
    } catch (int) {
      after = "X:int";
    } catch (...) {
      after = "X:" + pplv::exc_class();
    }
    put(after + "\n");
  }
}

// ---- stage 5 ------------------------------------------------------------------------------------------------
// The remaining transformers and the lattice / dimension operations of BOTH domains, one code path for the
// generator and for --replay: the arguments are strings (exactly as journalled), `s5_apply` parses them and
// calls the real function.  Octagon op codes are the BD ones with the prefix `o`.
//
//   transformers (after = matrix | E | X:<class>, as above):
//     [o]addc / [o]refine <sd> <kind> <inhomo> <coeffs>
//     [o]refv  <var> <le|ge|eq> <den> <b> <coeffs>      private refine(var, relsym, expr, den) on a closed shape,
//                                                       expr.coefficient(var) == 0
//     [o]gaff [o]baff [o]apre [o]gapre [o]unc           as above
//     [o]gaffl / [o]gaprel <le|ge|eq> <bl> <lcoeffs> <br> <rcoeffs>
//                                                       generalized_affine_(pre)image(lhs, relsym, rhs)
//   lattice / dimension operations (after = <n'>|<closed'>|<matrix or -> | E | X:<class>):
//     [o]meet [o]join [o]tel <closed2> <matrix2>                   intersection_assign, upper_bound_assign, time_elapse_assign
//     [o]diff <closed2> <matrix2> <y_contains_x> <pieces>          difference_assign; the last two arguments are the REAL
//                  intermediate data of the algorithm, obtained by executing its steps (closure of x [and y], y.contains(x),
//                  and for every constraint c of y.constraints() not skipped by x.relation_with(c): z = x; z.add_constraint(..);
//                  z.is_empty()) on copies before the call: y_contains_x = 0/1, pieces = the matrices of the pieces in the order
//                  of the code, separated by `&`, `N` for a piece found empty, `-` for no piece, `?` when a step threw
//     [o]concat <n2> <closed2> <matrix2>
//     [o]embed <k>   [o]project <k>   [o]rmdims <vars|->   [o]rmhi <newdim>
//     [o]mapdims <pf>      pf: for Variable(i) its image or `x`, comma separated
//     [o]expand <var> <k>  [o]fold <vars|-> <dest>
static std::vector<std::string> split(const std::string& s, char sep);
template <typename N> void parse_entry(N& x, const std::string& s);
static std::vector<long> parse_coeffs(const std::string& s);
static Linear_Expression mk_expr(const std::vector<long>& e, long b);
static Relation_Symbol mk_rel(const std::string& r);

template <typename T> void do_close(BD_Shape<T>& s) { s.shortest_path_closure_assign(); }
template <typename T> void do_close(Octagonal_Shape<T>& s) { s.strong_closure_assign(); }
template <typename T> int closed_flag(const BD_Shape<T>& s) { return s.marked_shortest_path_closed() ? 1 : 0; }
template <typename T> int closed_flag(const Octagonal_Shape<T>& s) { return s.marked_strongly_closed() ? 1 : 0; }
template <typename T> const char* op_prefix(const BD_Shape<T>&) { return ""; }
template <typename T> const char* op_prefix(const Octagonal_Shape<T>&) { return "o"; }

template <typename T> void load(BD_Shape<T>& bd, const std::string& mat, bool closed) {
  dimension_type n = bd.space_dimension();
  std::vector<std::string> rows = split(mat, ';');
  for (dimension_type i = 0; i <= n; ++i) {
    std::vector<std::string> es = split(rows.at(i), ',');
    for (dimension_type j = 0; j <= n; ++j) parse_entry(bd.dbm[i][j], es.at(j));
  }
  if (closed) bd.set_shortest_path_closed(); else bd.reset_shortest_path_closed();
}
template <typename T> void load(Octagonal_Shape<T>& oc, const std::string& mat, bool closed) {
  if (oc.space_dimension() > 0) {
    std::vector<std::string> rows = split(mat, ';');
    dimension_type ri = 0;
    for (typename OR_Matrix<typename Octagonal_Shape<T>::N>::row_iterator i = oc.matrix.row_begin(), e = oc.matrix.row_end(); i != e; ++i, ++ri) {
      typename OR_Matrix<typename Octagonal_Shape<T>::N>::row_reference_type row = *i;
      std::vector<std::string> es = split(rows.at(ri), ',');
      for (dimension_type j = 0, rs = i.row_size(); j < rs; ++j) parse_entry(row[j], es.at(j));
    }
  }
  if (closed) oc.set_strongly_closed(); else oc.reset_strongly_closed();
}
template <typename S> std::string dump2(const S& s) { std::string r = dump(s); return r.empty() ? std::string("-") : r; }
template <typename S> std::string outcome2(const S& s) {
  if (s.marked_empty()) return "E";
  return std::to_string(s.space_dimension()) + "|" + std::to_string(closed_flag(s)) + "|" + dump2(s);
}

struct PFunc {
  std::vector<long> v;                   // -1: undefined
  bool has_empty_codomain() const { for (long x : v) if (x >= 0) return false; return true; }
  dimension_type max_in_codomain() const { long m = -1; for (long x : v) m = std::max(m, x); return (dimension_type)m; }
  bool maps(dimension_type i, dimension_type& j) const { if (i >= v.size() || v[i] < 0) return false; j = (dimension_type)v[i]; return true; }
};
static Variables_Set mk_vars(const std::string& s) {
  Variables_Set vs;
  for (long v : parse_coeffs(s)) vs.insert((dimension_type)v);
  return vs;
}
static bool lattice_op(const std::string& op) {
  static const char* L[] = {"meet", "join", "diff", "tel", "concat", "embed", "project", "rmdims", "rmhi", "mapdims", "expand", "fold"};
  for (const char* l : L) if (op == l) return true;
  return false;
}
static size_t s5_nargs(const std::string& op) {
  if (op == "addc" || op == "refine" || op == "aff" || op == "apre") return 4;
  if (op == "refv" || op == "gaff" || op == "gapre" || op == "gaffl" || op == "gaprel") return 5;
  if (op == "baff") return 6;
  if (op == "unc" || op == "embed" || op == "project" || op == "rmdims" || op == "rmhi" || op == "mapdims") return 1;
  if (op == "meet" || op == "join" || op == "tel" || op == "expand" || op == "fold") return 2;
  if (op == "diff") return 4;
  if (op == "concat") return 3;
  return 0;
}

// the intermediate data of difference_assign (see above), computed on copies with the real member functions
template <typename T> bool diff_closes_y(const BD_Shape<T>&) { return true; }
template <typename T> bool diff_closes_y(const Octagonal_Shape<T>&) { return false; }
template <typename S> void diff_side(const S& x0, const std::string& closed2, const std::string& m2, std::string& ycx, std::string& pieces) {
  ycx = "0"; pieces = "-";
  try {
    S x(x0);
    do_close(x);
    if (x.marked_empty()) return;
    S y(x0.space_dimension(), UNIVERSE);
    load(y, m2, closed2 == "1");
    if (diff_closes_y(x)) { do_close(y); if (y.marked_empty()) return; }
    if (x.space_dimension() == 0) return;
    if (y.contains(x)) { ycx = "1"; return; }
    std::string r;
    auto piece = [&](S& z) { if (!r.empty()) r += "&"; r += z.is_empty() ? std::string("N") : dump2(z); };
    const Constraint_System& y_cs = y.constraints();
    for (Constraint_System::const_iterator i = y_cs.begin(), e = y_cs.end(); i != e; ++i) {
      const Constraint& c = *i;
      if (x.relation_with(c).implies(Poly_Con_Relation::is_included())) continue;
      S z = x;
      const Linear_Expression ex(c.expression());
      z.add_constraint(ex <= 0);
      piece(z);
      if (c.is_equality()) { z = x; z.add_constraint(ex >= 0); piece(z); }
    }
    if (!r.empty()) pieces = r;
  } catch (...) { pieces = "?"; }
}

// the call itself; `op` without the octagon prefix
template <typename S> std::string s5_apply(S& s, const std::string& op, const std::vector<std::string>& a) {
  std::string after;
  try {
    if (op == "addc" || op == "refine") {
      Linear_Expression le = mk_expr(parse_coeffs(a[3]), atol(a[2].c_str()));
      le.set_space_dimension((dimension_type)atol(a[0].c_str()));
      Constraint c = a[1] == "eq" ? (le == 0) : a[1] == "ge" ? (le >= 0) : (le > 0);
      if (op == "refine") s.refine_no_check(c); else s.add_constraint(c);
    }
    else if (op == "refv") s.refine(Variable(atol(a[0].c_str())), mk_rel(a[1]), mk_expr(parse_coeffs(a[4]), atol(a[3].c_str())), Coefficient(atol(a[2].c_str())));
    else if (op == "aff") s.affine_image(Variable(atol(a[0].c_str())), mk_expr(parse_coeffs(a[3]), atol(a[2].c_str())), Coefficient(atol(a[1].c_str())));
    else if (op == "apre") s.affine_preimage(Variable(atol(a[0].c_str())), mk_expr(parse_coeffs(a[3]), atol(a[2].c_str())), Coefficient(atol(a[1].c_str())));
    else if (op == "gaff") s.generalized_affine_image(Variable(atol(a[0].c_str())), mk_rel(a[1]), mk_expr(parse_coeffs(a[4]), atol(a[3].c_str())), Coefficient(atol(a[2].c_str())));
    else if (op == "gapre") s.generalized_affine_preimage(Variable(atol(a[0].c_str())), mk_rel(a[1]), mk_expr(parse_coeffs(a[4]), atol(a[3].c_str())), Coefficient(atol(a[2].c_str())));
    else if (op == "baff") s.bounded_affine_image(Variable(atol(a[0].c_str())), mk_expr(parse_coeffs(a[3]), atol(a[2].c_str())), mk_expr(parse_coeffs(a[5]), atol(a[4].c_str())), Coefficient(atol(a[1].c_str())));
    else if (op == "unc") s.unconstrain(Variable(atol(a[0].c_str())));
    else if (op == "gaffl") s.generalized_affine_image(mk_expr(parse_coeffs(a[2]), atol(a[1].c_str())), mk_rel(a[0]), mk_expr(parse_coeffs(a[4]), atol(a[3].c_str())));
    else if (op == "gaprel") s.generalized_affine_preimage(mk_expr(parse_coeffs(a[2]), atol(a[1].c_str())), mk_rel(a[0]), mk_expr(parse_coeffs(a[4]), atol(a[3].c_str())));
    else if (op == "meet" || op == "join" || op == "diff" || op == "tel") {
      S y(s.space_dimension(), UNIVERSE);
      load(y, a[1], a[0] == "1");
      if (op == "meet") s.intersection_assign(y);
      else if (op == "join") s.upper_bound_assign(y);
      else if (op == "diff") s.difference_assign(y);
      else s.time_elapse_assign(y);
    }
    else if (op == "concat") {
      S y((dimension_type)atol(a[0].c_str()), UNIVERSE);
      load(y, a[2], a[1] == "1");
      s.concatenate_assign(y);
    }
    else if (op == "embed") s.add_space_dimensions_and_embed((dimension_type)atol(a[0].c_str()));
    else if (op == "project") s.add_space_dimensions_and_project((dimension_type)atol(a[0].c_str()));
    else if (op == "rmdims") s.remove_space_dimensions(mk_vars(a[0]));
    else if (op == "rmhi") s.remove_higher_space_dimensions((dimension_type)atol(a[0].c_str()));
    else if (op == "mapdims") {
      PFunc pf;
      for (const std::string& t : split(a[0], ',')) pf.v.push_back(t == "x" ? -1 : atol(t.c_str()));
      s.map_space_dimensions(pf);
    }
    else if (op == "expand") s.expand_space_dimension(Variable(atol(a[0].c_str())), (dimension_type)atol(a[1].c_str()));
    else if (op == "fold") s.fold_space_dimensions(mk_vars(a[0]), Variable(atol(a[1].c_str())));
    after = lattice_op(op) ? outcome2(s) : outcome(s);
  } catch (int) { after = "X:int"; }
  catch (...) { after = "X:" + pplv::exc_class(); }
  return after;
}

// a random shape of dimension n; false: dropped (marked empty by the closure)
template <typename S> bool s5_shape(pplv::Rng& g, S& s, bool must_close) {
  unsigned unary = g.below(3);
  unsigned dens = unary == 1 ? g.below(35) : 10 + g.below(70);
  if (s.space_dimension() == 0) return true;
  fill(g, s, dens, unary, g.chance(1, 5));
  if (must_close || g.chance(3, 4)) {
    do_close(s);
    if (s.marked_empty()) return false;
  }
  else {
    S probe(s);
    do_close(probe);
    if (probe.marked_empty() && !g.chance(1, 4)) return false;
  }
  return true;
}

static std::string join_longs(const std::vector<long>& v, const char* empty = "-") {
  if (v.empty()) return empty;
  std::string r; for (size_t i = 0; i < v.size(); ++i) { if (i) r += ","; r += std::to_string(v[i]); } return r;
}

template <typename S, typename T> void s5_case(pplv::Rng& g, const std::string& id, unsigned group) {
  const std::string mode = Ty<T>::mode();
  const bool is_oct = std::string(op_prefix(S(1, UNIVERSE))) == "o";
  static const dimension_type ns_bd[] = {1, 2, 2, 2, 3, 3, 3, 3, 4};
  dimension_type n = is_oct ? 1 + g.below(3) : ns_bd[g.below(9)];
  std::string op; std::vector<std::string> a;
  dimension_type var = g.below(n);
  long den = rnd_den(g);
  if (Ty<T>::big && g.chance(1, 12)) den = g.chance(1, 2) ? g.range(127, 300) : -g.range(127, 300);
  bool must_close = false;
  auto rel = [&]() { unsigned r = g.below(5); return std::string(r <= 1 ? "le" : r <= 3 ? "ge" : "eq"); };
  std::vector<long> e, e2; long b, b2; Linear_Expression le;
  S y(n, UNIVERSE);
  if (group == 0) {            // the (var, …) transformers
    unsigned w = g.below(45);
    if (!is_oct && g.chance(2, 3)) w = 5;      // BD: the other codes of this group are stage-3 ones
    if (w < 4) {
      Constraint cc = rnd_con<T>(g, n);
      if (is_oct && g.chance(1, 2) && n >= 2) {     // octagonal sums a*x + a*y
        static const long as[] = {1, 1, -1, 2, -3};
        long c = as[g.below(5)]; dimension_type x = g.below(n), yv = g.below(n - 1); if (yv >= x) ++yv;
        Linear_Expression ee = c * Variable(x) + (g.chance(1, 2) ? c : -c) * Variable(yv);
        long k = g.range(-6, 9);
        switch (g.below(5)) { case 0: cc = (ee == k); break; case 1: case 2: cc = (ee <= k); break; default: cc = (ee >= k); }
      }
      op = g.chance(1, 2) ? "refine" : "addc";
      std::istringstream is(con_args(cc)); std::string t; while (is >> t) a.push_back(t);
    }
    else if (w < 10) {
      op = "refv"; must_close = true;
      rnd_expr<T>(g, n, var, den, g.chance(1, 2) ? 4 : g.below(5), e, b, le);
      e[var] = 0;
      a = {std::to_string(var), rel(), std::to_string(den), std::to_string(b), coeffs(e)};
    }
    else if (w < 22) {
      op = "gaff";
      if (g.chance(1, 2)) den = -labs(den);
      rnd_expr<T>(g, n, var, den, g.chance(1, 2) ? 4 : g.below(5), e, b, le);
      a = {std::to_string(var), rel(), std::to_string(den), std::to_string(b), coeffs(e)};
    }
    else if (w < 30) {
      op = "baff";
      rnd_expr<T>(g, n, var, den, g.below(5), e, b, le);
      rnd_expr<T>(g, n, var, den, g.chance(1, 3) ? 4 : g.below(5), e2, b2, le);
      a = {std::to_string(var), std::to_string(den), std::to_string(b), coeffs(e), std::to_string(b2), coeffs(e2)};
    }
    else if (w < 35) {
      op = "apre";
      rnd_expr<T>(g, n, var, den, g.chance(1, 3) ? 4 : g.below(5), e, b, le);
      a = {std::to_string(var), std::to_string(den), std::to_string(b), coeffs(e)};
    }
    else if (w < 43) {
      op = "gapre";
      if (g.chance(1, 3)) den = -labs(den);
      rnd_expr<T>(g, n, var, den, g.chance(1, 2) ? 4 : g.below(5), e, b, le);
      a = {std::to_string(var), rel(), std::to_string(den), std::to_string(b), coeffs(e)};
    }
    else { op = "unc"; a = {std::to_string(var)}; }
  }
  else if (group == 1) {       // expression on the left-hand side
    op = g.chance(1, 2) ? "gaffl" : "gaprel";
    unsigned lform = g.below(8);          // 0: constant, 1-2: one variable, 3..: general
    e.assign(n, 0);
    static const long as[] = {1, -1, 1, -1, 2, -3, 5};
    if (lform == 0) {}
    else if (lform <= 2 || n < 2) e[var] = as[g.below(7)];
    else {
      unsigned k = 2 + g.below(n - 1), placed = 0;
      long c = as[g.below(7)];
      while (placed < k) {
        dimension_type w = g.below(n);
        if (e[w] == 0) { e[w] = placed == 0 ? c : (g.chance(2, 3) ? (g.chance(1, 2) ? c : -c) : as[g.below(7)]); ++placed; }
      }
    }
    b = g.chance(1, 2) ? 0 : g.range(-6, 6);
    // rhs: random; for a general lhs often over the other variables only (the disjoint case)
    long rden = 1;
    rnd_expr<T>(g, n, var, lform >= 1 && lform <= 2 ? e[var] : rden, g.chance(1, 2) ? 4 : g.below(5), e2, b2, le);
    if (lform >= 3 && g.chance(1, 2)) for (dimension_type i = 0; i < n; ++i) if (e[i] != 0) e2[i] = 0;
    a = {rel(), std::to_string(b), coeffs(e), std::to_string(b2), coeffs(e2)};
  }
  else {                       // lattice / dimension operations
    unsigned w = g.below(40);
    if (w < 13) {
      op = w < 4 ? "meet" : w < 8 ? "join" : w < 12 ? "diff" : "tel";
      if (op == "tel" && n > 2) n = 2;
      y = S(n, UNIVERSE);
      if (!s5_shape(g, y, false)) return;
      a = {std::to_string(closed_flag(y)), dump2(y)};
      if (op == "diff") { a.push_back("0"); a.push_back("-"); }      // filled in below, once the receiver exists
    }
    else if (w < 16) {
      op = "concat";
      dimension_type n2 = g.chance(1, 8) ? 0 : 1 + g.below(2);
      y = S(n2, UNIVERSE);
      if (!s5_shape(g, y, false)) return;
      a = {std::to_string(n2), std::to_string(closed_flag(y)), dump2(y)};
    }
    else if (w < 19) { op = g.chance(1, 2) ? "embed" : "project"; a = {std::to_string(g.below(3))}; }
    else if (w < 24) {
      op = "rmdims"; std::vector<long> vs;
      for (dimension_type i = 0; i < n; ++i) if (g.chance(2, 5)) vs.push_back((long)i);
      a = {join_longs(vs)};
    }
    else if (w < 26) { op = "rmhi"; a = {std::to_string(g.below(n + 1))}; }
    else if (w < 31) {
      op = "mapdims";
      std::vector<long> kept, pf(n, -1);
      for (dimension_type i = 0; i < n; ++i) if (g.chance(3, 4)) kept.push_back((long)i);
      std::vector<long> tgt(kept.size());
      for (size_t i = 0; i < tgt.size(); ++i) tgt[i] = (long)i;
      for (size_t i = tgt.size(); i > 1; --i) std::swap(tgt[i - 1], tgt[g.below((unsigned)i)]);
      for (size_t i = 0; i < kept.size(); ++i) pf[kept[i]] = tgt[i];
      std::string s; for (dimension_type i = 0; i < n; ++i) { if (i) s += ","; s += pf[i] < 0 ? std::string("x") : std::to_string(pf[i]); }
      a = {s};
    }
    else if (w < 35) { op = "expand"; a = {std::to_string(var), std::to_string(g.below(3))}; }
    else {
      op = "fold"; std::vector<long> vs;
      for (dimension_type i = 0; i < n; ++i) if (i != var && g.chance(1, 2)) vs.push_back((long)i);
      a = {join_longs(vs), std::to_string(var)};
    }
  }
  S s(n, UNIVERSE);
  if (!s5_shape(g, s, must_close)) return;
  if (op == "diff") diff_side(s, a[0], a[1], a[2], a[3]);
  std::ostringstream L;
  L << id << " " << op_prefix(s) << op << " " << mode << " " << n << " " << closed_flag(s) << " " << dump2(s) << " ";
  for (const std::string& t : a) L << t << " ";
  put(L.str());
  put(s5_apply(s, op, a) + "\n");
}

template <typename T> void run_s5(pplv::Rng& g, const std::string& idp, int per) {
  for (int c = 0; c < per; ++c) {
    std::string id = idp + "." + std::to_string(c);
    unsigned k = g.below(20);
    // octagons: the (var, …) transformers are new in this stage; BD: only refv of that group
    if (k < 9) s5_case<Octagonal_Shape<T>, T>(g, id, 0);
    else if (k < 10) s5_case<BD_Shape<T>, T>(g, id, 0);
    else if (k < 12) s5_case<BD_Shape<T>, T>(g, id, 1);
    else if (k < 14) s5_case<Octagonal_Shape<T>, T>(g, id, 1);
    else if (k < 17) s5_case<BD_Shape<T>, T>(g, id, 2);
    else s5_case<Octagonal_Shape<T>, T>(g, id, 2);
  }
}

// ---- replay: re-execute journal lines (their input part) on the current tree ------------------------------
static std::vector<std::string> split(const std::string& s, char sep) {
  std::vector<std::string> r; std::string cur;
  for (char ch : s) { if (ch == sep) { r.push_back(cur); cur.clear(); } else cur.push_back(ch); }
  r.push_back(cur); return r;
}
template <typename N> void parse_entry(N& x, const std::string& s) {
  if (s == "+inf") { assign_r(x, PLUS_INFINITY, ROUND_NOT_NEEDED); return; }
  mpq_class q(s); q.canonicalize();
  assign_r(x, q, ROUND_UP);
}
static std::vector<long> parse_coeffs(const std::string& s) {
  std::vector<long> r; if (s == "-") return r;
  for (const std::string& t : split(s, ',')) r.push_back(atol(t.c_str()));
  return r;
}
static Linear_Expression mk_expr(const std::vector<long>& e, long b) {
  Linear_Expression le;
  for (size_t i = 0; i < e.size(); ++i) if (e[i] != 0) le += e[i] * Variable(i);
  le += b; return le;
}
static Relation_Symbol mk_rel(const std::string& r) { return r == "le" ? LESS_OR_EQUAL : r == "ge" ? GREATER_OR_EQUAL : EQUAL; }

template <typename T> void replay_line(const std::vector<std::string>& t) {
  const std::string& op = t[1];
  dimension_type n = (dimension_type)atol(t[3].c_str());
  bool closed = t[4] == "1";
  std::vector<std::string> rows = split(t[5], ';');
  std::vector<std::string> a(t.begin() + 6, t.end());
  std::string headtxt;
  for (size_t i = 0; i < 6; ++i) headtxt += t[i] + " ";
  std::string after;
  {
    // stage-5 op codes (everything that is not one of the stage-3 codes)
    static const char* S3[] = {"refine", "addc", "aff", "gaff", "baff", "apre", "gapre", "unc", "oaff"};
    bool s3 = false; for (const char* o : S3) if (op == o) s3 = true;
    if (!s3) {
      bool oct = op[0] == 'o';
      std::string bop = oct ? op.substr(1) : op;
      size_t k = s5_nargs(bop);
      std::vector<std::string> args(a.begin(), a.begin() + k);
      // the head is written when the receiver exists (difference_assign: its intermediate data are recomputed on this tree)
      if (oct) {
        Octagonal_Shape<T> s(n, UNIVERSE); load(s, t[5], closed);
        if (bop == "diff") diff_side(s, args[0], args[1], args[2], args[3]);
        for (const std::string& x : args) headtxt += x + " ";
        put(headtxt); after = s5_apply(s, bop, args);
      }
      else {
        BD_Shape<T> s(n, UNIVERSE); load(s, t[5], closed);
        if (bop == "diff") diff_side(s, args[0], args[1], args[2], args[3]);
        for (const std::string& x : args) headtxt += x + " ";
        put(headtxt); after = s5_apply(s, bop, args);
      }
      put(after + "\n");
      return;
    }
  }
  if (op == "oaff") {
    Octagonal_Shape<T> oc(n, UNIVERSE);
    dimension_type ri = 0;
    for (typename OR_Matrix<typename Octagonal_Shape<T>::N>::row_iterator i = oc.matrix.row_begin(), e = oc.matrix.row_end(); i != e; ++i, ++ri) {
      typename OR_Matrix<typename Octagonal_Shape<T>::N>::row_reference_type row = *i;
      std::vector<std::string> es = split(rows.at(ri), ',');
      for (dimension_type j = 0, rs = i.row_size(); j < rs; ++j) parse_entry(row[j], es.at(j));
    }
    if (closed) oc.set_strongly_closed(); else oc.reset_strongly_closed();
    for (size_t i = 0; i < 4; ++i) headtxt += a.at(i) + " ";
    put(headtxt);
    try { oc.affine_image(Variable(atol(a[0].c_str())), mk_expr(parse_coeffs(a[3]), atol(a[2].c_str())), Coefficient(atol(a[1].c_str()))); after = outcome(oc); }
    catch (int) { after = "X:int"; } catch (...) { after = "X:" + pplv::exc_class(); }
    put(after + "\n");
    return;
  }
  BD_Shape<T> bd(n, UNIVERSE);
  for (dimension_type i = 0; i <= n; ++i) {
    std::vector<std::string> es = split(rows.at(i), ',');
    for (dimension_type j = 0; j <= n; ++j) parse_entry(bd.dbm[i][j], es.at(j));
  }
  if (closed) bd.set_shortest_path_closed(); else bd.reset_shortest_path_closed();
  size_t k = (op == "unc") ? 1 : (op == "gaff" || op == "gapre") ? 5 : (op == "baff") ? 6 : 4;
  for (size_t i = 0; i < k; ++i) headtxt += a.at(i) + " ";
  put(headtxt);
  try {
    if (op == "refine" || op == "addc") {
      std::vector<long> cf = parse_coeffs(a[3]);
      Linear_Expression le = mk_expr(cf, atol(a[2].c_str()));
      le.set_space_dimension((dimension_type)atol(a[0].c_str()));
      Constraint c = a[1] == "eq" ? (le == 0) : a[1] == "ge" ? (le >= 0) : (le > 0);
      if (op == "refine") bd.refine_no_check(c); else bd.add_constraint(c);
    }
    else if (op == "aff") bd.affine_image(Variable(atol(a[0].c_str())), mk_expr(parse_coeffs(a[3]), atol(a[2].c_str())), Coefficient(atol(a[1].c_str())));
    else if (op == "apre") bd.affine_preimage(Variable(atol(a[0].c_str())), mk_expr(parse_coeffs(a[3]), atol(a[2].c_str())), Coefficient(atol(a[1].c_str())));
    else if (op == "gaff") bd.generalized_affine_image(Variable(atol(a[0].c_str())), mk_rel(a[1]), mk_expr(parse_coeffs(a[4]), atol(a[3].c_str())), Coefficient(atol(a[2].c_str())));
    else if (op == "gapre") bd.generalized_affine_preimage(Variable(atol(a[0].c_str())), mk_rel(a[1]), mk_expr(parse_coeffs(a[4]), atol(a[3].c_str())), Coefficient(atol(a[2].c_str())));
    else if (op == "baff") bd.bounded_affine_image(Variable(atol(a[0].c_str())), mk_expr(parse_coeffs(a[3]), atol(a[2].c_str())), mk_expr(parse_coeffs(a[5]), atol(a[4].c_str())), Coefficient(atol(a[1].c_str())));
    else if (op == "unc") bd.unconstrain(Variable(atol(a[0].c_str())));
    after = outcome(bd);
  } catch (int) { after = "X:int"; } catch (...) { after = "X:" + pplv::exc_class(); }
  put(after + "\n");
}

static int replay_file(const char* path) {
  FILE* f = fopen(path, "r");
  if (!f) { perror(path); return 2; }
  std::vector<std::string> lines; char* buf = 0; size_t cap = 0;
  while (getline(&buf, &cap, f) > 0) { std::string l(buf); while (!l.empty() && (l.back() == '\n' || l.back() == '\r')) l.pop_back(); if (!l.empty()) lines.push_back(l); }
  fclose(f);
  return pplv::run_batches(0, (long)lines.size(), [&](long b) {
    std::vector<std::string> t;
    for (const std::string& w : split(lines[(size_t)b], ' ')) if (!w.empty()) t.push_back(w);
    if (t.size() < 7) return;
    const std::string& mode = t[2];
    if (mode == "id") replay_line<mpq_class>(t);
    else if (mode == "ceil") replay_line<mpz_class>(t);
    else if (mode == "dbl") replay_line<double>(t);
    else replay_line<int8_t>(t);
  }, 120);
}

int main(int argc, char** argv) {
  const char* rp = pplv::arg_str(argc, argv, "--replay", 0);
  if (rp) return replay_file(rp);
  long seed = pplv::arg_long(argc, argv, "--seed", 1), first = pplv::arg_long(argc, argv, "--first", 0),
       last = pplv::arg_long(argc, argv, "--last", 10), per = pplv::arg_long(argc, argv, "--per", 40),
       oct = pplv::arg_long(argc, argv, "--oct", 0), s5 = pplv::arg_long(argc, argv, "--s5", 0);
  return pplv::run_batches(first, last, [&](long b) {
    pplv::Rng g((uint64_t)seed * 1000003ull + (uint64_t)b);
    std::string p = std::to_string(seed) + "." + std::to_string(b);
    run_T<mpq_class>(g, p + ".q", (int)per);
    run_T<mpz_class>(g, p + ".z", (int)per);
    run_T<int8_t>(g, p + ".i8", (int)per);
    run_T<double>(g, p + ".d", (int)per);
    if (oct) {
      run_oct<mpz_class>(g, p + ".oz", (int)oct);
      run_oct<int8_t>(g, p + ".oi8", (int)oct);
      run_oct<mpq_class>(g, p + ".oq", (int)oct);
      run_oct<double>(g, p + ".od", (int)oct);
    }
    if (s5) {
      run_s5<mpq_class>(g, p + ".5q", (int)s5);
      run_s5<mpz_class>(g, p + ".5z", (int)s5);
      run_s5<int8_t>(g, p + ".5i8", (int)s5);
      run_s5<double>(g, p + ".5d", (int)s5);
    }
  }, 120);
}
