// C05 stage 3 harness: seeded histories over a pool of REAL PPL Grids; for EVERY operation the RAW private
// state of the receiver (and of the argument Grid) is journalled before and after the call, together with
// the raw arguments and the returned value.  Journal format: the contract is /tmp/c05ops/journal_spec.txt
// (consumer: lean/Driver/GridOps.lean = pplv_gridops); summary:
//
//   hist <n>
//   [aux <id> x=<slot|-> y=<slot|-> xe=<0|1|-> ye=<0|1|->]      only with --aux 1; printed BEFORE the ev line
//   ev <id> <opname> <args…>          (written, unbuffered, BEFORE the call, together with the pre lines)
//   pre x <STATE> / pre y <STATE>
//   post x <STATE> / post y <STATE> / ret <tokens…>     or     exc <class> / post x / post y
//   end <id>
//   <STATE> := <space_dim> <status.flags> C <cdim> <nrows> {<modulus> <len> e…}* G <gdim> <nrows> {<isline> <len> e…}*
//              K <len> k… X <index_first_pending> <sorted>
//   status.flags bits (Grid_Status_idefs.hh:137): ZERO_DIM_UNIV = 0 (no bit), EMPTY 1<<0, C_UP_TO_DATE 1<<1,
//   G_UP_TO_DATE 1<<2, C_MINIMIZED 1<<3, G_MINIMIZED 1<<4, SAT_C 1<<5, SAT_G 1<<6, CS_PENDING 1<<7, GS_PENDING 1<<8
//   quick_equivalence_test: ret 0 = TVB_TRUE, 1 = TVB_FALSE, 2 = TVB_DONT_KNOW (order of the enum, Grid_defs.hh:2142)
//   id = <history number> * 10000 + <running number inside the history>
//
//   c05_ops --seed S --first A --last B --len L [--per-batch K] [--aux 1]
//
// The state dump only READS members of the object itself (no copy, no Grid method that could update lazily).
#include <cstdio>
#include <cstdlib>
#include <cstring>
#include <cstdint>
#include <string>
#include <sstream>
#include <iostream>
#include <vector>
#include <map>
#include <set>
#include <list>
#include <deque>
#include <algorithm>
#include <limits>
#include <stdexcept>
#include <memory>
#include <functional>
#include <gmpxx.h>
#define private public
#define protected public
#include "ppl.hh"
#undef private
#undef protected
#include "common.hh"

using namespace Parma_Polyhedra_Library;
typedef Grid_Generator GG;

static pplv::Journal J(1);
static const int NSLOT = 4;
static const dimension_type MAXDIM = 5;
static bool AUX = false;

// ---------------------------------------------------------------------------------- raw printing
typedef std::ostringstream OS;

static void put_entries(OS& s, const Linear_Expression& e) {
  dimension_type len = e.space_dimension() + 1;
  s << ' ' << len;
  for (dimension_type i = 0; i < len; ++i) s << ' ' << e.get(i);
}
// <CG> := <modulus> <len> e…
static void put_cg(OS& s, const Congruence& c) { s << ' ' << c.modulus(); put_entries(s, c.expr); }
// <GEN> := <isline> <len> e…
static void put_gen(OS& s, const GG& g) { s << ' ' << (g.is_line_or_equality() ? 1 : 0); put_entries(s, g.expr); }
// <CGS> := <cdim> <nrows> {<CG>}*
static void put_cgs(OS& s, const Congruence_System& cs) {
  s << ' ' << cs.space_dimension() << ' ' << cs.rows.size();
  for (dimension_type i = 0; i < cs.rows.size(); ++i) put_cg(s, cs.rows[i]);
}
// <GS> := <gdim> <nrows> {<GEN>}*
static void put_gs(OS& s, const Grid_Generator_System& gs) {
  s << ' ' << gs.space_dimension() << ' ' << gs.sys.rows.size();
  for (dimension_type i = 0; i < gs.sys.rows.size(); ++i) put_gen(s, gs.sys.rows[i]);
}
// <EXPR> := <sd> <b> a…
static void put_expr(OS& s, const Linear_Expression& e) {
  s << ' ' << e.space_dimension() << ' ' << e.inhomogeneous_term();
  for (dimension_type i = 0; i < e.space_dimension(); ++i) s << ' ' << e.coefficient(Variable(i));
}
// <CON> := <kind> <inconsistent> <tautological> <sd> <b> a…
static void put_con(OS& s, const Constraint& c) {
  int kind = c.is_equality() ? 0 : (c.is_strict_inequality() ? 2 : 1);
  s << ' ' << kind << ' ' << (c.is_inconsistent() ? 1 : 0) << ' ' << (c.is_tautological() ? 1 : 0)
    << ' ' << c.space_dimension() << ' ' << c.inhomogeneous_term();
  for (dimension_type i = 0; i < c.space_dimension(); ++i) s << ' ' << c.coefficient(Variable(i));
}
// <CS> := <sd> <n> {<CON>}*
static void put_cs(OS& s, const Constraint_System& cs) {
  size_t n = 0;
  for (Constraint_System::const_iterator i = cs.begin(); i != cs.end(); ++i) ++n;
  s << ' ' << cs.space_dimension() << ' ' << n;
  for (Constraint_System::const_iterator i = cs.begin(); i != cs.end(); ++i) put_con(s, *i);
}
static void put_vars(OS& s, const Variables_Set& vs) {
  s << ' ' << vs.size();
  for (Variables_Set::const_iterator i = vs.begin(); i != vs.end(); ++i) s << ' ' << *i;
}
// <STATE>: reads members only
static std::string state_str(const Grid& g) {
  OS s;
  s << g.space_dim << ' ' << g.status.flags << " C";
  put_cgs(s, g.con_sys);
  s << " G";
  put_gs(s, g.gen_sys);
  s << " K " << g.dim_kinds.size();
  for (size_t i = 0; i < g.dim_kinds.size(); ++i) s << ' ' << (int)g.dim_kinds[i];
  s << " X " << g.gen_sys.sys.index_first_pending << ' ' << (g.gen_sys.sys.sorted ? 1 : 0);
  return s.str();
}
static std::string relbits(const Poly_Con_Relation& r) {
  std::string o;
  o += r.implies(Poly_Con_Relation::is_disjoint()) ? '1' : '0';
  o += r.implies(Poly_Con_Relation::strictly_intersects()) ? '1' : '0';
  o += r.implies(Poly_Con_Relation::is_included()) ? '1' : '0';
  o += r.implies(Poly_Con_Relation::saturates()) ? '1' : '0';
  return o;
}
static const char* b01(bool b) { return b ? "1" : "0"; }

// ---------------------------------------------------------------------------------- random data
struct Gen {
  pplv::Rng& R;
  explicit Gen(pplv::Rng& r) : R(r) {}
  Coefficient coef() {
    unsigned k = R.below(100);
    if (k < 30) return 0;
    if (k < 85) return Coefficient((long)R.range(-4, 4));
    if (k < 95) return Coefficient((long)R.range(-30, 30));
    if (k < 98) return Coefficient((long)R.range(-1000003, 1000003));
    Coefficient c = 1; c <<= 40; c += (long)R.range(-5, 5); if (R.chance(1, 2)) c = -c; return c;
  }
  Coefficient nzcoef() { Coefficient c = coef(); if (c == 0) c = R.chance(1, 2) ? 1 : -2; return c; }
  Coefficient modulus() {
    static const long ms[] = {0, 1, 1, 2, 2, 3, 3, 4, 5, 6, 7, 12, 30, 1000003};
    unsigned k = R.below(100);
    if (k < 92) return Coefficient(ms[R.below(sizeof(ms) / sizeof(ms[0]))]);
    if (k < 96) { Coefficient c = 1; c <<= 33; return c; }
    return Coefficient(-(long)R.range(1, 6));      // negative moduli are normalised by PPL
  }
  Coefficient divisor() {
    static const long ds[] = {1, 1, 1, 2, 2, 3, 4, 6, 10};
    return Coefficient(ds[R.below(sizeof(ds) / sizeof(ds[0]))]);
  }
  // dimension of an argument for a grid of dimension n: mostly n, often smaller, rarely too large
  dimension_type argdim(dimension_type n) {
    unsigned k = R.below(100);
    if (k < 70) return n;
    if (k < 97 || n >= MAXDIM) return R.below(n + 1);
    return n + 1;
  }
  // space dimension exactly k
  Linear_Expression lin(dimension_type k, bool inhomo = false) {
    Linear_Expression e;
    if (k > 0) e += 0 * Variable(k - 1);
    for (dimension_type i = 0; i < k; ++i) e += coef() * Variable(i);
    if (inhomo) e += coef();
    return e;
  }
  // half of the expressions have coefficient 0 on v, half a non-zero one (when v is inside e)
  void tune(Linear_Expression& e, dimension_type v) {
    if (v >= e.space_dimension()) return;
    Coefficient c = e.coefficient(Variable(v));
    if (R.chance(1, 2)) { if (c != 0) e -= c * Variable(v); }
    else if (c == 0) e += nzcoef() * Variable(v);
  }
  Congruence cg(dimension_type k) {
    Linear_Expression e = lin(k);
    Coefficient b = coef();
    Coefficient m = modulus();
    return ((e + b) %= 0) / m;
  }
  Congruence_System cgs(dimension_type k, unsigned max) {
    Congruence_System cs(k);
    unsigned cnt = R.below(max + 1);
    std::vector<Congruence> made;
    for (unsigned i = 0; i < cnt; ++i) {
      if (!made.empty() && R.chance(1, 6)) {
        // redundant or inconsistent: an earlier row again, possibly with another inhomogeneous term
        Congruence c = made[R.below(made.size())];
        if (R.chance(1, 2)) {
          Linear_Expression e(c.expression());
          e += Coefficient((long)R.range(-3, 3));
          c = (e %= 0) / c.modulus();
        }
        made.push_back(c);
      }
      else made.push_back(cg(R.chance(1, 6) ? R.below(k + 1) : k));
      cs.insert(made.back());
    }
    return cs;
  }
  Constraint con(dimension_type k, unsigned kind) {
    Linear_Expression e = lin(k); Coefficient b = coef();
    if (kind != 0 && R.chance(1, 2)) e = Linear_Expression(0);      // trivial inequalities
    return kind == 0 ? (e + b == 0) : (kind == 1 ? (e + b >= 0) : (e + b > 0));
  }
  unsigned conkind(bool mostly_eq) { return mostly_eq ? (R.chance(3, 4) ? 0 : 1 + R.below(2)) : R.below(3); }
  Constraint_System cs(dimension_type k, unsigned max, bool eq_only) {
    Constraint_System s;
    unsigned cnt = R.below(max + 1);
    for (unsigned i = 0; i < cnt; ++i) s.insert(con(R.chance(1, 6) ? R.below(k + 1) : k, eq_only ? 0 : conkind(true)));
    return s;
  }
  // kind: 0 line, 1 parameter, 2 point
  GG gen(dimension_type k, int kind) {
    Linear_Expression e = lin(k);
    if (kind == 2 || k == 0) return grid_point(e, divisor());
    if (e.all_homogeneous_terms_are_zero()) e += Variable(R.below(k));
    if (kind == 1) return parameter(e, divisor());
    return grid_line(e);
  }
  GG anygen(dimension_type k) { unsigned t = R.below(10); return gen(k, k == 0 ? 2 : (t < 4 ? 2 : (t < 8 ? 1 : 0))); }
  // rows in arbitrary order: the point, if one is required, is not necessarily the first row
  Grid_Generator_System gens(dimension_type k, unsigned max, bool need_point) {
    std::vector<GG> rows;
    if (need_point) rows.push_back(gen(k, 2));
    unsigned cnt = R.below(max + 1);
    for (unsigned i = 0; i < cnt; ++i) {
      if (!rows.empty() && R.chance(1, 8)) { rows.push_back(rows[R.below(rows.size())]); continue; }
      rows.push_back(anygen(R.chance(1, 6) ? R.below(k + 1) : k));
    }
    for (size_t i = rows.size(); i > 1; --i) std::swap(rows[i - 1], rows[R.below(i)]);
    Grid_Generator_System gs(k);
    for (size_t i = 0; i < rows.size(); ++i) gs.insert(rows[i]);
    return gs;
  }
  Relation_Symbol relsym() {
    unsigned k = R.below(100);
    if (k < 60) return EQUAL;
    if (k < 96) { static const Relation_Symbol rs[] = {LESS_THAN, LESS_OR_EQUAL, GREATER_OR_EQUAL, GREATER_THAN}; return rs[R.below(4)]; }
    return NOT_EQUAL;
  }
  static int relnum(Relation_Symbol r) {
    switch (r) { case LESS_THAN: return 0; case LESS_OR_EQUAL: return 1; case EQUAL: return 2;
                 case GREATER_OR_EQUAL: return 3; case GREATER_THAN: return 4; default: return 5; }
  }
  Variables_Set vars(dimension_type n, unsigned num, unsigned den, long except = -1) {
    Variables_Set vs;
    for (dimension_type i = 0; i < n; ++i) if ((long)i != except && R.chance(num, den)) vs.insert(Variable(i));
    return vs;
  }
};

// ---------------------------------------------------------------------------------- history
struct Hist {
  pplv::Rng R;
  Gen G;
  std::unique_ptr<Grid> slot[NSLOT];
  long hid, next;
  explicit Hist(uint64_t seed, long h) : R(seed), G(R), hid(h), next(0) {}

  dimension_type dim(int s) { return slot[s]->space_dim; }

  // emptiness of a slot, decided on a copy (the copy constructor only reads its argument)
  static const char* empt(const Grid* g) { if (!g) return "-"; Grid tmp(*g); return tmp.is_empty() ? "1" : "0"; }

  // One event on existing objects.  `call` performs the operation and returns the `ret` tokens ("" for void).
  void event(const std::string& body, Grid* x, Grid* y, const std::function<std::string()>& call, int sx = -1, int sy = -1) {
    long id = hid * 10000 + next++;
    std::string sid = std::to_string(id);
    if (AUX)
      J.line("aux " + sid + " x=" + (sx < 0 ? std::string("-") : std::to_string(sx)) + " y=" + (sy < 0 ? std::string("-") : std::to_string(sy))
             + " xe=" + empt(x) + " ye=" + empt(y));
    std::string head = "ev " + sid + " " + body;
    if (x) head += "\npre x " + state_str(*x);
    if (y) head += "\npre y " + state_str(*y);
    J.line(head);
    std::string tail;
    try {
      std::string r = call();
      if (x) tail += "post x " + state_str(*x) + "\n";
      if (y) tail += "post y " + state_str(*y) + "\n";
      if (!r.empty()) tail += "ret " + r + "\n";
    } catch (...) {
      tail = "exc " + pplv::exc_class() + "\n";
      if (x) tail += "post x " + state_str(*x) + "\n";
      if (y) tail += "post y " + state_str(*y) + "\n";
    }
    J.line(tail + "end " + sid);
  }
  // A constructor event: no `pre x`; `make` returns the new object (post x), y is the source of a copy.
  // Returns nullptr when the constructor threw.
  Grid* construct(const std::string& body, Grid* y, const std::function<Grid*()>& make, int sx = -1, int sy = -1) {
    long id = hid * 10000 + next++;
    std::string sid = std::to_string(id);
    if (AUX)
      J.line("aux " + sid + " x=" + (sx < 0 ? std::string("-") : std::to_string(sx)) + " y=" + (sy < 0 ? std::string("-") : std::to_string(sy))
             + " xe=- ye=" + empt(y));
    std::string head = "ev " + sid + " " + body;
    if (y) head += "\npre y " + state_str(*y);
    J.line(head);
    std::string tail;
    Grid* x = nullptr;
    try {
      x = make();
      tail += "post x " + state_str(*x) + "\n";
      if (y) tail += "post y " + state_str(*y) + "\n";
    } catch (...) {
      tail = "exc " + pplv::exc_class() + "\n";
      if (y) tail += "post y " + state_str(*y) + "\n";
    }
    J.line(tail + "end " + sid);
    return x;
  }

  // ---- constructors
  // exact: the new grid must have dimension n (a Constraint_System has the dimension of its rows)
  void fresh(int s, dimension_type n, bool exact = false) {
    Grid* g = nullptr;
    unsigned k = R.below(20);
    if (k < 2) g = construct("new_univ " + std::to_string(n), nullptr, [&] { return new Grid(n); }, s);
    else if (k < 4) g = construct("new_empty " + std::to_string(n), nullptr, [&] { return new Grid(n, EMPTY); }, s);
    else if (k < 10) {
      Congruence_System cs = G.cgs(n, n + 1);
      OS o; o << "new_cgs"; put_cgs(o, cs);
      g = construct(o.str(), nullptr, [&] { return new Grid(cs); }, s);
    }
    else if (k < 12) {
      Constraint_System cs = G.cs(n, n + 1, !R.chance(1, 5));
      // the dimension of a Constraint_System is that of its rows: pad it to n most of the time
      if (cs.space_dimension() < n && (exact || !R.chance(1, 6))) cs.insert(0 * Variable(n - 1) == 0);
      OS o; o << "new_cs"; put_cs(o, cs);
      g = construct(o.str(), nullptr, [&] { return new Grid(cs); }, s);
    }
    else {
      Grid_Generator_System gs = G.gens(n, n + 2, !R.chance(1, 12));
      OS o; o << "new_gens"; put_gs(o, gs);
      g = construct(o.str(), nullptr, [&] { return new Grid(gs); }, s);
    }
    if (!g) g = construct("new_univ " + std::to_string(n), nullptr, [&] { return new Grid(n); }, s);
    slot[s].reset(g);
  }

  // a slot OTHER than s with the same dimension; creates one if needed
  int partner(int s) {
    std::vector<int> c;
    for (int t = 0; t < NSLOT; ++t) if (t != s && slot[t] && dim(t) == dim(s)) c.push_back(t);
    if (!c.empty() && !R.chance(1, 16)) return c[R.below(c.size())];
    int t = (s + 1 + R.below(NSLOT - 1)) % NSLOT;
    fresh(t, dim(s), true);
    return t;
  }
  // any live slot other than s (-1 if none)
  int other(int s) {
    std::vector<int> c;
    for (int t = 0; t < NSLOT; ++t) if (t != s && slot[t]) c.push_back(t);
    return c.empty() ? -1 : c[R.below(c.size())];
  }

  Coefficient denom() {
    return R.chance(1, 25) ? Coefficient(0) : (R.chance(1, 2) ? Coefficient(1) : Coefficient((long)R.range(-4, 4)));
  }
  dimension_type var(dimension_type n) {       // a variable of the grid; rarely one that is out of range
    if (n == 0 || R.chance(1, 50)) return n;
    return R.below(n);
  }

  // a 0-dimensional grid has no variable: operations that need one mostly add dimensions instead
  void grow(int s) {
    Grid& g = *slot[s]; unsigned m = 1 + R.below(2); bool prj = R.chance(1, 2);
    event(std::string(prj ? "add_space_dimensions_and_project " : "add_space_dimensions_and_embed ") + std::to_string(m), &g, nullptr,
          [&]() -> std::string { if (prj) g.add_space_dimensions_and_project(m); else g.add_space_dimensions_and_embed(m); return ""; }, s);
  }

  // ---- one random mutation of slot s
  void mutate(int s) {
    Grid& g = *slot[s]; dimension_type n = dim(s);
    unsigned k = R.below(73);
    if (n == 0 && ((k >= 36 && k <= 45) || (k >= 50 && k <= 52) || (k >= 63 && k <= 66)) && !R.chance(1, 4)) { grow(s); return; }
    switch (k) {
      case 0: case 1: case 2: case 3: case 4: { Congruence c = G.cg(G.argdim(n)); bool ref = k >= 3;
        OS o; o << (ref ? "refine_with_congruence" : "add_congruence"); put_cg(o, c);
        event(o.str(), &g, nullptr, [&]() -> std::string { if (ref) g.refine_with_congruence(c); else g.add_congruence(c); return ""; }, s); break; }
      case 5: case 6: case 7: case 8: { Congruence_System cs = G.cgs(G.argdim(n), 3); unsigned w = k == 8 ? 2 : (k == 7 ? 1 : 0);
        OS o; o << (w == 0 ? "add_congruences" : (w == 1 ? "refine_with_congruences" : "add_recycled_congruences")); put_cgs(o, cs);
        event(o.str(), &g, nullptr, [&]() -> std::string {
          if (w == 0) g.add_congruences(cs); else if (w == 1) g.refine_with_congruences(cs); else g.add_recycled_congruences(cs); return ""; }, s); break; }
      case 9: case 10: case 11: case 12: { bool ref = k >= 11; Constraint c = G.con(G.argdim(n), G.conkind(!ref));
        OS o; o << (ref ? "refine_with_constraint" : "add_constraint"); put_con(o, c);
        event(o.str(), &g, nullptr, [&]() -> std::string { if (ref) g.refine_with_constraint(c); else g.add_constraint(c); return ""; }, s); break; }
      case 13: case 14: case 15: { unsigned w = k - 13; Constraint_System cs = G.cs(G.argdim(n), 3, w != 1 && !R.chance(1, 4));
        OS o; o << (w == 0 ? "add_constraints" : (w == 1 ? "refine_with_constraints" : "add_recycled_constraints")); put_cs(o, cs);
        event(o.str(), &g, nullptr, [&]() -> std::string {
          if (w == 0) g.add_constraints(cs); else if (w == 1) g.refine_with_constraints(cs); else g.add_recycled_constraints(cs); return ""; }, s); break; }
      case 16: case 17: case 18: case 19: { GG x = G.anygen(G.argdim(n));
        OS o; o << "add_grid_generator"; put_gen(o, x);
        event(o.str(), &g, nullptr, [&]() -> std::string { g.add_grid_generator(x); return ""; }, s); break; }
      case 20: case 21: case 22: { Grid_Generator_System gs = G.gens(G.argdim(n), 3, R.chance(1, 2)); bool rec = k == 22;
        OS o; o << (rec ? "add_recycled_grid_generators" : "add_grid_generators"); put_gs(o, gs);
        event(o.str(), &g, nullptr, [&]() -> std::string { if (rec) g.add_recycled_grid_generators(gs); else g.add_grid_generators(gs); return ""; }, s); break; }
      case 23: case 24: case 25: { int t = partner(s); Grid& x = *slot[s]; Grid& y = *slot[t];
        event("intersection_assign", &x, &y, [&]() -> std::string { x.intersection_assign(y); return ""; }, s, t); break; }
      case 26: case 27: case 28: { int t = partner(s); Grid& x = *slot[s]; Grid& y = *slot[t];
        event("upper_bound_assign", &x, &y, [&]() -> std::string { x.upper_bound_assign(y); return ""; }, s, t); break; }
      case 29: case 30: case 31: { int t = partner(s); Grid& x = *slot[s]; Grid& y = *slot[t];
        event("difference_assign", &x, &y, [&]() -> std::string { x.difference_assign(y); return ""; }, s, t); break; }
      case 32: { int t = partner(s); Grid& x = *slot[s]; Grid& y = *slot[t];
        event("time_elapse_assign", &x, &y, [&]() -> std::string { x.time_elapse_assign(y); return ""; }, s, t); break; }
      case 33: { int t = partner(s); Grid& x = *slot[s]; Grid& y = *slot[t];
        event("upper_bound_assign_if_exact", &x, &y, [&]() -> std::string { return b01(x.upper_bound_assign_if_exact(y)); }, s, t); break; }
      case 34: { int t = other(s); if (t < 0 || dim(s) + dim(t) > MAXDIM) { fresh(s, n); break; }
        Grid& y = *slot[t];
        event("concatenate_assign", &g, &y, [&]() -> std::string { g.concatenate_assign(y); return ""; }, s, t); break; }
      case 35: { int t = other(s); if (t < 0) { fresh(s, n); break; }
        // mostly between grids of different dimension too; sometimes a dimension mismatch for a binary operation (exception)
        Grid& y = *slot[t];
        if (dim(t) != n && R.chance(1, 3)) {
          event("intersection_assign", &g, &y, [&]() -> std::string { g.intersection_assign(y); return ""; }, s, t); break; }
        event("m_swap", &g, &y, [&]() -> std::string { g.m_swap(y); return ""; }, s, t); break; }
      case 36: case 37: case 38: case 39: case 40: case 41: { bool pre = k >= 39;
        dimension_type v = var(n); Linear_Expression e = G.lin(G.argdim(n), true); G.tune(e, v); Coefficient d = denom();
        OS o; o << (pre ? "affine_preimage " : "affine_image ") << v; put_expr(o, e); o << ' ' << d;
        event(o.str(), &g, nullptr, [&]() -> std::string { if (pre) g.affine_preimage(Variable(v), e, d); else g.affine_image(Variable(v), e, d); return ""; }, s); break; }
      case 42: case 43: case 44: case 45: { bool pre = k >= 44;
        dimension_type v = var(n); Linear_Expression e = G.lin(G.argdim(n), true); G.tune(e, v);
        Coefficient d = R.chance(1, 2) ? Coefficient(1) : denom(); Coefficient m = G.modulus(); Relation_Symbol r = G.relsym();
        if (r != EQUAL && !R.chance(1, 8)) m = 0;                  // r != EQUAL && m != 0 throws
        OS o; o << (pre ? "generalized_affine_preimage_var " : "generalized_affine_image_var ") << v << ' ' << Gen::relnum(r); put_expr(o, e); o << ' ' << d << ' ' << m;
        event(o.str(), &g, nullptr, [&]() -> std::string {
          if (pre) g.generalized_affine_preimage(Variable(v), r, e, d, m); else g.generalized_affine_image(Variable(v), r, e, d, m); return ""; }, s); break; }
      case 46: case 47: case 48: case 49: { bool pre = k >= 48;
        Linear_Expression lhs = G.lin(G.argdim(n), true), rhs = G.lin(G.argdim(n), true);
        unsigned w = R.below(10);
        if (w < 2) lhs = Linear_Expression(G.coef());                                            // constant left-hand side
        else if (w < 5 && n > 0) lhs = G.nzcoef() * Variable(R.below(n)) + G.coef();             // a single variable
        Coefficient m = G.modulus(); Relation_Symbol r = G.relsym();
        if (r != EQUAL && !R.chance(1, 8)) m = 0;
        OS o; o << (pre ? "generalized_affine_preimage_lr" : "generalized_affine_image_lr"); put_expr(o, lhs); o << ' ' << Gen::relnum(r); put_expr(o, rhs); o << ' ' << m;
        event(o.str(), &g, nullptr, [&]() -> std::string {
          if (pre) g.generalized_affine_preimage(lhs, r, rhs, m); else g.generalized_affine_image(lhs, r, rhs, m); return ""; }, s); break; }
      case 50: case 51: { bool pre = k == 51;
        dimension_type v = var(n); Linear_Expression lb = G.lin(G.argdim(n), true), ub = G.lin(G.argdim(n), true);
        G.tune(lb, v); G.tune(ub, v); Coefficient d = R.chance(1, 2) ? Coefficient(1) : denom();
        OS o; o << (pre ? "bounded_affine_preimage " : "bounded_affine_image ") << v; put_expr(o, lb); put_expr(o, ub); o << ' ' << d;
        event(o.str(), &g, nullptr, [&]() -> std::string {
          if (pre) g.bounded_affine_preimage(Variable(v), lb, ub, d); else g.bounded_affine_image(Variable(v), lb, ub, d); return ""; }, s); break; }
      case 52: { dimension_type v = var(n);
        event("unconstrain_var " + std::to_string(v), &g, nullptr, [&]() -> std::string { g.unconstrain(Variable(v)); return ""; }, s); break; }
      case 53: { Variables_Set vs = G.vars(R.chance(1, 30) ? n + 1 : n, 1, 3);
        OS o; o << "unconstrain_set"; put_vars(o, vs);
        event(o.str(), &g, nullptr, [&]() -> std::string { g.unconstrain(vs); return ""; }, s); break; }
      case 54: case 55: case 56: { if (n >= MAXDIM) { fresh(s, R.below(5)); break; }
        unsigned m = R.below(3); if (n + m > MAXDIM) m = MAXDIM - n; bool prj = k == 56 || (k == 55 && R.chance(1, 2));
        event(std::string(prj ? "add_space_dimensions_and_project " : "add_space_dimensions_and_embed ") + std::to_string(m), &g, nullptr,
              [&]() -> std::string { if (prj) g.add_space_dimensions_and_project(m); else g.add_space_dimensions_and_embed(m); return ""; }, s); break; }
      case 57: case 58: { Variables_Set vs = G.vars(R.chance(1, 30) ? n + 1 : n, 1, 3);
        OS o; o << "remove_space_dimensions"; put_vars(o, vs);
        event(o.str(), &g, nullptr, [&]() -> std::string { g.remove_space_dimensions(vs); return ""; }, s); break; }
      case 59: case 60: { dimension_type m = R.chance(1, 30) ? n + 1 : R.below(n + 1);
        event("remove_higher_space_dimensions " + std::to_string(m), &g, nullptr, [&]() -> std::string { g.remove_higher_space_dimensions(m); return ""; }, s); break; }
      case 61: case 62: { if (n == 0 && !R.chance(1, 4)) { fresh(s, 1 + R.below(3)); break; }
        // random partial injective map
        std::vector<long> img(n, -1); std::vector<dimension_type> dom;
        for (dimension_type i = 0; i < n; ++i) if (!R.chance(1, 4)) dom.push_back(i);
        std::vector<dimension_type> tgt(dom.size()); for (size_t i = 0; i < tgt.size(); ++i) tgt[i] = i;
        for (size_t i = tgt.size(); i > 1; --i) std::swap(tgt[i - 1], tgt[R.below(i)]);
        Partial_Function pf;
        for (size_t i = 0; i < dom.size(); ++i) { img[dom[i]] = (long)tgt[i]; pf.insert(dom[i], tgt[i]); }
        OS o; o << "map_space_dimensions " << n; for (dimension_type i = 0; i < n; ++i) o << ' ' << img[i];
        event(o.str(), &g, nullptr, [&]() -> std::string { g.map_space_dimensions(pf); return ""; }, s); break; }
      case 63: case 64: { if (n >= MAXDIM) { fresh(s, R.below(5)); break; }
        dimension_type v = var(n); unsigned m = R.below(3); if (n + m > MAXDIM) m = MAXDIM - n;
        event("expand_space_dimension " + std::to_string(v) + " " + std::to_string(m), &g, nullptr,
              [&]() -> std::string { g.expand_space_dimension(Variable(v), m); return ""; }, s); break; }
      case 65: case 66: { dimension_type dest = var(n);
        Variables_Set vs = G.vars(n, 1, 2, R.chance(1, 20) ? -1 : (long)dest);
        OS o; o << "fold_space_dimensions"; put_vars(o, vs); o << ' ' << dest;
        event(o.str(), &g, nullptr, [&]() -> std::string { g.fold_space_dimensions(vs, Variable(dest)); return ""; }, s); break; }
      case 67: event("topological_closure_assign", &g, nullptr, [&]() -> std::string { g.topological_closure_assign(); return ""; }, s); break;
      case 68: case 69: case 70: { int t = (s + 1 + R.below(NSLOT - 1)) % NSLOT;
        // copy construction / assignment INTO t FROM s
        Grid& y = g;
        if (slot[t] && R.chance(1, 2)) { Grid& x = *slot[t]; event("assign", &x, &y, [&]() -> std::string { x = y; return ""; }, t, s); }
        else { Grid* x = construct("copy", &y, [&] { return new Grid(y); }, t, s); if (x) slot[t].reset(x); }
        followup(t);
        break; }
      default: fresh(s, R.chance(3, 4) ? n : R.below(5)); break;
    }
  }

  // ---- observers
  void observe(int s) {
    Grid& g = *slot[s]; dimension_type n = dim(s);
    unsigned k = R.below(40);
    switch (k) {
      case 0: event("is_universe", &g, nullptr, [&]() -> std::string { return b01(g.is_universe()); }, s); break;
      case 1: event("is_discrete", &g, nullptr, [&]() -> std::string { return b01(g.is_discrete()); }, s); break;
      case 2: event("is_bounded", &g, nullptr, [&]() -> std::string { return b01(g.is_bounded()); }, s); break;
      case 3: if (R.chance(1, 3)) { event("is_topologically_closed", &g, nullptr, [&]() -> std::string { return b01(g.is_topologically_closed()); }, s); break; }
              event("space_dimension", &g, nullptr, [&]() -> std::string { return std::to_string(g.space_dimension()); }, s); break;
      case 4: event("contains_integer_point", &g, nullptr, [&]() -> std::string { return b01(g.contains_integer_point()); }, s); break;
      case 5: case 6: event("affine_dimension", &g, nullptr, [&]() -> std::string { return std::to_string(g.affine_dimension()); }, s); break;
      case 7: case 8: { dimension_type v = var(n);
        if (n == 0 && !R.chance(1, 4)) { event("is_universe", &g, nullptr, [&]() -> std::string { return b01(g.is_universe()); }, s); break; }
        event("constrains " + std::to_string(v), &g, nullptr, [&]() -> std::string { return b01(g.constrains(Variable(v))); }, s); break; }
      case 9: case 10: case 11: case 12: case 13: case 14: case 15: case 16: case 17: case 18: {
        int t = partner(s); Grid& x = *slot[s]; Grid& y = *slot[t];
        bool priv_ok = dim(s) > 0 && !x.marked_empty() && !y.marked_empty();
        if (k <= 10) event("contains", &x, &y, [&]() -> std::string { return b01(x.contains(y)); }, s, t);
        else if (k <= 12) event("strictly_contains", &x, &y, [&]() -> std::string { return b01(x.strictly_contains(y)); }, s, t);
        else if (k <= 14) event("equals", &x, &y, [&]() -> std::string { return b01(x == y); }, s, t);
        else if (k <= 16) event("is_disjoint_from", &x, &y, [&]() -> std::string { return b01(x.is_disjoint_from(y)); }, s, t);
        else if (k == 17 && priv_ok) event("is_included_in", &x, &y, [&]() -> std::string { return b01(x.is_included_in(y)); }, s, t);
        else if (priv_ok) event("quick_equivalence_test", &x, &y, [&]() -> std::string { return std::to_string((int)x.quick_equivalence_test(y)); }, s, t);
        else event("equals", &x, &y, [&]() -> std::string { return b01(x == y); }, s, t);
        break; }
      case 19: case 20: case 21: case 22: { Congruence c = G.cg(G.argdim(n));
        OS o; o << "relation_with_cg"; put_cg(o, c);
        event(o.str(), &g, nullptr, [&]() -> std::string { return relbits(g.relation_with(c)); }, s); break; }
      case 23: case 24: case 25: { GG x = G.anygen(G.argdim(n));
        OS o; o << "relation_with_gen"; put_gen(o, x);
        event(o.str(), &g, nullptr, [&]() -> std::string { return b01(g.relation_with(x) == Poly_Gen_Relation::subsumes()); }, s); break; }
      case 26: case 27: case 28: { Constraint c = G.con(G.argdim(n), R.below(3));
        OS o; o << "relation_with_con"; put_con(o, c);
        event(o.str(), &g, nullptr, [&]() -> std::string { return relbits(g.relation_with(c)); }, s); break; }
      case 29: case 30: { Linear_Expression e = G.lin(G.argdim(n), true); bool up = k == 29;
        OS o; o << (up ? "bounds_from_above" : "bounds_from_below"); put_expr(o, e);
        event(o.str(), &g, nullptr, [&]() -> std::string { return b01(up ? g.bounds_from_above(e) : g.bounds_from_below(e)); }, s); break; }
      case 31: case 32: case 33: { Linear_Expression e = G.lin(G.argdim(n), true); bool up = R.chance(1, 2);
        if (R.chance(1, 4)) e = Linear_Expression(G.coef()) + (n > 0 ? 0 * Variable(n - 1) : Linear_Expression(0));   // constant: bounded
        OS o; o << (up ? "maximize" : "minimize_expr"); put_expr(o, e);
        event(o.str(), &g, nullptr, [&]() -> std::string {
          Coefficient num, den; bool att = false;
          bool r = up ? g.maximize(e, num, den, att) : g.minimize(e, num, den, att);
          if (!r) return "0";
          OS q; q << "1 " << num << ' ' << den << ' ' << b01(att); return q.str(); }, s); break; }
      case 34: case 35: case 36: case 37: { Linear_Expression e = G.lin(G.argdim(n), true);
        OS o; o << "frequency"; put_expr(o, e);
        event(o.str(), &g, nullptr, [&]() -> std::string {
          Coefficient fn, fd, vn, vd;
          if (!g.frequency(e, fn, fd, vn, vd)) return "0";
          OS q; q << "1 " << fn << ' ' << fd << ' ' << vn << ' ' << vd; return q.str(); }, s); break; }
      default: event("OK", &g, nullptr, [&]() -> std::string { return b01(g.OK()); }, s); break;
    }
  }

  // ---- the lazy machinery, called directly on the slot (guarded by the preconditions of the private functions)
  void lazy(int s) {
    Grid& g = *slot[s]; dimension_type n = dim(s);
    unsigned k = R.below(32);
    bool live = n > 0 && !g.marked_empty();
    switch (k) {
      case 0: case 1: case 2: case 3: case 4:
        event("minimize", &g, nullptr, [&]() -> std::string { return b01(g.minimize()); }, s); break;
      case 5: case 6: case 7:
        if (live && g.generators_are_up_to_date()) { event("update_congruences", &g, nullptr, [&]() -> std::string { g.update_congruences(); return ""; }, s); break; }
        // fall through
      case 8: case 9: case 10:
        if (live && g.congruences_are_up_to_date()) { event("update_generators", &g, nullptr, [&]() -> std::string { return b01(g.update_generators()); }, s); break; }
        if (live && g.generators_are_up_to_date()) { event("update_congruences", &g, nullptr, [&]() -> std::string { g.update_congruences(); return ""; }, s); break; }
        // fall through
      case 11: case 12: case 13: case 14:
        event("is_empty", &g, nullptr, [&]() -> std::string { return b01(g.is_empty()); }, s); break;
      case 15: case 16: case 17: event("congruences", &g, nullptr, [&]() -> std::string { (void)g.congruences(); return ""; }, s); break;
      case 18: case 19: case 20: event("minimized_congruences", &g, nullptr, [&]() -> std::string { (void)g.minimized_congruences(); return ""; }, s); break;
      case 21: case 22: case 23: event("grid_generators", &g, nullptr, [&]() -> std::string { (void)g.grid_generators(); return ""; }, s); break;
      case 24: case 25: case 26: event("minimized_grid_generators", &g, nullptr, [&]() -> std::string { (void)g.minimized_grid_generators(); return ""; }, s); break;
      case 27: { // on a heap copy (the copy constructor normalises the state; the copy's pre/post states are journalled)
        std::unique_ptr<Grid> z(new Grid(g)); Grid& x = *z; bool e = R.chance(2, 3);
        event(e ? "set_empty" : "set_zero_dim_univ", &x, nullptr, [&]() -> std::string { if (e) x.set_empty(); else x.set_zero_dim_univ(); return ""; }, s);
        break; }
      case 28: { // static normalize_divisors(sys): at least one row (precondition; the function reads sys[0])
        Grid_Generator_System gs = G.gens(n, n + 2, R.chance(2, 3));
        if (gs.sys.rows.size() == 0) gs.insert(G.anygen(n));
        OS o; o << "normalize_divisors"; put_gs(o, gs);
        event(o.str(), nullptr, nullptr, [&]() -> std::string { Grid::normalize_divisors(gs); OS q; put_gs(q, gs); return q.str().substr(1); });
        break; }
      default: { // normalize_divisors(sys, gen_sys): gen_sys = the minimized generators of a COPY of the slot (a point, equal divisors)
        Grid tmp(g);
        if (!(n > 0 && tmp.minimize() && tmp.generators_are_up_to_date() && tmp.gen_sys.sys.rows.size() > 0)) {
          event("minimize", &g, nullptr, [&]() -> std::string { return b01(g.minimize()); }, s); break; }
        Grid_Generator_System gen_sys(tmp.gen_sys);
        Grid_Generator_System sys = G.gens(n, n + 2, R.chance(2, 3));
        if (sys.sys.rows.size() == 0) sys.insert(G.anygen(n));
        OS o; o << "normalize_divisors2"; put_gs(o, sys); put_gs(o, gen_sys);
        event(o.str(), nullptr, nullptr, [&]() -> std::string {
          Grid::normalize_divisors(sys, gen_sys); OS q; put_gs(q, sys); put_gs(q, gen_sys); return q.str().substr(1); });
        break; }
    }
  }

  // 0–2 observers / lazy calls on slot s
  void followup(int s) {
    unsigned o = R.below(10);
    unsigned cnt = o < 4 ? 0 : (o < 8 ? 1 : 2);
    for (unsigned i = 0; i < cnt; ++i) { if (R.chance(2, 3)) observe(s); else lazy(s); }
  }

  void run(int len) {
    J.line("hist " + std::to_string(hid));
    static const dimension_type dims[] = {0, 1, 1, 2, 2, 2, 3, 3, 3, 4, 4};
    dimension_type n = dims[R.below(sizeof(dims) / sizeof(dims[0]))];
    for (int s = 0; s < 2; ++s) { fresh(s, n); if (R.chance(1, 2)) followup(s); }
    for (int step = 0; step < len; ++step) {
      std::vector<int> live; for (int s = 0; s < NSLOT; ++s) if (slot[s]) live.push_back(s);
      int s = live[R.below(live.size())];
      // status combinations that few operations produce (both systems up to date but not both minimized, one system
      // minimized alone) are followed up more often
      if (R.chance(1, 2))
        for (size_t i = 0; i < live.size(); ++i) {
          unsigned f = slot[live[i]]->status.flags;
          if (f == 6 || f == 14 || f == 22 || f == 10 || f == 20) { s = live[i]; break; }
        }
      // keep the pool lively: a slot that is empty (tested on a copy, the slot itself is not touched)
      // is usually rebuilt instead of being mutated further
      if (R.chance(1, 2)) { Grid tmp(*slot[s]); if (tmp.is_empty()) fresh(s, dim(s)); }
      mutate(s);
      followup(s);
      if (R.chance(1, 8)) { int t = live[R.below(live.size())]; if (slot[t]) { if (R.chance(2, 3)) observe(t); else lazy(t); } }
    }
    for (int s = 0; s < NSLOT; ++s) if (slot[s] && R.chance(1, 4)) {
      Grid& g = *slot[s];
      event("OK", &g, nullptr, [&]() -> std::string { return b01(g.OK()); }, s);
    }
  }
};

int main(int argc, char** argv) {
  long seed = pplv::arg_long(argc, argv, "--seed", 1);
  long first = pplv::arg_long(argc, argv, "--first", 0);
  long last = pplv::arg_long(argc, argv, "--last", 100);
  int len = (int)pplv::arg_long(argc, argv, "--len", 12);
  long per = pplv::arg_long(argc, argv, "--per-batch", 50);
  AUX = pplv::arg_long(argc, argv, "--aux", 0) != 0;
  long nb = (last - first + per - 1) / per;
  return pplv::run_batches(0, nb, [&](long b) {
    for (long h = first + b * per; h < std::min(last, first + (b + 1) * per); ++h) {
      Hist H((uint64_t)seed * 1000003ull + (uint64_t)h, h);
      H.run(len);
    }
  }, 120);
}
