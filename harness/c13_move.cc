// C13 stage 2 harness: the MOVING mechanics of the library, observed at the level of storage.
//
// For every case the raw data of the objects involved is journalled before and after one call of a
// moving operation: every row with the ADDRESS of its storage (`Linear_Expression::impl`, canonicalised
// as small integers in order of first appearance), kind / topology / modulus and coefficients, the
// vector capacities, the scalar members of the systems and of the polyhedra.  The native driver
// `pplv_c13 --move` rebuilds the heap-with-ownership state of lean/PPLV/Value/Move*.lean from the
// `pre` part, runs the model function and compares the `post` part exactly (which storage ended up
// where, what the argument holds afterwards, which cells are alive).
//
// The executable's operator new / delete never reuse a block (freed blocks are poisoned), so an
// address identifies a block for the whole case, and double deletes are counted.
//
//   c13_move --seed S --first A --last B [--batch N] [--cpu SECONDS per batch]
//
// one line per case:
//   mv <id> <op> <params…> | pre <objects> | post <objects> | live <k> b… | faults <n> | exc <class|-> [| copy <objects>]
// objects:  V <cap> <n> {<addr> <tag> <nnc> <k> c1…ck}        Swapping_Vector
//           L <sd> <nnc> <first_pending> <sorted> V…           Linear_System
//           R <addr> <tag> <nnc> <k> c…                        one row object
//           Q <sd> V…                                          Congruence_System
//           B <cols> <nrows> {<k> bit…}                        Bit_Matrix
//           P <sd> <status> L L B B                            Polyhedron
//           GR <sd> <status> Q                                 Grid (the members add_recycled_congruences touches)
//           PS <sd> <reduced> <n> {<rep addr> <refs>}          Pointset_Powerset<C_Polyhedron>
#include <cstdio>
#include <cstdlib>
#include <cstring>
#include <string>
#include <sstream>
#include <vector>
#include <map>
#include <set>
#include <list>
#include <deque>
#include <algorithm>
#include <limits>
#include <stdexcept>
#include <memory>
#include <gmpxx.h>
#define private public
#define protected public
#include "ppl.hh"
#undef private
#undef protected
#include "common.hh"

namespace track {
  static const unsigned long LIVE = 0xA110C8EDu, DEAD = 0xDEADB10Cu;
  struct Hdr { unsigned long magic; unsigned long size; };
  static long g_faults = 0;
  inline void* get(std::size_t n) {
    Hdr* h = (Hdr*) std::malloc(sizeof(Hdr) + (n ? n : 1));
    if (!h) throw std::bad_alloc();
    h->magic = LIVE; h->size = n;
    return h + 1;
  }
  inline void put(void* p) {
    if (!p) return;
    Hdr* h = ((Hdr*) p) - 1;
    if (h->magic != LIVE) { ++g_faults; return; }
    h->magic = DEAD;
    std::memset(p, 0xDD, h->size);          // never given back: addresses stay unique
  }
  inline bool is_live(const void* p) { return (((const Hdr*) p) - 1)->magic == LIVE; }
}
void* operator new(std::size_t n) { return track::get(n); }
void* operator new[](std::size_t n) { return track::get(n); }
void* operator new(std::size_t n, const std::nothrow_t&) noexcept { try { return track::get(n); } catch (...) { return 0; } }
void* operator new[](std::size_t n, const std::nothrow_t&) noexcept { try { return track::get(n); } catch (...) { return 0; } }
void operator delete(void* p) noexcept { track::put(p); }
void operator delete[](void* p) noexcept { track::put(p); }
void operator delete(void* p, std::size_t) noexcept { track::put(p); }
void operator delete[](void* p, std::size_t) noexcept { track::put(p); }
void operator delete(void* p, const std::nothrow_t&) noexcept { track::put(p); }
void operator delete[](void* p, const std::nothrow_t&) noexcept { track::put(p); }

using namespace Parma_Polyhedra_Library;
using pplv::Rng;
typedef std::ostringstream OS;
typedef Linear_System<Constraint> LSC;
typedef Linear_System<Generator> LSG;
typedef Pointset_Powerset<C_Polyhedron> PPS;

static pplv::Journal J(1);

// ---- canonical addresses -------------------------------------------------------------------
struct Canon {
  std::map<const void*, int> id;
  std::vector<const void*> order;
  int of(const void* p) {
    std::map<const void*, int>::iterator i = id.find(p);
    if (i != id.end()) return i->second;
    int k = (int) order.size(); id[p] = k; order.push_back(p); return k;
  }
};
static Canon* CN = 0;

static void put_expr(OS& o, const Linear_Expression& e) {
  o << " @" << CN->of(e.impl);
}
static void put_coeffs(OS& o, const Linear_Expression& e) {
  dimension_type sd = e.space_dimension();
  o << " " << (sd + 1) << " " << e.inhomogeneous_term();
  for (dimension_type i = 0; i < sd; ++i) o << " " << e.coefficient(Variable(i));
}
static void put_row(OS& o, const Constraint& c) {
  put_expr(o, c.expr); o << " " << (c.kind_ == Constraint::LINE_OR_EQUALITY ? 0 : 1) << " " << (c.topology_ == NOT_NECESSARILY_CLOSED ? 1 : 0);
  put_coeffs(o, c.expr);
}
static void put_row(OS& o, const Generator& c) {
  put_expr(o, c.expr); o << " " << (c.kind_ == Generator::LINE_OR_EQUALITY ? 0 : 1) << " " << (c.topology_ == NOT_NECESSARILY_CLOSED ? 1 : 0);
  put_coeffs(o, c.expr);
}
static void put_row(OS& o, const Congruence& c) {
  put_expr(o, c.expr); o << " " << c.modulus_ << " 0";
  put_coeffs(o, c.expr);
}
template <class Row> static void put_R(OS& o, const Row& r) { o << " R"; put_row(o, r); }
template <class Row> static void put_V(OS& o, const Swapping_Vector<Row>& v) {
  o << " V " << v.impl.capacity() << " " << v.impl.size();
  for (size_t i = 0; i < v.impl.size(); ++i) put_row(o, v.impl[i]);
}
template <class Row> static void put_L(OS& o, const Linear_System<Row>& s) {
  o << " L " << s.space_dimension_ << " " << (s.row_topology == NOT_NECESSARILY_CLOSED ? 1 : 0) << " " << s.index_first_pending << " " << (s.sorted ? 1 : 0);
  put_V(o, s.rows);
}
static void put_Q(OS& o, const Congruence_System& s) { o << " Q " << s.space_dimension_; put_V(o, s.rows); }
static void put_B(OS& o, const Bit_Matrix& m) {
  o << " B " << m.row_size << " " << m.rows.size();
  for (size_t i = 0; i < m.rows.size(); ++i) {
    std::vector<unsigned long> bits;
    for (unsigned long b = m.rows[i].first(); b != C_Integer<unsigned long>::max; b = m.rows[i].next(b)) bits.push_back(b);
    o << " " << bits.size();
    for (size_t k = 0; k < bits.size(); ++k) o << " " << bits[k];
  }
}
static void put_P(OS& o, const Polyhedron& p) {
  o << " P " << p.space_dim << " " << p.status.flags;
  put_L(o, p.con_sys.sys); put_L(o, p.gen_sys.sys); put_B(o, p.sat_c); put_B(o, p.sat_g);
}
static void put_GR(OS& o, const Grid& g) { o << " GR " << g.space_dim << " " << g.status.flags; put_Q(o, g.con_sys); }
static void put_PS(OS& o, const PPS& s) {
  o << " PS " << s.space_dim << " " << (s.reduced ? 1 : 0) << " " << s.sequence.size();
  for (PPS::Sequence::const_iterator i = s.sequence.begin(); i != s.sequence.end(); ++i)
    o << " @" << CN->of(i->prep) << " " << i->prep->references;
}
static void put_live(OS& o, size_t upto) {
  o << " | live " << upto;
  for (size_t i = 0; i < upto; ++i) o << " " << (track::is_live(CN->order[i]) ? 1 : 0);
}

// ---- random data -----------------------------------------------------------------------------
static Linear_Expression rnd_le(Rng& g, dimension_type n, int span) {
  Linear_Expression e;
  if (n > 0) e.set_space_dimension(n);
  for (dimension_type i = 0; i < n; ++i) if (g.chance(2, 3)) e += Coefficient(g.range(-span, span)) * Variable(i);
  e += Coefficient(g.range(-2 * span, 2 * span));
  return e;
}
static Constraint rnd_con(Rng& g, dimension_type n, bool nnc) {
  Linear_Expression e = rnd_le(g, n, 3);
  switch (g.below(nnc ? 4 : 3)) { case 0: return e == 0; case 3: return e > 0; default: return e >= 0; }
}
static Generator rnd_gen(Rng& g, dimension_type n, bool first) {
  Linear_Expression e = rnd_le(g, n, 3);
  e.set_inhomogeneous_term(Coefficient(0));
  if (first) return point(e, Coefficient(g.range(1, 3)));
  switch (g.below(4)) {
    case 0: if (!e.all_homogeneous_terms_are_zero()) return line(e); return point(e);
    case 1: if (!e.all_homogeneous_terms_are_zero()) return ray(e); return point(e);
    default: return point(e, Coefficient(g.range(1, 3)));
  }
}
static Congruence rnd_cg(Rng& g, dimension_type n) {
  Linear_Expression e = rnd_le(g, n, 3);
  if (g.chance(1, 4)) return (e %= 0) / 0;
  return (e %= 0) / Coefficient(g.range(1, 5));
}
static Constraint_System rnd_cs(Rng& g, dimension_type n, bool nnc, int maxrows, Representation rep = SPARSE) {
  Constraint_System cs(rep);
  if (nnc) cs.sys.set_topology(NOT_NECESSARILY_CLOSED);
  cs.set_space_dimension(n);
  int m = (int) g.below(maxrows + 1);
  for (int i = 0; i < m; ++i) cs.insert(rnd_con(g, n, nnc));
  return cs;
}
static Generator_System rnd_gs(Rng& g, dimension_type n, int maxrows, Representation rep = SPARSE) {
  Generator_System gs(rep);
  gs.set_space_dimension(n);
  int m = (int) g.below(maxrows + 1);
  for (int i = 0; i < m; ++i) gs.insert(rnd_gen(g, n, i == 0));
  return gs;
}
// bring a raw system into a random admissible flag state: sorted or not, some rows pending
template <class Sys> static void rnd_flags(Rng& g, Sys& s) {
  if (g.chance(1, 2)) s.sys.sort_rows();                     // sorted := true (and really sorted)
  dimension_type n = s.sys.num_rows();
  if (n > 0 && g.chance(1, 3)) s.sys.index_first_pending = g.below((unsigned) n + 1);
  if (s.sys.sorted && g.chance(1, 6)) s.sys.sorted = false;   // `false' is always admissible
}
static Congruence_System rnd_cgs(Rng& g, dimension_type n, int maxrows) {
  Congruence_System s(n);
  int m = (int) g.below(maxrows + 1);
  for (int i = 0; i < m; ++i) s.insert(rnd_cg(g, n));
  return s;
}
// a polyhedron in a random lazy state
template <class PH> static PH rnd_ph(Rng& g, dimension_type n, bool nnc) {
  PH p(n, g.chance(1, 8) ? EMPTY : UNIVERSE);
  if (g.chance(1, 2)) p = PH(rnd_cs(g, n, nnc, 4)); else { Generator_System gs = rnd_gs(g, n, 4); if (!gs.has_no_rows()) p = PH(gs); }
  if (p.space_dimension() != n) p = PH(n, UNIVERSE);
  int k = (int) g.below(5);
  for (int i = 0; i < k; ++i) {
    switch (g.below(7)) {
      case 0: (void) p.minimized_constraints(); break;
      case 1: (void) p.minimized_generators(); break;
      case 2: p.add_constraint(rnd_con(g, n, nnc)); break;
      case 3: if (!p.is_empty()) p.add_generator(rnd_gen(g, n, true)); break;
      case 4: (void) p.constraints(); break;
      case 5: (void) p.generators(); break;
      default: (void) p.is_empty(); break;
    }
  }
  return p;
}
static void need_constraints(Polyhedron& x) {
  if (x.marked_empty() || x.space_dim == 0) return;
  if (x.has_pending_generators()) x.process_pending_generators();
  else if (!x.constraints_are_up_to_date()) x.update_constraints();
}
static void need_generators(Polyhedron& x) {
  if (x.marked_empty() || x.space_dim == 0) return;
  if (x.has_pending_constraints()) (void) x.process_pending_constraints();
  else if (!x.generators_are_up_to_date()) (void) x.minimize();
}

// ---- one case -------------------------------------------------------------------------------
struct Case {
  OS o; Canon cn; long f0; size_t npre;
  Case(const std::string& id, const std::string& op) { CN = &cn; o << "mv " << id << " " << op; f0 = track::g_faults; npre = 0; }
  void pre() { o << " | pre"; }
  void post() { npre = cn.order.size(); o << " | post"; }
  void copy() { o << " | copy"; }
  void finish(const std::string& exc) {
    // liveness of every storage cell seen before the call
    o << " | live " << npre;
    for (size_t i = 0; i < npre; ++i) o << " " << (track::is_live(cn.order[i]) ? 1 : 0);
    o << " | faults " << (track::g_faults - f0) << " | exc " << exc;
    J.line(o.str());
  }
};
#define GUARDED(stmt) do { try { stmt; } catch (...) { exc = pplv::exc_class(); } } while (0)

template <class PH> static void poly_cases(Rng& g, const std::string& id, int kind, bool nnc) {
  dimension_type n = (dimension_type) g.range(0, 3);
  if (g.chance(7, 8) && n == 0) n = 1 + g.below(3);
  std::string exc = "-";
  const char* tn = nnc ? "N" : "C";
  switch (kind) {
  case 0: {   // add_recycled_constraints
    PH x = rnd_ph<PH>(g, n, nnc);
    dimension_type m = g.chance(1, 5) ? (dimension_type) g.below((unsigned) n + 1) : n;
    Representation rep = g.chance(1, 2) ? DENSE : SPARSE;
    Constraint_System cs = rnd_cs(g, m, nnc, 4, rep);
    if (g.chance(1, 12)) cs = Constraint_System(rnd_con(g, n + 1, nnc));      // too many dimensions: rejected
    rnd_flags(g, cs);
    need_constraints(x);
    PH xc(x); need_constraints(xc);
    Constraint_System csc(cs);
    Case c(id, std::string("ph_add_recycled_constraints ") + tn + (cs.representation() != x.con_sys.representation() ? " 1" : " 0"));
    c.pre(); put_P(c.o, x); put_L(c.o, cs.sys);
    GUARDED(x.add_recycled_constraints(cs));
    c.post(); put_P(c.o, x); put_L(c.o, cs.sys);
    std::string exc2 = "-";
    try { xc.add_constraints(csc); } catch (...) { exc2 = pplv::exc_class(); }
    c.copy(); put_P(c.o, xc); c.o << " " << exc2 << " " << (x.OK() ? 1 : 0) << " " << (cs.OK() ? 1 : 0);
    c.finish(exc);
    break; }
  case 1: {   // add_recycled_generators (necessarily closed only in the model)
    PH x = rnd_ph<PH>(g, n, nnc);
    dimension_type m = g.chance(1, 5) ? (dimension_type) g.below((unsigned) n + 1) : n;
    Generator_System gs = rnd_gs(g, m, 4, g.chance(1, 2) ? DENSE : SPARSE);
    rnd_flags(g, gs);
    need_generators(x);
    PH xc(x); need_generators(xc);
    Generator_System gsc(gs);
    Case c(id, std::string("ph_add_recycled_generators ") + tn + (gs.representation() != x.gen_sys.representation() ? " 1" : " 0"));
    c.pre(); put_P(c.o, x); put_L(c.o, gs.sys);
    GUARDED(x.add_recycled_generators(gs));
    c.post(); put_P(c.o, x); put_L(c.o, gs.sys);
    std::string exc2 = "-";
    try { xc.add_generators(gsc); } catch (...) { exc2 = pplv::exc_class(); }
    c.copy(); put_P(c.o, xc); c.o << " " << exc2 << " " << (x.OK() ? 1 : 0) << " " << (gs.OK() ? 1 : 0);
    c.finish(exc);
    break; }
  case 2: {   // m_swap / std::swap, also with itself
    PH x = rnd_ph<PH>(g, n, nnc), y = rnd_ph<PH>(g, (dimension_type) g.range(0, 3), nnc);
    bool self = g.chance(1, 4);
    int how = (int) g.below(3);
    Case c(id, std::string("ph_swap ") + tn + (self ? " 1 " : " 0 ") + std::to_string(how));
    c.pre(); put_P(c.o, x); if (!self) put_P(c.o, y);
    PH& z = self ? x : y;
    if (how == 0) GUARDED(x.m_swap(z)); else if (how == 1) { using std::swap; GUARDED(swap(x, z)); } else GUARDED(std::swap(x, z));
    c.post(); put_P(c.o, x); if (!self) put_P(c.o, y);
    c.finish(exc);
    break; }
  case 3: {   // operator=
    PH x = rnd_ph<PH>(g, (dimension_type) g.range(0, 3), nnc), y = rnd_ph<PH>(g, n, nnc);
    bool self = g.chance(1, 4);
    Case c(id, std::string("ph_assign ") + tn + (self ? " 1" : " 0"));
    c.pre(); put_P(c.o, x); if (!self) put_P(c.o, y);
    PH& z = self ? x : y;
    GUARDED(x = z);
    c.post(); put_P(c.o, x); if (!self) put_P(c.o, y);
    c.finish(exc);
    break; }
  case 4: case 5: {   // intersection_assign / poly_hull_assign, aliased or not; the copy run is x.op(copy of x)
    bool hull = kind == 5;
    PH x = rnd_ph<PH>(g, n, nnc), y = rnd_ph<PH>(g, n, nnc);
    bool self = g.chance(1, 2);
    if (hull) { need_generators(x); need_generators(y); } else { need_constraints(x); need_constraints(y); }
    PH xc(x);
    if (hull) need_generators(xc); else need_constraints(xc);
    PH yc(self ? x : y);
    if (hull) need_generators(yc); else need_constraints(yc);
    Case c(id, std::string(hull ? "ph_hull " : "ph_intersection ") + tn + (self ? " 1" : " 0"));
    c.pre(); put_P(c.o, x); if (!self) put_P(c.o, y);
    const PH& z = self ? x : y;
    if (hull) GUARDED(x.poly_hull_assign(z)); else GUARDED(x.intersection_assign(z));
    c.post(); put_P(c.o, x); if (!self) put_P(c.o, y);
    std::string exc2 = "-";
    try { if (hull) xc.poly_hull_assign(yc); else xc.intersection_assign(yc); } catch (...) { exc2 = pplv::exc_class(); }
    c.copy(); put_P(c.o, xc); c.o << " " << exc2 << " " << (x.OK() ? 1 : 0) << " 1";
    c.finish(exc);
    break; }
  default: {  // concatenate_assign, aliased or not: the constraint system afterwards
    PH x = rnd_ph<PH>(g, n, nnc), y = rnd_ph<PH>(g, (dimension_type) g.range(1, 2), nnc);
    bool self = g.chance(1, 2);
    need_constraints(x); need_constraints(y);
    PH xc(x); need_constraints(xc);
    PH yc(self ? x : y); need_constraints(yc);
    Case c(id, std::string("ph_concat ") + tn + (self ? " 1" : " 0"));
    c.pre(); put_P(c.o, x); if (!self) put_P(c.o, y);
    const PH& z = self ? x : y;
    GUARDED(x.concatenate_assign(z));
    c.post(); put_P(c.o, x); if (!self) put_P(c.o, y);
    std::string exc2 = "-";
    try { xc.concatenate_assign(yc); } catch (...) { exc2 = pplv::exc_class(); }
    c.copy(); put_P(c.o, xc); c.o << " " << exc2 << " " << (x.OK() ? 1 : 0) << " 1";
    c.finish(exc);
    break; }
  }
}

static void one_case(Rng& g, long idn) {
  std::string id = std::to_string(idn);
  std::string exc = "-";
  int kind = (int) (idn % 16);
  dimension_type n = (dimension_type) g.range(1, 3);
  bool nnc = g.chance(1, 3);
  switch (kind) {
  case 0: {   // Swapping_Vector<Constraint>: reserve / resize / erase(first,last) / clear
    Constraint_System cs = rnd_cs(g, n, nnc, 6);
    Swapping_Vector<Constraint>& v = cs.sys.rows;
    int what = (int) g.below(6);
    size_t sz = v.size();
    if (what >= 4 && sz == 0) what = 1;
    if (what == 0) { size_t c = v.capacity() + g.below(3) * 3; if (g.chance(1, 4)) c = g.below((unsigned) v.capacity() + 1);
      Case k(id, "sv_reserve " + std::to_string(c)); k.pre(); put_V(k.o, v); GUARDED(v.reserve(c)); k.post(); put_V(k.o, v); k.finish(exc); }
    else if (what == 1) { size_t c = g.below((unsigned) sz + 12);
      Case k(id, "sv_resize " + std::to_string(c)); k.pre(); put_V(k.o, v); GUARDED(v.resize(c)); k.post(); put_V(k.o, v); k.finish(exc); }
    else if (what == 2) { size_t a = g.below((unsigned) sz + 1), b = a + g.below((unsigned) (sz - a) + 1);
      Case k(id, "sv_erase " + std::to_string(a) + " " + std::to_string(b)); k.pre(); put_V(k.o, v);
      GUARDED(v.erase(v.begin() + a, v.begin() + b)); k.post(); put_V(k.o, v); k.finish(exc); }
    else if (what >= 4) {   // erase(iterator): every position (first, middle, last)
      size_t a = g.below((unsigned) sz);
      Case k(id, "sv_erase_one " + std::to_string(a)); k.pre(); put_V(k.o, v);
      size_t ret = (size_t) -1;
      GUARDED(ret = (size_t) (v.erase(v.begin() + a) - v.begin())); k.post(); put_V(k.o, v); k.o << " " << ret; k.finish(exc); }
    else { Case k(id, "sv_clear"); k.pre(); put_V(k.o, v); GUARDED(v.clear()); k.post(); put_V(k.o, v); k.finish(exc); }
    break; }
  case 1: {   // Swapping_Vector m_swap / swap, also with itself
    Constraint_System a = rnd_cs(g, n, nnc, 5), b = rnd_cs(g, n, nnc, 5);
    bool self = g.chance(1, 4);
    Swapping_Vector<Constraint>& v = a.sys.rows; Swapping_Vector<Constraint>& w = self ? a.sys.rows : b.sys.rows;
    Case k(id, std::string("sv_swap ") + (self ? "1" : "0")); k.pre(); put_V(k.o, v); if (!self) put_V(k.o, w);
    if (g.chance(1, 2)) GUARDED(v.m_swap(w)); else GUARDED(swap(v, w));
    k.post(); put_V(k.o, v); if (!self) put_V(k.o, w); k.finish(exc);
    break; }
  case 2: case 3: {   // Linear_System::insert / insert_pending (Row&, Recycle_Input); Constraint or Generator rows
    bool pending = g.chance(1, 2);
    if (kind == 2) {
      Constraint_System cs = rnd_cs(g, n, nnc, 5); rnd_flags(g, cs); if (!pending) cs.sys.unset_pending_rows();
      Constraint r = rnd_con(g, (dimension_type) g.range(0, 4), nnc); if (nnc) r.set_topology(NOT_NECESSARILY_CLOSED);
      Case k(id, std::string("ls_insert_row C ") + (pending ? "1" : "0")); k.pre(); put_L(k.o, cs.sys); put_R(k.o, r);
      if (pending) GUARDED(cs.sys.insert_pending(r, Recycle_Input())); else GUARDED(cs.sys.insert(r, Recycle_Input()));
      k.post(); put_L(k.o, cs.sys); put_R(k.o, r); k.finish(exc);
    } else {
      Generator_System gs = rnd_gs(g, n, 5); rnd_flags(g, gs); if (!pending) gs.sys.unset_pending_rows();
      Generator r = rnd_gen(g, (dimension_type) g.range(0, 4), g.chance(1, 2));
      Case k(id, std::string("ls_insert_row G ") + (pending ? "1" : "0")); k.pre(); put_L(k.o, gs.sys); put_R(k.o, r);
      if (pending) GUARDED(gs.sys.insert_pending(r, Recycle_Input())); else GUARDED(gs.sys.insert(r, Recycle_Input()));
      k.post(); put_L(k.o, gs.sys); put_R(k.o, r); k.finish(exc);
    }
    break; }
  case 4: case 5: {   // Linear_System::insert / insert_pending (Linear_System&, Recycle_Input)
    bool pending = g.chance(1, 2);
    if (kind == 4) {
      Constraint_System x = rnd_cs(g, n, nnc, 5), y = rnd_cs(g, n, nnc, 5); rnd_flags(g, x); rnd_flags(g, y);
      if (!pending) x.sys.unset_pending_rows();
      Constraint_System xc(x), yc(y);
      xc.sys.index_first_pending = x.sys.index_first_pending; xc.sys.sorted = x.sys.sorted;
      Case k(id, std::string("ls_insert_sys C ") + (pending ? "1" : "0")); k.pre(); put_L(k.o, x.sys); put_L(k.o, y.sys);
      if (pending) GUARDED(x.sys.insert_pending(y.sys, Recycle_Input())); else GUARDED(x.sys.insert(y.sys, Recycle_Input()));
      k.post(); put_L(k.o, x.sys); put_L(k.o, y.sys);
      // the const overload on a receiver in the same state: copies first
      yc.sys.index_first_pending = std::min(yc.sys.num_rows(), (dimension_type) yc.sys.index_first_pending);
      if (pending) xc.sys.insert_pending(yc.sys); else xc.sys.insert(yc.sys);
      k.copy(); put_L(k.o, xc.sys); k.o << " - " << (x.sys.OK() ? 1 : 0) << " " << (y.sys.OK() ? 1 : 0);
      k.finish(exc);
    } else {
      Generator_System x = rnd_gs(g, n, 5), y = rnd_gs(g, n, 5); rnd_flags(g, x); rnd_flags(g, y);
      if (!pending) x.sys.unset_pending_rows();
      Generator_System xc(x), yc(y);
      xc.sys.index_first_pending = x.sys.index_first_pending; xc.sys.sorted = x.sys.sorted;
      Case k(id, std::string("ls_insert_sys G ") + (pending ? "1" : "0")); k.pre(); put_L(k.o, x.sys); put_L(k.o, y.sys);
      if (pending) GUARDED(x.sys.insert_pending(y.sys, Recycle_Input())); else GUARDED(x.sys.insert(y.sys, Recycle_Input()));
      k.post(); put_L(k.o, x.sys); put_L(k.o, y.sys);
      if (pending) xc.sys.insert_pending(yc.sys); else xc.sys.insert(yc.sys);
      k.copy(); put_L(k.o, xc.sys); k.o << " - " << (x.sys.OK() ? 1 : 0) << " " << (y.sys.OK() ? 1 : 0);
      k.finish(exc);
    }
    break; }
  case 6: {   // const overloads with another system or with *this: insert(y), insert_pending(y), merge_rows_assign(y), operator=, assign_with_pending
    Constraint_System x = rnd_cs(g, n, nnc, 5), y = rnd_cs(g, n, nnc, 5);
    bool self = g.chance(1, 2);
    int what = (int) g.below(5);
    if (what == 2) { x.sys.sort_rows(); y.sys.sort_rows(); x.sys.unset_pending_rows(); y.sys.unset_pending_rows(); }
    else { rnd_flags(g, x); rnd_flags(g, y); if (what == 0) x.sys.unset_pending_rows(); }
    static const char* nm[5] = { "ls_insert_const", "ls_insert_pending_const", "ls_merge", "ls_assign", "ls_assign_with_pending" };
    Case k(id, std::string(nm[what]) + " C " + (self ? "1" : "0")); k.pre(); put_L(k.o, x.sys); if (!self) put_L(k.o, y.sys);
    const LSC& z = self ? x.sys : y.sys;
    switch (what) {
      case 0: GUARDED(x.sys.insert(z)); break;
      case 1: GUARDED(x.sys.insert_pending(z)); break;
      case 2: GUARDED(x.sys.merge_rows_assign(z)); break;
      case 3: GUARDED(x.sys = z); break;
      default: GUARDED(x.sys.assign_with_pending(z)); break;
    }
    k.post(); put_L(k.o, x.sys); if (!self) put_L(k.o, y.sys); k.finish(exc);
    break; }
  case 7: {   // Constraint_System::insert / insert_pending (Constraint&, Recycle_Input), topologies may differ
    bool pending = g.chance(1, 2);
    bool rn = g.chance(1, 2) ? nnc : !nnc;
    Constraint_System cs = rnd_cs(g, n, nnc, 4); rnd_flags(g, cs); if (!pending) cs.sys.unset_pending_rows();
    Constraint r = rnd_con(g, (dimension_type) g.range(0, 4), rn); if (rn) r.set_topology(NOT_NECESSARILY_CLOSED);
    Case k(id, std::string("cs_insert_row ") + (pending ? "1" : "0")); k.pre(); put_L(k.o, cs.sys); put_R(k.o, r);
    if (pending) GUARDED(cs.insert_pending(r, Recycle_Input())); else GUARDED(cs.insert(r, Recycle_Input()));
    k.post(); put_L(k.o, cs.sys); put_R(k.o, r); k.finish(exc);
    break; }
  case 8: {   // Congruence_System::insert(Congruence_System&, Recycle_Input)
    Congruence_System x = rnd_cgs(g, n, 4), y = rnd_cgs(g, (dimension_type) g.range(0, 3), 4);
    Case k(id, "cg_insert_sys"); k.pre(); put_Q(k.o, x); put_Q(k.o, y);
    GUARDED(x.insert(y, Recycle_Input()));
    k.post(); put_Q(k.o, x); put_Q(k.o, y); k.finish(exc);
    break; }
  case 9: {   // Grid::add_recycled_congruences
    Grid x(n, g.chance(1, 8) ? EMPTY : UNIVERSE);
    if (g.chance(3, 4)) x = Grid(rnd_cgs(g, n, 3));
    if (x.space_dimension() != n) x = Grid(n);
    if (g.chance(1, 2)) (void) x.minimized_congruences();
    if (g.chance(1, 3)) (void) x.grid_generators();
    if (!x.marked_empty() && n > 0) (void) x.congruences();         // congruences up to date
    Congruence_System cgs = rnd_cgs(g, g.chance(1, 4) ? (dimension_type) g.below((unsigned) n + 1) : n, 4);
    Grid xc(x); if (!xc.marked_empty() && n > 0) (void) xc.congruences();
    Congruence_System cc(cgs);
    Case k(id, "gr_add_recycled_congruences"); k.pre(); put_GR(k.o, x); put_Q(k.o, cgs);
    GUARDED(x.add_recycled_congruences(cgs));
    k.post(); put_GR(k.o, x); put_Q(k.o, cgs);
    std::string exc2 = "-";
    try { xc.add_congruences(cc); } catch (...) { exc2 = pplv::exc_class(); }
    k.copy(); put_GR(k.o, xc); k.o << " " << exc2 << " " << (x.OK() ? 1 : 0) << " " << (cgs.OK() ? 1 : 0);
    k.finish(exc);
    break; }
  case 10: {  // Pointset_Powerset: add_disjunct / m_swap / swap
    PPS a(n, EMPTY), b(n, EMPTY);
    int na = (int) g.below(3), nb = (int) g.below(3);
    for (int i = 0; i < na; ++i) a.add_disjunct(C_Polyhedron(rnd_cs(g, n, false, 2)));
    for (int i = 0; i < nb; ++i) b.add_disjunct(C_Polyhedron(rnd_cs(g, n, false, 2)));
    PPS acopy(a);                                                    // shares the representations of a
    if (g.chance(1, 2)) a.omega_reduce();
    if (g.chance(1, 2)) {
      C_Polyhedron ph(rnd_cs(g, n, false, 3));
      Case k(id, "ps_add_disjunct"); k.pre(); put_PS(k.o, a); put_PS(k.o, acopy);
      GUARDED(a.add_disjunct(ph));
      k.post(); put_PS(k.o, a); put_PS(k.o, acopy);
      // the new disjunct is an independent copy: mutating `ph' afterwards does not show
      C_Polyhedron before(a.sequence.back().pointset());
      ph.add_constraint(Variable(0) >= 1000);
      k.o << " " << (before == a.sequence.back().pointset() ? 1 : 0);
      k.finish(exc);
    } else {
      bool self = g.chance(1, 4);
      int how = (int) g.below(3);
      Case k(id, std::string("ps_swap ") + (self ? "1" : "0")); k.pre(); put_PS(k.o, a); if (!self) put_PS(k.o, b); put_PS(k.o, acopy);
      PPS& z = self ? a : b;
      if (how == 0) GUARDED(a.m_swap(z)); else if (how == 1) { using std::swap; GUARDED(swap(a, z)); } else GUARDED(std::swap(a, z));
      k.post(); put_PS(k.o, a); if (!self) put_PS(k.o, b); put_PS(k.o, acopy); k.finish(exc);
    }
    break; }
  default:
    if (nnc) poly_cases<NNC_Polyhedron>(g, id, (int) g.below(7), true);
    else poly_cases<C_Polyhedron>(g, id, (int) g.below(7), false);
    break;
  }
}

int main(int argc, char** argv) {
  long seed = pplv::arg_long(argc, argv, "--seed", 1);
  long first = pplv::arg_long(argc, argv, "--first", 0);
  long last = pplv::arg_long(argc, argv, "--last", 200);
  long batch = pplv::arg_long(argc, argv, "--batch", 200);
  long erase_one = pplv::arg_long(argc, argv, "--erase-one", -1);
  if (erase_one >= 0) {
    // Swapping_Vector<T>::erase(iterator) on element `erase_one' of a 3-element vector (1 CPU second)
    return pplv::run_batches(0, 1, [&](long) {
      Constraint_System cs; cs.insert(Variable(0) >= 0); cs.insert(Variable(0) <= 5); cs.insert(Variable(1) >= 1);
      J.line("mbegin erase_one " + std::to_string(erase_one));
      Swapping_Vector<Constraint>& v = cs.sys.rows;
      v.erase(v.begin() + erase_one);
      J.line("erase_one_returned " + std::to_string(v.size()));
    }, 1);
  }
  long nb = (last - first + batch - 1) / batch;
  return pplv::run_batches(0, nb, [&](long b) {
    for (long i = first + b * batch; i < std::min(last, first + (b + 1) * batch); ++i) {
      Rng g((uint64_t) seed * 1000003ull + (uint64_t) i);
      J.line("mbegin " + std::to_string(i));
      one_case(g, i);
    }
  }, (int) pplv::arg_long(argc, argv, "--cpu", 5));
}
