// C06 stage 3 harness: the LP machinery of MIP_Problem (process_pending_constraints, the simplex
// phases, erase_artificials, compute_generator, second_phase) observed on its PRIVATE state.
// `#define private public` around ppl.hh only: the layout is unchanged, nothing in libppl is rebuilt.
//
//   c06_tab --seed S --first A --last B [--batch N]        generated cases A..B-1
//   c06_tab --replay FILE                                   re-executes the new/op/call lines of a journal
//
// Journal (one event per line; see lean/PPLV/Solver/PendingDriver.lean):
//   hist <case> <seed> <flavour>
//   new <dim>
//   op set_pricing <0 float|1 exact|2 textbook> | set_obj <k> <a_0..a_{n-1}> | set_mode <max|min>
//      | add_con <=|>=> <k> <a_0..a_{n-1}>  (the constraint AS STORED in input_cs) | add_dims <m>
//   call sat <0|1>                 is_lp_satisfiable()
//   call second                    second_phase()
//   dump|dumpf <status> <ext> <int> <first_pending> <ncols> <nrows> base <..> map <len> <f s>* cost <len> <..>
//        gen <dim> <div> <..> rows <nrows*ncols entries>         (dumpf: float pricing, not compared exactly)
//   ans unbounded | ans optimized <num> <den>      solve() / optimal_value() of the public interface
//   end
#include <cstdio>
#include <cstdlib>
#include <cstring>
#include <cstdint>
#include <string>
#include <sstream>
#include <iostream>
#include <fstream>
#include <vector>
#include <map>
#include <set>
#include <list>
#include <deque>
#include <algorithm>
#include <limits>
#include <stdexcept>
#include <gmpxx.h>
#define private public
#define protected public
#include "ppl.hh"
#undef private
#undef protected
#include "common.hh"
#include "poly_io.hh"

using namespace Parma_Polyhedra_Library;
using namespace pplv_io;
using pplv::Rng;

static pplv::Journal J(1);

static const char* status_name(MIP_Problem::Status s) {
  switch (s) {
    case MIP_Problem::UNSATISFIABLE: return "UNSAT";
    case MIP_Problem::SATISFIABLE: return "SAT";
    case MIP_Problem::UNBOUNDED: return "UNB";
    case MIP_Problem::OPTIMIZED: return "OPT";
    default: return "PART";
  }
}

static MIP_Problem::Control_Parameter_Value pricing_of(unsigned k) {
  return k == 0 ? MIP_Problem::PRICING_STEEPEST_EDGE_FLOAT
       : k == 1 ? MIP_Problem::PRICING_STEEPEST_EDGE_EXACT : MIP_Problem::PRICING_TEXTBOOK;
}

struct Case {
  MIP_Problem p;
  dimension_type n;
  unsigned pricing;
  Case(dimension_type d) : p(d), n(d), pricing(0) {}
};

static void dump(Case& C) {
  const MIP_Problem& p = C.p;
  OS o;
  o << (C.pricing == 0 ? "dumpf " : "dump ") << status_name(p.status) << " " << p.external_space_dim << " "
    << p.internal_space_dim << " " << p.first_pending_constraint << " " << p.tableau.num_columns() << " "
    << p.tableau.num_rows();
  o << " base";
  for (size_t i = 0; i < p.base.size(); ++i) o << " " << p.base[i];
  o << " map " << p.mapping.size();
  for (size_t i = 0; i < p.mapping.size(); ++i) o << " " << p.mapping[i].first << " " << p.mapping[i].second;
  o << " cost " << p.working_cost.size();
  for (dimension_type j = 0; j < p.working_cost.size(); ++j) o << " " << p.working_cost.get(j);
  const Generator& g = p.last_generator;
  o << " gen " << g.space_dimension() << " " << g.divisor();
  for (dimension_type i = 0; i < g.space_dimension(); ++i) o << " " << g.coefficient(Variable(i));
  o << " rows";
  for (dimension_type i = 0; i < p.tableau.num_rows(); ++i)
    for (dimension_type j = 0; j < p.tableau.num_columns(); ++j) o << " " << p.tableau[i].get(j);
  J.line(o.str());
}

// ---- journalled mutators --------------------------------------------------------------------
static void op_add_con(Case& C, const Constraint& c) {
  C.p.add_constraint(c);
  OS o; o << "op add_con";
  put_con(o, *C.p.input_cs.back(), C.n);
  J.line(o.str());
}
static void op_set_obj(Case& C, const Linear_Expression& e) {
  C.p.set_objective_function(e);
  OS o; o << "op set_obj"; put_expr(o, C.p.input_obj_function, C.n); J.line(o.str());
}
static void op_set_mode(Case& C, bool mx) {
  C.p.set_optimization_mode(mx ? MAXIMIZATION : MINIMIZATION);
  J.line(std::string("op set_mode ") + (mx ? "max" : "min"));
}
static void op_add_dims(Case& C, dimension_type m) {
  C.p.add_space_dimensions_and_embed(m); C.n += m;
  J.line("op add_dims " + std::to_string(m));
}
static void op_set_pricing(Case& C, unsigned k) {
  C.p.set_control_parameter(pricing_of(k)); C.pricing = k;
  J.line("op set_pricing " + std::to_string(k));
}

// is_lp_satisfiable() [+ second_phase()] with dumps; returns false when the problem is unsatisfiable
static bool solve_round(Case& C, bool second) {
  bool sat = C.p.is_lp_satisfiable();
  J.line(std::string("call sat ") + (sat ? "1" : "0"));
  dump(C);
  if (!sat) return false;
  if (second) {
    C.p.second_phase();
    J.line("call second");
    dump(C);
    MIP_Problem_Status st = C.p.solve();
    if (st == OPTIMIZED_MIP_PROBLEM) {
      Coefficient nu, de; C.p.optimal_value(nu, de);
      OS o; o << "ans optimized " << nu << " " << de; J.line(o.str());
    }
    else J.line(st == UNBOUNDED_MIP_PROBLEM ? "ans unbounded" : "ans unfeasible");
  }
  return true;
}

// ---- random data ------------------------------------------------------------------------------
static Constraint mk(const Linear_Expression& e, unsigned rel) {   // 0 '=', 1 '>=', 2 '<='
  return rel == 0 ? (e == 0) : rel == 1 ? (e >= 0) : (e <= 0);
}
static long nz(Rng& r, long b) { long v = r.range(1, b); return r.chance(1, 2) ? v : -v; }

// a*x_v + b rel 0 : all sign combinations of the table in parse_constraints
static Constraint rnd_single(Rng& r, dimension_type n) {
  dimension_type v = r.below((unsigned)n);
  long a = nz(r, 3);
  unsigned k = r.below(3);
  long b = k == 0 ? 0 : k == 1 ? r.range(1, 6) : -r.range(1, 6);
  Linear_Expression e = a * Variable(v) + b;
  unsigned rel = r.below(10); rel = rel < 2 ? 0 : rel < 7 ? 1 : 2;
  return mk(e, rel);
}
static Constraint rnd_multi(Rng& r, dimension_type n, unsigned eq_pct) {
  Linear_Expression e;
  unsigned nzc = 0;
  for (dimension_type i = 0; i < n; ++i) { long a = small(r, 3); if (a) ++nzc; e += a * Variable(i); }
  if (n >= 2 && nzc < 2) {
    dimension_type i = r.below((unsigned)n), j = (i + 1 + r.below((unsigned)n - 1)) % n;
    e = nz(r, 3) * Variable(i) + nz(r, 3) * Variable(j);
  }
  e += r.range(-6, 6);
  unsigned k = r.below(100);
  return mk(e, k < eq_pct ? 0 : k < eq_pct + (100 - eq_pct) / 2 ? 1 : 2);
}
static Constraint rnd_trivial(Rng& r, bool allow_false) {
  long b = allow_false ? r.range(-2, 3) : r.range(0, 3);
  Linear_Expression e; e += b;
  if (r.chance(1, 3)) return allow_false ? (e == 0) : (Linear_Expression(0) == 0);
  return e >= 0;
}
static Linear_Expression rnd_obj(Rng& r, dimension_type n) {
  Linear_Expression e;
  if (r.chance(1, 8)) return e + r.range(-2, 2);
  for (dimension_type i = 0; i < n; ++i) e += small(r, 4) * Variable(i);
  if (r.chance(1, 3)) e += r.range(-3, 3);
  return e;
}
// a constraint whose value at the current vertex g is t/div (t >= 0: satisfied, t == 0 saturated, t < 0 violated)
static Constraint rel_to_vertex(Rng& r, dimension_type n, const Generator& g, long t) {
  Linear_Expression e;
  Coefficient at = 0;
  bool single = r.chance(1, 3);
  dimension_type sv = r.below((unsigned)n);
  for (dimension_type i = 0; i < n; ++i) {
    long a = single ? (i == sv ? nz(r, 2) : 0) : small(r, 3);
    e += a * Variable(i);
    if (i < g.space_dimension()) at += a * g.coefficient(Variable(i));
  }
  // div*(a.x) - a.g + t >= 0
  Linear_Expression f = g.divisor() * e;
  f -= at; f += t;
  return f >= 0;
}

static void run_case(long id, long seed) {
  Rng r((uint64_t)seed * 1000003ull + (uint64_t)id * 7919ull + 11);
  unsigned flavour = r.below(9);
  dimension_type n = 1 + r.below(4);
  if (r.chance(1, 40)) n = 0;
  { OS o; o << "hist " << id << " " << seed << " " << flavour; J.line(o.str()); }
  Case C(n);
  J.line("new " + std::to_string(n));
  op_set_pricing(C, (unsigned)(id % 3 == 0 ? 2 : id % 3 == 1 ? 1 : 0));
  if (!r.chance(1, 10)) op_set_obj(C, rnd_obj(r, n));
  if (r.chance(1, 2)) op_set_mode(C, r.chance(1, 2));
  unsigned m = r.below(8);
  // a common point for the degenerate flavour
  std::vector<long> q(n); for (dimension_type i = 0; i < n; ++i) q[i] = r.range(-2, 3);
  for (unsigned i = 0; i < m; ++i) {
    if (n == 0) { op_add_con(C, rnd_trivial(r, r.chance(1, 6))); continue; }
    switch (flavour) {
    case 0:   // generic mix
      if (r.chance(1, 3)) op_add_con(C, rnd_single(r, n)); else op_add_con(C, rnd_multi(r, n, 15));
      break;
    case 1:   // single-variable heavy
      if (r.chance(4, 5)) op_add_con(C, rnd_single(r, n)); else op_add_con(C, rnd_multi(r, n, 10));
      break;
    case 2:   // equality heavy, with linearly dependent equalities (redundant rows for erase_artificials)
      if (i >= 2 && r.chance(1, 4)) {
        const Constraint& c1 = *C.p.input_cs[C.p.input_cs.size() - 1];
        const Constraint& c2 = *C.p.input_cs[C.p.input_cs.size() - 2];
        Linear_Expression e1(c1.expression()); e1 += c1.inhomogeneous_term();
        Linear_Expression e2(c2.expression()); e2 += c2.inhomogeneous_term();
        Linear_Expression e = nz(r, 2) * e1 + (r.chance(1, 3) ? 0 : nz(r, 2)) * e2;
        op_add_con(C, (c1.is_equality() && c2.is_equality()) || r.chance(1, 2) ? (e == 0) : (e >= 0));
      }
      else if (r.chance(1, 4)) op_add_con(C, rnd_single(r, n)); else op_add_con(C, rnd_multi(r, n, 60));
      break;
    case 3: { // boxes first, then rows
      if (i < 2 * n && i < 6) {
        dimension_type v = i / 2;
        if (i % 2 == 0) op_add_con(C, Variable(v) >= r.range(-3, 0)); else op_add_con(C, Variable(v) <= r.range(0, 4));
      }
      else op_add_con(C, rnd_multi(r, n, 10));
      break; }
    case 4: { // degenerate: rows through the common point q, duplicates
      Linear_Expression e; Coefficient at = 0;
      for (dimension_type j = 0; j < n; ++j) { long a = small(r, 3); e += a * Variable(j); at += a * q[j]; }
      e -= at;
      if (r.chance(1, 5)) e *= 2;
      Constraint c = r.chance(1, 6) ? (e == 0) : (e >= 0);
      op_add_con(C, c);
      if (r.chance(1, 5)) op_add_con(C, c);
      break; }
    case 5: { // contradictions likely
      Constraint c = rnd_multi(r, n, 10);
      op_add_con(C, c);
      if (r.chance(1, 3)) {
        Linear_Expression e(c.expression()); e += c.inhomogeneous_term();
        Linear_Expression f = -e; f -= r.range(0, 2);
        op_add_con(C, f >= 0);
      }
      break; }
    case 6:   // few rows: unbounded likely
      if (i < 2) op_add_con(C, r.chance(1, 2) ? rnd_single(r, n) : rnd_multi(r, n, 5));
      break;
    case 7:   // tautologies / trivially false rows in between
      if (r.chance(1, 3)) op_add_con(C, rnd_trivial(r, r.chance(1, 5)));
      else if (r.chance(1, 2)) op_add_con(C, rnd_single(r, n)); else op_add_con(C, rnd_multi(r, n, 15));
      break;
    default:  // sign restrictions on most variables, then rows (the classical x >= 0 LP)
      if (i < n && !r.chance(1, 5)) op_add_con(C, Variable(i) >= 0);
      else op_add_con(C, rnd_multi(r, n, 10));
      break;
    }
  }
  if (!solve_round(C, !r.chance(1, 5))) { J.line("end"); return; }
  unsigned rounds = r.below(4);
  for (unsigned k = 0; k < rounds; ++k) {
    unsigned steps = 1 + r.below(2);
    for (unsigned s = 0; s < steps; ++s) {
      unsigned what = r.below(12);
      dimension_type nn = C.n;
      if (nn == 0 && what < 8) what = 8;
      if (what < 3) {
        // x_v >= 0, preferring a variable that is currently split (re-merge)
        std::vector<dimension_type> split;
        for (dimension_type v = 0; v < nn && v + 1 < C.p.mapping.size(); ++v) if (C.p.mapping[v + 1].second != 0) split.push_back(v);
        dimension_type v = (!split.empty() && !r.chance(1, 5)) ? split[r.below((unsigned)split.size())] : r.below((unsigned)nn);
        long a = r.chance(1, 4) ? 2 : 1;
        op_add_con(C, a * Variable(v) >= 0);
      }
      else if (what < 5) op_add_con(C, rel_to_vertex(r, nn, C.p.last_generator, r.chance(1, 3) ? 0 : r.range(1, 3)));
      else if (what < 6) op_add_con(C, rel_to_vertex(r, nn, C.p.last_generator, -r.range(1, 3)));
      else if (what < 7) op_add_con(C, r.chance(1, 2) ? rnd_single(r, nn) : rnd_multi(r, nn, 25));
      else if (what < 8) op_add_con(C, rnd_trivial(r, r.chance(1, 6)));
      else if (what < 10) {
        dimension_type add = 1 + r.below(2);
        if (C.n + add <= 6) {
          op_add_dims(C, add);
          if (r.chance(2, 3)) op_add_con(C, r.chance(1, 2) ? rnd_single(r, C.n) : rnd_multi(r, C.n, 15));
          if (r.chance(1, 3)) op_add_con(C, Variable(C.n - 1) >= 0);
        }
      }
      else if (what < 11) op_set_obj(C, rnd_obj(r, C.n));
      else op_set_mode(C, r.chance(1, 2));
    }
    if (!solve_round(C, !r.chance(1, 5))) break;
  }
  J.line("end");
}

// ---- replay of the new/op/call lines of a journal ------------------------------------------------
static Constraint parse_con(std::istringstream& in, dimension_type n) {
  std::string rel; in >> rel; Coefficient k; in >> k;
  Linear_Expression e;
  for (dimension_type i = 0; i < n; ++i) { Coefficient a; in >> a; e += a * Variable(i); }
  e += k;
  if (rel == "=") return e == 0;
  return e >= 0;
}
static int replay(const char* path) {
  std::ifstream f(path); std::string line;
  Case* C = 0;
  while (std::getline(f, line)) {
    std::istringstream in(line); std::string w; in >> w;
    if (w == "hist") { J.line(line); continue; }
    if (w == "new") { dimension_type n; in >> n; delete C; C = new Case(n); J.line(line); continue; }
    if (!C) continue;
    if (w == "op") {
      std::string name; in >> name;
      if (name == "set_pricing") { unsigned k; in >> k; op_set_pricing(*C, k); }
      else if (name == "set_obj") { Coefficient k; in >> k; Linear_Expression e;
        for (dimension_type i = 0; i < C->n; ++i) { Coefficient a; in >> a; e += a * Variable(i); }
        e += k; op_set_obj(*C, e); }
      else if (name == "set_mode") { std::string m; in >> m; op_set_mode(*C, m == "max"); }
      else if (name == "add_con") op_add_con(*C, parse_con(in, C->n));
      else if (name == "add_dims") { dimension_type m; in >> m; op_add_dims(*C, m); }
      continue;
    }
    if (w == "call") {
      std::string k; in >> k;
      if (k == "sat") { bool sat = C->p.is_lp_satisfiable(); J.line(std::string("call sat ") + (sat ? "1" : "0")); dump(*C); }
      else if (k == "second") {
        C->p.second_phase(); J.line("call second"); dump(*C);
        MIP_Problem_Status st = C->p.solve();
        if (st == OPTIMIZED_MIP_PROBLEM) { Coefficient nu, de; C->p.optimal_value(nu, de);
          OS o; o << "ans optimized " << nu << " " << de; J.line(o.str()); }
        else J.line(st == UNBOUNDED_MIP_PROBLEM ? "ans unbounded" : "ans unfeasible");
      }
      continue;
    }
  }
  J.line("end");
  return 0;
}

int main(int argc, char** argv) {
  long seed = pplv::arg_long(argc, argv, "--seed", 1);
  long first = pplv::arg_long(argc, argv, "--first", 0);
  long last = pplv::arg_long(argc, argv, "--last", 10);
  long batch = pplv::arg_long(argc, argv, "--batch", 50);
  const char* rp = pplv::arg_str(argc, argv, "--replay", "");
  if (*rp) return pplv::run_batches(0, 1, [&](long) { replay(rp); }, 60);
  long nb = (last - first + batch - 1) / batch;
  return pplv::run_batches(0, nb, [&](long b) {
    for (long h = first + b * batch; h < std::min(last, first + (b + 1) * batch); ++h) run_case(h, seed);
  }, 60);
}
