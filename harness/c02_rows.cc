// C02 stage 2 — correspondence harness for the ROW-LEVEL implementations of the Polyhedron operators
// (models: lean/PPLV/PolyOps/*.lean, driver: pplv_polyops = lean/Driver/PolyOps.lean).
//
//   g++ -O1 -w -std=gnu++17 -I/repo/src -I/verif/harness c02_rows.cc -o c02_rows -L/repo/src/.libs -lppl -lgmpxx -lgmp
//   LD_LIBRARY_PATH=/repo/src/.libs ./c02_rows --seed 1 --first 0 --last 300 | pplv_polyops
//
// Every case builds a receiver (and an argument) in a chosen lazy state — only constraints / only
// generators / both minimized / both + pending constraints / both + pending generators / marked empty —
// dumps the RAW con_sys and gen_sys (every row, pending ones included, with kind bit, inhomogeneous
// term, epsilon column), index_first_pending, the sorted flags and the status word, calls ONE public
// operator, and dumps the raw pair again.  Nothing that converts or sorts is called for the dumps
// (`#define private public` around ppl.hh only: layout unchanged, libppl not rebuilt).
//
// Journal: one line per case
//   case <id> <op> <nnc> <args…> X <poly> [Y <poly>] R <poly>|EXC <class>
//   <poly>  := <dim> <status:9 bits E CU GU CM GM SC SG CP GP> <sys> <sys>          (con_sys, gen_sys)
//   <sys>   := <sdim> <nrows> <first_pending> <sorted> <row>*
//   <row>   := <e|i> <inhomogeneous> <epsilon> <coefficient>*sdim
#include <cstdio>
#include <cstdlib>
#include <cstring>
#include <cstdint>
#include <string>
#include <sstream>
#include <iostream>
#include <vector>
#include <map>
#include <set>
#include <list>
#include <deque>
#include <algorithm>
#include <limits>
#include <stdexcept>
#include <gmpxx.h>
#define private public
#define protected public
#include "ppl.hh"
#undef private
#undef protected
#include "common.hh"
#include "poly_io.hh"

using namespace Parma_Polyhedra_Library;
using namespace pplv_io;
using pplv::Rng;

template <typename R>
static void dump_sys(OS& o, const Linear_System<R>& sys) {
  const bool nnc = !sys.is_necessarily_closed();
  const dimension_type sd = sys.space_dimension();
  o << " " << sd << " " << sys.rows.size() << " " << sys.index_first_pending << " " << (sys.sorted ? 1 : 0);
  for (dimension_type i = 0; i < sys.rows.size(); ++i) {
    const R& r = sys.rows[i];
    const dimension_type esd = r.expr.space_dimension();     // sd (+1 with epsilon)
    o << " " << (r.is_line_or_equality() ? "e" : "i") << " " << r.expr.get(0);
    if (nnc && esd >= 1) o << " " << r.expr.get(esd); else o << " 0";
    const dimension_type rsd = nnc ? (esd >= 1 ? esd - 1 : 0) : esd;
    for (dimension_type j = 0; j < sd; ++j) {
      if (j < rsd) o << " " << r.expr.get(j + 1); else o << " 0";
    }
  }
}

static void dump_poly(OS& o, const Polyhedron& ph) {
  const Polyhedron::Status& s = ph.status;
  o << " " << ph.space_dim << " "
    << (s.test_empty() ? 1 : 0) << (s.test_c_up_to_date() ? 1 : 0) << (s.test_g_up_to_date() ? 1 : 0)
    << (s.test_c_minimized() ? 1 : 0) << (s.test_g_minimized() ? 1 : 0)
    << (s.test_sat_c_up_to_date() ? 1 : 0) << (s.test_sat_g_up_to_date() ? 1 : 0)
    << (s.test_c_pending() ? 1 : 0) << (s.test_g_pending() ? 1 : 0);
  dump_sys(o, ph.con_sys.sys);
  dump_sys(o, ph.gen_sys.sys);
}

struct PFunc {
  std::vector<long> m;     // -1 = undefined
  bool has_empty_codomain() const { for (long k : m) if (k >= 0) return false; return true; }
  dimension_type max_in_codomain() const { long mx = 0; for (long k : m) if (k > mx) mx = k; return (dimension_type) mx; }
  bool maps(dimension_type i, dimension_type& j) const {
    if (i >= m.size() || m[i] < 0) return false;
    j = (dimension_type) m[i]; return true;
  }
};

// a polyhedron of dimension n in lazy state `state`
//  0 only constraints   1 only generators   2 both, minimized   3 both + pending constraint
//  4 both + pending generator   5 marked empty   6 both minimized, then generators()/constraints() read
static Polyhedron* make_poly1(Rng& r, bool nnc, dimension_type n, unsigned state);
static Polyhedron* make_poly(Rng& r, bool nnc, dimension_type n, unsigned state) {
  // a receiver that minimisation finds empty is retried a few times (marked-empty receivers are state 5)
  for (int k = 0; ; ++k) {
    Polyhedron* p = make_poly1(r, nnc, n, state);
    if (state == 5 || !p->marked_empty() || k >= 4) return p;
    delete p;
  }
}
static Polyhedron* make_poly1(Rng& r, bool nnc, dimension_type n, unsigned state) {
  Polyhedron* p = 0;
  const bool big = r.chance(1, 25);
  if (state == 5) {
    if (nnc) p = new NNC_Polyhedron(n, EMPTY); else p = new C_Polyhedron(n, EMPTY);
    return p;
  }
  if (state == 1) {
    Generator_System gs = rnd_gs(r, n, nnc, 4);
    if (nnc) p = new NNC_Polyhedron(gs); else p = new C_Polyhedron(gs);
    return p;
  }
  // from constraints; two times in three bounded-ish (a box is added) so that results are not always empty or cones
  Constraint_System cs = rnd_cs(r, n, nnc, 4, big);
  if (r.chance(2, 3))
    for (dimension_type i = 0; i < n; ++i) {
      if (r.chance(2, 3)) cs.insert(Variable(i) >= r.range(-3, 0));
      if (r.chance(2, 3)) { if (nnc && r.chance(1, 3)) cs.insert(Variable(i) < r.range(1, 4)); else cs.insert(Variable(i) <= r.range(0, 4)); }
    }
  if (nnc) p = new NNC_Polyhedron(cs); else p = new C_Polyhedron(cs);
  if (state == 0) return p;
  p->minimize();
  if (p->marked_empty()) return p;
  if (state == 3) p->add_constraint(rnd_con(r, n, nnc, false));
  else if (state == 4) p->add_generator(rnd_gen(r, n, nnc, false));
  else if (state == 6) { (void) p->generators(); (void) p->constraints(); }
  return p;
}

static const char* OPS[] = { "affine_image", "affine_preimage", "embed", "project", "remove", "remove_higher",
  "map", "expand", "fold", "concat", "intersection", "hull", "time_elapse", "closure", "unconstrain", "gen_affine_image" };
static const unsigned NOPS = 16;

static void one_case(long id, uint64_t seed, long maxdim, long only_op) {
  Rng r(seed * 1000003ull + (uint64_t) id * 7919ull + 17);
  pplv::Journal J(1);
  OS o;
  unsigned op = (only_op >= 0) ? (unsigned) only_op : (unsigned) (id % NOPS);
  bool nnc = r.chance(2, 5);
  dimension_type n = (dimension_type) r.range(r.chance(1, 20) ? 0 : 1, maxdim);
  unsigned state = r.below(7);
  if (r.chance(1, 12)) state = 5;
  Polyhedron* x = make_poly(r, nnc, n, state);
  Polyhedron* y = 0;
  o << "case " << id << " " << OPS[op] << " " << (nnc ? 1 : 0);
  try {
    switch (op) {
    case 0: case 1: {
      if (n == 0) { n = 1; delete x; x = make_poly(r, nnc, n, state); }
      dimension_type v = r.below((unsigned) n);
      Linear_Expression e = rnd_expr(r, n, 3, r.chance(1, 30));
      // half of the time make the map invertible, with both signs of the coefficient of v
      if (r.chance(1, 2) && e.coefficient(Variable(v)) == 0) e += Coefficient(r.chance(1, 2) ? r.range(1, 3) : r.range(-3, -1)) * Variable(v);
      if (r.chance(1, 5)) e -= e.coefficient(Variable(v)) * Variable(v);
      Coefficient d = r.chance(1, 2) ? 1 : (r.chance(1, 2) ? r.range(2, 3) : r.range(-3, -1));
      o << " " << v << " " << d; put_expr(o, e, n);
      o << " X"; dump_poly(o, *x);
      if (op == 0) x->affine_image(Variable(v), e, d); else x->affine_preimage(Variable(v), e, d);
      break; }
    case 2: case 3: {
      dimension_type m = r.chance(1, 10) ? 0 : (dimension_type) r.range(1, 2);
      o << " " << m << " X"; dump_poly(o, *x);
      if (op == 2) x->add_space_dimensions_and_embed(m); else x->add_space_dimensions_and_project(m);
      break; }
    case 4: {
      Variables_Set vs;
      for (dimension_type i = 0; i < n; ++i) if (r.chance(1, 2)) vs.insert(i);
      o << " " << vs.size();
      for (Variables_Set::const_iterator i = vs.begin(); i != vs.end(); ++i) o << " " << *i;
      o << " X"; dump_poly(o, *x);
      x->remove_space_dimensions(vs);
      break; }
    case 5: {
      dimension_type nd = r.below((unsigned) n + 1);
      o << " " << nd << " X"; dump_poly(o, *x);
      x->remove_higher_space_dimensions(nd);
      break; }
    case 6: {
      PFunc f; f.m.assign(n, -1);
      // a partial injective map; one time in three a permutation
      std::vector<long> tgt; for (dimension_type i = 0; i < n; ++i) tgt.push_back((long) i);
      for (dimension_type i = n; i > 1; --i) std::swap(tgt[i - 1], tgt[r.below((unsigned) i)]);
      bool perm = r.chance(1, 3);
      std::vector<long> kept;
      for (dimension_type i = 0; i < n; ++i) if (perm || r.chance(2, 3)) kept.push_back((long) i);
      // codomain {0..|kept|-1} shuffled
      std::vector<long> cod; for (size_t i = 0; i < kept.size(); ++i) cod.push_back((long) i);
      for (size_t i = cod.size(); i > 1; --i) std::swap(cod[i - 1], cod[r.below((unsigned) i)]);
      for (size_t i = 0; i < kept.size(); ++i) f.m[kept[i]] = cod[i];
      o << " " << n; for (dimension_type i = 0; i < n; ++i) o << " " << f.m[i];
      o << " X"; dump_poly(o, *x);
      x->map_space_dimensions(f);
      break; }
    case 7: {
      if (n == 0) { n = 1; delete x; x = make_poly(r, nnc, n, state); }
      dimension_type v = r.below((unsigned) n), m = (dimension_type) r.range(0, 2);
      o << " " << v << " " << m << " X"; dump_poly(o, *x);
      x->expand_space_dimension(Variable(v), m);
      break; }
    case 8: {
      if (n < 2) { n = 2; delete x; x = make_poly(r, nnc, n, state); }
      dimension_type dest = r.below((unsigned) n);
      Variables_Set vs;
      for (dimension_type i = 0; i < n; ++i) if (i != dest && r.chance(1, 2)) vs.insert(i);
      o << " " << dest << " " << vs.size();
      for (Variables_Set::const_iterator i = vs.begin(); i != vs.end(); ++i) o << " " << *i;
      o << " X"; dump_poly(o, *x);
      x->fold_space_dimensions(vs, Variable(dest));
      break; }
    case 9: case 10: case 11: case 12: {
      dimension_type ny = (op == 9) ? (dimension_type) r.range(r.chance(1, 10) ? 0 : 1, 2) : n;
      unsigned ys = r.below(7); if (r.chance(1, 12)) ys = 5;
      // concatenation / intersection work on constraints: bias both operands towards states that hold them
      if (op <= 10 && r.chance(2, 3)) {
        static const unsigned cstates[] = { 0, 2, 3, 6 };
        ys = cstates[r.below(4)];
        if (x->marked_empty() || !x->constraints_are_up_to_date() || x->has_pending_generators()) {
          delete x; x = make_poly(r, nnc, n, cstates[r.below(4)]);
        }
      }
      // hull / time-elapse work on generators: bias both operands towards states that hold them
      if (op >= 11 && r.chance(2, 3)) {
        static const unsigned gstates[] = { 1, 2, 4, 6 };
        ys = gstates[r.below(4)];
        if (x->marked_empty() || !x->generators_are_up_to_date() || x->has_pending_constraints()) {
          delete x; x = make_poly(r, nnc, n, gstates[r.below(4)]);
        }
      }
      y = make_poly(r, nnc, ny, ys);
      o << " X"; dump_poly(o, *x); o << " Y"; dump_poly(o, *y);
      if (op == 9) x->concatenate_assign(*y);
      else if (op == 10) x->intersection_assign(*y);
      else if (op == 11) x->poly_hull_assign(*y);
      else x->time_elapse_assign(*y);
      break; }
    case 13: {
      o << " X"; dump_poly(o, *x);
      x->topological_closure_assign();
      break; }
    case 15: {
      if (n == 0) { n = 1; delete x; x = make_poly(r, nnc, n, state); }
      dimension_type v = r.below((unsigned) n);
      Linear_Expression e = rnd_expr(r, n, 3, false);
      if (r.chance(1, 2) && e.coefficient(Variable(v)) == 0) e += Coefficient(r.chance(1, 2) ? r.range(1, 3) : r.range(-3, -1)) * Variable(v);
      Coefficient d = r.chance(1, 2) ? 1 : (r.chance(1, 2) ? r.range(2, 3) : r.range(-3, -1));
      static const Relation_Symbol rs[] = { LESS_OR_EQUAL, GREATER_OR_EQUAL, EQUAL, LESS_THAN, GREATER_THAN };
      Relation_Symbol rel = rs[(nnc && r.chance(1, 4)) ? 3 + r.below(2) : (r.chance(1, 8) ? 2 : r.below(2))];
      o << " " << v << " " << relsym_str(rel) << " " << d; put_expr(o, e, n);
      o << " X"; dump_poly(o, *x);
      x->generalized_affine_image(Variable(v), rel, e, d);
      break; }
    default: {
      Variables_Set vs;
      for (dimension_type i = 0; i < n; ++i) if (r.chance(1, 2)) vs.insert(i);
      o << " " << vs.size();
      for (Variables_Set::const_iterator i = vs.begin(); i != vs.end(); ++i) o << " " << *i;
      o << " X"; dump_poly(o, *x);
      if (vs.size() == 1 && r.chance(1, 2)) x->unconstrain(Variable(*vs.begin())); else x->unconstrain(vs);
      break; }
    }
    o << " R"; dump_poly(o, *x);
  }
  catch (...) { o << " EXC " << pplv::exc_class(); }
  J.line(o.str());
  delete x; if (y) delete y;
}

int main(int argc, char** argv) {
  uint64_t seed = (uint64_t) pplv::arg_long(argc, argv, "--seed", 1);
  long first = pplv::arg_long(argc, argv, "--first", 0), last = pplv::arg_long(argc, argv, "--last", 100);
  long batch = pplv::arg_long(argc, argv, "--batch", 50), maxdim = pplv::arg_long(argc, argv, "--maxdim", 3);
  long only_op = pplv::arg_long(argc, argv, "--op", -1);
  long nb = (last - first + batch - 1) / batch;
  return pplv::run_batches(0, nb, [&](long b) {
    for (long id = first + b * batch; id < std::min(last, first + (b + 1) * batch); ++id) one_case(id, seed, maxdim, only_op);
  });
}
