// C14 harness: exceptional exits of the real library.
//
//   c14_faults --mode list
//   c14_faults --mode fault|abandon|weight --seed S --first A --last B [--kcap N] [--stride-after N] [--only name] [--k K]
//   c14_faults --mode reject --seed S
//
// fault enumeration.  The executable defines the global operator new/delete and installs throwing
// GMP allocation functions through the library's documented hook
// ppl_set_GMP_memory_allocation_functions() (as tests/Polyhedron/memory2.cc does).  Every block is
// registered with its origin (operator new / GMP).  A *scenario* builds its inputs from a seed
// (identical for every k), arms the fault counter around ONE library call and checks the objects
// afterwards.  The runner first counts the events N of the armed call (dry run), then re-runs the
// scenario with the k-th event failing for every k < N.  An event is an allocation (mode fault),
// a maybe_abandon() checkpoint (mode abandon), or a checkpoint's weight used as the threshold of a
// deterministic timeout (mode weight).
//
// Leak verdict of a run: blocks allocated during the run that are still live once every object of
// the scenario is destroyed are *candidates*.  The library keeps free lists of dirty temporaries
// (Temp_inlines.hh) and lazily grown statics, so a candidate with a positive net block count is
// confirmed by repeating the same (scenario,k) twice more: a leak is a net growth of the live
// block count in both repetitions.  One more repetition records the allocation stacks so that the
// leaked blocks and the failing allocation are attributed to library functions.
// Frees are quarantined (and poisoned) until the end of the run, so that a double free or a free
// of an unknown block is always detected and never handed to the C library.
#include <sys/time.h>
#include <algorithm>
#include "c14_alloc.inc"
#include "c14_scen.inc"
#include "c14_scen2.inc"
#include "c14_scen3.inc"
#include "c14_scen4.inc"
#include "c14_reject.inc"

static void register_all() {
  micro_scenarios();
  dom_scenarios<C_Polyhedron>("C_Polyhedron");      poly_extra<C_Polyhedron>("C_Polyhedron");
  dom_scenarios<NNC_Polyhedron>("NNC_Polyhedron");  poly_extra<NNC_Polyhedron>("NNC_Polyhedron");
  dom_scenarios<BDS>("BD_Shape_mpq");               wr_extra<BDS>("BD_Shape_mpq", false);  bds_only<BDS>("BD_Shape_mpq");
  dom_scenarios<OCT>("Octagonal_Shape_mpq");        wr_extra<OCT>("Octagonal_Shape_mpq", true);
  dom_scenarios<Rational_Box>("Rational_Box");      box_extra("Rational_Box");
  dom_scenarios<Grid>("Grid");                      grid_extra("Grid");
  mip_scenarios();
  pip_scenarios();
  ps_scenarios<C_Polyhedron>("Pointset_Powerset_C");
  ps_scenarios<NNC_Polyhedron>("Pointset_Powerset_NNC");
  ps_conversions();
  product_scenarios<Domain_Product<C_Polyhedron, Grid>::Direct_Product>("Direct_Product_C_Grid");
  product_scenarios<Domain_Product<C_Polyhedron, Grid>::Constraints_Product>("Constraints_Product_C_Grid");
  product_scenarios<Domain_Product<NNC_Polyhedron, Grid>::Smash_Product>("Smash_Product_NNC_Grid");
  row_scenarios<Sparse_Row>("Sparse_Row");
  row_scenarios<Dense_Row>("Dense_Row");
  matrix_scenarios<Sparse_Row>("Matrix_Sparse_Row");
  matrix_scenarios<Dense_Row>("Matrix_Dense_Row");
  tree_scenarios();
  expr_scenarios(DENSE, "Linear_Expression_dense");
  expr_scenarios(SPARSE, "Linear_Expression_sparse");
  system_scenarios();
}

// =============================================================================================
// runner
// =============================================================================================
struct Outcome {
  Run r;
  long cand[2];      // blocks of this run still live after all its objects are destroyed
  long netd[2];      // net change of the live-block count over the run
  long bad_free, bad_origin;
};

// Scenarios whose operation deletes and re-allocates sub-objects the receiver owns (ascii_load into a non-fresh receiver,
// operator=, m_swap, clones of PIP trees, add_constraint after a solve, powerset add_disjunct / collapse, the tree and row
// protocols): a single k may leave a dangling member.  Every k is enumerated for them in EVERY tier, and each (scenario, k) is
// run in two variants: assign-from-fresh + use + destroy, and destroy-as-is.
static bool owner_replacing(const std::string& n) {
  static const char* pat[] = { "micro.", ".ascii_load", ".assign", ".m_swap", "copy_solved", "pip_tree_clone", "_after_solve", ".add_disjunct",
                               "collapse", "CO_Tree.", ".clear", ".set_representation", ".copy_other_representation", ".swap_space_dimensions" };
  for (const char* q : pat) if (n.find(q) != std::string::npos) return true;
  return false;
}
static long g_run_limit_s = 4;       // CPU seconds allowed to one run of one scenario (a hang becomes `crash ... HANG`)
static int g_variant = 0;
static Outcome one_run(const Scen& s, uint64_t seed, long k, int kind, std::string* sites = nullptr) {
  Outcome o; o.r.seed = seed; o.r.k = k; o.r.kind = kind; o.r.variant = g_variant;
  P->stage = 1;
  { struct itimerval tv; memset(&tv, 0, sizeof tv); tv.it_value.tv_sec = g_run_limit_s; setitimer(ITIMER_VIRTUAL, &tv, nullptr); }
  fi::quarantine_on = true;
  fi::record_stacks = sites != nullptr; fi::fired_nbt = 0;
  fi::mark = fi::serial; fi::since_mark[0] = fi::since_mark[1] = 0;
  long n0[2] = { fi::net[0], fi::net[1] };
  long bf0 = fi::bad_free, bo0 = fi::bad_origin;
  {
    Run& R = o.r;
    try { s.fn(R); }
    catch (...) { fi::armed = false; abandon_expensive_computations = nullptr; R.failed.push_back("exception_outside_armed_call_" + pplv::exc_class()); }
  }
  { struct itimerval tv; memset(&tv, 0, sizeof tv); setitimer(ITIMER_VIRTUAL, &tv, nullptr); }
  P->stage = 0;
  o.cand[0] = fi::since_mark[0]; o.cand[1] = fi::since_mark[1];
  o.netd[0] = fi::net[0] - n0[0]; o.netd[1] = fi::net[1] - n0[1];
  o.bad_free = fi::bad_free - bf0; o.bad_origin = fi::bad_origin - bo0;
  uint64_t mk = fi::mark;
  fi::mark = ~0ull;
  fi::record_stacks = false;
  if (sites) {
    // attribute the surviving blocks of this run and the failing allocation
    std::set<std::string> ss;
    fi::PVec blocks, pool;
    fi::pool_owned(pool);
    std::sort(pool.begin(), pool.end());
    for (fi::Map::iterator it = fi::live().begin(); it != fi::live().end(); ++it)
      if (it->second.serial > mk && !std::binary_search(pool.begin(), pool.end(), it->first)) blocks.push_back(it->first);
    for (size_t i = 0; i < blocks.size(); ++i) {
      fi::Info inf = fi::live()[blocks[i]];
      ss.insert(std::string(inf.origin == 0 ? "new:" : "gmp:") + fi::site_of(inf.bt, inf.nbt, 9));
    }
    std::string out = "thrower=" + fi::site_of(fi::fired_bt, fi::fired_nbt, 9) + " leaked=";
    bool first = true;
    for (std::set<std::string>::iterator i = ss.begin(); i != ss.end(); ++i) { if (!first) out += "|"; out += *i; first = false; }
    *sites = out;
  }
  fi::quarantine_on = false;
  fi::flush_quarantine();
  return o;
}

int main(int argc, char** argv) {
  const char* mode = pplv::arg_str(argc, argv, "--mode", "fault");
  uint64_t seed = (uint64_t)pplv::arg_long(argc, argv, "--seed", 1);
  if (!strcmp(mode, "reject")) return reject_main(seed);
  register_all();
  std::vector<Scen>& S = scens();
  if (!strcmp(mode, "list")) {
    for (size_t i = 0; i < S.size(); ++i) printf("%zu %s\n", i, S[i].name.c_str());
    return 0;
  }
  int kind = !strcmp(mode, "abandon") ? K_ABANDON : !strcmp(mode, "weight") ? K_WEIGHT : K_ALLOC;
  long first = pplv::arg_long(argc, argv, "--first", 0), last = pplv::arg_long(argc, argv, "--last", (long)S.size());
  long kcap = pplv::arg_long(argc, argv, "--kcap", 1000000000);     // beyond kcap events: every `stride`-th k only
  long stride = pplv::arg_long(argc, argv, "--stride-after", 1);
  long onek = pplv::arg_long(argc, argv, "--k", -2);
  long sample = pplv::arg_long(argc, argv, "--sample", 0);   // at most about this many k per scenario (evenly spaced, offset by the seed)
  long sample_from = pplv::arg_long(argc, argv, "--sample-from", 0);  // scenarios with index >= this are sampled
  long step = pplv::arg_long(argc, argv, "--step", 1), phase = pplv::arg_long(argc, argv, "--phase", 0);  // scenario si is run iff si % step == phase
  const char* only = pplv::arg_str(argc, argv, "--only", "");
  fi::persist = pplv::arg_long(argc, argv, "--persist", 0) != 0;
  fi::bt_event = pplv::arg_long(argc, argv, "--bt", -1);
  long cpu_limit = pplv::arg_long(argc, argv, "--cpu", 300);
  g_run_limit_s = pplv::arg_long(argc, argv, "--run-limit", 4);
  if (last > (long)S.size()) last = (long)S.size();
  P = (Progress*)mmap(nullptr, sizeof(Progress), PROT_READ | PROT_WRITE, MAP_SHARED | MAP_ANONYMOUS, -1, 0);
  const char* kn = kind_name(kind);
  for (long si = first; si < last; ++si) {
    const Scen& s = S[si];
    if (*only ? s.name != only : (si % step) != phase) continue;
    uint64_t sseed = seed * 1000003ull + std::hash<std::string>()(s.name) % 1000003ull;
    long kstart = -1;         // -1: dry run first
    int crashes = 0;
    while (true) {
      P->scen = si; P->k = -1; P->total = -1; P->stage = 0; P->variant = 0;
      fflush(stdout);
      pid_t pid = fork();
      if (pid == 0) {
        struct rlimit rl; rl.rlim_cur = cpu_limit; rl.rlim_max = cpu_limit + 2; setrlimit(RLIMIT_CPU, &rl);
        struct rlimit core; core.rlim_cur = core.rlim_max = 0; setrlimit(RLIMIT_CORE, &core);
        // warm-up + event count (the second dry run is the steady state)
        Outcome d0 = one_run(s, sseed, -1, kind);
        Outcome d = one_run(s, sseed, -1, kind);
        if (kstart < 0) {
          std::ostringstream o;
          o << "scen " << kn << " " << si << " " << s.name << " events=" << d.r.events << " new=" << d.r.ev_new << " gmp=" << d.r.ev_gmp
            << " dry_completed=" << d.r.completed << " dry_cand=" << d.cand[0] << "," << d.cand[1]
            << " dry_net=" << d.netd[0] << "," << d.netd[1] << " dry_bad_free=" << d.bad_free + d.bad_origin << " fault_done=" << d.r.fault_done;
          if (!d.r.completed) o << " dry_threw=" << d.r.threw;
          for (int f = 0; f < d.r.failed.n; ++f) o << " !" << d.r.failed.txt[f];
          J.line(o.str());
        }
        long n = d.r.events;
        P->total = n;
        long soft = 0, fired_n[2] = {0, 0}, absorbed = 0, transient = 0, reruns = 0, runs = 0, notfired = 0;
        long k0 = kstart < 0 ? 0 : kstart;
        const bool owner_repl = owner_replacing(s.name);
        struct timespec t0; clock_gettime(CLOCK_MONOTONIC, &t0);
        for (long k = k0; k < n; ++k) {
          if (onek > -2 && k != onek) continue;
          if (k >= kcap && ((k - kcap) % stride) != 0) continue;
          if (sample > 0 && si >= sample_from && n > sample && !(owner_repl && n <= 3000)) { long st = (n + sample - 1) / sample; if ((k % st) != (long)(seed % (uint64_t)st)) continue; }
          for (int var = 0; var <= (owner_repl ? 1 : 0); ++var) {
          g_variant = var; P->variant = var;
          P->k = k;
          Outcome o = one_run(s, sseed, k, kind); ++runs;
          if (o.r.fired) ++fired_n[o.r.fired_origin < 0 ? 0 : o.r.fired_origin]; else ++notfired;
          if (o.r.fired && o.r.completed) ++absorbed;
          long leak[2] = {0, 0};
          std::string sites;
          if ((o.cand[0] > 0 && o.netd[0] > 0) || (o.cand[1] > 0 && o.netd[1] > 0)) {
            Outcome o2 = one_run(s, sseed, k, kind), o3 = one_run(s, sseed, k, kind); reruns += 2;
            for (int g = 0; g < 2; ++g) if (o2.netd[g] > 0 && o3.netd[g] > 0) leak[g] = std::min(o2.netd[g], o3.netd[g]);
            if (leak[0] + leak[1] == 0) ++transient;
            else { (void)one_run(s, sseed, k, kind, &sites); ++reruns; }
          }
          int hard = 0; for (int f = 0; f < o.r.failed.n; ++f) if (o.r.failed.txt[f][0] != '~') ++hard; else ++soft;
          bool notable = leak[0] + leak[1] > 0 || o.bad_free || o.bad_origin || hard > 0 || !o.r.fault_done;
          if (notable && sites.empty()) { (void)one_run(s, sseed, k, kind, &sites); ++reruns; }
          if (var == 0 && s.name.compare(0, 6, "micro.") == 0) {
            // one line per run for the protocols replayed against the allocation machines (Driver/C14.lean)
            std::string rest = s.name.substr(6); size_t dot = rest.rfind('.');
            std::string mach = dot == std::string::npos ? rest : rest.substr(0, dot), num = dot == std::string::npos ? "0" : rest.substr(dot + 1);
            std::ostringstream t;
            t << "mk " << mach << " " << num << " k=" << k << " of=" << n << " result=" << (o.r.completed ? "completed" : o.r.threw)
              << " leak=" << leak[0] + leak[1] << " bad=" << o.bad_free + o.bad_origin << " invalid=" << (hard > 0 ? 1 : 0);
            J.line(t.str());
          }
          if (notable || onek > -2) {
            std::ostringstream t;
            t << "fault " << kn << " " << si << " " << s.name << " k=" << k << " of=" << n << " variant=" << var << " origin=" << (!o.r.fired ? "none" : kind != K_ALLOC ? "checkpoint" : o.r.fired_origin == 0 ? "new" : "gmp")
              << " fired=" << o.r.fired << " result=" << (o.r.completed ? "completed" : o.r.threw)
              << " leak_new=" << leak[0] << " leak_gmp=" << leak[1] << " bad_free=" << o.bad_free << " bad_origin=" << o.bad_origin
              << " cand=" << o.cand[0] << "," << o.cand[1];
            for (int f = 0; f < o.r.failed.n; ++f) t << " " << (o.r.failed.txt[f][0] == '~' ? "" : "!") << o.r.failed.txt[f];
            if (!sites.empty()) t << " " << sites;
            J.line(t.str());
          }
          }   // variants
        }
        g_variant = 0;
        struct timespec t1; clock_gettime(CLOCK_MONOTONIC, &t1);
        long ms = (t1.tv_sec - t0.tv_sec) * 1000 + (t1.tv_nsec - t0.tv_nsec) / 1000000;
        std::ostringstream e;
        e << "done " << kn << " " << si << " " << s.name << " from=" << k0 << " of=" << n << " runs=" << runs << " fired_new=" << fired_n[0] << " fired_gmp=" << fired_n[1]
          << " notfired=" << notfired << " absorbed=" << absorbed << " soft_not_OK=" << soft << " transient=" << transient << " reruns=" << reruns << " ms=" << ms;
        J.line(e.str());
        _exit(0);
      }
      int st = 0; waitpid(pid, &st, 0);
      if (WIFSIGNALED(st) || (WIFEXITED(st) && WEXITSTATUS(st) != 0)) {
        std::ostringstream c;
        c << "crash " << kn << " " << si << " " << s.name << " k=" << P->k << " of=" << P->total << " variant=" << P->variant << " stage="
          << (P->stage == 1 ? "setup" : P->stage == 2 ? "armed_call" : P->stage == 3 ? "post" : P->stage == 31 ? "post_OK" : P->stage == 32 ? "post_copy"
              : P->stage == 33 ? "post_reuse" : P->stage == 34 ? "post_reassign" : P->stage == 35 ? "post_redo" : P->stage == 36 ? "post_arg_check"
              : P->stage == 39 ? "post_destructors" : "runner") << " "
          << (WIFSIGNALED(st) ? (WTERMSIG(st) == SIGVTALRM ? "HANG" : pplv::signal_name(WTERMSIG(st))) : "exit");
        J.line(c.str());
        if (P->total >= 0 && P->k >= 0) {
          // probe: where did the fault of the crashed run fire?
          fflush(stdout);
          pid_t pp = fork();
          if (pp == 0) {
            struct rlimit rl; rl.rlim_cur = 10; rl.rlim_max = 12; setrlimit(RLIMIT_CPU, &rl);
            (void)one_run(s, sseed, -1, kind);
            g_variant = (int)P->variant;
            g_thrower_only = true;
            std::string dummy;
            (void)one_run(s, sseed, P->k, kind, &dummy);
            _exit(0);
          }
          int st2 = 0; waitpid(pp, &st2, 0);
        }
        if (++crashes > 200 || P->total < 0) break;      // a dry run crashed, or hopeless
        kstart = P->k + 1;
        continue;
      }
      break;
    }
  }
  J.line("end");
  return 0;
}
