// C08 harness: real certificates and adversarial ascending chains through every widening.
//   c08_widen --seed S --first A --last B [--batch N] [--limit L] [--only dom]
// Journal grammar: see lean/Driver/Widen.lean (pplv_widen).
//
// Every chain: x0 random; at step i a piece outside x_i is generated, the larger argument
// z = x_i (+) piece is built through two different random histories (z, z2), the smaller argument x_i
// is also re-represented (y2); the plain widening is run on both pairs, the token / limited / bounded
// variants on fresh copies; x_{i+1} = plain result.  The chain ends when the library finds the result
// contained in x_i, or at --limit steps (reported).
#include "ppl.hh"
#include "common.hh"
#include "poly_io.hh"
#include <functional>
#include <algorithm>

using namespace Parma_Polyhedra_Library;
using namespace pplv_io;
using pplv::Rng;

typedef BD_Shape<mpq_class> BQ;
typedef BD_Shape<double> BD;
typedef Octagonal_Shape<mpq_class> OQ;
typedef Octagonal_Shape<double> OD;
typedef Rational_Box XQ;
typedef Pointset_Powerset<C_Polyhedron> PC;
typedef Pointset_Powerset<NNC_Polyhedron> PN;
typedef Pointset_Powerset<Grid> PG;

static pplv::Journal J(1);
static long g_limit = 200;

static void jl(const std::string& s) { J.line(s); }

// ------------------------------------------------------------------------------ linear helpers
static std::vector<Constraint> cs_vec(const Constraint_System& cs) {
  std::vector<Constraint> v;
  for (Constraint_System::const_iterator i = cs.begin(); i != cs.end(); ++i) v.push_back(*i);
  return v;
}
static std::vector<Generator> gs_vec(const Generator_System& gs) {
  std::vector<Generator> v;
  for (Generator_System::const_iterator i = gs.begin(); i != gs.end(); ++i) v.push_back(*i);
  return v;
}
template <class T> static void shuffle(Rng& r, std::vector<T>& v) {
  for (size_t i = v.size(); i > 1; --i) std::swap(v[i - 1], v[r.below((unsigned)i)]);
}
static Linear_Expression dimfix(dimension_type n) {
  Linear_Expression e; if (n > 0) e += 0 * Variable(n - 1); return e;
}
static Constraint_System shuffled_cs(Rng& r, const Constraint_System& cs, dimension_type n, bool redundant) {
  std::vector<Constraint> v = cs_vec(cs);
  Constraint_System out;
  if (n > 0) out.insert(0 * Variable(n - 1) >= -1);
  if (redundant && v.size() >= 2) {
    // a positive combination of two non-strict rows is implied
    const Constraint& a = v[r.below((unsigned)v.size())];
    const Constraint& b = v[r.below((unsigned)v.size())];
    if (!a.is_strict_inequality() && !b.is_strict_inequality() && !a.is_equality() && !b.is_equality()) {
      // (Constraint::expression() carries the inhomogeneous term)
      Linear_Expression e = Linear_Expression(a.expression()) + Linear_Expression(b.expression());
      e += 1;
      out.insert(e >= 0);
    }
  }
  shuffle(r, v);
  for (size_t i = 0; i < v.size(); ++i) out.insert(v[i]);
  return out;
}
static Generator_System shuffled_gs(Rng& r, const Generator_System& gs) {
  std::vector<Generator> v = gs_vec(gs);
  shuffle(r, v);
  // a point must come first for the constructors
  for (size_t i = 0; i < v.size(); ++i) if (v[i].is_point()) { std::swap(v[0], v[i]); break; }
  Generator_System out;
  for (size_t i = 0; i < v.size(); ++i) out.insert(v[i]);
  return out;
}

// a small random generator system (closed): 1..3 points, sometimes a ray / line
static Generator_System rnd_small_gs(Rng& r, dimension_type n, int richness) {
  Generator_System gs;
  unsigned np = 1 + r.below(richness >= 2 ? 3 : 2);
  for (unsigned k = 0; k < np; ++k) {
    Linear_Expression e = dimfix(n);
    for (dimension_type i = 0; i < n; ++i) e += Coefficient(r.range(-3, 3)) * Variable(i);
    gs.insert(point(e, r.chance(1, 4) ? 2 : 1));
  }
  if (richness >= 1 && r.chance(1, 4)) {
    Linear_Expression e = dimfix(n);
    bool nz = false;
    for (dimension_type i = 0; i < n; ++i) { long c = r.range(-1, 1); if (c) nz = true; e += Coefficient(c) * Variable(i); }
    if (nz) { if (r.chance(1, 5)) gs.insert(line(e)); else gs.insert(ray(e)); }
  }
  return gs;
}

// a point "just outside": a vertex of the current value moved by a small step, or a random point
static Generator rnd_outside_point(Rng& r, dimension_type n, const C_Polyhedron& hull, int attempt) {
  std::vector<Generator> pts;
  if (!hull.is_empty()) {
    const Generator_System& gs = hull.minimized_generators();
    for (Generator_System::const_iterator i = gs.begin(); i != gs.end(); ++i) if (i->is_point()) pts.push_back(*i);
  }
  Linear_Expression e = dimfix(n);
  Coefficient d = 1;
  if (!pts.empty() && attempt < 8) {
    const Generator& p = pts[r.below((unsigned)pts.size())];
    d = p.divisor();
    long step = 1 + attempt / 3;
    for (dimension_type i = 0; i < n; ++i)
      e += (p.coefficient(Variable(i)) + d * Coefficient(r.range(-step, step))) * Variable(i);
    if (d > 64) { // keep numbers small: round to integers
      Linear_Expression f = dimfix(n);
      for (dimension_type i = 0; i < n; ++i) {
        Coefficient q = p.coefficient(Variable(i)) / d;
        f += (q + Coefficient(r.range(-step, step))) * Variable(i);
      }
      e = f; d = 1;
    }
  } else {
    long b = 4 + 2 * attempt;
    for (dimension_type i = 0; i < n; ++i) e += Coefficient(r.range(-b, b)) * Variable(i);
    d = r.chance(1, 4) ? 2 : 1;
  }
  return point(e, d);
}

// ------------------------------------------------------------------------------ domain traits
template <class D> struct Tr;

template <class D> static C_Polyhedron closed_hull_of(const D& x) { return C_Polyhedron(x.constraints()); }
template <> C_Polyhedron closed_hull_of<NNC_Polyhedron>(const NNC_Polyhedron& x) {
  NNC_Polyhedron c(x); c.topological_closure_assign(); return C_Polyhedron(c.constraints());
}

// how a constraint relates to what the domain can express (for the "kept" claim of limited extrapolation)
static int nz_count(const Constraint& c, dimension_type n, dimension_type& i0, dimension_type& i1) {
  int k = 0;
  for (dimension_type i = 0; i < n && i < c.space_dimension(); ++i)
    if (c.coefficient(Variable(i)) != 0) { if (k == 0) i0 = i; else if (k == 1) i1 = i; ++k; }
  return k;
}
enum Expr { EX_POLY, EX_BDS, EX_OCT, EX_BOX };
static bool expressible(const Constraint& c, dimension_type n, Expr ex, bool need_unit) {
  if (ex == EX_POLY) return true;
  if (c.is_strict_inequality()) return false;
  dimension_type i0 = 0, i1 = 0;
  int k = nz_count(c, n, i0, i1);
  if (k == 0) return true;
  if (k > 2) return false;
  Coefficient a = c.coefficient(Variable(i0));
  if (k == 1) {
    if (need_unit && a != 1 && a != -1) return false;
    return true;
  }
  if (ex == EX_BOX) return false;
  Coefficient b = c.coefficient(Variable(i1));
  if (need_unit && a != 1 && a != -1) return false;
  if (ex == EX_BDS) return a == -b;
  return a == b || a == -b;
}

template <> struct Tr<C_Polyhedron> {
  static const char* tag() { return "C"; }
  static const bool exact = true; static const Expr ex = EX_POLY; static const bool nnc = false;
  static C_Polyhedron from_gs(const Generator_System& gs, dimension_type n) { C_Polyhedron p(gs); return p; }
  static C_Polyhedron from_cs(const Constraint_System& cs, dimension_type n) {
    C_Polyhedron p(n, UNIVERSE); p.add_constraints(cs); return p; }
  static C_Polyhedron rehist(Rng& r, const C_Polyhedron& x, dimension_type n) {
    switch (r.below(8)) {
      case 0: return C_Polyhedron(x);
      case 1: { C_Polyhedron c(x); return from_cs(c.constraints(), n); }
      case 2: { C_Polyhedron c(x); return from_cs(c.minimized_constraints(), n); }
      case 3: { C_Polyhedron c(x); if (c.is_empty()) return c; return C_Polyhedron(shuffled_gs(r, c.generators())); }
      case 4: { C_Polyhedron c(x); if (c.is_empty()) return c; return C_Polyhedron(shuffled_gs(r, c.minimized_generators())); }
      case 5: { C_Polyhedron c(x); return from_cs(shuffled_cs(r, c.constraints(), n, true), n); }
      case 6: { C_Polyhedron c(x); (void)c.minimized_generators(); (void)c.is_bounded(); return c; }
      default: { C_Polyhedron c(x); c.add_space_dimensions_and_embed(1); c.remove_higher_space_dimensions(n); return c; }
    }
  }
};
template <> struct Tr<NNC_Polyhedron> {
  static const char* tag() { return "N"; }
  static const bool exact = true; static const Expr ex = EX_POLY; static const bool nnc = true;
  static NNC_Polyhedron from_gs(const Generator_System& gs, dimension_type n) { return NNC_Polyhedron(gs); }
  static NNC_Polyhedron from_cs(const Constraint_System& cs, dimension_type n) {
    NNC_Polyhedron p(n, UNIVERSE); p.add_constraints(cs); return p; }
  static NNC_Polyhedron rehist(Rng& r, const NNC_Polyhedron& x, dimension_type n) {
    switch (r.below(8)) {
      case 0: return NNC_Polyhedron(x);
      case 1: { NNC_Polyhedron c(x); return from_cs(c.constraints(), n); }
      case 2: { NNC_Polyhedron c(x); return from_cs(c.minimized_constraints(), n); }
      case 3: { NNC_Polyhedron c(x); if (c.is_empty()) return c; return NNC_Polyhedron(shuffled_gs(r, c.generators())); }
      case 4: { NNC_Polyhedron c(x); if (c.is_empty()) return c; return NNC_Polyhedron(shuffled_gs(r, c.minimized_generators())); }
      case 5: { NNC_Polyhedron c(x); return from_cs(shuffled_cs(r, c.constraints(), n, true), n); }
      case 6: { NNC_Polyhedron c(x); (void)c.minimized_generators(); (void)c.is_bounded(); return c; }
      default: { NNC_Polyhedron c(x); c.add_space_dimensions_and_embed(1); c.remove_higher_space_dimensions(n); return c; }
    }
  }
};
template <class S, bool EXACT, Expr EX> struct ShapeTr {
  static const bool exact = EXACT; static const Expr ex = EX; static const bool nnc = false;
  static S from_gs(const Generator_System& gs, dimension_type n) { C_Polyhedron p(gs); return S(p); }
  static S from_cs(const Constraint_System& cs, dimension_type n) { S s(n, UNIVERSE); s.refine_with_constraints(cs); return s; }
  static S rehist(Rng& r, const S& x, dimension_type n) {
    if (!EXACT) return S(x);
    switch (r.below(6)) {
      case 0: return S(x);
      case 1: { S c(x); return from_cs(c.constraints(), n); }
      case 2: { S c(x); return from_cs(c.minimized_constraints(), n); }
      case 3: { S c(x); C_Polyhedron p(c.constraints()); return S(p); }
      case 4: { S c(x); return from_cs(shuffled_cs(r, c.constraints(), n, true), n); }
      default: { S c(x); (void)c.is_bounded(); (void)c.affine_dimension(); return c; }
    }
  }
};
template <> struct Tr<BQ> : ShapeTr<BQ, true, EX_BDS> { static const char* tag() { return "BQ"; } };
template <> struct Tr<BD> : ShapeTr<BD, false, EX_BDS> { static const char* tag() { return "BD"; } };
template <> struct Tr<OQ> : ShapeTr<OQ, true, EX_OCT> { static const char* tag() { return "OQ"; } };
template <> struct Tr<OD> : ShapeTr<OD, false, EX_OCT> { static const char* tag() { return "OD"; } };
template <> struct Tr<XQ> : ShapeTr<XQ, true, EX_BOX> { static const char* tag() { return "XQ"; } };

template <class D> static void put_set(OS& o, const D& d, dimension_type n) {
  D cp(d);
  put_cs(o, cp.constraints(), n);
}
template <class D> static std::string set_line(const char* tag, const D& d, dimension_type n) {
  OS o; o << tag; put_set(o, d, n); return o.str();
}

// ------------------------------------------------------------------------------ operators
template <class D> struct Ops {
  std::string name;
  int conv;                 // 1: the statement claims convergence with a certificate; 0: extrapolation only
  std::string cert;         // "h79" | "bhrz" | "box" | "none"
  std::vector<mpq_class> stops;   // for box / CC76 chains (certificate "box" uses them)
  bool has_stops;
  std::function<void(D&, const D&, unsigned*)> widen;
  std::function<void(D&, const D&, const Constraint_System&, unsigned*)> limited;   // may be null
  std::function<void(D&, const D&, const Constraint_System&, unsigned*)> bounded;   // may be null
};

static Constraint_System rnd_limit_cs(Rng& r, dimension_type n, const Constraint_System& zcs, Expr ex, bool nnc, bool unit) {
  Constraint_System cs;
  if (n > 0) cs.insert(0 * Variable(n - 1) >= -1);
  std::vector<Constraint> zv = cs_vec(zcs);
  unsigned m = 1 + r.below(3);
  for (unsigned k = 0; k < m; ++k) {
    unsigned w = r.below(10);
    if (w < 4 && !zv.empty()) {
      // a constraint of the larger argument, weakened by 0..2
      const Constraint& c = zv[r.below((unsigned)zv.size())];
      Linear_Expression e(c.expression());
      if (c.is_equality()) { if (r.chance(1, 2)) cs.insert(e == 0); else cs.insert(e + 1 >= 0); }
      else { e += Coefficient(r.range(0, 2)); if (nnc && c.is_strict_inequality() && r.chance(1, 2)) cs.insert(e > 0); else cs.insert(e >= 0); }
    } else if (w < 8 && ex != EX_POLY && n > 0) {
      // a constraint the domain can express
      dimension_type i = r.below((unsigned)n), j = r.below((unsigned)n);
      long b = r.range(-3, 6);
      long si = r.chance(1, 2) ? 1 : -1, sj = r.chance(1, 2) ? 1 : -1;
      Linear_Expression e = dimfix(n);
      if (ex == EX_BOX || i == j) e += Coefficient(si) * Variable(i);
      else if (ex == EX_BDS) { e += Coefficient(si) * Variable(i); e -= Coefficient(si) * Variable(j); }
      else { e += Coefficient(si) * Variable(i); e += Coefficient(sj) * Variable(j); }
      if (!unit && r.chance(1, 3)) { e *= 2; b = 2 * b + 1; }
      cs.insert(e <= Coefficient(b));
    } else {
      Constraint c = rnd_con(r, n, nnc, false);
      if (ex != EX_POLY && c.is_strict_inequality()) continue;
      { dimension_type i0 = 0, i1 = 0; if (nz_count(c, n, i0, i1) == 0 && (ex == EX_BDS || !r.chance(1, 30))) continue; }   // constant rows: rarely; never on BD shapes (KF-C08-1 writes out of bounds: probed in isolation, see probe_const_row)
      cs.insert(c);
    }
  }
  return cs;
}

// certificate data of a polyhedron (C / NNC): minimized descriptions of a copy
template <class PH> static std::string cert_data(const char* tag, const PH& p, dimension_type n) {
  PH c(p);
  OS o; o << tag;
  put_cs(o, c.minimized_constraints(), n);
  o << " |";
  put_gs(o, c.minimized_generators(), n);
  return o.str();
}

template <class D> struct CertObs { static void emit(const D&, const D&, dimension_type) {} };
template <class PH> static void emit_poly_certs(const PH& y, const PH& r, dimension_type n) {
  if (y.is_empty() || r.is_empty()) return;
  jl(cert_data("CY", y, n));
  jl(cert_data("CR", r, n));
  PH yc(y), rc(r), rc2(r);
  OS o; o << "CK";
  // (through Polyhedron&: the template constructor H79_Certificate(const PH&) would rebuild the object as
  //  a C polyhedron from its constraints and throws on strict inequalities)
  const Polyhedron& ypc = yc; const Polyhedron& rpc = rc; const Polyhedron& rpc2 = rc2;
  { H79_Certificate cy(ypc); H79_Certificate cr(rpc); o << " h79 " << cy.compare(rpc2) << " " << cy.compare(cr) << " " << cr.compare(cy); }
  { BHRZ03_Certificate cy(yc); BHRZ03_Certificate cr(rc); o << " bhrz " << cy.compare(rc2) << " " << cy.compare(cr) << " " << cr.compare(cy)
      << " " << (cy.OK() ? 1 : 0) << (cr.OK() ? 1 : 0); }
  jl(o.str());
}
template <> struct CertObs<C_Polyhedron> { static void emit(const C_Polyhedron& y, const C_Polyhedron& r, dimension_type n) { emit_poly_certs(y, r, n); } };
template <> struct CertObs<NNC_Polyhedron> { static void emit(const NNC_Polyhedron& y, const NNC_Polyhedron& r, dimension_type n) { emit_poly_certs(y, r, n); } };
// shapes: the H79 certificate of the shape (its template constructor goes through constraints())
template <class S> static void emit_shape_certs(const S& y, const S& r, dimension_type n) {
  if (y.is_empty() || r.is_empty()) return;
  { S c(y); OS o; o << "CY"; put_cs(o, c.minimized_constraints(), n); o << " | 0"; jl(o.str()); }
  { S c(r); OS o; o << "CR"; put_cs(o, c.minimized_constraints(), n); o << " | 0"; jl(o.str()); }
  S yc(y), rc(r), rc2(r);
  OS o; o << "CK";
  { H79_Certificate cy(yc); H79_Certificate cr(rc); o << " h79s " << cy.compare(rc2) << " " << cy.compare(cr) << " " << cr.compare(cy); }
  jl(o.str());
}
template <> struct CertObs<BQ> { static void emit(const BQ& y, const BQ& r, dimension_type n) { emit_shape_certs(y, r, n); } };
template <> struct CertObs<OQ> { static void emit(const OQ& y, const OQ& r, dimension_type n) { emit_shape_certs(y, r, n); } };
template <> struct CertObs<BD> { static void emit(const BD& y, const BD& r, dimension_type n) { emit_shape_certs(y, r, n); } };
template <> struct CertObs<OD> { static void emit(const OD& y, const OD& r, dimension_type n) { emit_shape_certs(y, r, n); } };

// ------------------------------------------------------------------------------ the chain
template <class D>
static void run_chain(long id, Rng& r, dimension_type n, const Ops<D>& op) {
  typedef Tr<D> T;
  {
    OS o; o << "chain " << id << " " << T::tag() << " " << n << " " << op.name << " conv=" << op.conv
            << " cert=" << op.cert << " exact=" << (T::exact ? 1 : 0);
    if (op.has_stops) { o << " stops " << op.stops.size(); for (size_t i = 0; i < op.stops.size(); ++i) o << " " << op.stops[i]; }
    jl(o.str());
  }
  D x(n, EMPTY);
  try {
    x = T::from_gs(rnd_small_gs(r, n, r.below(3)), n);
    if (T::nnc && r.chance(1, 2)) {
      // make it not closed: drop the boundary of one constraint
      std::vector<Constraint> v = cs_vec(x.constraints());
      std::vector<Constraint> ineq; for (size_t i = 0; i < v.size(); ++i) if (v[i].is_nonstrict_inequality()) ineq.push_back(v[i]);
      if (!ineq.empty()) {
        const Constraint& c = ineq[r.below((unsigned)ineq.size())];
        Linear_Expression e(c.expression());
        Constraint_System cs1; cs1.insert(e > 0);
        D x1(x); x1.add_constraints(cs1);
        if (!x1.is_empty()) x = x1;
      }
    }
  } catch (...) { jl("exc " + pplv::exc_class() + " start"); jl("endchain 0 exc"); return; }
  // the region the chain lives in: everything, a box, or a random half-space / wedge
  C_Polyhedron region(n, UNIVERSE);
  {
    unsigned w = r.below(4);
    if (w == 1) { long b = r.range(3, 8); for (dimension_type i = 0; i < n; ++i) { region.add_constraint(Variable(i) <= b); region.add_constraint(Variable(i) >= -b); } }
    else if (w == 2) { Constraint_System rc = rnd_cs(r, n, false, 2, false); C_Polyhedron t(region); t.add_constraints(rc); if (t.contains(closed_hull_of(x))) region = t; }
  }
  long step = 0;
  const char* status = "limit";
  for (; step < g_limit; ++step) {
    try {
      // ---- a piece outside x
      C_Polyhedron hull = closed_hull_of(x);
      D piece(n, EMPTY); bool found = false;
      for (int attempt = 0; attempt < 14 && !found; ++attempt) {
        Generator_System pg; pg.insert(rnd_outside_point(r, n, hull, attempt));
        { C_Polyhedron pp(pg); if (!region.contains(pp)) continue; }
        if (r.chance(1, 6)) { Generator q = rnd_outside_point(r, n, hull, attempt); Generator_System qs; qs.insert(q); if (region.contains(C_Polyhedron(qs))) pg.insert(q); }
        if (r.chance(1, 12) && region.is_universe()) {
          Linear_Expression e = dimfix(n); bool nz = false;
          for (dimension_type i = 0; i < n; ++i) { long c = r.range(-1, 1); if (c) nz = true; e += Coefficient(c) * Variable(i); }
          if (nz) pg.insert(ray(e));
        }
        piece = T::from_gs(pg, n);
        if (!x.contains(piece)) found = true;
      }
      if (!found) { status = "saturated"; break; }
      // ---- the larger argument through two histories; the smaller one re-represented
      D z(x), z2(n, EMPTY);
      if (r.chance(1, 2)) { z.upper_bound_assign(piece); z = T::rehist(r, z, n); }
      else { D p1 = T::rehist(r, piece, n); D x1 = T::rehist(r, x, n); z = p1; z.upper_bound_assign(x1); }
      { D x1 = T::rehist(r, x, n); z2 = x1; z2.upper_bound_assign(piece); z2 = T::rehist(r, z2, n); }
      D y2 = T::rehist(r, x, n);
      { OS o; o << "step " << step; jl(o.str()); }
      jl(set_line("Y", x, n)); jl(set_line("Z", z, n));
      if (T::exact) { jl(set_line("Y2", y2, n)); jl(set_line("Z2", z2, n)); }
      // ---- side runs first (they work on copies)
      // tokens
      {
        unsigned tp0 = r.below(3), tp = tp0;
        D xt(z), yt(x);
        jl("run token");
        op.widen(xt, yt, &tp);
        OS o; o << "T " << tp0 << " " << tp; put_set(o, xt, n); jl(o.str());
      }
      // limited / bounded
      Constraint_System lcs;
      { D zc(z); lcs = rnd_limit_cs(r, n, zc.constraints(), T::ex, T::nnc, !T::exact); }
      if (op.limited) {
        D xl(z), yl(x);
        OS o; o << "L lim"; put_cs(o, lcs, n);
        // expressibility flags, one per constraint in iteration order
        o << " |";
        for (Constraint_System::const_iterator i = lcs.begin(); i != lcs.end(); ++i) o << " " << (expressible(*i, n, T::ex, !T::exact) ? 1 : 0);
        jl("run limited " + o.str());
        op.limited(xl, yl, lcs, nullptr);
        o << " |"; put_set(o, xl, n); jl(o.str());
      }
      if (op.bounded) {
        D xl(z), yl(x);
        OS o; o << "L bnd"; put_cs(o, lcs, n);
        o << " |";
        for (Constraint_System::const_iterator i = lcs.begin(); i != lcs.end(); ++i) o << " 1";
        jl("run bounded " + o.str());
        op.bounded(xl, yl, lcs, nullptr);
        o << " |"; put_set(o, xl, n); jl(o.str());
      }
      // alternative representation
      if (T::exact) {
        jl("run plain2");
        op.widen(z2, y2, nullptr);
        jl(set_line("R2", z2, n));
      }
      // ---- the plain widening on the chain's own objects
      D res(z);
      jl("run plain");
      op.widen(res, x, nullptr);
      jl(set_line("R", res, n));
      jl(set_line("YA", x, n));          // the smaller argument must still denote the same set
      CertObs<D>::emit(x, res, n);
      jl("endstep");
      bool stationary = x.contains(res);
      x = res;
      if (stationary) { status = "stationary"; ++step; break; }
    } catch (...) {
      jl("exc " + pplv::exc_class());
      status = "exc"; break;
    }
  }
  OS o; o << "endchain " << step << " " << status; jl(o.str());
}

// ------------------------------------------------------------------------------ operator tables
static std::vector<mpq_class> rnd_stops(Rng& r) {
  std::vector<mpq_class> v;
  unsigned k = r.below(6);
  for (unsigned i = 0; i < k; ++i) { mpq_class q((long)r.range(-8, 12), (long)(r.chance(1, 3) ? 2 : 1)); q.canonicalize(); v.push_back(q); }
  std::sort(v.begin(), v.end());
  return v;
}
static std::vector<mpq_class> default_stops() { std::vector<mpq_class> v; for (int i = -2; i <= 2; ++i) v.push_back(mpq_class(i)); return v; }

template <class PH> static std::vector<Ops<PH> > poly_ops() {
  std::vector<Ops<PH> > v;
  { Ops<PH> o; o.name = "H79"; o.conv = 1; o.cert = "h79"; o.has_stops = false;
    o.widen = [](PH& x, const PH& y, unsigned* tp) { x.H79_widening_assign(y, tp); };
    o.limited = [](PH& x, const PH& y, const Constraint_System& cs, unsigned* tp) { x.limited_H79_extrapolation_assign(y, cs, tp); };
    o.bounded = [](PH& x, const PH& y, const Constraint_System& cs, unsigned* tp) { x.bounded_H79_extrapolation_assign(y, cs, tp); };
    v.push_back(o); }
  { Ops<PH> o; o.name = "BHRZ03"; o.conv = 1; o.cert = "bhrz"; o.has_stops = false;
    o.widen = [](PH& x, const PH& y, unsigned* tp) { x.BHRZ03_widening_assign(y, tp); };
    o.limited = [](PH& x, const PH& y, const Constraint_System& cs, unsigned* tp) { x.limited_BHRZ03_extrapolation_assign(y, cs, tp); };
    o.bounded = [](PH& x, const PH& y, const Constraint_System& cs, unsigned* tp) { x.bounded_BHRZ03_extrapolation_assign(y, cs, tp); };
    v.push_back(o); }
  return v;
}
template <class S, class N> static std::vector<Ops<S> > shape_ops(Rng& r, bool bds) {
  std::vector<Ops<S> > v;
  { Ops<S> o; o.name = "CC76"; o.conv = 0; o.cert = "none"; o.has_stops = false;
    o.widen = [](S& x, const S& y, unsigned* tp) { x.CC76_extrapolation_assign(y, tp); };
    o.limited = [](S& x, const S& y, const Constraint_System& cs, unsigned* tp) { x.limited_CC76_extrapolation_assign(y, cs, tp); };
    v.push_back(o); }
  { Ops<S> o; o.name = "CC76stops"; o.conv = 0; o.cert = "none"; o.has_stops = true; o.stops = rnd_stops(r);
    std::vector<N> st; for (size_t i = 0; i < o.stops.size(); ++i) { N t; assign_r(t, o.stops[i], ROUND_UP); st.push_back(t); }
    o.widen = [st](S& x, const S& y, unsigned* tp) { x.CC76_extrapolation_assign(y, st.begin(), st.end(), tp); };
    v.push_back(o); }
  { Ops<S> o; o.name = "BHMZ05"; o.conv = 1; o.cert = "h79s"; o.has_stops = false;
    o.widen = [](S& x, const S& y, unsigned* tp) { x.BHMZ05_widening_assign(y, tp); };
    o.limited = [](S& x, const S& y, const Constraint_System& cs, unsigned* tp) { x.limited_BHMZ05_extrapolation_assign(y, cs, tp); };
    v.push_back(o); }
  return v;
}
template <class S> static void add_bds_h79(std::vector<Ops<S> >& v) {
  Ops<S> o; o.name = "H79"; o.conv = 1; o.cert = "h79s"; o.has_stops = false;
  o.widen = [](S& x, const S& y, unsigned* tp) { x.H79_widening_assign(y, tp); };
  o.limited = [](S& x, const S& y, const Constraint_System& cs, unsigned* tp) { x.limited_H79_extrapolation_assign(y, cs, tp); };
  v.push_back(o);
}
static std::vector<Ops<XQ> > box_ops(Rng& r) {
  std::vector<Ops<XQ> > v;
  { Ops<XQ> o; o.name = "CC76"; o.conv = 1; o.cert = "box"; o.has_stops = true; o.stops = default_stops();
    o.widen = [](XQ& x, const XQ& y, unsigned* tp) { x.CC76_widening_assign(y, tp); };
    o.limited = [](XQ& x, const XQ& y, const Constraint_System& cs, unsigned* tp) { x.limited_CC76_extrapolation_assign(y, cs, tp); };
    v.push_back(o); }
  { Ops<XQ> o; o.name = "CC76stops"; o.conv = 1; o.cert = "box"; o.has_stops = true; o.stops = rnd_stops(r);
    std::vector<mpq_class> st = o.stops;
    // the overload with stop points has no token parameter: the token protocol is emulated as the
    // library does it for the other overload (so that the same judgement applies)
    o.widen = [st](XQ& x, const XQ& y, unsigned* tp) {
      if (tp != nullptr && *tp > 0) { XQ t(x); t.CC76_widening_assign(y, st.begin(), st.end()); if (!x.contains(t)) --*tp; return; }
      x.CC76_widening_assign(y, st.begin(), st.end()); };
    v.push_back(o); }
  return v;
}

// ------------------------------------------------------------------------------ standalone certificate lines
// generator systems with several rays: certificates that tie on the leading components
static Generator rnd_dir(Rng& r, dimension_type n, bool as_line) {
  for (;;) {
    Linear_Expression e = dimfix(n); bool nz = false;
    static const long cv[] = {-1, 0, 0, 0, 1, 1, 2};
    for (dimension_type i = 0; i < n; ++i) { long c = cv[r.below(7)]; if (c) nz = true; e += Coefficient(c) * Variable(i); }
    if (nz) return as_line ? line(e) : ray(e);
  }
}
static Generator_System rnd_rich_gs(Rng& r, dimension_type n) {
  Generator_System gs;
  unsigned np = r.chance(1, 2) ? (unsigned)n + 1 : 1 + r.below(2);      // often full-dimensional
  for (unsigned k = 0; k < np; ++k) {
    Linear_Expression e = dimfix(n);
    for (dimension_type i = 0; i < n; ++i) e += Coefficient(r.range(-2, 2)) * Variable(i);
    gs.insert(point(e));
  }
  unsigned nr = r.below(4);
  for (unsigned k = 0; k < nr; ++k) gs.insert(rnd_dir(r, n, false));
  if (r.chance(1, 8)) gs.insert(rnd_dir(r, n, true));
  return gs;
}
template <class PH> static void cert_lines(long id, Rng& r, dimension_type n) {
  try {
    bool rich = r.chance(3, 5);
    PH p = Tr<PH>::from_gs(rich ? rnd_rich_gs(r, n) : rnd_small_gs(r, n, 2), n);
    PH q = Tr<PH>::from_gs(rich ? rnd_rich_gs(r, n) : rnd_small_gs(r, n, 2), n);
    bool incl = r.chance(2, 3);
    if (rich && r.chance(1, 2)) {
      // q = p plus one or two generators: often ties on dimension and number of constraints
      Generator_System g2; { PH pc(p); const Generator_System& pg = pc.generators(); for (Generator_System::const_iterator i = pg.begin(); i != pg.end(); ++i) g2.insert(*i); }
      unsigned k = 1 + r.below(2);
      for (unsigned t = 0; t < k; ++t) { if (r.chance(1, 2)) g2.insert(rnd_dir(r, n, false)); else { Linear_Expression e = dimfix(n); for (dimension_type i = 0; i < n; ++i) e += Coefficient(r.range(-3, 3)) * Variable(i); g2.insert(point(e)); } }
      q = Tr<PH>::from_gs(g2, n); incl = true;
    }
    if (incl) q.upper_bound_assign(p);
    if (r.chance(1, 3)) { Constraint_System cs = rnd_cs(r, n, Tr<PH>::nnc, 2, false); PH q1(q); q1.add_constraints(cs); if (!q1.is_empty() && (!incl || q1.contains(p))) q = q1; }
    OS o; o << "cert " << id << " " << Tr<PH>::tag() << " " << n << " " << (incl ? 1 : 0); jl(o.str());
    jl(cert_data("CY", p, n));
    jl(cert_data("CR", q, n));
    PH pc(p), qc(q), qc2(q);
    OS k; k << "CK";
    const Polyhedron& ppc = pc; const Polyhedron& qpc = qc; const Polyhedron& qpc2 = qc2;
    { H79_Certificate cp(ppc); H79_Certificate cq(qpc); k << " h79 " << (incl ? cp.compare(qpc2) : 9) << " " << cp.compare(cq) << " " << cq.compare(cp); }
    { BHRZ03_Certificate cp(pc); BHRZ03_Certificate cq(qc); k << " bhrz " << (incl ? cp.compare(qc2) : 9) << " " << cp.compare(cq) << " " << cq.compare(cp)
        << " " << (cp.OK() ? 1 : 0) << (cq.OK() ? 1 : 0); }
    // the certificate must be a function of the point set: compare with certificates of rebuilt copies
    { k << " rep";
      for (int t = 0; t < 2; ++t) {
        PH p2 = Tr<PH>::rehist(r, p, n); PH p3(p);
        const Polyhedron& a = p3; const Polyhedron& b = p2;
        H79_Certificate ha(a), hb(b); BHRZ03_Certificate ba(a), bb(b);
        k << " " << ha.compare(hb) << " " << ba.compare(bb);
      } }
    jl(k.str());
    jl("endcert");
  } catch (...) { jl("exc " + pplv::exc_class()); jl("endcert"); }
}

// ---- MORE (grids, powersets) -------------------------------------------------------------------
// grids: congruence systems are printed as  m  (a_0 .. a_{n-1} b f)*   meaning  a.x + b = 0 (mod f)
static void put_cgs(OS& o, const Congruence_System& cgs, dimension_type n) {
  dimension_type m = 0;
  for (Congruence_System::const_iterator i = cgs.begin(); i != cgs.end(); ++i) ++m;
  o << " " << m;
  for (Congruence_System::const_iterator i = cgs.begin(); i != cgs.end(); ++i) {
    for (dimension_type k = 0; k < n; ++k) o << " " << (k < i->space_dimension() ? i->coefficient(Variable(k)) : Coefficient(0));
    o << " " << i->inhomogeneous_term() << " " << i->modulus();
  }
}
static void put_grid(OS& o, const Grid& g, dimension_type n) { Grid c(g); put_cgs(o, c.congruences(), n); }
static void put_grid_min(OS& o, const Grid& g, dimension_type n) { Grid c(g); put_cgs(o, c.minimized_congruences(), n); }
static std::string grid_line(const char* tag, const Grid& g, dimension_type n) { OS o; o << tag; put_grid(o, g, n); return o.str(); }

static Grid_Generator rnd_grid_point(Rng& r, dimension_type n, long b) {
  Linear_Expression e = dimfix(n);
  for (dimension_type i = 0; i < n; ++i) e += Coefficient(r.range(-b, b)) * Variable(i);
  static const long ds[] = {1, 1, 1, 2, 3, 4, 6};
  return grid_point(e, ds[r.below(7)]);
}
static Grid rnd_grid(Rng& r, dimension_type n) {
  Grid_Generator_System gs;
  gs.insert(rnd_grid_point(r, n, 4));
  unsigned k = r.below(3);
  for (unsigned i = 0; i < k; ++i) {
    Linear_Expression e = dimfix(n); bool nz = false;
    for (dimension_type j = 0; j < n; ++j) { long c = r.range(-6, 6); if (c) nz = true; e += Coefficient(c) * Variable(j); }
    if (!nz) continue;
    if (r.chance(1, 6)) gs.insert(grid_line(e)); else gs.insert(parameter(e, r.chance(1, 4) ? 2 : 1));
  }
  return Grid(gs);
}
static Grid grid_rehist(Rng& r, const Grid& x) {
  Grid c(x);
  switch (r.below(6)) {
    case 0: return c;
    case 1: return Grid(c.congruences());
    case 2: return Grid(c.minimized_congruences());
    case 3: return Grid(c.grid_generators());
    case 4: return Grid(c.minimized_grid_generators());
    default: (void)c.minimized_grid_generators(); (void)c.minimized_congruences(); return c;
  }
}
static Congruence_System rnd_limit_cgs(Rng& r, dimension_type n, const Grid& z) {
  Congruence_System cgs;
  unsigned m = 1 + r.below(3);
  std::vector<Congruence> zv;
  { Grid c(z); const Congruence_System& zc = c.minimized_congruences(); for (Congruence_System::const_iterator i = zc.begin(); i != zc.end(); ++i) zv.push_back(*i); }
  for (unsigned k = 0; k < m; ++k) {
    if (!zv.empty() && r.chance(1, 2)) {
      // a congruence of z, possibly weakened: the same expression with the modulus divided
      const Congruence& c = zv[r.below((unsigned)zv.size())];
      Linear_Expression e(c.expression());
      Coefficient f = c.modulus();
      if (f == 0) { if (r.chance(1, 2)) cgs.insert((e %= 0) / 0); else cgs.insert((e %= 0) / Coefficient(r.range(1, 4))); }
      else cgs.insert((e %= 0) / f);
    } else {
      Linear_Expression e = dimfix(n); bool nz = false;
      for (dimension_type j = 0; j < n; ++j) { long c = r.range(-3, 3); if (c) nz = true; e += Coefficient(c) * Variable(j); }
      if (!nz && n > 0) e += Variable(0);
      e += Coefficient(r.range(-3, 3));
      cgs.insert((e %= 0) / Coefficient(r.range(0, 4)));
    }
  }
  return cgs;
}
struct GridOp {
  std::string name;
  std::function<void(Grid&, const Grid&, unsigned*)> widen;
  std::function<void(Grid&, const Grid&, const Congruence_System&, unsigned*)> limited;
};
static std::vector<GridOp> grid_ops() {
  std::vector<GridOp> v;
  { GridOp o; o.name = "congruence"; o.widen = [](Grid& x, const Grid& y, unsigned* tp) { x.congruence_widening_assign(y, tp); };
    o.limited = [](Grid& x, const Grid& y, const Congruence_System& c, unsigned* tp) { x.limited_congruence_extrapolation_assign(y, c, tp); }; v.push_back(o); }
  { GridOp o; o.name = "generator"; o.widen = [](Grid& x, const Grid& y, unsigned* tp) { x.generator_widening_assign(y, tp); };
    o.limited = [](Grid& x, const Grid& y, const Congruence_System& c, unsigned* tp) { x.limited_generator_extrapolation_assign(y, c, tp); }; v.push_back(o); }
  { GridOp o; o.name = "widening"; o.widen = [](Grid& x, const Grid& y, unsigned* tp) { x.widening_assign(y, tp); };
    o.limited = [](Grid& x, const Grid& y, const Congruence_System& c, unsigned* tp) { x.limited_extrapolation_assign(y, c, tp); }; v.push_back(o); }
  return v;
}
static void emit_grid_certs(const Grid& y, const Grid& r, dimension_type n) {
  { OS o; o << "CY"; put_grid_min(o, y, n); jl(o.str()); }
  { OS o; o << "CR"; put_grid_min(o, r, n); jl(o.str()); }
  Grid yc(y), rc(r), rc2(r);
  Grid_Certificate cy(yc), cr(rc);
  OS o; o << "CK grid " << cy.compare(rc2) << " " << cy.compare(cr) << " " << cr.compare(cy); jl(o.str());
}
static void run_grid_chain(long id, Rng& r, dimension_type n) {
  std::vector<GridOp> ops = grid_ops();
  const GridOp& op = ops[r.below((unsigned)ops.size())];
  { OS o; o << "chain " << id << " G " << n << " " << op.name << " conv=1 cert=grid exact=1"; jl(o.str()); }
  Grid x(n, EMPTY);
  try { x = rnd_grid(r, n); } catch (...) { jl("exc " + pplv::exc_class() + " start"); jl("endchain 0 exc"); return; }
  long step = 0; const char* status = "limit";
  for (; step < g_limit; ++step) {
    try {
      Grid piece(n, EMPTY); bool found = false;
      for (int attempt = 0; attempt < 14 && !found; ++attempt) {
        Grid_Generator_System pg; pg.insert(rnd_grid_point(r, n, 3 + attempt));
        piece = Grid(pg);
        if (!x.contains(piece)) found = true;
      }
      if (!found) { status = "saturated"; break; }
      Grid z(x), z2(n, EMPTY);
      if (r.chance(1, 2)) { z.upper_bound_assign(piece); z = grid_rehist(r, z); }
      else { Grid p1 = grid_rehist(r, piece); Grid x1 = grid_rehist(r, x); z = p1; z.upper_bound_assign(x1); }
      { Grid x1 = grid_rehist(r, x); z2 = x1; z2.upper_bound_assign(piece); z2 = grid_rehist(r, z2); }
      Grid y2 = grid_rehist(r, x);
      { OS o; o << "step " << step; jl(o.str()); }
      jl(grid_line("Y", x, n)); jl(grid_line("Z", z, n)); jl(grid_line("Y2", y2, n)); jl(grid_line("Z2", z2, n));
      {
        unsigned tp0 = r.below(3), tp = tp0;
        Grid xt(z), yt(x);
        jl("run token");
        op.widen(xt, yt, &tp);
        OS o; o << "T " << tp0 << " " << tp; put_grid(o, xt, n); jl(o.str());
      }
      {
        Congruence_System lcgs = rnd_limit_cgs(r, n, z);
        Grid xl(z), yl(x);
        OS o; o << "L lim"; put_cgs(o, lcgs, n); o << " |";
        for (Congruence_System::const_iterator i = lcgs.begin(); i != lcgs.end(); ++i) o << " 1";
        jl("run limited " + o.str());
        op.limited(xl, yl, lcgs, nullptr);
        o << " |"; put_grid(o, xl, n); jl(o.str());
      }
      jl("run plain2");
      op.widen(z2, y2, nullptr);
      jl(grid_line("R2", z2, n));
      Grid res(z);
      jl("run plain");
      op.widen(res, x, nullptr);
      jl(grid_line("R", res, n));
      jl(grid_line("YA", x, n));
      emit_grid_certs(x, res, n);
      jl("endstep");
      bool stationary = x.contains(res);
      x = res;
      if (stationary) { status = "stationary"; ++step; break; }
    } catch (...) { jl("exc " + pplv::exc_class()); status = "exc"; break; }
  }
  OS o; o << "endchain " << step << " " << status; jl(o.str());
}
static void grid_cert_lines(long id, Rng& r, dimension_type n) {
  for (int k = 0; k < 4; ++k) {
    try {
      Grid p = rnd_grid(r, n), q = rnd_grid(r, n);
      bool incl = r.chance(2, 3);
      if (incl) q.upper_bound_assign(p);
      OS o; o << "gcert " << id * 10 + k << " G " << n << " " << (incl ? 1 : 0); jl(o.str());
      { OS c; c << "CY"; put_grid_min(c, p, n); jl(c.str()); }
      { OS c; c << "CR"; put_grid_min(c, q, n); jl(c.str()); }
      Grid pc(p), qc(q), qc2(q), p2 = grid_rehist(r, p), p3 = grid_rehist(r, p);
      Grid_Certificate cp(pc), cq(qc), cp2(p2);
      OS kx; kx << "CK grid " << cp.compare(qc2) << " " << cp.compare(cq) << " " << cq.compare(cp) << " rep " << cp.compare(cp2) << " " << cp.compare(p3);
      jl(kx.str());
      jl("endcert");
    } catch (...) { jl("exc " + pplv::exc_class()); jl("endcert"); }
  }
}

// ---- powersets of polyhedra
template <class PH> static void put_ps(OS& o, const Pointset_Powerset<PH>& ps, dimension_type n) {
  o << " " << ps.size();
  for (typename Pointset_Powerset<PH>::const_iterator i = ps.begin(); i != ps.end(); ++i) { PH c(i->pointset()); put_cs(o, c.constraints(), n); }
}
template <class PH> static std::string ps_line(const char* tag, const Pointset_Powerset<PH>& ps, dimension_type n) { OS o; o << tag; put_ps(o, ps, n); return o.str(); }
template <class PH> static Pointset_Powerset<PH> ps_rehist(Rng& r, const Pointset_Powerset<PH>& ps, dimension_type n, bool permute) {
  std::vector<PH> v;
  for (typename Pointset_Powerset<PH>::const_iterator i = ps.begin(); i != ps.end(); ++i) v.push_back(Tr<PH>::rehist(r, i->pointset(), n));
  if (permute) shuffle(r, v);
  Pointset_Powerset<PH> out(n, EMPTY);
  for (size_t i = 0; i < v.size(); ++i) out.add_disjunct(v[i]);
  return out;
}
template <class PH> static void emit_ps_certs(const char* tagD, const char* tagH, const Pointset_Powerset<PH>& ps, dimension_type n) {
  PH hull(n, EMPTY);
  for (typename Pointset_Powerset<PH>::const_iterator i = ps.begin(); i != ps.end(); ++i) {
    jl(cert_data(tagD, i->pointset(), n));
    hull.upper_bound_assign(i->pointset());
  }
  jl(cert_data(tagH, hull, n));
}
template <class PH> struct PsOp {
  std::string name; int conv; std::string cert;
  std::function<void(Pointset_Powerset<PH>&, const Pointset_Powerset<PH>&)> widen;
};
template <class PH> static std::vector<PsOp<PH> > ps_ops(Rng& r) {
  typedef Pointset_Powerset<PH> PS;
  std::vector<PsOp<PH> > v;
  { PsOp<PH> o; o.name = "BHZ03-H79-H79"; o.conv = 1; o.cert = "h79";
    o.widen = [](PS& x, const PS& y) { x.template BHZ03_widening_assign<H79_Certificate>(y, widen_fun_ref(&PH::H79_widening_assign)); }; v.push_back(o); }
  { PsOp<PH> o; o.name = "BHZ03-BHRZ03-BHRZ03"; o.conv = 1; o.cert = "bhrz";
    o.widen = [](PS& x, const PS& y) { x.template BHZ03_widening_assign<BHRZ03_Certificate>(y, widen_fun_ref(&PH::BHRZ03_widening_assign)); }; v.push_back(o); }
  { PsOp<PH> o; o.name = "BHZ03-BHRZ03-H79"; o.conv = 1; o.cert = "bhrz";
    o.widen = [](PS& x, const PS& y) { x.template BHZ03_widening_assign<BHRZ03_Certificate>(y, widen_fun_ref(&PH::H79_widening_assign)); }; v.push_back(o); }
  { unsigned k = 1 + r.below(3); PsOp<PH> o; o.name = "BGP99-H79-" + std::to_string(k); o.conv = 0; o.cert = "none";
    o.widen = [k](PS& x, const PS& y) { x.BGP99_extrapolation_assign(y, widen_fun_ref(&PH::H79_widening_assign), k); }; v.push_back(o); }
  { unsigned k = 1 + r.below(3); PsOp<PH> o; o.name = "BGP99-BHRZ03-" + std::to_string(k); o.conv = 0; o.cert = "none";
    o.widen = [k](PS& x, const PS& y) { x.BGP99_extrapolation_assign(y, widen_fun_ref(&PH::BHRZ03_widening_assign), k); }; v.push_back(o); }
  return v;
}
template <class PH> static void run_powerset_chain(long id, Rng& r, dimension_type n) {
  typedef Pointset_Powerset<PH> PS;
  std::vector<PsOp<PH> > ops = ps_ops<PH>(r);
  const PsOp<PH>& op = ops[r.below((unsigned)ops.size())];
  bool permute = r.chance(1, 3);
  { OS o; o << "chain " << id << " P" << Tr<PH>::tag() << " " << n << " " << op.name << " conv=" << op.conv << " cert=" << op.cert
            << " exact=1 perm=" << (permute ? 1 : 0); jl(o.str()); }
  PS x(n, EMPTY);
  try {
    unsigned k = 1 + r.below(2);
    for (unsigned i = 0; i < k; ++i) x.add_disjunct(Tr<PH>::from_gs(rnd_small_gs(r, n, 1), n));
    x.omega_reduce();
  } catch (...) { jl("exc " + pplv::exc_class() + " start"); jl("endchain 0 exc"); return; }
  long step = 0; const char* status = "limit";
  for (; step < std::min(g_limit, 40L); ++step) {
    try {
      if (x.size() > 10) { status = "capped"; break; }    // work guard: not judged
      // hull of x (closed) to aim just outside
      C_Polyhedron hull(n, EMPTY);
      for (typename PS::const_iterator i = x.begin(); i != x.end(); ++i) hull.upper_bound_assign(closed_hull_of(i->pointset()));
      PS piece(n, EMPTY); bool found = false;
      for (int attempt = 0; attempt < 14 && !found; ++attempt) {
        Generator_System pg; pg.insert(rnd_outside_point(r, n, hull, attempt));
        if (r.chance(1, 3)) pg.insert(rnd_outside_point(r, n, hull, attempt));
        PS p1(n, EMPTY); p1.add_disjunct(Tr<PH>::from_gs(pg, n));
        if (!x.geometrically_covers(p1)) { piece = p1; found = true; }
      }
      if (!found) { status = "saturated"; break; }
      PS z = ps_rehist(r, x, n, false); z.upper_bound_assign(piece);
      if (r.chance(1, 3)) z.omega_reduce();
      PS y2 = ps_rehist(r, x, n, permute);
      PS z2 = ps_rehist(r, z, n, permute);
      { OS o; o << "step " << step; jl(o.str()); }
      jl(ps_line("Y", x, n)); jl(ps_line("Z", z, n)); jl(ps_line("Y2", y2, n)); jl(ps_line("Z2", z2, n));
      jl("run plain2");
      op.widen(z2, y2);
      jl(ps_line("R2", z2, n));
      PS res(z);
      jl("run plain");
      op.widen(res, x);
      jl(ps_line("R", res, n));
      jl(ps_line("YA", x, n));
      if (op.conv) { emit_ps_certs("CYD", "CYH", x, n); emit_ps_certs("CRD", "CRH", res, n); }
      jl("endstep");
      bool stationary = x.definitely_entails(res) && res.definitely_entails(x);
      x = res;
      if (stationary) { status = "stationary"; ++step; break; }
    } catch (...) { jl("exc " + pplv::exc_class()); status = "exc"; break; }
  }
  OS o; o << "endchain " << step << " " << status; jl(o.str());
}

// ---- powersets of grids
static void put_psg(OS& o, const PG& ps, dimension_type n) {
  o << " " << ps.size();
  for (PG::const_iterator i = ps.begin(); i != ps.end(); ++i) put_grid(o, i->pointset(), n);
}
static std::string psg_line(const char* tag, const PG& ps, dimension_type n) { OS o; o << tag; put_psg(o, ps, n); return o.str(); }
static PG psg_rehist(Rng& r, const PG& ps, dimension_type n) {
  PG out(n, EMPTY);
  for (PG::const_iterator i = ps.begin(); i != ps.end(); ++i) out.add_disjunct(grid_rehist(r, i->pointset()));
  return out;
}
static void emit_psg_certs(const char* tagD, const char* tagH, const PG& ps, dimension_type n) {
  Grid hull(n, EMPTY);
  for (PG::const_iterator i = ps.begin(); i != ps.end(); ++i) {
    OS o; o << tagD; put_grid_min(o, i->pointset(), n); jl(o.str());
    hull.upper_bound_assign(i->pointset());
  }
  OS o; o << tagH; put_grid_min(o, hull, n); jl(o.str());
}
static void run_powerset_grid_chain(long id, Rng& r, dimension_type n) {
  unsigned which = r.below(3);
  std::string name = which == 0 ? "BHZ03-Grid-congruence" : which == 1 ? "BHZ03-Grid-generator" : "BGP99-congruence-2";
  int conv = which < 2 ? 1 : 0;
  { OS o; o << "chain " << id << " PG " << n << " " << name << " conv=" << conv << " cert=" << (conv ? "grid" : "none") << " exact=1"; jl(o.str()); }
  auto widen = [which](PG& x, const PG& y) {
    if (which == 0) x.BHZ03_widening_assign<Grid_Certificate>(y, widen_fun_ref(&Grid::congruence_widening_assign));
    else if (which == 1) x.BHZ03_widening_assign<Grid_Certificate>(y, widen_fun_ref(&Grid::generator_widening_assign));
    else x.BGP99_extrapolation_assign(y, widen_fun_ref(&Grid::congruence_widening_assign), 2);
  };
  PG x(n, EMPTY);
  try { unsigned k = 1 + r.below(2); for (unsigned i = 0; i < k; ++i) x.add_disjunct(rnd_grid(r, n)); x.omega_reduce(); }
  catch (...) { jl("exc " + pplv::exc_class() + " start"); jl("endchain 0 exc"); return; }
  long step = 0; const char* status = "limit";
  for (; step < std::min(g_limit, 40L); ++step) {
    try {
      if (x.size() > 10) { status = "capped"; break; }
      PG piece(n, EMPTY); bool found = false;
      for (int attempt = 0; attempt < 14 && !found; ++attempt) {
        Grid_Generator_System pg; pg.insert(rnd_grid_point(r, n, 3 + attempt));
        if (r.chance(1, 3)) { Linear_Expression e = dimfix(n); bool nz = false; for (dimension_type j = 0; j < n; ++j) { long c = r.range(-4, 4); if (c) nz = true; e += Coefficient(c) * Variable(j); } if (nz) pg.insert(parameter(e)); }
        Grid g(pg);
        bool covered = false;
        for (PG::const_iterator i = x.begin(); i != x.end(); ++i) if (i->pointset().contains(g)) covered = true;
        if (!covered) { piece.add_disjunct(g); found = true; }
      }
      if (!found) { status = "saturated"; break; }
      PG z = psg_rehist(r, x, n); z.upper_bound_assign(piece);
      PG y2 = psg_rehist(r, x, n), z2 = psg_rehist(r, z, n);
      { OS o; o << "step " << step; jl(o.str()); }
      jl(psg_line("Y", x, n)); jl(psg_line("Z", z, n)); jl(psg_line("Y2", y2, n)); jl(psg_line("Z2", z2, n));
      jl("run plain2"); widen(z2, y2); jl(psg_line("R2", z2, n));
      PG res(z);
      jl("run plain"); widen(res, x); jl(psg_line("R", res, n));
      jl(psg_line("YA", x, n));
      if (conv) { emit_psg_certs("CYD", "CYH", x, n); emit_psg_certs("CRD", "CRH", res, n); }
      jl("endstep");
      bool stationary = x.definitely_entails(res) && res.definitely_entails(x);
      x = res;
      if (stationary) { status = "stationary"; ++step; break; }
    } catch (...) { jl("exc " + pplv::exc_class()); status = "exc"; break; }
  }
  OS o; o << "endchain " << step << " " << status; jl(o.str());
}
// ---- END MORE ------------------------------------------------------------------------------------

// KF-C08-1 in isolation (own forked child): a supplied constraint without variables
template <class S> static void probe_const_row(long id, bool cc76) {
  const dimension_type n = 1;
  Variable A(0);
  { OS o; o << "chain " << id << " " << Tr<S>::tag() << " 1 " << (cc76 ? "CC76" : "BHMZ05") << " conv=0 cert=none exact=1 probe=const_row"; jl(o.str()); }
  S x(1), y(1);
  x.add_constraint(A <= 2); x.add_constraint(A >= -1);
  y.add_constraint(A <= 0); y.add_constraint(A >= -1);
  Constraint_System cs; cs.insert(0 * A >= 1); cs.insert(-2 * A + 7 >= 0);
  jl("step 0");
  jl(set_line("Y", y, n)); jl(set_line("Z", x, n));
  S xl(x), yl(y);
  OS o; o << "L lim"; put_cs(o, cs, n); o << " | 0 1";
  jl("run limited " + o.str());
  try {
    if (cc76) xl.limited_CC76_extrapolation_assign(yl, cs); else xl.limited_BHMZ05_extrapolation_assign(yl, cs);
    o << " |"; put_set(o, xl, n); jl(o.str());
    S res(x), yy(y);
    jl("run plain");
    if (cc76) res.CC76_extrapolation_assign(yy); else res.BHMZ05_widening_assign(yy);
    jl(set_line("R", res, n));
    jl("endstep");
    jl("endchain 1 saturated");
  } catch (...) { jl("exc " + pplv::exc_class()); jl("endchain 0 exc"); }
}

int main(int argc, char** argv) {
  long probe = pplv::arg_long(argc, argv, "--probe", -1);
  if (probe >= 0) {
    switch (probe) {
      case 0: probe_const_row<BQ>(900000, true); break;
      case 1: probe_const_row<BQ>(900001, false); break;
      case 2: probe_const_row<BD>(900002, true); break;
      default: probe_const_row<BD>(900003, false); break;
    }
    return 0;
  }
  long seed = pplv::arg_long(argc, argv, "--seed", 1);
  long first = pplv::arg_long(argc, argv, "--first", 0);
  long last = pplv::arg_long(argc, argv, "--last", 40);
  long batch = pplv::arg_long(argc, argv, "--batch", 8);
  g_limit = pplv::arg_long(argc, argv, "--limit", 200);
  std::string only = pplv::arg_str(argc, argv, "--only", "");
  long nb = (last - first + batch - 1) / batch;
  return pplv::run_batches(0, nb + 4, [&](long b) {
    if (b >= nb) {
      if (!only.empty() && only != "probe") return;
      // a fresh process image: the hole is an out-of-bounds access, its effect depends on the heap
      char k[8]; snprintf(k, sizeof k, "%ld", b - nb);
      char* const av[] = { (char*)"c08_widen", (char*)"--probe", k, nullptr };
      fflush(stdout);
      execv("/proc/self/exe", av);
      _exit(3);
    }
    for (long h = first + b * batch; h < std::min(last, first + (b + 1) * batch); ++h) {
      Rng r((uint64_t)seed * 1000003ull + (uint64_t)h);
      unsigned which = (unsigned)(h % 16);
      dimension_type n = 1 + r.below(3);
      const char* doms[16] = {"C", "N", "BQ", "OQ", "XQ", "BD", "OD", "cert", "PC", "PN", "G", "PG", "C", "N", "BQ", "OQ"};
      if (!only.empty() && only != doms[which]) continue;
      switch (which) {
        case 0: case 12: { std::vector<Ops<C_Polyhedron> > v = poly_ops<C_Polyhedron>(); run_chain(h, r, n, v[r.below((unsigned)v.size())]); break; }
        case 1: case 13: { std::vector<Ops<NNC_Polyhedron> > v = poly_ops<NNC_Polyhedron>(); run_chain(h, r, n, v[r.below((unsigned)v.size())]); break; }
        case 2: case 14: { std::vector<Ops<BQ> > v = shape_ops<BQ, Checked_Number<mpq_class, WRD_Extended_Number_Policy> >(r, true); add_bds_h79(v); run_chain(h, r, n, v[r.below((unsigned)v.size())]); break; }
        case 3: case 15: { if (n == 3 && !r.chance(1, 4)) n = 2; std::vector<Ops<OQ> > v = shape_ops<OQ, Checked_Number<mpq_class, WRD_Extended_Number_Policy> >(r, false); run_chain(h, r, n, v[r.below((unsigned)v.size())]); break; }
        case 4: { std::vector<Ops<XQ> > v = box_ops(r); run_chain(h, r, n, v[r.below((unsigned)v.size())]); break; }
        case 5: { std::vector<Ops<BD> > v = shape_ops<BD, Checked_Number<double, WRD_Extended_Number_Policy> >(r, true); add_bds_h79(v); run_chain(h, r, n, v[r.below((unsigned)v.size())]); break; }
        case 6: { if (n == 3 && !r.chance(1, 4)) n = 2; std::vector<Ops<OD> > v = shape_ops<OD, Checked_Number<double, WRD_Extended_Number_Policy> >(r, false); run_chain(h, r, n, v[r.below((unsigned)v.size())]); break; }
        case 7: { if (n == 1 && r.chance(2, 3)) n = 2 + r.below(2); for (int k = 0; k < 16; ++k) { if (r.chance(1, 2)) cert_lines<C_Polyhedron>(h * 10 + k, r, n); else cert_lines<NNC_Polyhedron>(h * 10 + k, r, n); } grid_cert_lines(h, r, n); break; }
        case 8: run_powerset_chain<C_Polyhedron>(h, r, std::min<dimension_type>(n, 2)); break;
        case 9: run_powerset_chain<NNC_Polyhedron>(h, r, std::min<dimension_type>(n, 2)); break;
        case 10: run_grid_chain(h, r, n); break;
        default: run_powerset_grid_chain(h, r, std::min<dimension_type>(n, 2)); break;
      }
    }
  }, 120);
}
