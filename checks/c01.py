"""C01 — one point set per polyhedron, whatever its history."""
from . import poly_common as pc
from . import c01_status
from . import c01_conv
from . import c01_full
LEVEL = "proof"


def run(ctx):
    ctx.ensure_ppl()
    broken = ctx.prove(["PPLV.Props.C01"])
    quick = ctx.tier == "quick"
    if not quick:
        broken += ctx.leanchecker(["PPLV.Props.C01"])
    pc.run_poly(ctx, ops="c01", n_hist=1500 if quick else 12000, length=12 if quick else 16, maxdim=3)
    if not quick:
        # dimension 4 makes the exact oracle (Fourier-Motzkin fallback) expensive: a smaller, shorter batch
        pc.run_poly(ctx, ops="c01", n_hist=1500, length=10, maxdim=4, first=100000, tag="c01 dim4")
    broken += c01_status.run(ctx)          # stage 2: the lazy status protocol (proof + status correspondence)
    broken += c01_conv.run(ctx)            # stage 3: the double-description engine (conversion / simplify / minimize)
    broken += c01_full.run(ctx)            # integration stage: the whole Polyhedron object, histories through the full model
    for b in broken:
        # a proof obligation broke but the correspondence above found no failing input
        ctx.violation("proof obligation broken: " + b, {"obligation": b}, found_input=False)
    ctx.assumptions += [
        "the judge (K1 deciders) is proved sound and complete; 'all histories' of the real code is sampled by seeded histories",
        "Chernikova conversion/simplification: modelled row for row in stage 3 (PPLV/Conv, soundness proved, completeness certified per run); "
        "in the histories above they are observed through constraints()/generators() against the exact oracle",
        "every query oracle is proved two-sided (C01.query_*: is_bounded via supB, affine_dimension via Gaussian elimination "
        "on the implicit equalities with an explicit affine basis, relation_with congruence / generator, constrains)",
    ]
