"""C08 stage 2, grid slice — the GRID widening implementations inside the Lean model (helper of checks/c08.py).

proof:  PPLV.Props.C08ImplGrid over the code-shaped model lean/PPLV/Widen/ImplGrid.lean of /repo/src/Grid_widenings.cc
        (select_wider_congruences, congruence_widening_assign, select_wider_generators, generator_widening_assign,
        widening_assign, the three limited_*_extrapolation_assign; Grid::simplify / Grid::conversion are the models of
        C05 stage 2): the selected congruences are (strongly normalised) rows of x's minimised system, so the result
        contains x; the early returns return x; the token protocol; limited extrapolation lies between x and the plain
        widening and keeps the selected supplied congruences; a parameter turned into a line only enlarges the grid and
        strictly lowers the number of parameters.
tie:    harness/c08_impl_grid.cc drives ascending chains of grids (dimensions 1-4, every combination of up-to-date /
        minimised descriptions) through the six REAL entry points and journals the raw members of x and y (con_sys,
        gen_sys, dim_kinds, status flags) before and after each call, the minimised copies and the output of the private
        select_wider_* run on them, the token count, the supplied congruences with the library's
        relation_with(cg) == is_included() answer, the plain widening for the limited variants, and the library's
        Grid_Certificate members.  The native driver pplv_widenimpl_grid replays the model and demands identical objects
        (xstate / ystate / xmin / ymin), identical selected rows in the same order (select), identical token counts (tp),
        and judges the theorems' conclusions on the REAL output with the verified K2 grid deciders: sup, token,
        lim_upper, lim_keeps, cert (certificate strictly below y's unless stationary), certval.
A pure correspondence difference is reported with no-failing-input-found; a conclusion broken by the real output
(sup / token / lim_* / cert / guard) or a crash is a violation with the harness arguments regenerating the case as replay.
"""
import collections, hashlib, json, os, re, shutil
from .common import BUILD

PROPS = ["PPLV.Props.C08ImplGrid"]
# obligations judged on the real output (the property's clauses) vs. pure model/code correspondence
PROPERTY_OBL = {"sup", "token", "lim_upper", "lim_keeps", "cert", "guard"}
SITE = {"congruence_widening": "Grid::congruence_widening_assign", "generator_widening": "Grid::generator_widening_assign",
        "widening": "Grid::widening_assign", "limited_congruence": "Grid::limited_congruence_extrapolation_assign",
        "limited_generator": "Grid::limited_generator_extrapolation_assign", "limited": "Grid::limited_extrapolation_assign"}


def run(ctx):
    """returns the number of broken obligations (each one is reported here)."""
    broken = ctx.prove(PROPS)
    if ctx.tier == "thorough":
        broken += ctx.leanchecker(PROPS)
    drv = ctx.ensure_pplv("pplv_widenimpl_grid")
    h = ctx.compile_harness("c08_impl_grid.cc")
    wd = os.path.join(BUILD, "run-%s-implgrid-%d" % (ctx.pid, os.getpid()))
    shutil.rmtree(wd, ignore_errors=True)
    os.makedirs(wd)
    nchain = 700 if ctx.tier == "quick" else 20000
    seed, first, last = ctx.seed, 0, nchain
    if ctx.replay:
        try:
            rp = json.load(open(ctx.replay))
        except Exception:
            rp = {}
        if "impl_grid_chain" in rp:
            seed = rp.get("seed", seed)
            first, last = int(rp["impl_grid_chain"]), int(rp["impl_grid_chain"]) + 1
    journal = os.path.join(wd, "journal.txt")
    cmd = [h, "--seed", str(seed), "--first", str(first), "--last", str(last), "--per-batch", "50"]
    rc, _, err = ctx.run(cmd, stdout_path=journal, timeout=1500)
    if rc != 0:
        ctx.fatal("harness c08_impl_grid failed rc=%s %s" % (rc, (err or "")[-500:]))
    verdicts = os.path.join(wd, "verdicts.txt")
    rc, _, err = ctx.run([drv], stdin_path=journal, stdout_path=verdicts, timeout=1500)
    if rc != 0:
        ctx.fatal("driver pplv_widenimpl_grid failed rc=%s %s" % (rc, (err or "")[-500:]))

    J = [l.rstrip("\n") for l in open(journal)]
    calls = {}
    for l in J:
        if l.startswith("W "):
            t = l.split(" ", 3)
            calls[t[1]] = (t[2], l)
    V = collections.defaultdict(list)
    for l in open(verdicts):
        t = l.rstrip("\n").split(" ", 2)
        if len(t) >= 2:
            V[t[1]].append((t[0], t[2] if len(t) > 2 else ""))
    missing = [i for i in calls if i not in V]
    if missing:
        ctx.fatal("pplv_widenimpl_grid judged %d of %d journalled calls (first missing: %s)" % (len(calls) - len(missing), len(calls), missing[0]))
    unparsable = [i for i, vs in V.items() if any(v[0] == "skip" and "unparsable" in v[1] for v in vs)]
    if unparsable:
        ctx.fatal("pplv_widenimpl_grid could not parse call %s: %s" % (unparsable[0], calls.get(unparsable[0], ("", ""))[1][:300]))

    harness_name = os.path.basename(h)

    def replay_obj(call_id, extra):
        chain = call_id.split(".")[0]
        o = {"impl_grid_chain": int(chain) if chain.isdigit() else chain, "call": call_id,
             "journal_line": calls.get(call_id, ("", None))[1],
             "harness_args": ["--seed", str(seed), "--first", chain, "--last", str(int(chain) + 1) if chain.isdigit() else chain],
             "replay_cmd": "build/%s --seed %d --first %s --last %s | lean/.lake/build/bin/pplv_widenimpl_grid" % (
                 harness_name, seed, chain, (int(chain) + 1) if chain.isdigit() else chain)}
        o.update(extra)
        return o

    hist = collections.defaultdict(collections.Counter)
    mism = collections.Counter()
    reported = collections.Counter()
    distinct, nontrivial = set(), set()
    n_ok = n_bad = n_skip = 0
    samples = []
    for cid, (op, line) in calls.items():
        inp = line.split(" => ")[0]
        key = hashlib.sha256(re.sub(r"^W \S+ ", "W ", inp).encode()).hexdigest()[:16]
        distinct.add(key)
        for verdict, rest in V[cid]:
            if verdict == "ok":
                n_ok += 1
                kv = dict(m.groups() for m in re.finditer(r"(\w+)=(\S+)", rest))
                for k in ("op", "n", "exit", "tp", "xflags", "yflags", "stationary", "lossy", "path"):
                    if k in kv:
                        hist[k][kv[k]] += 1
                hist["op_exit"]["%s/%s" % (kv.get("op"), kv.get("exit"))] += 1
                if "sel" in kv and "of" in kv:
                    hist["selected_of"]["%s/%s" % (kv["sel"], kv["of"])] += 1
                if int(kv.get("lim", "0")) > 0:
                    hist["limited_supplied_selected"]["%s of %s" % (kv.get("limsat"), kv.get("lim"))] += 1
                if kv.get("exit") in ("widened", "token_used", "token_kept") or kv.get("lossy") == "1":
                    nontrivial.add(key)
                if len(samples) < 5 and kv.get("exit") == "widened" and kv.get("n") in ("2", "3"):
                    samples.append(line[:500])
            elif verdict == "skip":
                n_skip += 1
                hist["skip"][rest.split(" ")[0] if rest else "?"] += 1
            elif verdict == "MISMATCH":
                n_bad += 1
                t = rest.split(" ", 1)
                obl, detail = t[0], (t[1] if len(t) > 1 else "")
                site = SITE.get(op, op)
                mism["%s %s" % (site, obl)] += 1
                reported[(site, obl)] += 1
                if reported[(site, obl)] > 2:
                    continue
                property_broken = obl in PROPERTY_OBL
                if property_broken:
                    what = "%s: the real output breaks a proved conclusion (%s): %s" % (site, obl, detail[:600])
                else:
                    what = ("%s: the real code no longer does what the verified model does (%s differs; the conclusions of the "
                            "theorems still hold of the real output on this call): %s" % (site, obl, detail[:600]))
                ctx.violation(what, replay_obj(cid, {"obligation": obl, "detail": detail, "site": site}),
                              found_input=property_broken, record={"site": site, "tags": [obl]})
    # crashes / exceptions of the real functions
    last_try = None
    for l in J:
        if l.startswith("try "):
            last_try = l
        elif l.startswith("crash") or l.startswith("exc "):
            n_bad += 1
            t = last_try.split() if last_try else ["try", "?", "?"]
            site = SITE.get(t[2], t[2])
            mism["%s crash" % site] += 1
            reported[(site, "crash")] += 1
            if reported[(site, "crash")] <= 2:
                ctx.violation("%s: the library crashed / threw (%s) on a journalled call" % (site, l[:80]),
                              replay_obj(t[1], {"crash": l, "during": last_try, "site": site}),
                              found_input=True, record={"site": site, "tags": ["crash"]})
    for b in broken:
        ctx.violation("proof obligation broken (C08 stage 2, grid implementations): " + b,
                      {"obligation": b, "note": "the correspondence run is the search for a failing input in the implementation; "
                       "it found %d mismatching calls" % n_bad},
                      found_input=False, record={"site": "lean", "tags": ["proof"]})
    ctx.cov["impl_grid"] = {
        "chains": last - first, "calls": len(calls), "calls_agree": n_ok, "mismatches_or_crashes": n_bad, "calls_skipped": n_skip,
        "distinct_inputs": len(distinct), "distinct_nontrivial": len(nontrivial),
        "rule": "a call = one of the six Grid widening entry points on (x, y) with y <= x taken from a seeded ascending chain, with a "
                "seeded history of both objects; distinct by sha256 of the journalled members of x and y, the operator, the tokens "
                "and the supplied congruences; non-trivial: the call reaches select_wider_* and builds a result (exit widened / "
                "token_*) or the result is strictly larger than x",
        "histograms": {k: dict(v) for k, v in hist.items()},
        "mismatch_histogram": dict(mism), "samples": samples,
        "compared": "members of x and y after the call (status flags, con_sys, gen_sys, dim_kinds) exactly; minimised inputs exactly; "
                    "rows selected by the private select_wider_congruences / select_wider_generators row for row in order; token count; "
                    "relation_with(cg)==is_included() per supplied congruence; on the real output with the K2 deciders: result contains x, "
                    "object unchanged with tokens, limited inside plain, supplied congruences kept, Grid certificate strictly below y's "
                    "unless stationary, Grid_Certificate members = counts of the minimised congruences",
    }
    ctx.assumptions += [
        "C08 stage 2 (grid): Grid::contains and Grid::relation_with(Congruence) are parameters of the model (assumed exact in the "
        "theorems); the driver instantiates them with the verified K2 deciders and every journalled answer of the library is compared",
        "C08 stage 2 (grid): Grid_Generator_System::num_lines / num_parameters are modelled by their unsorted branch; the harness "
        "journals the sortedness flag of every gen_sys and the driver reports a call on which it is set",
    ]
    if not ctx.violations:
        shutil.rmtree(wd, ignore_errors=True)
    return len(broken)
