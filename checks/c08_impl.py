"""C08 stage 2 — the widening IMPLEMENTATIONS inside the Lean model (helper of checks/c08.py).

proof:  PPLV.Props.C08Impl over the code-shaped models lean/PPLV/Widen/ImplH79.lean
        (Polyhedron::select_CH78_constraints, select_H79_constraints with the saturation-row lookup and the
        swap-with-last removal of tautologies, H79_widening_assign with the topology handling, the [CousotH78]
        shortcut, the token logic and the final add_recycled_constraints, limited_H79_extrapolation_assign) and
        lean/PPLV/Widen/ImplBHRZ03.lean (BHRZ03_widening_assign: precheck, token, the acceptance contract of the
        three techniques, BHRZ03_combining_constraints' construction, H79 fallback); semantics and the contract of
        the conversions (MinimalDD) in lean/PPLV/Widen/ImplPolySem.lean.
        PPLV.Props.C08ImplShape (BD_Shape / Octagonal_Shape / Box: CC76, BHMZ05, limited variants) and
        PPLV.Props.C08ImplGrid (Grid congruence / generator widenings) through checks/c08_impl_shape.py and
        checks/c08_impl_grid.py.
tie:    harness/c08_impl.cc journals, for every widening step of seeded adversarial chains and direct pairs y <= x
        (C and NNC polyhedra, dimensions 1-3, arguments re-represented through random histories so that every
        status combination occurs), the raw rows and flags of x and y as the function sees them, the function's
        own preamble replayed on copies with the same private calls, the outputs of the REAL private
        select_CH78_constraints / select_H79_constraints / BHRZ03_combining_constraints / evolving_points /
        evolving_rays, y's sat_g, and the results of the public calls with and without tokens.
        The native driver pplv_widenimpl replays the model on the same data and demands identical selected rows
        (row for row, in order), identical result (K1 equivB + raw rows as a set of normalised rows), identical
        token count, identical branch; checks the oracle contract (sat_g, double description, one tautology,
        the facet clause) on the journalled data; and judges the theorems' conclusions on the real output
        (containment by K1, certificate comparison by the certificate models of Widen/Model.lean).
A conclusion obligation that fails on the real output is a violation of the property with the history as replay;
a correspondence / contract difference alone (conclusions hold) is reported as VIOLATION … no-failing-input-found.
"""
import collections, concurrent.futures as cf, hashlib, importlib, json, os, re, shutil

from .common import BUILD

PROPS = ["PPLV.Props.C08Impl"]
CONCLUSIONS = {"sup_x", "sup_y", "yconst", "cert_decrease", "cert_decrease_inplace", "accept_contract", "fallback_stabilizing",
               "exc", "crash"}
# obligations that read a BHRZ03 certificate: with a non-trivial lineality space the certificate is not a function of the
# point set (KF-C08-5/6/9/10), and what compare(ph) computes for the rays is not what BHRZ03_Certificate(ph) computes
CERT_OBL = {"precheck", "cert_decrease", "cert_decrease_inplace", "accept_contract", "fallback_stabilizing"}
NPROC = 12


def _drive(ctx, drv, journal, wd):
    starts = [i for i, l in enumerate(journal) if l.startswith("hist ")]
    if not starts:
        return [], []
    blocks = [(a, b) for a, b in zip(starts, starts[1:] + [len(journal)])]
    nchunk = max(1, min(NPROC, len(blocks)))
    chunks = [blocks[k::nchunk] for k in range(nchunk)]

    def work(k):
        cp = os.path.join(wd, "ichunk%d.txt" % k)
        with open(cp, "w") as f:
            for a, b in chunks[k]:
                f.write("\n".join(journal[a:b]) + "\n")
        rc, out, err = ctx.run([drv], stdin_path=cp, timeout=3000)
        if rc != 0:
            ctx.fatal("driver pplv_widenimpl failed rc=%s %s" % (rc, (err or "")[-500:]))
        return out

    verd, info = [], []
    with cf.ThreadPoolExecutor(nchunk) as ex:
        for out in ex.map(work, range(nchunk)):
            for l in out.splitlines():
                t = l.split(None, 3)
                if len(t) >= 3 and t[0] in ("ok", "skip", "MISMATCH"):
                    verd.append((t[0], t[1], t[2], t[3] if len(t) > 3 else ""))
                elif t and t[0] == "info":
                    info.append((t[1], dict(kv.split("=", 1) for kv in l.split()[2:] if "=" in kv)))
    return verd, info


def _step_lines(journal, sid):
    out, on = [], False
    for l in journal:
        if l.startswith(("h79 %s " % sid, "bhrz %s " % sid)):
            on = True
        if on:
            out.append(l[:400])
            if l.startswith("endstep"):
                break
    return out


def run_poly(ctx, seed=None, first=0, last=None):
    broken = ctx.prove(PROPS)
    if ctx.tier == "thorough":
        broken += ctx.leanchecker(PROPS)
    drv = ctx.ensure_pplv("pplv_widenimpl")
    h = ctx.compile_harness("c08_impl.cc")
    wd = os.path.join(BUILD, "run-%s-impl-%d" % (ctx.pid, os.getpid()))
    shutil.rmtree(wd, ignore_errors=True)
    os.makedirs(wd)
    seed = ctx.seed if seed is None else seed
    if last is None:
        last = 1000 if ctx.tier == "quick" else 40000
    jpath = os.path.join(wd, "journal.txt")
    rc, _, err = ctx.run([h, "--seed", str(seed), "--first", str(first), "--last", str(last), "--batch", "50"],
                         stdout_path=jpath, timeout=3000)
    if rc != 0:
        ctx.fatal("harness c08_impl failed rc=%s %s" % (rc, (err or "")[-500:]))
    journal = open(jpath).read().splitlines()
    verd, info = _drive(ctx, drv, journal, wd)

    stats = collections.Counter()
    by_step = collections.defaultdict(list)
    for kind, sid, obl, detail in verd:
        stats[kind] += 1
        stats["%s:%s" % (kind, obl)] += 1
        if kind == "MISMATCH":
            by_step[sid].append((obl, detail))
    per_key = collections.Counter()
    nviol = 0
    for sid, items in sorted(by_step.items(), key=lambda kv: int(kv[0]) if kv[0].isdigit() else 0):
        lines = _step_lines(journal, sid)
        op = lines[0].split()[0] if lines else "?"
        nnc = "nnc=1" in (lines[0] if lines else "")
        hid = int(sid) // 100 if sid.isdigit() else None
        concl = [o for o, _ in items if o.split("_tok")[0] in CONCLUSIONS]
        found = bool(concl)
        for obl, detail in items:
            site = "impl:%s:%s:%s" % (op, "N" if nnc else "C", obl)
            tags = sorted(set(o for o, _ in items))
            m = re.search(r"lineality=(\d+)", detail)
            if op == "bhrz" and obl in CERT_OBL and m and int(m.group(1)) > 0:
                site, tags = "impl:bhrz:cert_representation", tags + ["lineality"]
            per_key[site] += 1
            if per_key[site] > 3:
                continue
            what = "%s step %s: %s" % (site, sid, detail[:400])
            if ctx.violation(what, {"impl": "poly", "history": hid, "seed": seed, "step": sid, "obligation": obl, "verdict": detail,
                                    "event": lines[:40], "all_failed_obligations": [o for o, _ in items],
                                    "replay_cmd": "bin/check C08 --replay <this file>",
                                    "harness_args": ["--seed", str(seed), "--first", str(hid), "--last", str((hid or 0) + 1)]},
                             found_input=found, record={"site": site, "tags": tags}):
                nviol += 1
    for b in broken:
        ctx.violation("proof obligation broken: " + b, {"obligation": b}, found_input=False)

    # ---- coverage
    dist = collections.Counter()
    distinct, nontrivial, samples = set(), 0, []
    for sid, kv in info:
        if "op" in kv:
            dist["%s %s n=%s %s" % (kv["op"], "NNC" if kv.get("nnc") == "1" else "C", kv.get("n"), kv.get("branch", "").split(".")[-1])] += 1
            dist["rows_x=%s" % min(int(kv.get("xrows", 0)), 12)] += 1
            dist["gens_y=%s" % min(int(kv.get("ygens", 0)), 12)] += 1
            if kv.get("ch78") == "true":
                dist["ch78_shortcut_examined"] += 1
            lines = _step_lines(journal, sid) if len(samples) < 3 else []
            key = hashlib.sha256(("%s %s" % (kv["op"], sid)).encode()).hexdigest()
            if key not in distinct:
                distinct.add(key)
                if kv.get("extrap") == "true":
                    nontrivial += 1
                    if len(samples) < 3 and lines:
                        samples.append(lines[:8])
        if "taut_survives" in kv:
            dist["nnc_tautology_row_survives=%s" % kv["taut_survives"]] += 1
            if kv.get("sel_by_taut", "0") != "0":
                dist["nontautological_row_selected_through_tautology"] += 1
        if "combining_rejected" in kv:
            dist["combining_rejected_explained_by_guards=%s" % kv.get("explained_by_guards")] += 1
            if kv.get("nnc_h79_has_eps_row", "-") != "-":
                dist["nnc_H79_holds_eps_ge_0_row(combining dead)=%s" % kv["nnc_h79_has_eps_row"]] += 1
    ctx.cov["impl_poly"] = {
        "histories": last - first, "steps": sum(1 for l in journal if l.startswith(("h79 ", "bhrz "))),
        "distinct_nontrivial": nontrivial,
        "rule": "one evaluation = one widening step (preamble replay + private selections + public calls with and without "
                "tokens); non-trivial = the plain result properly extrapolates the larger argument",
        "samples": samples,
        "obligations_decided": stats["ok"], "obligations_mismatch": stats["MISMATCH"], "obligations_skipped": stats["skip"],
        "by_obligation": {k: v for k, v in sorted(stats.items()) if ":" in k},
        "distribution": dict(sorted(dist.items())),
        "journal_lines": len(journal),
    }
    if not nviol and not ctx.replay:
        shutil.rmtree(wd, ignore_errors=True)
    return len(broken) + nviol


def run(ctx):
    """returns the number of broken obligations / reported differences (each one is reported here)."""
    n = run_poly(ctx)
    for sub in ("c08_impl_shape", "c08_impl_grid"):
        if os.environ.get("C08_IMPL_ONLY") == "poly":       # development aid
            break
        try:
            mod = importlib.import_module("checks." + sub)
        except ImportError:
            ctx.notes.append("helper %s not present" % sub)
            continue
        n += mod.run(ctx) or 0
    ctx.assumptions += [
        "stage 2: the conversions called by the polyhedra widenings (minimize, update_constraints, strong minimisation, "
        "add_recycled_constraints) are oracles of the model; their contract (MinimalDD: sat_g is the saturation matrix, "
        "double description, one tautology, facet clause) is checked with the K1 deciders on every journalled real step; "
        "the clauses hymin/hfacet are assumed, not derived, in h79_certificate_decreases_partial",
        "BHRZ03: the candidates of evolving_points / evolving_rays are oracle data; their acceptance contract is judged on the "
        "real accepted candidates; the certificate of a rejected combining_constraints candidate is not observable",
    ]
    return n


def is_impl_replay(r):
    return bool(r.get("impl")) or any(k.startswith("impl_") for k in r)


def replay(ctx, path):
    r = json.load(open(path))
    print("property=%s what=%s" % (r.get("property"), r.get("what")))
    sub = None
    if r.get("impl") in ("shape", "grid"):
        sub = r["impl"]
    for k in r:
        if k.startswith("impl_grid"):
            sub = "grid"
        elif k.startswith("impl_shape"):
            sub = "shape"
    ctx.ensure_ppl()
    before = len(ctx.violations)
    ctx.replay = path
    if sub:
        mod = importlib.import_module("checks.c08_impl_" + sub)
        if hasattr(mod, "replay"):
            return mod.replay(ctx, path)
        mod.run(ctx)            # the helper restricts itself to the recorded case when ctx.replay is set
    else:
        hid = r.get("history")
        if hid is None:
            print(json.dumps(r, indent=1)[:4000])
            return 0
        run_poly(ctx, seed=r.get("seed", ctx.seed), first=hid, last=hid + 1)
    bad = len(ctx.violations) - before
    print("recorded case re-run at seed %s: %d unexplained differences" % (r.get("seed"), bad))
    if bad:
        print("VIOLATION property=%s replay=%s" % (ctx.pid, path))
        return 1
    return 0
