"""Shared driver of the polyhedra checks C01 / C02 (harness c01_poly.cc, driver pplv_lin)."""
import hashlib, os, re, collections
from .common import VERIF

PROPS_MODULES = ["PPLV.Props.C01"]


def split_histories(journal_lines):
    """-> list of (start_lineno (1-based), [lines])"""
    hists, cur, start = [], None, 0
    for i, l in enumerate(journal_lines, 1):
        if l.startswith("hist "):
            if cur is not None:
                hists.append((start, cur))
            cur, start = [l], i
        elif cur is not None:
            cur.append(l)
    if cur is not None:
        hists.append((start, cur))
    return hists


def classify(hist_lines, rel_idx, what):
    """site + tags of a failing event (rel_idx: index inside the history)."""
    line = hist_lines[rel_idx]
    toks = line.split()
    site, tags = "?", []
    # last operation before the event
    last_op = None
    for l in reversed(hist_lines[:rel_idx]):
        if l.startswith("op ") or l.startswith("new ") or l.startswith("copy ") or l.startswith("swap "):
            last_op = l
            break
    if toks[0] == "crash":
        site = "crash:" + (last_op.split()[2] if last_op and last_op.startswith("op ") else (last_op or "?").split()[0])
        if last_op and last_op.startswith("op "):
            slot = last_op.split()[1]
            # was the receiver already marked empty?
            for l in reversed(hist_lines[:rel_idx]):
                if l.startswith("status %s " % slot):
                    if "+EM" in l:
                        tags.append("receiver_marked_empty")
                    break
            tags.append("op_" + last_op.split()[2])
    elif toks[0] == "q":
        site = "query:" + toks[2]
    elif toks[0] == "obs":
        site = "obs:" + toks[2] + ":after:" + (last_op.split()[2] if last_op and last_op.startswith("op ") else (last_op or "?").split()[0])
    elif toks[0] == "res":
        site = "res:" + toks[2]
        if "does not contain the argument" in what:
            tags.append("result_not_an_enlargement")
        if "result ∩ context" in what:
            tags.append("meet_with_context_changed")
    elif toks[0] == "hint":
        site = "hint"
    elif toks[0] == "exc":
        site = "exc:" + (last_op.split()[2] if last_op and last_op.startswith("op ") else "?")
    return site, tags


def run_driver_parallel(ctx, drv, journal, wd, nproc=14, extra_args=()):
    """Split the journal at `hist` boundaries, run one driver per chunk, merge verdicts (global line numbers)."""
    import concurrent.futures as cf
    starts = [i for i, l in enumerate(journal) if l.startswith("hist ")]
    if not starts:
        return {}, ""
    per = max(1, (len(starts) + nproc - 1) // nproc)
    chunks = []
    for k in range(0, len(starts), per):
        a = starts[k]
        b = starts[k + per] if k + per < len(starts) else len(journal)
        chunks.append((a, b))

    def work(idx):
        a, b = chunks[idx]
        cp = os.path.join(wd, "chunk%d.txt" % idx)
        with open(cp, "w") as f:
            f.write("\n".join(journal[a:b]) + "\n")
        rc, out, err = ctx.run([drv] + list(extra_args), stdin_path=cp, timeout=3000)
        if rc != 0:
            ctx.fatal("driver failed rc=%s %s" % (rc, (err or "")[-500:]))
        return a, out

    verd, tot = {}, collections.Counter()
    with cf.ThreadPoolExecutor(nproc) as ex:
        for a, out in ex.map(work, range(len(chunks))):
            for l in out.splitlines():
                t = l.split(None, 2)
                if not t:
                    continue
                if t[0] in ("ok", "skip", "MISMATCH"):
                    verd[int(t[1]) + a] = (t[0], t[2].strip() if len(t) > 2 else "")
                elif t[0] == "summary":
                    for kv in t[1:]:
                        for item in kv.split():
                            k, _, v = item.partition("=")
                            if v.isdigit():
                                tot[k] += int(v)
    return verd, "summary " + " ".join("%s=%d" % kv for kv in sorted(tot.items()))


def run_poly(ctx, ops, n_hist, length, maxdim, observe_always=False, batch=10, bias=None, first=0, tag=""):
    drv = ctx.ensure_pplv("pplv_lin")
    h = ctx.compile_harness("c01_poly.cc")
    wd = ctx.workdir()
    jpath, vpath = os.path.join(wd, "journal.txt"), os.path.join(wd, "verdicts.txt")
    cmd = [h, "--seed", str(ctx.seed), "--first", str(first), "--last", str(first + n_hist), "--len", str(length),
           "--maxdim", str(maxdim), "--ops", ops, "--batch", str(batch)]
    if observe_always:
        cmd += ["--observe-always", "1"]
    if bias is not None:
        cmd += ["--bias", str(bias)]
    rc, _, err = ctx.run(cmd, stdout_path=jpath, timeout=3000)
    if rc != 0:
        ctx.fatal("harness failed rc=%s %s" % (rc, err[-500:]))
    journal = open(jpath).read().splitlines()
    verd, summary = run_driver_parallel(ctx, drv, journal, wd)
    hists = split_histories(journal)
    stats = collections.Counter()
    opc, qc, statusc = collections.Counter(), collections.Counter(), collections.Counter()
    distinct, nontrivial = set(), 0
    samples = []
    for start, lines in hists:
        key = hashlib.sha256("\n".join(l for l in lines if not l.startswith("hist ")).encode()).hexdigest()
        sts = set()
        nonempty_mut = False
        for l in lines:
            t = l.split()
            if t[0] == "op" or t[0] == "res":
                opc[t[2]] += 1
            elif t[0] == "q":
                qc[t[2]] += 1
            elif t[0] == "status":
                s = " ".join(t[2:]); statusc[s] += 1; sts.add(s)
            elif t[0] == "obs" and t[2] in ("cons", "mcons") and len(t) > 3 and t[3] != "0" and "-1 0" not in l:
                nonempty_mut = True
        if key not in distinct:
            distinct.add(key)
            if len(sts) >= 2 and nonempty_mut and any(l.startswith("op ") for l in lines):
                nontrivial += 1
                if len(samples) < 2:
                    samples.append(lines[:14])
        for i, l in enumerate(lines):
            v = verd.get(start + i)
            if not v:
                continue
            stats[v[0]] += 1
            if v[0] == "skip":
                stats["skip:" + v[1].split()[0]] += 1
            if v[0] == "MISMATCH":
                site, tags = classify(lines, i, v[1])
                ctx.violation("%s: %s | event: %s" % (site, v[1], l[:300]),
                              {"history": lines[: i + 1], "driver": "pplv_lin", "verdict": v[1], "site": site, "tags": tags,
                               "replay_cmd": "bin/check %s --replay <this file>" % ctx.pid,
                               "harness_args": cmd[1:]},
                              found_input=True, record={"site": site, "tags": tags})
    prev = ctx.cov.get("_poly_parts", [])
    prev.append({"tag": tag or ops, "histories": len(hists), "nontrivial": nontrivial, "decided": stats["ok"],
                 "op_histogram": dict(opc)})
    ctx.cov["_poly_parts"] = prev
    tot_h = sum(p["histories"] for p in prev); tot_n = sum(p["nontrivial"] for p in prev)
    ctx.cov["parts"] = prev
    ctx.cov.update({
        "evaluations": tot_h, "distinct_nontrivial": tot_n,
        "rule": "seeded histories over a pool of 4 C/NNC polyhedra (dim<=%d, len %d, ops=%s); distinct by hash of the op/observation text; "
                "non-trivial = at least one mutator, a non-empty non-universe constraint observation and >=2 distinct lazy-status lines" % (maxdim, length, ops),
        "samples": samples, "traces_validated_against_impl": len(hists),
        "observations_decided": stats["ok"], "observations_mismatch": stats["MISMATCH"],
        "observations_skipped": {k[5:]: v for k, v in stats.items() if k.startswith("skip:")},
        "op_histogram": dict(opc), "query_histogram": dict(qc),
        "distinct_status_lines": len(statusc), "status_histogram": dict(statusc.most_common(40)),
        "driver_summary": summary,
    })
    return hists, verd
