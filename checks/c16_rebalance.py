"""C16 stage 2 — the rebalancing machinery of CO_Tree (helper of checks/c16.py).

proof:  PPLV.Props.C16Rebalance over the code-shaped model lean/PPLV/COTree/Rebalance.lean
        (rebalance, compact_elements_in_the_rightmost_end, redistribute_elements_in_subtree,
        rebuild_bigger_tree, rebuild_smaller_tree/move_data_from, CO_Tree(Iterator, n), insert_precise(_aux),
        erase, go_down_searching_key, the tree_iterator navigation) — all sizes, loops with proved fuel.
tie:    harness/c16_rows.cc --reb 1 journals after EVERY insert / hinted insert (hint = slot index of the iterator,
        next to the key, stale, or end()) / erase / bulk construction the complete
        layout (indexes[] with the unused markers and both sentinels, data[], reserved_size, max_depth,
        size_, OK()), and `--rebrow 1` does the same for Sparse_Row histories (insert with/without hint, insert(i), reset(i),
        reset(iterator), reset_after, delete_element_and_shift, add_zeroes_and_shift, swap_coefficients, find/lower_bound
        with hints) on the row's tree; the native driver pplv_c16reb runs the model from the previous REAL layout and
        demands the IDENTICAL next layout and returned iterator (the algorithm is deterministic), and
        judges the real output against the ordered-map contract on its own.
A `contents` / `invariant` / `retmap` mismatch is a property violation with the operation list as
replay; a pure `layout` / `ret` mismatch is a broken correspondence (the real result still is the
right map): reported as VIOLATION … no-failing-input-found, as FRAMEWORK.md prescribes.
"""
import collections, concurrent.futures, json, os, re, shutil, time
from .common import BUILD

PROPS = ["PPLV.Props.C16Rebalance", "PPLV.Props.C16Hint"]   # + PPLV.Props.C16RowOnTree once present (see run)
PROPERTY_OBLIGATIONS = {"contents", "invariant", "retmap", "crash"}


def _pipe(ctx, h, drv, wd, args, tag):
    j = os.path.join(wd, tag + ".journal")
    v = os.path.join(wd, tag + ".verdict")
    rc, _, err = ctx.run([h] + args, stdout_path=j, timeout=600)
    if rc == -999:
        with open(j, "a") as f:
            f.write("crash TIMEOUT\nend\n")
    elif rc != 0:
        ctx.fatal("harness (--reb) failed rc=%s: %s" % (rc, (err or "")[-400:]))
    rc, _, err = ctx.run([drv], stdin_path=j, stdout_path=v, timeout=600)
    if rc != 0:
        ctx.fatal("driver pplv_c16reb failed rc=%s: %s" % (rc, (err or "")[-400:]))
    return j, v


def _ops_of(jpath, hid, upto, tag="L "):
    """operation list (replay lines) of history `hid` up to step `upto`"""
    ops = []
    for line in open(jpath, errors="replace"):
        if line.startswith(tag + hid + "."):
            head = line.split("|", 1)[0].split()
            step = int(head[1].split(".")[1])
            if step <= upto:
                ops.append(" ".join(head[2:]))
    return ops


def _mismatches(vpath):
    out = []
    for line in open(vpath, errors="replace"):
        if line.startswith("MISMATCH "):
            t = line.rstrip("\n").split(" ", 3)
            out.append((t[1], t[2], t[3] if len(t) > 3 else ""))
    return out


def _ddmin(ops, test, budget=60):
    n, runs = 2, 0
    while len(ops) >= 2 and runs < budget:
        chunk = max(1, len(ops) // n)
        reduced = False
        for i in range(0, len(ops), chunk):
            cand = ops[:i] + ops[i + chunk:]
            runs += 1
            if cand and test(cand):
                ops, n, reduced = cand, max(n - 1, 2), True
                break
            if runs >= budget:
                break
        if not reduced:
            if chunk == 1:
                break
            n = min(len(ops), n * 2)
    return ops


def _replay_ops(ctx, h, drv, wd, ops, tag="rebreplay", mode="reb"):
    p = os.path.join(wd, tag + ".ops")
    with open(p, "w") as f:
        f.write("\n".join(ops) + "\n")
    j, v = _pipe(ctx, h, drv, wd, ["--rebrowreplay" if mode == "rebrow" else "--rebreplay", p], tag)
    return _mismatches(v), j


def replay(ctx, obj, path):
    """bin/check C16 --replay of a stage-2 record: re-execute the operation list, re-judge"""
    ctx.ensure_ppl()
    drv = ctx.ensure_pplv("pplv_c16reb")
    h = ctx.compile_harness("c16_rows.cc")
    wd = os.path.join(BUILD, "run-%s-reb-%d" % (ctx.pid, os.getpid()))
    shutil.rmtree(wd, ignore_errors=True)
    os.makedirs(wd)
    ops = obj.get("ops", [])
    print("property=C16 what=%s" % obj.get("what", "-")[:300])
    mm, _ = _replay_ops(ctx, h, drv, wd, ops, "user-replay", obj.get("mode", "reb"))
    for i, o, d in mm[:8]:
        print("  MISMATCH %s %s %s" % (i, o, d[:400]), flush=True)
    if not mm:
        print("replay of %d operations: the library produces exactly the layout of the model" % len(ops))
        return 0
    prop = any(o in PROPERTY_OBLIGATIONS for _, o, _ in mm)
    print("VIOLATION property=C16 replay=%s%s" % (path, "" if prop else " no-failing-input-found"))
    return 1


def run(ctx):
    """returns the list of broken proof obligations (the caller reports them)"""
    props = list(PROPS)
    if os.path.exists(os.path.join(os.path.dirname(os.path.dirname(os.path.abspath(__file__))), "lean", "PPLV", "Props", "C16RowOnTree.lean")):
        props.append("PPLV.Props.C16RowOnTree")
    broken = ctx.prove(props)
    if ctx.tier == "thorough":
        broken += ctx.leanchecker(props)
    drv = ctx.ensure_pplv("pplv_c16reb")
    h = ctx.compile_harness("c16_rows.cc")
    wd = os.path.join(BUILD, "run-%s-reb-%d" % (ctx.pid, os.getpid()))
    shutil.rmtree(wd, ignore_errors=True)
    os.makedirs(wd)
    quick = ctx.tier == "quick"
    n_hist = 240 if quick else 4000
    chunk = 20
    t0 = time.time()
    n_row = 100 if quick else 2000
    jobs = [("reb", f, min(n_hist, f + chunk)) for f in range(0, n_hist, chunk)]
    jobs += [("rebrow", f, min(n_row, f + chunk)) for f in range(0, n_row, chunk)]

    def one(job):
        mode, f, l = job
        return _pipe(ctx, h, drv, wd, ["--" + mode, "1", "--seed", str(ctx.seed), "--first", str(f), "--last", str(l)], "%s%d" % (mode, f))

    classes = collections.Counter()
    rs_after = collections.Counter()
    heights = collections.Counter()
    orders = collections.Counter()
    n_ok = n_bad = n_ops = crashes = 0
    reported = set()
    with concurrent.futures.ThreadPoolExecutor(max_workers=8) as ex:
        results = list(ex.map(one, jobs))
    row_ops = collections.Counter()
    for (mode, f, l), (j, v) in zip(jobs, results):
        for line in open(j, errors="replace"):
            if line.startswith("H "):
                t = line.split()
                if t[2] == "reb":
                    orders["%s/storm%s" % (t[3], t[5] if len(t) > 5 else "?")] += 1
            elif line.startswith("L "):
                n_ops += 1
            elif line.startswith("W "):
                n_ops += 1
                row_ops[line.split(" ", 3)[2]] += 1
            elif line.startswith("crash"):
                crashes += 1
        for line in open(v, errors="replace"):
            if line.startswith("ok "):
                n_ok += 1
                t = line.split()
                cls = t[2]
                classes[cls] += 1
                m = re.search(r" h=(\d+) ", line)
                if m:
                    heights["%s h=%s" % (cls.split(":")[0], m.group(1))] += 1
                m = re.search(r"rs=(\d+)>(\d+)", line)
                if m:
                    rs_after[int(m.group(2))] += 1
                    if m.group(1) != m.group(2):
                        classes["reserved_size %s->%s" % (m.group(1), m.group(2))] += 1
        mm = _mismatches(v)
        n_bad += len(mm)
        # one report per (obligation class) and chunk: the first failing step of the first failing history
        by_hist = collections.OrderedDict()
        for i, o, d in mm:
            by_hist.setdefault(i.split(".")[0], []).append((i, o, d))
        for hid, lst in list(by_hist.items())[:3]:
            if hid == "crash":
                key = ("crash",)
                if key in reported:
                    continue
                reported.add(key)
                ctx.violation("C16 stage 2: the library crashed / timed out in a rebalancing history (%s)" % lst[0][2][:200],
                              {"kind": "reb", "ops": [], "harness_args": ["--" + mode, "1", "--seed", str(ctx.seed), "--first", str(f), "--last", str(l)]},
                              found_input=True, record={"site": "CO_Tree rebalance", "tags": ["crash"]})
                continue
            first = min(lst, key=lambda m: int(m[0].split(".")[1]) if "." in m[0] else 10 ** 9)
            upto = int(first[0].split(".")[1])
            ops = _ops_of(j, hid, upto, "W " if mode == "rebrow" else "L ")
            same_step = [m for m in lst if m[0] == first[0]]
            prop = any(o in PROPERTY_OBLIGATIONS for _, o, _ in same_step)
            key = ("property" if prop else "layout", mode, ops[-1].split()[0] if ops else "?")
            if key in reported:
                continue
            reported.add(key)

            def persists(cand):
                m2, _ = _replay_ops(ctx, h, drv, wd, cand, "shrink", mode)
                return any(o in PROPERTY_OBLIGATIONS for _, o, _ in m2) if prop else bool(m2)

            small = _ddmin(list(ops), persists) if len(ops) <= 400 else list(ops)
            mm2, _ = _replay_ops(ctx, h, drv, wd, small, "final", mode)
            shown = mm2 or same_step
            obs = "; ".join("%s: %s" % (o, d[:500]) for _, o, d in shown[:3])
            replay_obj = {"kind": "reb", "mode": mode, "ops": small, "original_length": len(ops),
                          "found_at": "seed %d history %s step %d" % (ctx.seed, hid, upto),
                          "observed": [{"id": i, "obligation": o, "detail": d[:1500]} for i, o, d in shown[:6]],
                          "how_to_replay": "printf '%s\\n' <ops> > f.ops ; c16_rows --rebreplay f.ops | pplv_c16reb"}
            site = ("Sparse_Row::" if mode == "rebrow" else "CO_Tree::") + "%s" % {"ins": "insert", "insh": "insert(iterator,key,data)", "insh0": "insert(iterator,key)", "era": "erase", "bulk": "CO_Tree(Iterator,n)"}.get(key[2], key[2])
            if prop:
                ctx.violation("C16 stage 2: after %d operation(s) [%s] the real CO_Tree is not the ordered map / breaks its invariant — %s" % (
                    len(small), " ; ".join(small[-3:])[:200], obs), replay_obj, found_input=True,
                    record={"site": site, "tags": sorted(set(o for _, o, _ in shown))})
            else:
                ctx.violation("C16 stage 2 correspondence: the library no longer moves the elements the way the proved model of "
                              "rebalance/compact/redistribute/rebuild does (array layout differs; the contents still are the right map) — %s" % obs,
                              replay_obj, found_input=False, record={"site": site, "tags": ["layout"]})
    ctx.cov["rebalance_stage2"] = {
        "operations_replayed": n_ops, "identical_layout": n_ok, "mismatching_events": n_bad, "crashes": crashes,
        "histories": n_hist, "sparse_row_histories": n_row, "sparse_row_operations": dict(sorted(row_ops.items())),
        "insertion_order/erase_storm": dict(sorted(orders.items())),
        "branch_classes": dict(sorted(classes.items())),
        "rebalanced_subtree_height": dict(sorted(heights.items())),
        "reserved_size_after_op": {str(k): rs_after[k] for k in sorted(rs_after)},
        "wall_s": round(time.time() - t0, 1),
    }
    if not reported:
        shutil.rmtree(wd, ignore_errors=True)
    return broken
