"""C07 stage 2 — the core of the PIP solver: parametric tableau and pivot, sign analysis, lexicographic pivot
selection, split on a mixed row, cuts, the recursion of PIP_Solution_Node::solve (helper of checks/c07.py).

proof:  PPLV.Props.C07Core over the code-shaped model lean/PPLV/Solver/PIPCore*.lean
        (pivot_preserves, row_sign_sound, pivot_choice_lexico, solution_node_correct, split_partitions_context,
        solve_partial_correct = both halves for the repaired code, solve_bottom_before_fix_fails for the code before deb2fdf).
tie:    harness/c07_core.cc (`#define private public`) journals, for seeded small FRESH problems (1-3 variables,
        0-2 parameters, 1-5 rows, the 3 x 2 strategy settings), the tableau of the root PIP_Solution_Node as
        update_tableau builds it, the initial context, and after PIP_Problem::solve() the whole tree read through the
        node pointers: constraints_ / artificial_parameters of every node and the FINAL tableau, basis, mapping,
        var_row, var_column, sign of every solution node.  The native driver `pplv_pipcore` runs the model's `solve`
        (with the modelled compatibility_check as oracle) on the root and demands the SAME tree: shape, decision
        constraints, artificial parameters, final tableaux, entry for entry.
judge:  on the REAL tree: every solution node is coherent (OK()) and lexico-positive (the invariant of the theorems); every solution node without cut rows describes the same affine set as the root tableau (exact
        linear algebra); at every valuation of the box inside the initial context Tree.eval of the real tree equals the
        verified reference lexminRef, and every row of the final tableau of the node reached is non-negative.
verdicts: `real:*` = the real tree is wrong: VIOLATION with the case as replay (KNOWN-FINDING when it carries the tag of an
        open entry); `model:*` = the code no longer does what the model says: broken correspondence, VIOLATION
        no-failing-input-found unless a real:* failure of the same case exists.
"""
import collections, hashlib, json, os, shutil, time
from .common import VERIF, BUILD

PROPS = ["PPLV.Props.C07Core"]
STAGE = "c07_core"
N_FIXED = 3


def _run_cases(ctx, h, drv, wd, seed, first, last, box, nproc=8, tag=""):
    """chunks of 500 cases, `nproc` at a time; once 60 solves have exceeded the CPU limit the remaining chunks are not
    started (a looping solver would otherwise cost 2 s per case): the timeout-rate rule of `_judge` reports it."""
    import concurrent.futures as cf, threading
    step = 500
    parts = [(a, min(a + step, last)) for a in range(first, last, step)]
    state = {"timeouts": 0, "skipped": 0}
    lock = threading.Lock()

    def work(ab):
        with lock:
            if state["timeouts"] >= 60:
                state["skipped"] += ab[1] - ab[0]
                return [], []
        jp = os.path.join(wd, "journal%s_%d.txt" % (tag, ab[0]))
        rc, _, err = ctx.run([h, "--seed", str(seed), "--first", str(ab[0]), "--last", str(ab[1]), "--cpu", "2"],
                             stdout_path=jp, timeout=3000)
        if rc != 0:
            ctx.fatal("harness c07_core failed rc=%s %s" % (rc, (err or "")[-500:]))
        vp = jp + ".verdicts"
        rc, _, err = ctx.run([drv, "--box", str(box)], stdin_path=jp, stdout_path=vp, timeout=3000)
        if rc != 0:
            ctx.fatal("driver pplv_pipcore failed rc=%s %s" % (rc, (err or "")[-500:]))
        j, v = open(jp).read().splitlines(), open(vp).read().splitlines()
        with lock:
            state["timeouts"] += sum(1 for l in j if l.startswith("crash SIGXCPU"))
        return j, v

    journal, verdicts = [], []
    with cf.ThreadPoolExecutor(nproc) as ex:
        for j, v in ex.map(work, parts):
            journal += j
            verdicts += v
    _run_cases.skipped = state["skipped"]
    return journal, verdicts


def _cases(journal):
    """case id -> journal lines"""
    out, cur, cid = {}, None, None
    for l in journal:
        if l.startswith("case "):
            cid, cur = int(l.split()[1]), [l]
        elif cur is not None:
            cur.append(l)
            if l == "end":
                out[cid] = cur
                cur = None
    return out


def _judge(ctx, journal, verdicts, seed, harness_args):
    cases = _cases(journal)
    per_case = collections.defaultdict(list)
    for l in verdicts:
        t = l.split(" ", 2)
        if len(t) >= 2 and t[0] in ("ok", "skip", "MISMATCH") and t[1].lstrip("-").isdigit():
            per_case[int(t[1])].append((t[0], t[2] if len(t) > 2 else ""))
    missing = [c for c in cases if c not in per_case]
    if missing:
        ctx.fatal("pplv_pipcore judged %d of %d cases (first missing: %d)" % (len(cases) - len(missing), len(cases), missing[0]))

    H = {k: collections.Counter() for k in ("nv", "np", "rows", "ctx", "cut", "piv", "sols", "decs", "arts", "cutrows", "maxden", "depth", "variant")}
    stats = collections.Counter()
    distinct, nontrivial, samples = set(), 0, []
    evals = unknown = points = affine = 0
    failing = []
    for cid, vs in sorted(per_case.items()):
        lines = cases.get(cid, [])
        key = hashlib.sha256("\n".join(l for l in lines if l.startswith(("prob", "cs"))).encode()).hexdigest()
        first = key not in distinct
        distinct.add(key)
        bad = [d for k, d in vs if k == "MISMATCH"]
        for k, d in vs:
            if k == "ok":
                stats["ok"] += 1
                kv = dict(x.split("=", 1) for x in d.split() if "=" in x)
                for h in H:
                    H[h][kv.get(h, "?")] += 1
                evals += int(kv.get("evals", 0)); unknown += int(kv.get("unknown", 0))
                points += int(kv.get("points", 0)); affine += int(kv.get("affine", 0))
                stats["null_tree" if kv.get("null") == "1" else "tree"] += 1
                if kv.get("big") == "true":
                    stats["big_parameter_replay_only"] += 1
                if first and (int(kv.get("decs", 0)) + int(kv.get("arts", 0)) + int(kv.get("cutrows", 0)) > 0 or int(kv.get("maxden", 1)) > 1):
                    nontrivial += 1
                    if len(samples) < 2:
                        samples.append([l[:300] for l in lines[:8]])
            elif k == "skip":
                stats["skip:" + " ".join(d.split()[:2] if d.startswith("crash") else d.split()[:1])] += 1
        if bad:
            failing.append((cid, lines, bad))

    # timeouts: inconclusive (the cutting-plane loop need not terminate), but a crash is a finding
    for cid, vs in per_case.items():
        for k, d in vs:
            if k == "skip" and d.startswith("crash:") and not d.startswith("crash:SIGXCPU"):
                replay = {"stage": STAGE, "seed": seed, "case": cid, "journal": cases.get(cid, [])[:12], "verdict": d,
                          "replay_cmd": "harness c07_core --seed %d --first %d --last %d | pplv_pipcore" % (seed, cid, cid + 1)}
                ctx.violation("PIP_Problem::solve() on a fresh problem dies (%s)" % d[:200], replay, found_input=True,
                              record={"site": "solve:crash", "tags": [d.split()[0]]})
            if k == "skip" and d.startswith("exception:"):
                stats["exception"] += 1

    # a solve over the CPU limit is inconclusive, but not at any rate: the unchanged tree has < 0.1 % of them
    touts = sorted(cid for cid, vs in per_case.items() for k, d in vs if k == "skip" and d.startswith("crash:SIGXCPU"))
    stats["timeouts"] = len(touts)
    if len(touts) >= max(20, len(cases) // 100):
        cid = touts[0]
        ctx.violation("PIP solver core: %d of %d fresh solves exceed the CPU limit of 2 s (the unchanged tree: < 0.1 %%); first: case %d | %s"
                      % (len(touts), len(cases), cid, next((l for l in cases.get(cid, []) if l.startswith("cs")), "")[:300]),
                      {"stage": STAGE, "seed": seed, "case": cid, "journal": cases.get(cid, [])[:12], "timeouts": touts[:50],
                       "replay_cmd": "harness c07_core --seed %d --first %d --last %d" % (seed, cid, cid + 1)},
                      found_input=True, record={"site": "solve:timeout-rate", "tags": []})

    def _key(f):
        return 0 if any(d.startswith("real:") for d in f[2]) else 1
    failing.sort(key=_key)
    per_site, reported, n_real, n_model = collections.Counter(), 0, 0, 0
    for cid, lines, bad in failing:
        real = [d for d in bad if d.startswith("real:")]
        d = (real or bad)[0]
        obl = d.split()[0]
        tags = [x[4:] for x in d.split() if x.startswith("tag=")] + [obl]
        n_real += 1 if real else 0
        n_model += 0 if real else 1
        site = "solve:" + obl
        replay = {"stage": STAGE, "seed": seed, "case": cid, "journal": [l[:4000] for l in lines], "verdict": d,
                  "all_mismatches": [x[:300] for x in bad[:6]], "harness_args": harness_args,
                  "replay_cmd": "bin/check C07 --replay <this file>  (= harness c07_core --seed %d --first %d --last %d | pplv_pipcore)" % (seed, cid, cid + 1)}
        record = {"site": site, "tags": tags}
        if ctx.match_known(record) is None:
            if per_site[obl] >= 3 or reported >= 12:
                continue
            per_site[obl] += 1
            reported += 1
        prob = next((l for l in lines if l.startswith("prob")), "")
        cs = next((l for l in lines if l.startswith("cs")), "")
        if real:
            what = ("PIP solver core: the tree of the real PIP_Problem::solve() is wrong (%s) | %s | %s" % (d[:400], prob, cs[:300]))
            ctx.violation(what, replay, found_input=True, record=record)
        else:
            what = ("PIP solver core: the real tree / final tableau differs from the code-shaped model of PIP_Solution_Node::solve (%s); "
                    "every judged answer of this case agrees with the reference | %s | %s" % (d[:300], prob, cs[:300]))
            ctx.violation(what, replay, found_input=False, record=record)

    def srt(c):
        return {k: c[k] for k in sorted(c, key=lambda x: (len(x), x))}
    return {
        "cases": len(cases), "distinct_cases": len(distinct), "distinct_nontrivial": nontrivial,
        "rule": "distinct by hash of (problem data, strategy); non-trivial = the real tree has a decision node, an artificial "
                "parameter, a cut row or a final denominator > 1",
        "trees_compared_exactly": stats["ok"], "outcomes": dict(stats),
        "valuations_judged": evals, "valuations_reference_unknown": unknown, "valuations_with_a_point": points,
        "cut_free_solution_nodes_with_exact_affine_check": affine,
        "histograms": {k: srt(v) for k, v in H.items()},
        "cases_with_wrong_real_answer": n_real, "cases_with_model_difference_only": n_model, "samples": samples,
    }


def run(ctx, prove=True):
    """returns the list of broken proof obligations (the caller reports them)."""
    t0 = time.time()
    broken = []
    if prove and os.path.exists(os.path.join(VERIF, "lean", "PPLV", "Props", "C07Core.lean")):
        broken = ctx.prove(PROPS)
    quick = ctx.tier == "quick"
    drv = ctx.ensure_pplv("pplv_pipcore")
    h = ctx.compile_harness("c07_core.cc")
    wd = os.path.join(BUILD, "run-%s-core-%d" % (ctx.pid, os.getpid()))
    shutil.rmtree(wd, ignore_errors=True)
    os.makedirs(wd)
    n = int(os.environ.get("C07_CORE_CASES", "16000" if quick else "300000"))
    box = 5 if quick else 8
    # ids -3 .. -1: the fixed corpus (witnesses of findings, documented example); 0 .. n-1: generated
    journal, verdicts = _run_cases(ctx, h, drv, wd, ctx.seed, -N_FIXED, n, box, nproc=8 if quick else 14)
    cov = _judge(ctx, journal, verdicts, ctx.seed, ["--seed", str(ctx.seed), "--first", str(-N_FIXED), "--last", str(n)])
    cov["wall_s"] = round(time.time() - t0, 1)
    cov["cases_not_run_after_60_timeouts"] = getattr(_run_cases, "skipped", 0)
    cov["box"] = box
    ctx.cov[STAGE] = cov
    ctx.assumptions += [
        "c07_core: the model is a dense transliteration of the PPL_USE_SPARSE_MATRIX code; with CUTTING_STRATEGY_DEEPEST / ALL the "
        "score of a row counts the STORED entries of a sparse row (a stored zero adds the denominator), which the dense model cannot "
        "know: a replay difference under these two strategies is counted as `sparse-dependent-cut-choice`, the real tree is still judged",
        "c07_core: the model is the code WITH the repair of KF-C07-12 (commit deb2fdf); a real tree that differs from it but equals the "
        "model of the code before the repair (PIPCoreSolveAsWritten.lean) is reported as `model:variant_as_written` (a regression of the "
        "library), histograms.variant must read repaired only",
        "c07_core: compatibility_check is modelled (PIPCoreCompat.lean) and replayed inside solve, but the theorems take its decision "
        "contract (true iff the context has a non-negative integer solution) as hypothesis",
        "c07_core: problems with a big parameter are replayed exactly but not judged (open finding KF-C07-3); a solve over the CPU "
        "limit is inconclusive (the cutting-plane loop need not terminate); fresh solves only (PIP_Decision_Node::solve is not modelled)",
    ]
    shutil.rmtree(wd, ignore_errors=True)
    return broken


def replay(ctx, rp):
    """re-run the recorded case on the real library of the current tree and judge it again"""
    ctx.ensure_ppl()
    drv = ctx.ensure_pplv("pplv_pipcore")
    h = ctx.compile_harness("c07_core.cc")
    wd = os.path.join(BUILD, "run-%s-corereplay-%d" % (ctx.pid, os.getpid()))
    shutil.rmtree(wd, ignore_errors=True)
    os.makedirs(wd)
    seed, cid = int(rp.get("seed", 1)), int(rp.get("case", 0))
    journal, verdicts = _run_cases(ctx, h, drv, wd, seed, cid, cid + 1, 8, nproc=1)
    for l in verdicts:
        print("  " + l[:400])
    _judge(ctx, journal, verdicts, seed, ["--seed", str(seed), "--first", str(cid), "--last", str(cid + 1)])
    shutil.rmtree(wd, ignore_errors=True)
    return 1 if ctx.violations else 0
