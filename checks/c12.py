"""C12 — interval arithmetic encloses every concrete result (Boundary_NS / Interval).

Obligations: the theorems of PPLV/Props/C12.lean (about the code-shaped model PPLV/Interval/Model.lean).
Tie to /repo: harness/c12_interval.cc runs the real Interval operations for three interval types
(mpq open/closed, mpz closed, double / float / long double open/closed) on an exhaustive template set of operand pairs
plus seeded random pairs; the native driver pplv_c12 checks per event
  model   : the model (with the defect switches measured on the library at check time) = real result
  enclose : sampled members' exact results are inside the REAL result        } verdicts of the
  empty   : the real result is empty although the exact image is not          } property on the
  exact   : exact type: real result is not the least interval / float: hull ⊄ real  } real output
  pred    : contains / is_disjoint_from / == answered against the set-theoretic truth
  okinv   : OK() of the result is false
"""
import collections, hashlib, json, os, re, subprocess
from . import c12_int

LEVEL = "proof"

SITE = {
    "neg": "Interval::neg_assign", "assign": "Interval::assign", "add": "Interval::add_assign",
    "sub": "Interval::sub_assign", "mul": "Interval::mul_assign", "div": "Interval::div_assign",
    "join": "Interval::join_assign", "join2": "Interval::join_assign", "meet": "Interval::intersect_assign",
    "meet2": "Interval::intersect_assign", "diff": "Interval::difference_assign",
    "rex": "Interval::refine_existential", "run": "Interval::refine_universal",
    "wrap": "Interval::wrap_assign", "contains": "Interval::contains", "scontains": "Interval::strictly_contains",
    "disjoint": "Interval::is_disjoint_from", "eq": "Interval::operator==", "cc76": "Interval::CC76_widening_assign",
    "lin": "linearize", "relerr": "Linear_Form::relative_error", "intervalize": "Linear_Form::intervalize",
    "ceval": "float-semantics-simulation",
}
PROPERTY_OBLIGATIONS = ("enclose", "empty", "exact", "pred", "okinv")
# "fpmodel": the driver's exact simulation of the analysed machine differs from this machine's hardware (an error of the check)


def site_of(op):
    if op == "lf:scale":
        return "Interval::mul_assign"      # operator*(C, Linear_Form) is mul_assign per coefficient
    if op.startswith("lf:"):
        return "Linear_Form::operator" + ("+" if op == "lf:add" else "-")
    return SITE.get(op.split(":")[0], op)


def sign_class(tok):
    """P / N / S / Z / E / U for an interval token of the journal (how mul/div see it)."""
    if tok == "E":
        return "E"
    if tok == "-":
        return "-"
    m = re.match(r"^[\[(]([^,]+),([^,\])]+)[\])]$", tok)
    if not m:
        return "?"

    def sg(s):
        if s == "-inf":
            return -1
        if s == "+inf":
            return 1
        s = s.split("/")[0]
        return -1 if s.startswith("-") and s.strip("-0") != "" else (0 if s.strip("-0") == "" else 1)
    l, u = sg(m.group(1)), sg(m.group(2))
    if l == 0 and u == 0:
        return "Z"
    if l >= 0:
        return "P"
    if u <= 0:
        return "N"
    return "S"


def run(ctx):
    import time
    t0 = time.time()
    ctx.ensure_ppl()
    broken = ctx.prove(["PPLV.Props.C12"])
    drv = ctx.ensure_pplv("pplv_c12")
    t_prove = time.time() - t0
    t0 = time.time()
    h = ctx.compile_harness("c12_interval.cc", flags=("-frounding-math",))
    t_cc = time.time() - t0
    wd = ctx.workdir()
    nrandom = 2000 if ctx.tier == "quick" else 40000
    seed = ctx.seed
    journal = os.path.join(wd, "journal.txt")
    cmd = [h, "--seed", str(seed), "--random", str(nrandom)]
    t0 = time.time()
    rc, _, err = ctx.run(cmd, stdout_path=journal, timeout=1500)
    if rc != 0:
        ctx.fatal("harness failed rc=%s %s" % (rc, (err or "")[-500:]))
    # second harness: linearize / relative_error / intervalize on expression trees (6 configurations)
    h2 = ctx.compile_harness("c12_linearize.cc", flags=("-frounding-math",))
    journal2 = os.path.join(wd, "journal-lin.txt")
    ncount = 1000 if ctx.tier == "quick" else 15000
    rc, _, err = ctx.run([h2, "--seed", str(seed), "--count", str(ncount)], stdout_path=journal2, timeout=1500)
    if rc != 0:
        ctx.fatal("linearize harness failed rc=%s %s" % (rc, (err or "")[-500:]))
    with open(journal, "a") as f:
        f.write(open(journal2).read())
    t_harness = time.time() - t0

    events, probes, crashes = {}, {}, []
    order = []
    for line in open(journal):
        t = line.split()
        if not t:
            continue
        if t[0] == "probe":
            probes[t[1]] = (t[2] == "1", " ".join(t[3:]))
        elif t[0] == "crash":
            crashes.append((line.strip(), order[-1] if order else None))
        elif len(t) == 7 and not t[0].startswith("#"):
            events[t[0]] = t
            order.append(t[0])
    if "d3" not in probes or "d12" not in probes:
        ctx.fatal("harness did not report the defect probes")
    d3, d12 = probes["d3"][0], probes["d12"][0]

    # one driver process per interval type, in parallel
    t0 = time.time()
    by_type = collections.defaultdict(list)
    for eid in order:
        by_type[events[eid][1]].append(" ".join(events[eid]))
    procs = []
    env = dict(os.environ)
    for ty, lines in sorted(by_type.items()):
        jp = os.path.join(wd, "journal-%s.txt" % ty)
        vp = os.path.join(wd, "verdicts-%s.txt" % ty)
        with open(jp, "w") as f:
            f.write("\n".join(lines) + "\n")
        procs.append((ty, vp, subprocess.Popen([drv, "--d3", "1" if d3 else "0", "--d12", "1" if d12 else "0"],
                                               stdin=open(jp), stdout=open(vp, "w"), stderr=subprocess.PIPE, env=env)))
    verdict_lines = []
    for ty, vp, pr in procs:
        _, err = pr.communicate(timeout=3000)
        if pr.returncode != 0:
            ctx.fatal("driver failed on type %s rc=%s %s" % (ty, pr.returncode, (err or b"")[-500:]))
        verdict_lines += open(vp).read().splitlines()
    t_driver = time.time() - t0

    n_ok = 0
    mism = collections.defaultdict(list)       # id -> [(obligation, tags, detail)]
    for line in verdict_lines:
        if line.startswith("ok "):
            n_ok += 1
        elif line.startswith("MISMATCH "):
            t = line.rstrip("\n").split(" ", 4)
            tags = [] if t[3] == "tags=-" else t[3][5:].split(",")
            mism[t[1]].append((t[2], tags, t[4] if len(t) > 4 else ""))
    judged = n_ok + len(mism)
    if judged != len(events):
        ctx.fatal("driver judged %d of %d events" % (judged, len(events)))

    replay_cmd = "bin/check C12 --replay <this file>   # = %s --one '<ty> <op> <I> <J>' | %s --d3 <measured> --d12 <measured>" % (
        os.path.basename(h), os.path.basename(drv))

    # ---- crashes: attributed to the event after the last journalled one
    for c, last in crashes:
        ctx.violation("the interval harness crashed (%s) after event %s" % (c, last),
                      {"crash": c, "last_event": events.get(last), "replay_cmd": replay_cmd},
                      found_input=True, record={"site": "crash", "tags": []})

    # ---- verdicts
    reported = collections.Counter()
    model_only = []
    obligation_hist = collections.Counter()
    for eid in order:
        if eid not in mism:
            continue
        ev = events[eid]
        op = ev[2]
        site = site_of(op)
        prop = [m for m in mism[eid] if m[0] in PROPERTY_OBLIGATIONS]
        for ob, tags, detail in mism[eid]:
            obligation_hist["%s %s %s" % (ev[1], op.split(":")[0], ob)] += 1
        if prop:
            ob, tags, detail = prop[0]
            key = (site, ob, tuple(tags))
            reported[key] += 1
            if reported[key] > 3:      # same class: enough replays
                continue
            what = "%s on %s: %s %s %s = %s violates '%s': %s" % (site, ev[1], ev[3], op, ev[4], ev[5], ob, detail)
            ctx.violation(what, {"event": " ".join(ev), "type": ev[1], "op": op, "I": ev[3], "J": ev[4],
                                 "real_result": ev[5], "obligation": ob, "detail": detail,
                                 "all_mismatches": mism[eid], "replay_cmd": replay_cmd,
                                 "history": [" ".join(ev)], "driver": "pplv_c12",
                                 "driver_args": ["--d3", "1" if d3 else "0", "--d12", "1" if d12 else "0"]},
                          found_input=True, record={"site": site, "tags": tags, "obligation": ob})
        elif any(m[0] == "fpmodel" for m in mism[eid]):
            ctx.fatal("the driver's simulation of the analysed floating-point machine disagrees with the hardware: %s : %s"
                      % (" ".join(ev), mism[eid]))
        elif any(m[0] == "parse" for m in mism[eid]):
            ctx.fatal("driver could not parse event %s: %s" % (" ".join(ev), mism[eid]))
        else:
            model_only.append((ev, mism[eid]))
    if model_only:
        # the real output satisfies the property on these inputs but is not what the proved model
        # dictates: the theorems no longer describe the code
        ev, ms = model_only[0]
        by_op = collections.Counter(e[2].split(":")[0] + "/" + e[1] for e, _ in model_only)
        ctx.violation("the library no longer behaves as the model PPLV/Interval/Model.lean on %d events (%s); first: %s : %s"
                      % (len(model_only), dict(by_op), " ".join(ev), ms[0][2]),
                      {"event": " ".join(ev), "op": ev[2], "mismatches": ms, "count": len(model_only),
                       "theorems": "PPLV.Props.C12 (all: they are statements about the model)", "replay_cmd": replay_cmd,
                       "type": ev[1], "I": ev[3], "J": ev[4], "real_result": ev[5],
                       "history": [" ".join(e) for e, _ in model_only[:50]], "driver": "pplv_c12",
                       "driver_args": ["--d3", "1" if d3 else "0", "--d12", "1" if d12 else "0"]},
                      found_input=False, record={"site": site_of(ev[2]), "tags": ["model_correspondence"]})

    broken += c12_int.run(ctx)     # intervals over native bounded integers (Int8_Box … Int64_Box) and adjust_boundary
    # ---- search in the MODEL (the repaired switches, i.e. what op_encloses / op_exact are about)
    rc, st_out, err = ctx.run([drv, "--selftest", "--d3", "0", "--d12", "0"], timeout=300)
    st_fail = [l for l in (st_out or "").splitlines() if l.startswith("SELFTEST-FAIL")]
    if rc != 0 or "selftest failures" not in (st_out or ""):
        ctx.fatal("model self-test did not run: rc=%s %s" % (rc, (err or "")[-300:]))
    if st_fail and not broken:
        ctx.fatal("the model fails its self-test although the theorems build (reference Spec.lean and model disagree): " + st_fail[0])

    # ---- broken proof obligations: a concrete failing input is looked for in the model (self-test over
    #      the template set) and in the implementation (the correspondence run above)
    for b in broken:
        if st_fail:
            ctx.violation("proof obligation broken: %s ; the model itself fails on: %s" % (b, st_fail[0]),
                          {"obligation": b, "model_counterexamples": st_fail[:10],
                           "replay_cmd": "%s --selftest --d3 0" % os.path.basename(drv)},
                          found_input=True, record={"site": "lean", "tags": ["proof"]})
        else:
            ctx.violation("proof obligation broken: " + b,
                          {"obligation": b, "note": "the model passes its self-test over the template set and the "
                           "correspondence run found no failing input for this obligation"},
                          found_input=False, record={"site": "lean", "tags": ["proof"]})

    # ---- coverage
    distinct, nontrivial = set(), set()
    per = collections.Counter()
    mulcells = collections.Counter()
    divcells = collections.Counter()
    for eid in order:
        ev = events[eid]
        key = hashlib.sha256((" ".join(ev[1:5])).encode()).hexdigest()[:16]
        distinct.add(key)
        per[ev[1] + " " + ev[2].split(":")[0]] += 1
        if ev[3] != "E" and ev[4] != "E" and ev[5] not in ("E", "(-inf,+inf)"):
            nontrivial.add(key)
        if ev[2] == "mul":
            mulcells[ev[1] + " " + sign_class(ev[3]) + sign_class(ev[4])] += 1
        if ev[2] == "div":
            divcells[ev[1] + " " + sign_class(ev[3]) + sign_class(ev[4])] += 1
    ctx.cov.update(
        evaluations=len(events),
        distinct_nontrivial=len(nontrivial),
        distinct=len(distinct),
        rule="distinct by sha256 of (type, op, I, J); non-trivial: both operands non-empty and the real result neither empty nor the universe",
        samples=[" ".join(events[e]) for e in order[5000:5006]] + [" ".join(events[e]) for e in order[-3:]],
        traces_validated_against_impl=n_ok,
        events_with_mismatch=len(mism),
        mismatch_histogram=dict(obligation_hist),
        per_type_op=dict(per),
        mul_sign_cells=dict(mulcells),
        div_sign_cells=dict(divcells),
        defect_switches_measured={"d3_mul_straddle_keeps_info_of_discarded_candidate": d3, "d3_witness": probes["d3"][1],
                                  "d12_wrap_width_eq_2_pow_w": d12, "d12_witness": probes["d12"][1]},
        random_pairs_per_type=nrandom,
        linearize_trees_per_configuration=ncount,
        harness_crashes=len(crashes),
        model_selftest_failures=len(st_fail),
        phase_seconds={"ppl+lake (incl. waiting for the shared locks)": round(t_prove, 1), "harness compile": round(t_cc, 1),
                       "harness run": round(t_harness, 1), "drivers (parallel per type)": round(t_driver, 1)},
    )
    ctx.assumptions += [
        "rational members only (an interval denotes a subset of Q; all library policies have may_contain_infinity = false)",
        "double rounding is IEEE binary64 directed rounding (Rounding.double); the library is compiled with -frounding-math",
        "exactness for the integer type = least interval with integer closed bounds; strict relations on policies that cannot store OPEN are checked for enclosure only (the library rejects strict constraints for such boxes)",
        "division of {0} by a zero-straddling interval returns the universe by design (I_SINGULARITIES)",
        "analysed machine: every arithmetic operation returns fl(exact result) with |fl(v) - v| <= eps_f*|v| + omega_f "
        "(eps_f = 2^-MANTISSA_BITS, omega_f = 2^(1-EXPONENT_BIAS-MANTISSA_BITS), Float_defs.hh), which covers round-to-nearest, "
        "upwards, downwards and towards zero of the IEEE754 single/double formats as long as no operation overflows; negation is exact; "
        "overflowing or dividing-by-zero concrete executions are not judged",
        "a floating-point literal is abstracted by the oracle to an interval containing its roundings to the analysed format in all four modes",
    ]
    if ctx.tier == "thorough":
        bad = ctx.leanchecker(["PPLV.Props.C12"])
        for b in bad:
            ctx.violation("leanchecker: " + b, {"obligation": b}, found_input=False, record={"site": "lean", "tags": ["proof"]})


def replay(ctx, path):
    """Re-run one recorded event on the library as it is now and judge it again."""
    from checks.common import replay_generic
    r = json.load(open(path))
    if not all(k in r for k in ("type", "op", "I", "J")) or len(r.get("type", "")) == 2:
        # linearization events (two-letter configuration): re-judge the recorded journal line with the current driver
        return replay_generic(ctx, path)
    ctx.ensure_ppl()
    drv = ctx.ensure_pplv("pplv_c12")
    h = ctx.compile_harness("c12_interval.cc", flags=("-frounding-math",))
    rc, out, err = ctx.run([h, "--one", "%s %s %s %s" % (r["type"], r["op"], r["I"], r["J"])], timeout=300)
    print("recorded : %s" % r.get("event"))
    lines = (out or "").splitlines()
    probes = {t[1]: t[2] == "1" for t in (l.split() for l in lines) if t and t[0] == "probe"}
    evs = [l for l in lines if len(l.split()) == 7 and l.split()[2] == r["op"]]
    crashed = [l for l in lines if l.startswith("crash")]
    if crashed:
        print("now      : %s" % crashed[0])
        print("VIOLATION property=%s replay=%s" % (ctx.pid, path))
        return 1
    if rc != 0 or not evs:
        print("could not re-run the event: rc=%s %s" % (rc, (err or "")[-300:]))
        return 2
    print("now      : %s" % evs[0])
    wd = ctx.workdir()
    jp = os.path.join(wd, "one.txt")
    open(jp, "w").write(evs[0] + "\n")
    rc, vout, err = ctx.run([drv, "--d3", "1" if probes.get("d3") else "0", "--d12", "1" if probes.get("d12") else "0"],
                            stdin_path=jp, timeout=300)
    bad = False
    for l in (vout or "").splitlines():
        print("verdict  : " + l)
        if l.startswith("MISMATCH"):
            t = l.split(" ", 4)
            tags = [] if t[3] == "tags=-" else t[3][5:].split(",")
            site = site_of(r["op"])
            k = ctx.match_known({"site": site, "tags": tags})
            if k is not None and t[2] in PROPERTY_OBLIGATIONS:
                print("KNOWN-FINDING: property=%s %s [%s]" % (ctx.pid, k["what"], k["id"]))
            else:
                bad = True
    if bad:
        print("VIOLATION property=%s replay=%s" % (ctx.pid, path))
        return 1
    return 0
