"""C14 — exceptional exits are clean: rejected calls change nothing, failures leak none.

Lean part (PPLV.Props.C14): allocation machines of the RAII protocols, proved for every input and every
fault position (or refuted on a witness, with the exact side condition), and the precondition table.
Run-time part (harness/c14_faults.cc): (a) rejected calls on every domain, (b) the k-th allocation of a
call failing for every k, (c) abandonment at every checkpoint / deterministic timeouts at every weight.
"""
import collections, concurrent.futures as cf, hashlib, os, re
from .common import VERIF, LEAN, file_hash, sh

LEVEL = "fault_enumeration"
PARTS = ["c14_gen.inc", "c14_alloc.inc", "c14_scen.inc", "c14_scen2.inc", "c14_scen3.inc", "c14_scen4.inc", "c14_reject.inc"]

# ---------------------------------------------------------------------------------------------
# classification of a failing run: (site, tags) for known_findings.json
# ---------------------------------------------------------------------------------------------
HIGH = ("Polyhedron::", "C_Polyhedron::", "NNC_Polyhedron::", "Grid::", "BD_Shape<", "Octagonal_Shape<", "Box<", "MIP_Problem::",
        "PIP_Problem::", "PIP_Tree_Node::", "PIP_Solution_Node::", "PIP_Decision_Node::", "Pointset_Powerset<", "Powerset<",
        "Partially_Reduced_Product<", "Determinate<", "Congruence_System::", "Constraint_System::", "Generator_System::",
        "Grid_Generator_System::", "Linear_System<", "Matrix<", "Bit_Matrix::", "OR_Matrix<", "DB_Matrix<", "DB_Row<", "Interval<",
        "Sparse_Row::", "Dense_Row::", "CO_Tree::", "Linear_Expression", "Swapping_Vector<", "Constraint::", "Generator::",
        "Congruence::", "Grid_Generator::", "linear_partition", "approximate_partition", "Variables_Set::")
LOW = ("Sparse_Row::", "Dense_Row::", "CO_Tree::", "Linear_Expression", "Swapping_Vector<", "Constraint::", "Generator::", "Congruence::",
       "Grid_Generator::", "Linear_System<", "Matrix<", "DB_Row<", "DB_Matrix<", "OR_Matrix<", "Bit_Matrix::", "Interval<", "Variables_Set::")
ITER_CTOR_SITES = ("Sparse_Row::Sparse_Row", "Sparse_Row::linear_combine", "CO_Tree::CO_Tree<", "Linear_Expression_Impl<Sparse_Row>::construct",
                   "voidLinear_Expression_Impl<Sparse_Row>::construct", "Sparse_Row::operator=")


def strip_tmpl(name):
    """function name without template arguments: BD_Shape<...>::foo -> BD_Shape::foo"""
    out, depth = [], 0
    for ch in name:
        if ch == "<":
            depth += 1
        elif ch == ">":
            depth -= 1
        elif depth == 0:
            out.append(ch)
    return "".join(out)


def frames(stack):
    return [f for f in stack.split(";") if f]


def bare(frame):
    """frame name without a glued return type (`unsignedlongPolyhedron::conversion<..>` -> `Polyhedron::conversion<..>`)"""
    best = None
    for h in HIGH:
        i = frame.find(h)
        if i >= 0 and (best is None or i < best) and re.fullmatch(r"[a-z_*&:<>0-9]*", frame[:i]) and "::" not in frame[:i].replace("std::", ""):
            best = i
    return frame[best:] if best else frame


def interrupted_function(thrower):
    """innermost library function of a high-level class on the stack of the failing event"""
    fs = [bare(f) for f in frames(thrower) if not f.startswith(("gmp:", "operatornew", "std::", "__gnu_cxx::", "voidstd::", "Counting_Throwable::",
                                                                  "Timeout::", "Threshold_Watcher", "maybe_abandon"))]
    pick = None
    for g in fs:
        if g.startswith(HIGH) and not g.startswith(LOW):
            pick = g; break
    if pick is None:
        for g in fs:
            if g.startswith(HIGH):
                pick = g; break
    return strip_tmpl(pick) if pick else (strip_tmpl(fs[0]) if fs else "?")


def leak_root(site):
    """root cause class of one leaked block, from the stack that allocated it"""
    s = site.split(":", 1)[1] if ":" in site[:4] else site
    fl = frames(s)
    for i, f in enumerate(fl):
        if f.startswith("MIP_Problem::MIP_Problem"):
            # a block of a copied Constraint: only constraint / expression / row code between the allocation and the constructor body
            inner = [g[4:] if g.startswith("void") else g for g in fl[:i]]
            if all(g.startswith(("operatornew", "gmp:", "CO_Tree::", "Sparse_Row::", "Dense_Row::", "Linear_Expression", "Constraint::",
                                 "MIP_Problem::add_constraint_helper")) for g in inner):
                return "MIP_Problem::MIP_Problem", "constraint_copies_not_deleted_when_constructor_throws"
            break
    m = re.match(r"(operatornew(\[\])?;CO_Tree::init;|gmp:__gmpz_init_set;)(.*)$", s)
    if m:
        rest = m.group(3)
        if rest.startswith(ITER_CTOR_SITES):
            return "CO_Tree::CO_Tree(Iterator, n)", "element_copy_throws_in_fill_loop"
    fs = [strip_tmpl(f) for f in frames(s) if not f.startswith("operatornew")][:3]
    return "leak:" + "<".join(fs), "unclassified_leak"


MPQ_MARKS = ("__gmpq_", "Interval", "Box<", "BD_Shape<", "Octagonal_Shape<", "DB_Row<", "DB_Matrix<", "OR_Matrix<", "Checked_Number<", "mpq",
             "__gmp_expr", "ResultChecked::")


def gmpxx_internal(leaked, thrower):
    """At most two GMP blocks leaked, no operator-new block, and both the leaked blocks and the failing allocation belong to ONE
    mpq_class object under construction / one operator<< of gmpxx: `mpq_class(const mpq_class&)`, `mpq_class(expr)` and
    `operator<<(ostream&, mpz_t/mpq_t)` of libgmpxx are not exception safe themselves (design-notes/probes/c14_gmpxx_mpq_ctor.cc)."""
    sites = [x for x in leaked.split("|") if x.startswith("gmp:")]
    if not sites:
        return False
    tf = frames(thrower)
    for site in sites:
        fs = frames(site[4:])
        if len(fs) >= 2 and re.match(r"gmp:__gmp[zq]_get_str$", fs[0]) and fs[1].startswith("gmp:operator<<"):
            continue                                           # the string of operator<<, lost when the stream throws
        if not tf or not tf[0].startswith("gmp:"):
            return False                                       # the failing allocation is not a GMP one
        own = [f for f in fs if not f.startswith("gmp:")]
        thr = [f for f in tf if not f.startswith("gmp:")]
        if own != thr:
            return False                                       # not the same chain of activations
        if not any(m in f for f in fs + tf for m in MPQ_MARKS):
            return False                                       # nothing rational in sight: mpz_class is atomic
    return True


SYMPTOM = {
    "const_recv_not_OK_after_fault": "const_object_damaged_by_fault", "const_recv_changed_value_after_fault": "const_object_damaged_by_fault",
    "const_arg_not_OK_after_call": "const_object_damaged_by_fault", "const_arg_changed_value": "const_object_damaged_by_fault",
    "const_arg_check_threw": "const_object_damaged_by_fault", "redo_observation_differs": "const_object_damaged_by_fault",
    "copy_of_recv_OK_after_fault": "const_object_damaged_by_fault",
    "recv_not_OK_after_reuse": "object_claims_valid_but_is_unusable_after_fault", "copy_of_valid_recv_not_OK": "object_claims_valid_but_is_unusable_after_fault",
    "redo_differs_from_reference": "other_objects_damaged_by_fault", "recv_OK_after_reassign": "other_objects_damaged_by_fault",
    "reassigned_recv_differs": "other_objects_damaged_by_fault", "recv_OK_after_redo": "other_objects_damaged_by_fault",
    "redo_after_reassign_differs": "other_objects_damaged_by_fault", "redo_ctor_differs": "other_objects_damaged_by_fault",
    "recv_after_reassign": "other_objects_damaged_by_fault", "redo_load_fails": "other_objects_damaged_by_fault",
}


def symptom(check):
    if check.startswith("exception_outside_armed_call_"):
        return "other_objects_damaged_by_fault"
    return SYMPTOM.get(check, check)


def crash_symptom(stage):
    if stage in ("post_destructors", "runner"):
        return "crash_when_destroyed_after_fault"
    if stage in ("armed_call",):
        return "crash_inside_the_call"
    if stage in ("setup",):
        return "crash_in_setup_after_earlier_fault"
    return "crash_or_hang_when_used_after_fault"


FAMILIES = [
    ("solve", r"^(solve|is_satisfiable|optimizing|evaluate_objective|set_objective|add_to_integer|print_solution)"),
    ("widening", r"(widening|extrapolation|narrowing|collapse)"),
    ("integer", r"^(drop_some|wrap_assign|contains_integer_point|integer_upper_bound)"),
    ("affine", r"^(affine_|generalized_affine|bounded_affine|unconstrain)"),
    ("dimensions", r"^(add_space|remove_|map_space|expand_|fold_|concatenate|set_space_dimension|shift_|swap_space|permute|resize|add_zero|reserve)"),
    ("lattice", r"^(intersection|upper_bound|poly_hull|poly_difference|difference|time_elapse|positive_time_elapse|simplify_using_context|omega_reduce|"
                r"pairwise_reduce|add_disjunct|linear_partition|approximate_partition|NNC_poly_difference|topological_closure)"),
    ("add_refine", r"^(add_|refine_|set_interval|propagate|insert|reset|set_coefficient|linear_combine|normalize|plus|minus|times|neg_|sub_mul|"
                   r"erase|increase_keys|clear|delete_and|binary_|grow_)"),
    ("construct_copy_assign", r"^(ctor|copy|assign|m_swap|ascii_|total_memory|C_from|.*_build$|set_representation)"),
]


def family(scenario):
    """operation family of a scenario `<Domain>.<operation>` (everything else: a const observer)"""
    if scenario.startswith("micro."):
        return "protocol"
    op = scenario.split(".", 1)[1] if "." in scenario else scenario
    for fam, rx in FAMILIES:
        if re.search(rx, op):
            return fam
    return "observer"


def where(fn, scenario):
    """site of a damage / crash finding: class of the interrupted function @ operation family of the scenario"""
    return "%s@%s" % (component(fn), family(scenario))


def component(fn):
    """class of the interrupted function: findings about damage / crashes are grouped per (class, symptom); leaks are not"""
    return fn.rsplit("::", 1)[0] if "::" in fn else fn


class Finding:
    __slots__ = ("site", "tags", "what", "line")

    def __init__(self, site, tags, what, line):
        self.site, self.tags, self.what, self.line = site, tags, what, line


def classify_fault(tok, line, thrower_of_crash=None):
    """-> list of Finding for one `fault`/`crash` line"""
    out = []
    kind, idx, name = tok[1], tok[2], tok[3]
    kv = dict(t.split("=", 1) for t in tok[4:] if "=" in t and not t.startswith("!"))
    dom = name.split(".")[0]
    if tok[0] == "crash":
        stage, sig = kv.get("stage", "?"), tok[-1]
        thr = thrower_of_crash or ""
        fn = interrupted_function(thr) if thr else "?"
        if thr.startswith("gmp:__gmpz_mul;"):
            return [Finding("gmp:mpz_mul", ["destination_released_before_new_limbs_are_allocated", "crash_" + stage, sig], "crash after a failing allocation inside mpz_mul", line)]
        if kv.get("k") == "-1" and sig == "HANG":
            return [Finding("slow", ["scenario_too_slow_without_fault"], "", line)]      # counted, not a violation (see run())
        if kv.get("k") == "-1":
            out.append(Finding("unfaulted:" + name, ["crash_without_fault", sig], "crashes without any fault injected (%s in %s)" % (sig, stage), line))
        else:
            out.append(Finding(where(fn, name), [crash_symptom(stage), "in_" + fn, "op_" + name, "crash_%s_%s" % (stage, sig), "%s_fault" % kind, "crash_" + stage, sig, "domain_" + dom],
                               "%s at %s after a fault inside %s" % (sig, stage, fn), line))
        return out
    thrower = kv.get("thrower", "")
    fn = interrupted_function(thrower) if thrower else "?"
    if thrower.startswith("gmp:__gmpz_mul;"):
        # GMP's mpz_mul releases the limbs of the destination BEFORE it allocates the larger block (mpz/mul.c): when that
        # allocation throws, the destination points to released memory.  Not PPL code; one finding for every symptom.
        fn = "gmp:mpz_mul"
    ln, lg = int(kv.get("leak_new", 0)), int(kv.get("leak_gmp", 0))
    if ln == 0 and 0 < lg <= 2 and gmpxx_internal(kv.get("leaked", ""), thrower):
        out.append(Finding("gmpxx", ["leak_inside_gmpxx"], "", line))          # counted, not a violation (see run())
    elif ln + lg > 0:
        roots = collections.OrderedDict()
        for site in kv.get("leaked", "").split("|"):
            if not site:
                continue
            if site.startswith("gmp:") and lg == 0:
                continue
            if site.startswith("new:") and ln == 0:
                continue
            roots[leak_root(site)] = site
        if not roots:
            roots[("leak:?", "unclassified_leak")] = ""
        for (site, pred), ex in roots.items():
            out.append(Finding(site, [pred, "%s_fault" % kind], "leak (%d operator-new blocks, %d GMP blocks) e.g. allocated at %s" % (ln, lg, ex[:160]), line))
    if int(kv.get("bad_free", 0)) + int(kv.get("bad_origin", 0)) > 0:
        out.append(Finding(fn if fn == "gmp:mpz_mul" else where(fn, name),
                           ["destination_released_before_new_limbs_are_allocated" if fn == "gmp:mpz_mul" else "double_free_or_unknown_block", "in_" + fn, "op_" + name, "%s_fault" % kind],
                           "free of a block that is not live after a fault inside " + fn, line))
    for t in tok:
        if t.startswith("!"):
            if fn == "gmp:mpz_mul":
                out.append(Finding(fn, ["destination_released_before_new_limbs_are_allocated", t[1:]], "damage after a failing allocation inside mpz_mul", line))
                continue
            out.append(Finding(where(fn, name), [symptom(t[1:]), "in_" + fn, "op_" + name, t[1:], "%s_fault" % kind, "domain_" + dom], "%s after a fault inside %s" % (t[1:], fn), line))
    if kv.get("fired") == "1" and kv.get("result") == "completed" and not out:
        pass
    return out


def sys_position(kv, state):
    """structural class of a system call that changed something although it was rejected"""
    if kv.get("dk", "").startswith("product"):
        return "first_component_modified_before_the_second_rejects"     # (whatever the position of the offender)
    return "offender_first" if state.endswith("offender_first") else "offender_after_applied_elements"


def analyse_reject(rlines, verd, report, stats, samples):
    """rejected-call journal + verdicts of the Lean table -> findings through report(); returns (calls, thrown, histogram)"""
    rej_n = rej_thrown = 0
    rej_hist = collections.Counter()
    for i, l in enumerate(rlines, 1):
        t = l.split()
        if not t:
            continue
        if t[0] == "crash":
            prev = next((x for x in reversed(rlines[:i - 1]) if x.startswith("rej ")), "")
            pt = prev.split()
            site = "reject:%s:%s" % (pt[1], pt[2]) if len(pt) > 2 else "reject:?"
            report(Finding(site, ["crash_in_rejected_call_batch", t[1]], "crash %s right after `%s`" % (t[1], prev[:160]), l), "reject", {"journal_tail": rlines[max(0, i - 4):i]})
            continue
        if t[0] != "rej":
            continue
        rej_n += 1
        dom, op = t[1], t[2]
        kv = dict(x.split("=", 1) for x in t[3:] if "=" in x)
        exp, got = kv.get("exp"), kv.get("got")
        rej_hist[dom] += 1
        if got != "none":
            rej_thrown += 1
        site = "reject:%s:%s" % (dom, op.split(":")[0] if dom != "poly" else op)
        state = kv.get("state", "")
        sub = ":".join(state.split(":")[2:]) if dom == "poly" and state.count(":") >= 2 else ""
        if sub:
            site += ":" + sub
        rec = {"line": l}
        if exp in ("model", "sysmodel"):
            v = verd.get(i)
            if v is None:
                report(Finding(site, ["no_model_verdict"], "no verdict of the Lean table for: " + l[:200], l), "reject", rec)
            elif v[0] == "MISMATCH" and "precond-system-unchanged" in v[1]:
                # rejected with the right class, but something was applied before the exception left.  The position of the
                # offender is part of the class: first = nothing should even have been looked at; later = the elements
                # (or, for a product, the component) before it had already been applied
                posn = sys_position(kv, state)
                report(Finding(site, ["object_changed_by_rejected_call:" + posn, "state_" + state], "a rejected call changed an object involved (the Lean table says unchanged): " + l[:220], l), "reject", rec)
            elif v[0] == "MISMATCH":
                cls = "accepted_but_model_rejects" if got == "none" else ("rejected_but_model_accepts" if "model=none" in v[1] else "wrong_exception_class")
                report(Finding(site, [cls, "state_" + state.split(":")[1] if ":" in state else "state_" + state], "precondition table disagrees: %s | %s" % (v[1], l[:200]), l), "reject", rec)
        elif exp == "any":
            pass
        elif exp != got:
            cls = "accepted_instead_of_%s" % exp if got == "none" else ("throws_%s_instead_of_%s" % (got, exp))
            report(Finding(site, [cls, "state_" + state], "documented %s, observed %s: %s" % (exp, got, l[:200]), l), "reject", rec)
        sysline = exp == "sysmodel"
        posn = sys_position(kv, state) if sysline else ""
        if sysline and verd.get(i, ("",))[0] == "ok-representation-only":
            stats["rejected_call_changed_representation_only"] += 1
        if got != "none" and sysline:
            # (whether anything changed is judged by the driver against the table, above)
            if kv.get("ok") != "1":
                report(Finding(site, ["object_not_OK_after_rejected_call:" + posn, "state_" + state], "OK() fails after a rejected call: " + l[:220], l), "reject", rec)
            if kv.get("net") not in ("0,0", None):
                report(Finding(site, ["rejected_call_leaks:" + posn, "state_" + state], "allocation balance of a rejected call is not zero (net=%s): %s" % (kv.get("net"), l[:200]), l), "reject", rec)
            if kv.get("bad_free") not in ("0", None):
                report(Finding(site, ["rejected_call_bad_free"], "bad free in a rejected call: " + l[:200], l), "reject", rec)
        elif got != "none":
            if kv.get("dump_same") != "1" and kv.get("sem_same") != "1":
                report(Finding(site, ["object_changed_by_rejected_call", "state_" + state], "an object involved in a rejected call changed value: " + l[:220], l), "reject", rec)
            elif kv.get("dump_same") != "1":
                stats["rejected_call_changed_representation_only"] += 1
            elif kv.get("sem_same") != "1":
                report(Finding(site, ["object_changed_by_rejected_call", "state_" + state], "an object involved in a rejected call changed value: " + l[:220], l), "reject", rec)
            if kv.get("ok") != "1":
                report(Finding(site, ["object_not_OK_after_rejected_call", "state_" + state], "OK() fails after a rejected call: " + l[:220], l), "reject", rec)
            if kv.get("net") not in ("0,0", None):
                report(Finding(site, ["rejected_call_leaks", "state_" + state], "allocation balance of a rejected call is not zero (net=%s): %s" % (kv.get("net"), l[:200]), l), "reject", rec)
            if kv.get("bad_free") not in ("0", None):
                report(Finding(site, ["rejected_call_bad_free"], "bad free in a rejected call: " + l[:200], l), "reject", rec)
        if len(samples) < 3 and got != "none" and rej_n % 97 == 1:
            samples.append(l[:260])
    return rej_n, rej_thrown, rej_hist


# ---------------------------------------------------------------------------------------------
def run(ctx):
    ctx.ensure_ppl()
    broken = ctx.prove(["PPLV.Props.C14"])
    quick = ctx.tier == "quick"
    hdir = os.path.join(VERIF, "harness")
    parts_hash = file_hash(*[os.path.join(hdir, p) for p in PARTS])
    h = ctx.compile_harness("c14_faults.cc", flags=("-rdynamic", "-DC14_PARTS_HASH=0x" + parts_hash[:8]))
    wd = ctx.workdir()
    viol = {}                       # (site, tags-tuple) -> count, first record
    stats = collections.Counter()
    samples = []

    def report(f, kind, replay_extra):
        key = (f.site, f.tags[0]) if not f.site.startswith("reject:") else (f.site, tuple(f.tags))
        stats["findings_" + kind] += 1
        if key in viol:
            viol[key][0] += 1
            return
        viol[key] = [1, f, replay_extra]

    # ---- (a) rejected calls ------------------------------------------------------------------
    rpath = os.path.join(wd, "reject.txt")
    rc, _, err = ctx.run([h, "--mode", "reject", "--seed", str(ctx.seed)], stdout_path=rpath, timeout=900)
    if rc != 0:
        ctx.fatal("harness (reject) failed rc=%s %s" % (rc, (err or "")[-400:]))
    rlines = open(rpath).read().splitlines()
    # Lean precondition table: expected class of every polyhedron call
    vpath = os.path.join(wd, "reject.verdicts")
    r = sh(["lake", "env", "lean", "--run", "Driver/C14.lean"], cwd=LEAN, stdin=open(rpath), stderr=-1)
    if r.returncode != 0:
        ctx.fatal("Driver/C14.lean failed: " + (r.stdout or "")[-600:] + (r.stderr or "")[-600:])
    verd = {}
    for l in r.stdout.splitlines():
        t = l.split(None, 2)
        if t and t[0] in ("ok", "MISMATCH", "ok-representation-only"):
            verd[int(t[1])] = (t[0], t[2] if len(t) > 2 else "")
    rej_n, rej_thrown, rej_hist = analyse_reject(rlines, verd, report, stats, samples)

    # ---- (b), (c): fault / abandonment enumeration -----------------------------------------------
    nproc = 10
    modes = [("fault", ["--sample", "60" if quick else "0", "--sample-from", "0"]),
             ("abandon", []), ("weight", [])]
    jobs = []
    for mode, extra in modes:
        for ph in range(nproc):
            jobs.append((mode, ph, [h, "--mode", mode, "--seed", str(ctx.seed), "--step", str(nproc), "--phase", str(ph)] + extra))

    def work(job):
        mode, ph, cmd = job
        outp = os.path.join(wd, "%s_%d.txt" % (mode, ph))
        rc, _, err = ctx.run(cmd, stdout_path=outp, timeout=6000)
        return mode, ph, rc, outp, err

    journals = collections.defaultdict(list)
    with cf.ThreadPoolExecutor(nproc) as ex:
        for mode, ph, rc, outp, err in ex.map(work, jobs):
            if rc != 0:
                ctx.fatal("harness (%s phase %d) failed rc=%s %s" % (mode, ph, rc, (err or "")[-400:]))
            journals[mode].append(outp)

    tot = collections.Counter()
    per_dom = collections.Counter()
    mk_lines = []
    distinct = set()
    for mode in ("fault", "abandon", "weight"):
        for outp in journals[mode]:
            lines = open(outp).read().splitlines()
            for i, l in enumerate(lines):
                t = l.split()
                if not t:
                    continue
                if t[0] == "scen":
                    kv = dict(x.split("=", 1) for x in t[4:] if "=" in x)
                    tot[mode + "_scenarios"] += 1
                    tot[mode + "_events"] += int(kv.get("events", 0))
                    if int(kv.get("events", 0)) > 0:
                        tot[mode + "_scenarios_with_events"] += 1
                    bad = [x for x in t if x.startswith("!")]
                    if kv.get("fault_done") != "1" and bad == ["!exception_outside_armed_call_invalid_argument"]:
                        # the seeded data do not meet the precondition of the operation under test (e.g. a widening whose
                        # argument is not contained): the reference call itself is rejected; nothing is enumerated
                        stats["scenarios_skipped_precondition_not_met"] += 1
                    elif bad or kv.get("fault_done") != "1" or kv.get("dry_bad_free") not in ("0", None):
                        report(Finding("unfaulted:" + t[3], ["fails_without_fault"] + [b[1:] for b in bad], "scenario fails without any fault injected: " + l[:240], l), mode, {"line": l})
                elif t[0] == "done":
                    kv = dict(x.split("=", 1) for x in t[4:] if "=" in x)
                    runs = int(kv.get("runs", 0)); fired = int(kv.get("fired_new", 0)) + int(kv.get("fired_gmp", 0))
                    tot[mode + "_runs"] += runs + int(kv.get("reruns", 0)); tot[mode + "_k"] += runs; tot[mode + "_fired"] += fired
                    tot[mode + "_fired_new"] += int(kv.get("fired_new", 0)); tot[mode + "_fired_gmp"] += int(kv.get("fired_gmp", 0))
                    tot[mode + "_absorbed"] += int(kv.get("absorbed", 0)); tot[mode + "_soft_not_OK"] += int(kv.get("soft_not_OK", 0))
                    tot[mode + "_transient_candidates"] += int(kv.get("transient", 0))
                    per_dom[t[3].split(".")[0]] += fired
                    if int(kv.get("soft_not_OK", 0)):
                        stats["scenarios_with_receiver_not_OK_after_failed_mutator"] += 1
                elif t[0] == "mk":
                    mk_lines.append(l)
                elif t[0] in ("fault", "crash"):
                    thr = None
                    if t[0] == "crash" and i + 1 < len(lines) and lines[i + 1].startswith("thrower "):
                        thr = lines[i + 1].split(None, 2)[2] if len(lines[i + 1].split(None, 2)) > 2 else ""
                    for f in classify_fault(t, l, thr):
                        report(f, mode, {"line": l[:1200], "replay_cmd": "%s --mode %s --seed %d --only %s --k %s" % (
                            os.path.basename(h), mode, ctx.seed, t[3], dict(x.split("=", 1) for x in t[4:] if "=" in x).get("k"))})
                    if len(samples) < 8 and t[0] == "fault" and mode != "fault":
                        samples.append(l[:300])
    # machines replayed against the real protocols
    if mk_lines:
        mp = os.path.join(wd, "mk.txt")
        open(mp, "w").write("\n".join(mk_lines) + "\n")
        r = sh(["lake", "env", "lean", "--run", "Driver/C14.lean"], cwd=LEAN, stdin=open(mp), stderr=-1)
        if r.returncode != 0:
            ctx.fatal("Driver/C14.lean failed on the machine journal: " + (r.stdout or "")[-600:])
        for l in r.stdout.splitlines():
            t = l.split(None, 2)
            if t and t[0] == "ok":
                stats["machine_runs_matching_model"] += 1
            elif t and t[0] == "ok-as-written":
                # agrees with the historical machine only: the repair is not in this tree; the defect is reported
                # (as a finding of its own) from the fault journal
                stats["machine_runs_matching_model"] += 1
                stats["machine_runs_matching_as_written_machine_only"] += 1
            elif t and t[0] == "MISMATCH":
                src = mk_lines[int(t[1]) - 1]
                st = src.split()
                report(Finding("machine:" + st[1], ["model_and_library_disagree"], "allocation machine and library disagree: %s | %s" % (t[2], src), src), "machine", {"line": src})
        samples += mk_lines[:2]

    # ---- verdicts --------------------------------------------------------------------------------
    for key, (cnt, f, extra) in sorted(viol.items(), key=lambda kv: kv[0]):
        if f.site == "gmpxx":
            stats["leaks_inside_gmpxx_runs"] = cnt
            continue
        if f.site == "slow":
            stats["scenarios_skipped_too_slow_without_fault"] = cnt
            continue
        rep = {"site": f.site, "tags": f.tags, "occurrences": cnt}
        rep.update(extra)
        ctx.violation("%s [%s] x%d: %s" % (f.site, f.tags[0], cnt, f.what), rep, found_input=True, record={"site": f.site, "tags": f.tags})
    for b in broken:
        ctx.violation("proof obligation broken: " + b, {"obligation": b}, found_input=False)

    evaluations = rej_n + tot["fault_k"] + tot["abandon_k"] + tot["weight_k"]
    ctx.cov.update({
        "evaluations": evaluations,
        "distinct_nontrivial": tot["fault_fired"] + tot["abandon_fired"] + tot["weight_fired"] + rej_thrown,
        "rule": "one evaluation = one (scenario, k) run with the k-th event failing (k-th allocation: operator new or GMP; k-th maybe_abandon() "
                "checkpoint; deterministic timeout at the weight of the k-th checkpoint) or one rejected call; distinct by (scenario, k) / by "
                "journal line; non-trivial = the fault actually fired inside the armed call, resp. the call was rejected with an exception. "
                + ("quick tier: every k — each in two variants: assign-from-fresh + use + destroy, and destroy-as-is — of the scenarios whose operation "
                   "deletes and re-allocates owned sub-objects (protocol scenarios, ascii_load into non-fresh receivers, operator=, m_swap, PIP tree "
                   "clones, add_constraint after a solve, powerset add_disjunct/collapse, CO_Tree), about 60 evenly spaced k (offset by the seed) "
                   "of every other scenario; rejected calls: every ill-formed argument class, and for system-valued arguments the offending "
                   "element at every position after elements that do change the receiver" if quick
                   else "thorough tier: every k of every scenario"),
        "samples": samples[:10],
        "traces_validated_against_impl": stats["machine_runs_matching_model"],
        "rejected_calls": rej_n, "rejected_calls_that_threw": rej_thrown, "rejected_calls_by_domain": dict(rej_hist),
        "fault_scenarios": tot["fault_scenarios"], "fault_scenarios_with_allocations": tot["fault_scenarios_with_events"],
        "allocation_events_of_all_scenarios": tot["fault_events"],
        "faulted_runs": tot["fault_k"], "faults_fired": tot["fault_fired"], "faults_fired_operator_new": tot["fault_fired_new"],
        "faults_fired_gmp": tot["fault_fired_gmp"], "faults_absorbed_by_callee": tot["fault_absorbed"],
        "runs_including_confirmation_reruns": tot["fault_runs"], "leak_candidates_dismissed_as_pool_growth": tot["fault_transient_candidates"],
        "receiver_not_OK_after_failed_mutator_runs": tot["fault_soft_not_OK"],
        "abandon_checkpoints_enumerated": tot["abandon_k"], "abandon_fired": tot["abandon_fired"], "abandon_scenarios_with_checkpoints": tot["abandon_scenarios_with_events"],
        "weight_thresholds_enumerated": tot["weight_k"], "weight_fired": tot["weight_fired"],
        "faults_fired_by_domain": dict(per_dom),
        "finding_occurrences": {k: v for k, v in stats.items()},
        "distinct_finding_classes": len(viol),
    })
    ctx.assumptions += [
        "the allocation machines abstract one element construction / one owned sub-object to ONE event that either succeeds or fails atomically; "
        "the 1:1 micro scenarios are replayed against the machines at every run, the rest of the library is covered by enumeration only",
        "PPL documents exception safety only as 'never leaks resources or leaves invalid object fragments around' (README): leaks, bad frees, crashes, "
        "const objects that change, objects that cannot be assigned to or give a wrong result afterwards are violations; OK() of the RECEIVER of an "
        "interrupted mutator is reported as a statistic (receiver_not_OK_after_failed_mutator_runs), not as a violation",
        "this build uses GMP coefficients: 'coefficient overflow' exits do not exist here (bounded-coefficient builds are out of scope of this run)",
        "GMP temporaries above ~32 kB (TMP_ALLOC on the heap) would leak inside GMP itself on a throw; scenario coefficients stay far below that size",
        "quick tier samples k for the large scenarios; the thorough tier enumerates every k",
    ]
