"""C16 — sparse and dense rows are interchangeable; the sparse tree is a correct map.

proof:  PPLV.Props.C16  (smap_laws, bisect_in_spec, bisect_near_spec, bisect_spec, density_ok,
        rowop_wf, dense_sparse_equiv, dense_sparse_query, ofDense_toDense) — all sizes, induction.
tie:    harness/c16_rows.cc runs seeded lock-step histories on CO_Tree, Sparse_Row/Dense_Row and
        Linear_Expression (+ Constraint/Generator/Congruence and systems) in both representations;
        the native driver pplv_c16 replays every step on the proved models and judges the real
        output: contents = SMap semantics, dense = sparse, OK(), returned iterator, bisect
        post-condition on the real indexes[] array, density thresholds.
A failing history is shrunk (ddmin over its operation list, re-executed by `c16_rows --replay`).
"""
import collections, hashlib, os, re, subprocess, time
from . import c16_rebalance

LEVEL = "proof"

# obligations that only say "the code no longer is what the model transliterates" (the real
# output may still satisfy the property): reported as a broken correspondence
MODEL_ONLY = {"bisect_near-model", "bisect_in-model", "reserved"}


def classify(op_tokens):
    """record for known_findings matching: site + tags of the failing operation instance"""
    if not op_tokens:
        return {"site": "?", "tags": []}
    name = op_tokens[1] if len(op_tokens) > 1 else "?"
    kind = op_tokens[0]
    if name == "asgds_raw":
        return {"site": "Dense_Row::operator=(Sparse_Row)", "tags": ["target_capacity_ge_source_size"]}
    if kind == "row" and name == "convsz" and len(op_tokens) >= 6 and op_tokens[5] == "1":
        return {"site": "Sparse_Row(Dense_Row,sz,capacity)", "tags": ["sz_lt_source_size"]}
    if kind == "expr" and name == "ctor3" and len(op_tokens) >= 7 and op_tokens[5] == "1" and op_tokens[6] == "1":
        return {"site": "Sparse_Row(Dense_Row,sz,capacity)", "tags": ["sz_lt_source_size", "via_Linear_Expression_ctor"]}
    if kind == "row" and name == "conv" and len(op_tokens) >= 5 and op_tokens[4] == "1":
        return {"site": "Dense_Row(Sparse_Row)", "tags": ["source_size_zero"]}
    if kind == "expr" and name in ("lclax", "lclaxr"):
        c1, c2 = (op_tokens[4], op_tokens[5]) if len(op_tokens) > 5 else ("1", "1")
        mix_flag = op_tokens[6:8] if name == "lclax" else op_tokens[8:10]
        if c1 == "0" and c2 != "0" and mix_flag == ["1", "1"]:
            return {"site": "Linear_Expression_Impl<Sparse_Row>::linear_combine_lax",
                    "tags": ["c1_zero_c2_nonzero_dense_operand"]}
    return {"site": kind + ":" + name, "tags": []}


class Runner:
    def __init__(self, ctx, harness, driver, wd):
        self.ctx, self.h, self.d, self.wd = ctx, harness, driver, wd
        self.n = 0

    def pipe(self, args, tag):
        """run the harness with `args`, pipe the journal through the driver; returns (journal, verdicts)"""
        self.n += 1
        j = os.path.join(self.wd, "%s.journal" % tag)
        v = os.path.join(self.wd, "%s.verdict" % tag)
        rc, _, err = self.ctx.run([self.h] + args, stdout_path=j, timeout=900)
        if rc == -999:
            # the journal written so far is still judged; the driver reports the operation that hangs
            with open(j, "a") as f:
                f.write("crash TIMEOUT\nend\n")
        elif rc not in (0,):
            self.ctx.fatal("harness failed rc=%s: %s" % (rc, (err or "")[-400:]))
        rc, _, err = self.ctx.run([self.d], stdin_path=j, stdout_path=v, timeout=600)
        if rc != 0:
            self.ctx.fatal("driver failed rc=%s: %s" % (rc, (err or "")[-400:]))
        return j, v

    def replay(self, ops, tag="replay"):
        p = os.path.join(self.wd, "%s.ops" % tag)
        with open(p, "w") as f:
            f.write("\n".join(ops) + "\n")
        j, v = self.pipe(["--replay", p], tag)
        return mismatches(v), j


def mismatches(vpath):
    out = []
    for line in open(vpath, errors="replace"):
        if line.startswith("MISMATCH "):
            t = line.rstrip("\n").split(" ", 3)
            out.append((t[1], t[2], t[3] if len(t) > 3 else ""))
    return out


def hist_of(event_id):
    return event_id.split(".")[0]


def step_of(event_id):
    try:
        return int(event_id.split(".")[1])
    except Exception:
        return 10 ** 9


def ddmin(ops, test, budget=160):
    """classic delta debugging on a list; `test(list)` is True when the failure persists"""
    n = 2
    runs = 0
    while len(ops) >= 2 and runs < budget:
        chunk = max(1, len(ops) // n)
        reduced = False
        for i in range(0, len(ops), chunk):
            cand = ops[:i] + ops[i + chunk:]
            runs += 1
            if cand and test(cand):
                ops = cand
                n = max(n - 1, 2)
                reduced = True
                break
            if runs >= budget:
                break
        if not reduced:
            if chunk == 1:
                break
            n = min(len(ops), n * 2)
    return ops


def replay(ctx, path):
    """bin/check C16 --replay replays/C16-….json : re-execute the recorded operation list on the real
    library of the current tree and re-judge it with the driver; 1 = it still fails."""
    import json
    ctx.ensure_ppl()
    drv = ctx.ensure_pplv("pplv_c16")
    h = ctx.compile_harness("c16_rows.cc")
    R = Runner(ctx, h, drv, ctx.workdir())
    obj = json.load(open(path))
    if obj.get("kind") == "reb":
        return c16_rebalance.replay(ctx, obj, path)
    ops = obj.get("ops", [])
    print("property=C16 what=%s" % obj.get("what", "-")[:300])
    mm, jpath = R.replay(ops, "user-replay")
    for line in open(jpath, errors="replace"):
        if line[0] in "TRX":
            print("  " + line.rstrip()[:240])
    for i, o, d in mm:
        print("  MISMATCH %s %s %s" % (i, o, d[:300]), flush=True)
    if not mm:
        print("replay of %d operations: every observation agrees with the model" % len(ops))
        return 0
    rec = {"site": "?", "tags": []}
    for cand_op in reversed(ops):
        c = classify(cand_op.split())
        if c["tags"]:
            rec = c
            break
    k = ctx.match_known(rec)
    if k is not None:
        print("KNOWN-FINDING: property=C16 %s [%s]" % (k["what"][:200], k["id"]))
        return 0
    print("VIOLATION property=C16 replay=%s%s" % (path, "" if any(o not in MODEL_ONLY for _, o, _ in mm)
                                                  else " no-failing-input-found"))
    return 1


def run(ctx):
    t0 = time.time()
    ctx.ensure_ppl()
    broken = ctx.prove(["PPLV.Props.C16"])
    broken += c16_rebalance.run(ctx)        # stage 2: rebalance / compact / redistribute / rebuild (proof + identical-layout replay)
    if ctx.tier == "thorough":
        broken += ctx.leanchecker(["PPLV.Props.C16"])
    drv = ctx.ensure_pplv("pplv_c16")
    h = ctx.compile_harness("c16_rows.cc")
    wd = ctx.workdir()
    R = Runner(ctx, h, drv, wd)
    t_run = time.time()        # the time budget below is for the histories, not for waiting on the shared build locks
    for b in broken:
        ctx.violation("proof obligation of C16 does not check: " + b,
                      {"obligation": b, "theorems": "lean/PPLV/Props/C16.lean"}, found_input=False)

    reported = set()   # (site, obligation) already reported

    def report(kind, ops, obligation, detail, where):
        """shrink the operation list, judge, report"""
        want_model_only = obligation in MODEL_ONLY

        def persists(cand):
            mm, _ = R.replay(cand, "shrink")
            if want_model_only:
                return any(o == obligation for _, o, _ in mm)
            return any(o not in MODEL_ONLY for _, o, _ in mm)

        mm0, _ = R.replay(ops, "shrink")
        reproduced = any((o == obligation) if want_model_only else (o not in MODEL_ONLY) for _, o, _ in mm0)
        small = ddmin(list(ops), persists) if reproduced else list(ops)
        mm, jpath = R.replay(small, "final")
        shown = [m for m in mm if (m[1] == obligation if want_model_only else m[1] not in MODEL_ONLY)] or mm
        # the operation that fails is the one announced (P line) under the id of the first shown mismatch
        announced = {}
        for line in open(jpath, errors="replace"):
            if line.startswith("P "):
                t = line.rstrip("\n").split(" ", 2)
                announced[t[1]] = t[2]
        fail_id = shown[0][0] if shown else None
        fail_op = announced.get(fail_id, small[-1] if small else "")
        rec = classify(fail_op.split())
        obl_names = sorted(set(o for _, o, _ in shown)) or [obligation]
        if not rec["tags"]:
            # failures of the position-level probes belong to the bisection functions, whatever ran before
            for o in obl_names:
                if o.startswith("bisect_near") or o == "bisect":
                    rec = {"site": "CO_Tree::bisect_near", "tags": []}
                elif o.startswith("bisect_in"):
                    rec = {"site": "CO_Tree::bisect_in", "tags": []}
        key = (rec["site"], obligation if want_model_only else "property")
        if key in reported:
            return
        reported.add(key)
        obs = "; ".join("%s: %s" % (o, d[:300]) for _, o, d in shown[:4]) or ("%s: %s" % (obligation, detail[:300]))
        replay_obj = {
            "kind": kind, "ops": small, "original_length": len(ops), "found_at": where,
            "obligations": sorted(set(o for _, o, _ in shown)) or [obligation],
            "observed": [{"id": i, "obligation": o, "detail": d[:800]} for i, o, d in shown[:8]],
            "reproduced_by_replay": reproduced,
            "how_to_replay": "printf '%%s\\n' <ops> > f.ops ; %s --replay f.ops | %s" % (
                os.path.basename(h), os.path.basename(drv)),
        }
        if want_model_only:
            what = ("C16 correspondence: the library no longer does what the proved model transliterates "
                    "(%s) but the returned value still satisfies the specification — %s" % (obligation, obs))
            ctx.violation(what, replay_obj, found_input=False, record=rec)
        else:
            what = "C16: real output breaks the ordered-map / dense≡sparse contract after %d operation(s) [%s] — %s" % (
                len(small), " ; ".join(small[-3:]), obs)
            ctx.violation(what, replay_obj, found_input=True, record=rec)

    def examine(jpath, vpath, where):
        """collect the failing histories of one run, report each (first failing step of each history)"""
        mm = mismatches(vpath)
        if not mm:
            return 0
        by_hist = collections.OrderedDict()
        for i, o, d in mm:
            by_hist.setdefault(hist_of(i), []).append((i, o, d))
        # the announced operations (P lines) of the failing histories
        ops = collections.defaultdict(list)
        kinds = {}
        want = set(by_hist)
        for line in open(jpath, errors="replace"):
            if line.startswith("P "):
                t = line.rstrip("\n").split(" ", 2)
                hh = hist_of(t[1])
                if hh in want:
                    ops[hh].append((step_of(t[1]), t[2]))
            elif line.startswith("H "):
                t = line.split()
                kinds[t[1]] = t[2]
        # property-level failures first, then model-only ones; a few of each are enough
        done = 0
        for pass_model_only in (False, True):
            for hh, lst in by_hist.items():
                prop = [m for m in lst if m[1] not in MODEL_ONLY]
                if pass_model_only and prop:
                    continue
                cand = lst if pass_model_only else prop
                if not cand:
                    continue
                first = min(cand, key=lambda m: step_of(m[0]))
                upto = step_of(first[0])
                oplist = [text for st, text in ops[hh] if st <= upto]
                # ids of erasewhile sub-steps run ahead of the announcing P line: keep the whole prefix
                if not oplist:
                    oplist = [text for _, text in ops[hh]]
                report(kinds.get(hh, "?"), oplist, first[1], first[2], "%s %s" % (where, first[0]))
                done += 1
                if done >= 12:
                    return len(mm)
        return len(mm)

    # 1. regression corpus -------------------------------------------------------------------------
    corpus = os.path.join(os.path.dirname(os.path.dirname(os.path.abspath(__file__))), "corpus", "C16")
    n_corpus = 0
    if os.path.isdir(corpus):
        for fn in sorted(os.listdir(corpus)):
            if fn.endswith(".ops"):
                n_corpus += 1
                j, v = R.pipe(["--replay", os.path.join(corpus, fn)], "corpus")
                examine(j, v, "corpus/" + fn)

    # 2. the classes of the known findings, probed on purpose (they must not hide anything else) ----
    j, v = R.pipe(["--kf", "1", "--first", "0", "--last", "6"], "kf")
    kf_mm = examine(j, v, "known-finding probes")
    # which classes does the library of this tree still get wrong?  (measured, per probe history)
    failing_hist = set(hist_of(i) for i, _, _ in mismatches(v))
    probe_of = {1: ["h0", "h1"], 2: ["h2", "h3"], 3: ["h4"], 4: ["h5"]}
    repaired = [k for k, hs in sorted(probe_of.items()) if not any(h in failing_hist for h in hs)]
    rep_arg = ["--repaired", ",".join(str(k) for k in repaired)] if repaired else []
    ctx.cov["known_finding_probes"] = {"KF-C16-%d" % k: ("repaired: class exercised in the seeded histories" if k in repaired
                                                          else "present: class avoided by the generator") for k in probe_of}

    # 3. seeded histories -----------------------------------------------------------------------------
    n_hist = 1200 if ctx.tier == "quick" else 15000
    chunk = 300
    totals = collections.Counter()
    ops_hist = collections.Counter()
    rs_hist = collections.Counter()
    size_hist = collections.Counter()
    kinds = collections.Counter()
    distinct = set()
    samples = []
    rebuild_up = rebuild_down = 0
    probes = probes_agree = 0
    n_mm = 0
    crashes = 0
    for first in range(0, n_hist, chunk):
        last = min(n_hist, first + chunk)
        j, v = R.pipe(["--seed", str(ctx.seed), "--first", str(first), "--last", str(last)] + rep_arg, "run%d" % first)
        n_mm += examine(j, v, "seed %d histories %d..%d" % (ctx.seed, first, last - 1))
        prev_rs = None
        for line in open(j, errors="replace"):
            c = line[0]
            if c == "T":
                parts = line.split("|")
                head = parts[0].split()
                obs = parts[1].split() if len(parts) > 1 else []
                ops_hist["tree:" + head[2]] += 1
                if len(obs) >= 3:
                    rs = int(obs[2]); sz = int(obs[1])
                    rs_hist[rs] += 1
                    size_hist[min(sz // 8 * 8, 128)] += 1
                    if prev_rs is not None and rs > prev_rs and prev_rs != 0:
                        rebuild_up += 1
                    if prev_rs is not None and 0 < rs < prev_rs:
                        rebuild_down += 1
                    prev_rs = rs
                    if sz >= 1:
                        hsh = hashlib.sha1(line.split(" ", 2)[2].encode()).digest()[:8]
                        distinct.add(hsh)
                totals["tree"] += 1
            elif c == "R":
                head = line.split("|", 1)[0].split()
                ops_hist["row:" + head[2]] += 1
                totals["row"] += 1
                if ":" in line:
                    distinct.add(hashlib.sha1(line.split(" ", 2)[2].encode()).digest()[:8])
                if len(samples) < 6 and head[2] in ("lcr", "swapc", "del", "seth") and len(line) < 700:
                    samples.append(line.strip()[:400])
            elif c == "X":
                head = line.split("|", 1)[0].split()
                ops_hist["expr:" + head[2]] += 1
                totals["expr"] += 1
                if ":" in line:
                    distinct.add(hashlib.sha1(line.split(" ", 2)[2].encode()).digest()[:8])
            elif c == "B":
                probes += 1
            elif c == "H":
                prev_rs = None
                kinds[line.split()[2]] += 1
            elif line.startswith("crash"):
                crashes += 1
        for line in open(v, errors="replace"):
            if line.startswith("ok ") and (".near." in line or ".in." in line):
                probes_agree += 1
        if time.time() - t_run > (150 if ctx.tier == "quick" else 3000):
            ctx.notes.append("stopped after %d histories (time budget)" % last)
            n_hist = last
            break

    evaluations = sum(totals.values()) + probes
    ctx.cov.update(
        evaluations=evaluations,
        distinct_nontrivial=len(distinct),
        rule="an event counts when the structure holds at least one stored entry afterwards; distinct by SHA-1 of "
             "the journal line without its id (operation, arguments, returned iterator, OK flags, full contents)",
        samples=samples,
        histories=dict(kinds), events=dict(totals),
        traces_validated_against_impl=probes_agree,
        position_level_bisect_probes=probes,
        reserved_size_histogram={str(k): rs_hist[k] for k in sorted(rs_hist)},
        tree_size_histogram={str(k): size_hist[k] for k in sorted(size_hist)},
        rebuild_bigger_events=rebuild_up, rebuild_smaller_events=rebuild_down,
        operations={k: ops_hist[k] for k in sorted(ops_hist)},
        mismatching_events=n_mm, known_finding_probe_mismatches=kf_mm, crashes_in_seeded_histories=crashes,
        corpus_files=n_corpus, harness_runs=R.n,
    )
    if not ctx.violations:
        import shutil
        shutil.rmtree(wd, ignore_errors=True)       # journals are large; keep them only when something failed
    ctx.assumptions += [
        "stage 2 (checks/c16_rebalance.py): rebalance / compact / redistribute / rebuild_bigger / rebuild_smaller / bulk constructor / "
        "insert(key,data) / erase(key) are transliterated and proved (PPLV.Props.C16Rebalance) and replayed to the identical array layout; "
        "the hinted insert(itr, key[, data]) (bisect_near + choice of the deeper candidate, then insert_precise) is covered by the stage-1 "
        "histories (contents, OK(), returned iterator) and by the theorems on its parts, not by a layout replay of its own",
        "invariant used by the stage-2 theorems beyond what OK() tests: a used node's parent is used (up-closed); it is proved to be "
        "established by the bulk constructor / rebuilds and preserved by insert and erase",
        "the stored-zero set after linear_combine is followed from the library (values, support and OK() are judged)",
        "Constraint / Generator / Congruence and their systems: dense output = sparse output (no Lean model of strong normalisation)",
        "iterators used as hints are valid iterators of the same row (any position, end() included), as the documentation requires",
    ]
