"""C02 — polyhedron operations compute exactly the documented point set."""
from . import poly_common as pc
LEVEL = "proof"


def run(ctx):
    ctx.ensure_ppl()
    broken = ctx.prove(["PPLV.Props.C02"])
    quick = ctx.tier == "quick"
    if not quick:
        broken += ctx.leanchecker(["PPLV.Props.C02"])
    pc.run_poly(ctx, ops="all", n_hist=1200 if quick else 30000, length=10 if quick else 24,
                maxdim=3 if quick else 4, observe_always=True)
    for b in broken:
        ctx.violation("proof obligation broken: " + b, {"obligation": b}, found_input=False)
    ctx.assumptions += [
        "each model operator is the relation / intersection / generator union of doc/definitions.dox, computed by the proved K1 kernel",
        "generator-based operators (hull, time-elapse, add_generators) use the library's generators of a copy only after checkDD verified them against the model set",
        "Chernikova conversion and the row-level affine transforms are covered end to end only (sampled histories)",
    ]
