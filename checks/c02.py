"""C02 — polyhedron operations compute exactly the documented point set."""
from . import poly_common as pc
from . import c02_rows
LEVEL = "proof"


def run(ctx):
    ctx.ensure_ppl()
    broken = ctx.prove(["PPLV.Props.C02"])
    quick = ctx.tier == "quick"
    if not quick:
        broken += ctx.leanchecker(["PPLV.Props.C02"])
    broken += c02_rows.run(ctx)            # stage 2: the row-level implementations (proof + raw-row correspondence)
    pc.run_poly(ctx, ops="all", n_hist=1000 if quick else 10000, length=10 if quick else 14,
                maxdim=3, observe_always=True, tag="all operators")
    # focused batches: the predicate-valued variants and the relation-judged operators on
    # neighbouring (adjacent / overlapping / nested) arguments
    for bias, tag in ((31, "hull_if_exact on neighbours"), (29, "difference"), (28, "simplify_using_context"),
                      (34, "difference: leastness through verified piece generators"), (37, "conversions C <-> NNC"),
                      (40, "fold_space_dimensions")):
        pc.run_poly(ctx, ops="all", n_hist=(700 if bias == 31 else 350 if bias < 34 else 200) if quick else 4000, length=8, maxdim=3,
                    observe_always=False, bias=bias, first=1000000 * bias, tag=tag)
    for b in broken:
        ctx.violation("proof obligation broken: " + b, {"obligation": b}, found_input=False)
    ctx.assumptions += [
        "each model operator is the relation / intersection / generator union of doc/definitions.dox, computed by the proved K1 kernel",
        "generator-based operators (hull, time-elapse, add_generators, fold, the pieces of poly_difference) use the library's generators of a copy only after checkDD verified them against the model set",
        "positive time-elapse is modelled exactly on constraints; C<->NNC conversions as closure / embedding; congruences: equalities exactly, proper ones as P ∩ cg ⊆ R ⊆ P (refine) or documented exception (add)",
        "Chernikova conversion and the row-level affine transforms are covered end to end only (sampled histories)",
    ]
