"""C05 — grids: congruence and generator descriptions agree and operations are exact.

Obligations: the theorems of PPLV/Props/C05.lean about the lattice kernel K2 (PPLV/Lattice):
`intersectCon` computes the intersection with a congruence, `consToGens` the generator form of a
congruence system, `memB/subsetB/equivB/satCgB` decide membership / inclusion / equality (sound and
complete), join is least, images are images, frequency is the gcd of the parameter products …

Tie to /repo: harness/c05_grid.cc runs seeded histories over a pool of real `Grid` objects
(every mutator, copies, observers chosen to drive the lazy congruence/generator state); the native
driver pplv_grid replays the journal on the reference model and decides with the verified procedures
  desc   : consToGens(congruences()) ≡ grid_generators() ≡ minimized_* ≡ reference result of the history
  query  : every answer equals what the denoted set dictates
A `desc` mismatch re-bases the model on the library's state, so one defect gives one mismatch.
"""
import collections, hashlib, json, os, re, shutil
from . import c05_reduce
from . import c05_ops

LEVEL = "proof"

QUERY_SITE = {
    "rel_cg": "relation_with(Congruence)", "rel_con": "relation_with(Constraint)", "rel_gen": "relation_with(Grid_Generator)",
    "frequency": "frequency", "maxmin": "maximize/minimize", "bounds": "bounds_from_above/below",
    "constrains": "constrains", "contains": "contains", "strictly_contains": "strictly_contains",
    "equals": "operator==", "is_disjoint_from": "is_disjoint_from", "is_empty": "is_empty",
    "is_universe": "is_universe", "is_discrete": "is_discrete", "is_bounded": "is_bounded",
    "is_topologically_closed": "is_topologically_closed", "contains_integer_point": "contains_integer_point",
    "space_dim": "space_dimension", "affine_dim": "affine_dimension", "OK": "OK",
}
DESC = ("cgs", "mincgs", "gens", "mingens", "cgens")   # cgens: grid_generators() of a copy, after every operation
OVERWRITE = ("new_univ", "new_empty", "new_cgs", "new_gens", "copy", "assign", "swap")


def rat_is_int(s):
    return "/" not in s


def state_nonintegral(state):
    """state = 'pt(..);Q[(..),(..)];L[..]' : does the point or a parameter have a non-integer coordinate"""
    m = re.match(r"pt\(([^)]*)\);Q\[(.*?)\];L\[", state)
    if not m:
        return False
    return "/" in m.group(1) or "/" in m.group(2)


def parse_info(s):
    """'dim=3 state=...' -> (dim, state)   (first occurrence: the receiver)"""
    m = re.search(r"dim=(\S+) state=(\S+)", s)
    if not m:
        return None, None
    d = int(m.group(1)) if m.group(1).isdigit() else None
    return d, m.group(2)


class History:
    def __init__(self, hid, start):
        self.hid, self.start = hid, start
        self.lines = []          # (lineno, text)

    def text(self, upto=None):
        return [t for (n, t) in self.lines if (upto is None or n <= upto) and not t.startswith("st")]


def run(ctx):
    ctx.ensure_ppl()
    broken = ctx.prove(["PPLV.Props.C05"])
    c05_reduce.run(ctx)          # stage 2: Grid::simplify / Grid::conversion models, own harness and driver
    c05_ops.run(ctx)             # stage 3: the Grid class itself (raw state of every operation), own harness and driver
    if ctx.tier == "thorough":
        broken += ctx.leanchecker(["PPLV.Props.C05"])
    drv = ctx.ensure_pplv("pplv_grid")
    h = ctx.compile_harness("c05_grid.cc")
    wd = ctx.workdir()
    nhist = 1500 if ctx.tier == "quick" else 30000
    length = 12 if ctx.tier == "quick" else 16
    seed = ctx.seed
    first, last = 0, nhist
    if ctx.replay:
        rp = json.load(open(ctx.replay))
        seed = rp.get("seed", seed)
        if "history" in rp:
            first, last = rp["history"], rp["history"] + 1
        length = rp.get("length", length)
    journal = os.path.join(wd, "journal.txt")
    cmd = [h, "--seed", str(seed), "--first", str(first), "--last", str(last), "--len", str(length), "--per-batch", "10"]
    rc, _, err = ctx.run(cmd, stdout_path=journal, timeout=1500)
    if rc != 0:
        ctx.fatal("harness failed rc=%s %s" % (rc, (err or "")[-500:]))
    verdicts = os.path.join(wd, "verdicts.txt")
    rc, _, err = ctx.run([drv], stdin_path=journal, stdout_path=verdicts, timeout=1500)
    if rc != 0:
        ctx.fatal("driver failed rc=%s %s" % (rc, (err or "")[-500:]))

    # ---------------------------------------------------------------- parse the journal
    J = [l.rstrip("\n") for l in open(journal)]
    hist_of = {}                 # lineno -> History
    hists = []
    cur = None
    for i, l in enumerate(J, 1):
        if l.startswith("hist "):
            cur = History(int(l.split()[1]), i)
            hists.append(cur)
        if cur is not None:
            cur.lines.append((i, l))
            hist_of[i] = cur
    V = {}                       # lineno -> verdict line tokens
    for l in open(verdicts):
        t = l.rstrip("\n").split(" ", 2)
        if len(t) >= 2 and t[1].isdigit():
            V[int(t[1])] = (t[0], t[2] if len(t) > 2 else "")

    n_ops = sum(1 for l in J if l.startswith("op "))
    n_obs = sum(1 for l in J if l.startswith("obs "))
    judged = sum(1 for i, l in enumerate(J, 1) if (l.startswith("op ") or l.startswith("obs ")) and i in V)
    if judged != n_ops + n_obs:
        ctx.fatal("driver judged %d of %d events" % (judged, n_ops + n_obs))
    unparsable = [(i, v) for i, v in V.items() if v[0] == "skip" and "unparsable" in v[1] or "unknown o" in v[1]]
    if unparsable:
        ctx.fatal("driver could not parse journal line %d: %s | %s" % (unparsable[0][0], J[unparsable[0][0] - 1][:200], unparsable[0][1]))

    harness_name = os.path.basename(h)

    def replay_cmd(hid):
        return ("build/%s --seed %d --first %d --last %d --len %d | lean/.lake/build/bin/pplv_grid   "
                "# or: VERIF_SEED=%d bin/check C05 --replay <this file>" % (harness_name, seed, hid, hid + 1, length, seed))

    def slot_of(l):
        t = l.split()
        return int(t[1]) if len(t) > 1 and t[1].isdigit() else None

    def api_of(l):
        m = re.search(r"# api=(\S+)", l)
        a = m.group(1) if m else l.split()[2]
        return {"add_grid_generators": "add_recycled_grid_generators"}.get(a, a)   # the former calls the latter

    def kv(l):
        return dict(m.groups() for m in re.finditer(r"(\w+)=(\S+)", l.split("#", 1)[1])) if "#" in l else {}

    def status_before(hist, ln, slot, kinds=("st",)):
        """the last status line of `slot` before line ln"""
        best = None
        for (n, t) in hist.lines:
            if n >= ln:
                break
            tt = t.split()
            if tt and tt[0] in kinds and len(tt) > 1 and tt[1] == str(slot):
                best = t
        return best

    def status_after(hist, ln, slot):
        for (n, t) in hist.lines:
            if n <= ln:
                continue
            tt = t.split()
            if tt and tt[0] in ("st", "sta") and len(tt) > 1 and tt[1] == str(slot):
                return t
            if tt and tt[0] in ("op", "obs"):
                return None
        return None

    def div_ne_1(status_line, state):
        if status_line:
            m = re.search(r"div=(\S+)", status_line)
            if m and m.group(1) != "?":
                return m.group(1) not in ("1", "-1")
        return state_nonintegral(state or "")

    # the op that produced the state observed at line ln (slot s): last op on s before ln
    def last_op(hist, ln, s):
        best = None
        for (n, t) in hist.lines:
            if n >= ln:
                break
            tt = t.split()
            if tt and tt[0] == "op" and V.get(n, ("", ""))[0] in ("ok", "skip"):
                if tt[1] == str(s) or (tt[2] == "swap" and tt[3] == str(s)):
                    # an op rolled back by an exception did not change the state
                    nxt = J[n] if n < len(J) else ""
                    if nxt.startswith("exc"):
                        continue
                    best = (n, t)
        return best

    # ---------------------------------------------------------------- classify
    def classify_query(hist, ln, name, detail, info):
        site = QUERY_SITE.get(name, name)
        dim, state = parse_info(info)
        tags = []
        l = J[ln - 1]
        s = slot_of(l)
        args = l.split("=")[0].split()[3:]
        if dim == 0:
            tags.append("zero_dim")
        sta = status_after(hist, ln, s)
        stb = status_before(hist, ln, s)
        if name in ("rel_cg",):
            f = args[-1]
            if f != "0":
                tags.append("proper_congruence")
            m = re.search(r"lib=(\d+) model=(\d+)", detail)
            if m and m.group(1)[:3] == m.group(2)[:3]:
                tags.append("saturates_bit_only")
            if div_ne_1(sta, state) and dim != 0:
                tags.append("point_divisor_ne_1")
        if name in ("frequency", "maxmin"):
            b = args[-1]
            if b != "0":
                tags.append("inhomogeneous_ne_0")
            if dim == 0 and b != "0":
                tags.append("zero_dim_inhomogeneous_ne_0")
            if div_ne_1(sta, state) and dim != 0:
                tags.append("point_divisor_ne_1")
                if b != "0":
                    tags.append("point_divisor_ne_1_and_inhomogeneous_ne_0")
        if name == "frequency":
            m = re.search(r"frequency val lib=(\S+) model=(\S+) freq=(\S+)", detail)
            if m and m.group(3) != "0":
                from fractions import Fraction
                lv, fr = Fraction(m.group(1)), Fraction(m.group(3))
                mv = [Fraction(x) for x in m.group(2).split(",")]
                if ((lv - mv[0]) / fr).denominator == 1:
                    tags.append("value_in_class_not_least_magnitude")
        first_not_point = bool(sta and re.search(r"r0=[QL]", sta))
        if name == "rel_con" and args and args[0] == "0":
            site = QUERY_SITE["rel_cg"]      # an equality is handed to relation_with(Congruence)
        if (name == "rel_cg" or (name == "rel_con" and args and args[0] == "0")) and first_not_point:
            tags.append("first_generator_not_a_point")
        if name == "is_discrete":
            if sta and re.search(r"zl=[1-9]", sta):
                tags.append("zero_line_in_gen_sys")
            if first_not_point:
                tags.append("first_generator_not_a_point")
        if name == "is_bounded":
            if sta and re.search(r"z[lq]=[1-9]", sta):
                tags.append("zero_generator_in_gen_sys")
            if first_not_point:
                tags.append("first_generator_not_a_point")
        if name in ("rel_gen", "is_universe"):
            if state == "EMPTY" and stb and "-EM" in stb:
                tags.append("receiver_empty_not_yet_detected")
        if name == "rel_con":
            kind = args[0]
            m = re.search(r"lib=(\d+) model=(\d+)", detail)
            _ = (kind, m)
        if name == "constrains":
            m = re.search(r"lib=(\d) model=(\d)", detail)
            if m and m.group(1) == "1" and m.group(2) == "0" and stb and "+GS" in stb and "-CS" in stb:
                tags.append("unconstrained_var_gens_up_to_date_cons_not")
        return site, tags

    BINARY = ("inter", "join", "diff", "time_elapse", "concat")

    def op_effective(n):
        """op at journal line n was judged and not rolled back by an exception"""
        if V.get(n, ("", ""))[0] not in ("ok", "skip"):
            return False
        nxt = J[n] if n < len(J) else ""
        return not nxt.startswith("exc")

    def lineage(hist, ln, s):
        """events before line ln on the lineage of slot s, most recent first; follows swap / copy / assign"""
        cs = s
        for (n, t) in reversed(hist.lines):
            if n >= ln:
                continue
            tt = t.split()
            if len(tt) < 3:
                continue
            if tt[0] == "obs" and tt[1] == str(cs):
                yield (n, t, cs)
                continue
            if tt[0] != "op" or not op_effective(n):
                continue
            name = tt[2]
            if name == "swap":
                a, b = tt[1], tt[3]
                if a.isdigit() and cs == int(a):
                    yield (n, t, cs); cs = int(b)
                elif b.isdigit() and cs == int(b):
                    yield (n, t, cs); cs = int(a)
                continue
            if tt[1] != str(cs):
                continue
            yield (n, t, cs)
            if name in ("copy", "assign"):
                cs = int(tt[3])
            elif name.startswith("new_"):
                return

    def candidates(hist, ln, s, depth=0, latent_only=False):
        """operations that can be responsible for the state of slot s observed at line ln: everything on its
        lineage since the last description that synchronised model and library; observers that rewrite the
        representation in place (latent effect: the descriptions still print correctly) are collected beyond
        that point too, also on the lineage of the arguments of binary operations"""
        out = []
        synced = latent_only
        for (n, t, cs) in lineage(hist, ln, s):
            tt = t.split()
            if tt[0] == "obs":
                if tt[2] in DESC:
                    v = V.get(n, ("", ""))
                    if v[0] in ("ok", "MISMATCH") or "adopted" in v[1]:
                        synced = True
                if tt[2] == "rel_con" and tt[3] != "0":
                    out.append((n, t))          # an observer that rewrites the generator system in place
                continue
            if not synced:
                out.append((n, t))
            if tt[2] in BINARY and depth < 3 and tt[3].isdigit() and int(tt[3]) != cs:
                out += candidates(hist, n, int(tt[3]), depth + 1, latent_only=synced)
        return out

    LATENT = ("remove_higher_space_dimensions",)

    def full_lineage(hist, line, slot, depth=0):
        out = []
        for (n, t, cs) in lineage(hist, line, slot):
            if not t.startswith("op "):
                continue
            out.append((n, t))
            tt = t.split()
            if tt[2] in BINARY and depth < 3 and tt[3].isdigit() and int(tt[3]) != cs:
                out += full_lineage(hist, n, int(tt[3]), depth + 1)
        return out

    def latent(hist, line, slot):
        """operations on the whole lineage whose known defect is a latent corruption of the representation
        (the descriptions still print a correct set, later operations or queries go wrong)"""
        return [(n, t) for (n, t) in full_lineage(hist, line, slot) if api_of(t) in LATENT or " gsdim=0" in t]

    def producer_of_empty(hist, ln, s):
        """an empty reference grid stays empty under every mutator: the operations back to the one that produced it"""
        chain = []
        for (n, t, cs) in lineage(hist, ln, s):
            tt = t.split()
            if tt[0] != "op":
                continue
            chain.append((n, t))
            _, vinfo = V.get(n, ("", ""))
            pre = parse_info(vinfo.split("pre:", 1)[1])[1] if "pre:" in vinfo else None
            if tt[2] in ("copy", "assign") or tt[2].startswith("new_"):
                break
            if tt[2] != "swap" and pre != "EMPTY":
                break
        return chain

    def op_site_tags(hist, n, t, name, detail):
        tags = []
        if t.startswith("obs "):
            tt = t.split()
            site = QUERY_SITE.get(tt[2], tt[2])
            if tt[2] == "rel_con" and tt[3] != "0" and div_ne_1(status_after(hist, n, int(tt[1])), None):
                tags.append("inequality_and_point_divisor_ne_1_state_rewritten")
            return site, tags
        site = api_of(t)
        opname = t.split()[2]
        _, vinfo = V.get(n, ("", ""))
        dim, state = parse_info(vinfo.split("pre:", 1)[1]) if "pre:" in vinfo else (None, None)
        stb = status_before(hist, n, slot_of(t))
        if dim == 0:
            tags.append("zero_dim")
            if state and state != "EMPTY" and state != "unknown" and opname not in OVERWRITE:
                tags.append("zero_dim_universe")
        if state == "EMPTY" and opname not in OVERWRITE:
            tags.append("receiver_empty")
        if stb and "+GM" in stb and opname not in OVERWRITE:
            tags.append("generators_minimized")
        if opname in ("copy",):
            src_state = parse_info(vinfo.split(" arg:", 1)[1])[1] if " arg:" in vinfo else None
            if src_state == "EMPTY":
                tags.append("source_empty")
                if name in ("cgs", "mincgs", ""):
                    tags.append("source_empty_congruences_observed")
        if site == "generalized_affine_preimage_var":
            k = kv(t)
            try:
                ev, d, m = int(k.get("ev", "0")), int(k.get("d", "1")), int(k.get("m", "0"))
                if m != 0 and ev != 0 and abs(ev) != abs(d):
                    tags.append("modulus_ne_0_and_var_coefficient_ne_denominator")
            except ValueError:
                pass
        if site == "add_recycled_grid_generators" and " gsdim=0" in t and state not in ("EMPTY", None):
            # latent: the rows keep different divisors, the next minimization goes wrong.  The divisor of the
            # receiver is read before the operation if its generators were up to date, else from the raw
            # generators of the copy taken right after it (mixed divisors = the broken invariant)
            mixed = False
            for (n2, t2) in hist.lines:
                if n2 <= n:
                    continue
                tt2 = t2.split()
                if len(tt2) > 3 and tt2[0] == "obs" and tt2[1] == str(slot_of(t)) and tt2[2] == "cgens":
                    toks = tt2[4:]
                    try:
                        cnt, pos, divs = int(toks[0]), 1, set()
                        for _ in range(cnt):
                            kind, nn = int(toks[pos]), int(toks[pos + 1])
                            d = toks[pos + 2 + nn]
                            if kind != 0:
                                divs.add(d)
                            pos += 3 + nn
                        mixed = len(divs) > 1
                    except (ValueError, IndexError):
                        pass
                    break
                if tt2 and tt2[0] == "op" and len(tt2) > 1 and tt2[1] == str(slot_of(t)):
                    break
            if mixed or div_ne_1(stb, state):
                tags.append("zero_dim_generator_system_and_divisor_ne_1")
        if site == "difference_assign":
            if div_ne_1(stb, state):
                tags.append("point_divisor_ne_1")
            if stb and re.search(r"r0=[QL]", stb):
                tags.append("first_generator_not_a_point")
        return site, tags

    def classify_desc(hist, ln, name, detail, s):
        cands = []
        if ln in blame:
            cands.append(blame[ln])
        cands += candidates(hist, ln, s)
        cands += latent(hist, ln, s)
        lo = last_op(hist, ln, s)
        if lo is not None:
            cands.append(lo)
        if "model=EMPTY" in detail:
            cands += producer_of_empty(hist, ln, s)
        if not cands:
            return "unknown", [], None
        seen, uniq = set(), []
        for c in cands:
            if c[0] not in seen:
                seen.add(c[0]); uniq.append(c)
        first = None
        for (n, t) in uniq:
            site, tags = op_site_tags(hist, n, t, name, detail)
            if "prev=differ" in detail:
                tags.append("descriptions_disagree")
            if first is None and t.startswith("op "):
                first = (site, tags, (n, t))
            if ctx.match_known({"site": site, "tags": tags}) is not None:
                return site, tags, (n, t)
        if first is None:
            n, t = uniq[0]
            site, tags = op_site_tags(hist, n, t, name, detail)
            first = (site, tags, (n, t))
        return first

    reported = collections.Counter()
    known_class = {}             # (site, tags) -> is a known finding
    tainted = set()              # histories whose state was corrupted by a known finding
    n_tainted = 0
    blame = {}                   # desc-mismatch line -> op to blame (set by an earlier query mismatch it explains)
    consumed = set()
    mismatch_hist = collections.Counter()
    n_ok = sum(1 for v in V.values() if v[0] == "ok")
    n_skip = sum(1 for v in V.values() if v[0] == "skip")
    n_mis = 0

    def report(what, hist, ln, site, tags, extra):
        key = (site, tuple(sorted(tags)))
        mismatch_hist["%s %s" % (site, ",".join(sorted(tags)) or "-")] += 1
        reported[key] += 1
        if reported[key] > 2:          # same class: enough replays
            return None
        if os.environ.get("C05_DEBUG"):
            print("DEBUG hist=%d %s %s | %s | %s" % (hist.hid, site, tags, what[:400], J[ln - 1][:200]), flush=True)
        obj = {"history": hist.hid, "length": length, "journal": hist.text(ln), "line": J[ln - 1], "site": site, "tags": tags,
               "replay_cmd": replay_cmd(hist.hid)}
        obj.update(extra)
        return ctx.violation(what, obj, found_input=True, record={"site": site, "tags": tags})

    def is_known(site, tags):
        return ctx.match_known({"site": site, "tags": tags}) is not None

    for ln in sorted(V):
        kind, rest = V[ln]
        hist = hist_of.get(ln)
        if kind in ("CRASH", "MISMATCH") and hist is not None and hist.hid in tainted:
            n_tainted += 1
            continue
        if kind == "CRASH":
            n_mis += 1
            m = re.search(r"op:(\S+) opline=(\d+) slot=(\d+) try=(\S+) pre: (.*)$", rest)
            site, tags = "crash", []
            opl = None
            if m:
                opl = int(m.group(2))
                opslot = int(m.group(3))
                dim, state = parse_info(m.group(5))
                if m.group(4) != "-":
                    sl = int(m.group(4))
                    cands = candidates(hist, ln, sl) + latent(hist, ln, sl)
                else:
                    cands = [(opl, J[opl - 1])] + candidates(hist, opl, opslot) + latent(hist, opl, opslot)
                    if len(J[opl - 1].split()) > 3 and J[opl - 1].split()[2] in BINARY and J[opl - 1].split()[3].isdigit():
                        a = int(J[opl - 1].split()[3])
                        cands += candidates(hist, opl, a) + latent(hist, opl, a)
                first = None
                for (n, t) in cands:
                    st_, tg_ = op_site_tags(hist, n, t, "", "")
                    _, vinfo = V.get(n, ("", ""))
                    pre = parse_info(vinfo.split("pre:", 1)[1])[1] if "pre:" in vinfo else None
                    if n == opl and m.group(4) == "-":
                        pre = state
                    stb = status_before(hist, n, slot_of(t))
                    if pre == "EMPTY" and stb and "-EM" in stb:
                        tg_.append("receiver_empty_not_yet_detected")
                    if first is None:
                        first = (st_, tg_)
                    if ctx.match_known({"site": st_, "tags": tg_}) is not None:
                        first = (st_, tg_)
                        break
                if first:
                    site, tags = first
            report("the library crashed (%s) in %s: %s" % (rest.split(" op:")[0], site, J[opl - 1][:300] if opl else "?"),
                   hist, ln, site, tags, {"crash": rest})
            if is_known(site, tags) and hist is not None:
                tainted.add(hist.hid)
            continue
        if kind != "MISMATCH":
            continue
        n_mis += 1
        t = rest.split(" ", 2)
        obl, name, detail = t[0], t[1], (t[2] if len(t) > 2 else "")
        s = slot_of(J[ln - 1])
        if obl == "query":
            # was the state already wrong?  look ahead to the next description of this slot
            # (and of the argument slot of a binary query)
            slots = [s]
            qt = J[ln - 1].split()
            if name in ("contains", "strictly_contains", "equals", "is_disjoint_from") and qt[3].isdigit() and int(qt[3]) != s:
                slots.append(int(qt[3]))
            explained = False
            for sl in slots:
                for (n2, t2) in hist.lines:
                    if n2 <= ln:
                        continue
                    tt = t2.split()
                    if not tt or tt[0] not in ("op", "obs") or len(tt) < 3:
                        continue
                    if tt[0] == "op" and tt[1] == str(sl) and tt[2] in OVERWRITE:
                        break
                    if tt[0] == "obs" and tt[1] == str(sl) and tt[2] in DESC:
                        if V.get(n2, ("", ""))[0] == "MISMATCH":
                            explained = True
                            if n2 not in blame:
                                c0 = candidates(hist, ln, sl)
                                lo0 = c0[0] if c0 else last_op(hist, ln, sl)
                                if lo0 is not None:
                                    blame[n2] = lo0
                        break
            if explained:
                continue          # reported with the description mismatch that follows
            det, info = (detail.split(" || ", 1) + [""])[:2]
            site, tags = classify_query(hist, ln, name, det, info)
            if not is_known(site, tags):
                # an operation on the lineage of the slot(s) that is known to corrupt the state?
                hit = None
                for sl in slots:
                    for (n, t) in candidates(hist, ln, sl) + latent(hist, ln, sl):
                        st_, tg_ = op_site_tags(hist, n, t, "", "")
                        if is_known(st_, tg_):
                            hit = (st_, tg_, t)
                            break
                    if hit:
                        break
                if hit:
                    report("after %s (state not observed since) %s answers against the reference: %s" % (hit[0], site, det[:300]),
                           hist, ln, hit[0], hit[1], {"obligation": "query", "detail": det, "state": info, "op": hit[2]})
                    tainted.add(hist.hid)
                    continue
            report("%s answers against the denoted set: %s  [%s]" % (site, det[:300], J[ln - 1][:200]),
                   hist, ln, site, tags, {"obligation": "query", "detail": det, "state": info})
        else:
            if ln in consumed:
                continue
            site, tags, lo = classify_desc(hist, ln, name, detail, s)
            # the next description of the same state disagreeing with this one is the same event
            for (n2, t2) in hist.lines:
                if n2 <= ln:
                    continue
                tt = t2.split()
                if not tt or tt[0] not in ("op", "obs") or len(tt) < 3:
                    continue
                if tt[0] == "op" and (tt[1] == str(s) or (tt[2] == "swap" and tt[3] == str(s))):
                    break
                if tt[0] == "obs" and tt[1] == str(s) and tt[2] in DESC:
                    v2 = V.get(n2, ("", ""))
                    if v2[0] == "MISMATCH" and "prev=differ" in v2[1]:
                        consumed.add(n2)
                        if "descriptions_disagree" not in tags:
                            tags.append("descriptions_disagree")
                    break
            what = ("after %s the %s of the grid do not denote the documented set: %s" % (site, name, detail[:400]))
            if "prev=differ" in detail:
                what = "two descriptions of the same grid state disagree (%s after %s): %s" % (name, site, detail[:400])
            report(what, hist, ln, site, tags, {"obligation": "desc", "detail": detail, "op": lo[1] if lo else None})
            if is_known(site, tags):
                tainted.add(hist.hid)     # the state is corrupted from here on: steer around it

    # ---------------------------------------------------------------- broken proofs
    for b in broken:
        ctx.violation("proof obligation broken: " + b,
                      {"obligation": b, "note": "the correspondence run above is the search for a failing input in the implementation; "
                       "it found %d mismatching events" % n_mis},
                      found_input=False, record={"site": "lean", "tags": ["proof"]})

    # ---------------------------------------------------------------- coverage
    status_by_op = collections.defaultdict(collections.Counter)
    prev_st = {}
    ops_hist, obs_hist = collections.Counter(), collections.Counter()
    distinct, nontrivial = set(), set()
    crashes = sum(1 for l in J if l.startswith("crash"))
    excs = sum(1 for l in J if l.startswith("exc "))
    for hh in hists:
        body = [t for (_, t) in hh.lines if t.startswith("op ") or t.startswith("obs ")]
        key = hashlib.sha256("\n".join(body).encode()).hexdigest()[:16]
        distinct.add(key)
        states = [V.get(n, ("", ""))[1] for (n, t) in hh.lines if t.startswith("op ")]
        nonempty_states = sum(1 for s in states if "state=pt" in s)
        if nonempty_states >= 4:
            nontrivial.add(key)
        last_st = {}
        for (n, t) in hh.lines:
            tt = t.split()
            if not tt:
                continue
            if tt[0] == "st":
                last_st[tt[1]] = " ".join(x for x in tt[2:] if not x.startswith("div=") and not x.startswith("zl=") and not x.startswith("zq=") and not x.startswith("r0="))
            elif tt[0] == "op":
                ops_hist[api_of(t)] += 1
                if tt[1] in last_st:
                    status_by_op[api_of(t)][last_st[tt[1]]] += 1
            elif tt[0] == "obs":
                obs_hist[tt[2]] += 1
                if tt[1] in last_st:
                    status_by_op["obs:" + tt[2]][last_st[tt[1]]] += 1
    all_status = collections.Counter()
    for c in status_by_op.values():
        all_status.update(c)
    sample_h = hists[len(hists) // 2] if hists else None
    ctx.cov.update(
        evaluations=n_ops + n_obs,
        histories=len(hists),
        distinct_nontrivial=len(nontrivial),
        distinct=len(distinct),
        rule="a case is a history (constructions + %d operations + observations); distinct by sha256 of its op/obs lines; "
             "non-trivial: the reference grid is non-empty before at least 4 of its operations" % length,
        samples=(sample_h.text()[:14] if sample_h else []),
        traces_validated_against_impl=n_ok,
        verdicts={"ok": n_ok, "skip": n_skip, "mismatch_or_crash": n_mis, "ignored_after_known_finding_in_same_history": n_tainted},
        histories_cut_short_by_known_findings=len(tainted),
        mismatch_histogram=dict(mismatch_hist),
        operations=dict(ops_hist),
        observations=dict(obs_hist),
        status_lines_distinct=len(all_status),
        status_lines=dict(all_status),
        status_by_operation={k: len(v) for k, v in status_by_op.items()},
        exceptions=excs, harness_crashes=crashes,
        history_length=length,
    )
    if not ctx.violations:
        shutil.rmtree(wd, ignore_errors=True)      # journals are kept only for a failing run
    ctx.assumptions += [
        "the reference operations that need a congruence form of a generator-described grid (intersection, expand, "
        "is_disjoint_from, difference) are certifying: skipped (counted under verdicts.skip) when equivB rejects the proposal",
        "affine_dimension is compared with an unverified Gaussian-elimination rank of the reference generators",
        "difference_assign: the reference result is proved to contain the set difference and to lie inside the first argument "
        "(C05.difference_sound); leastness only where the result is the difference itself (C05.difference_least_partial)",
        "reference functions without a spec theorem (validated by the correspondence only): concat, expand (through certified "
        "congruences), fold (join of images), affineDim; for relation symbols other than EQUAL and for bounded_affine_(pre)image "
        "the reference is the least grid containing the documented set (line(var) added), as the library documents",
        "a history in which a known finding corrupted the state is not judged further (counted under "
        "verdicts.ignored_after_known_finding_in_same_history)",
    ]


def replay(ctx, path):
    """Re-run the recorded history (same seed, history number and length) on the current tree and re-judge it."""
    r = json.load(open(path))
    print("property=%s what=%s" % (r.get("property"), r.get("what")))
    print("replay_cmd: %s" % r.get("replay_cmd"))
    ctx.replay = path
    ctx.seed = r.get("seed", ctx.seed)
    run(ctx)
    for k in ctx.known_hits:
        pass
    if not ctx.violations:
        print("no violation when the history is re-run on the current tree (%d known-finding line(s))" % len(ctx.known_hits))
    return 1 if ctx.violations else 0
