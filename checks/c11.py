"""C11 — checked arithmetic reports true rounding relations; bounded builds never lie.

1. rebuild PPL; regenerate the enum tables from the clang AST (T1: gen/c11_tables.py);
2. `lake build PPLV.Props.C11 PPLV.Gen.ResultTable`, axiom audit, forbidden-construct grep;
3. compile harness/c11_checked.cc against the tree, check that its copy of
   Bounded_Integer_Coefficient_Policy carries the flags of src/Coefficient_types.hh;
4. run, in parallel, a pipeline of random straight-line coefficient computations (bounded policy with
   the real handle_result vs mpz_class: "bounded builds never lie" on the real code), one pipeline `harness | pplv_c11` per policy for the EXHAUSTIVE 8-bit tables
   (every operand pair x op x direction x policy) and one per policy for the boundary-biased /
   random 16/32/64-bit cases; the driver runs the code-shaped model and, independently,
   evaluates K4.holds / K4.directed / overflow claim / stored-value sanity on the REAL output;
   The harness measures on the witnesses of the repaired findings KF-C11-1..4 whether the tree still
   carries the repairs; if one is absent that is a VIOLATION, and the driver compares the library with
   the as-written variant of that primitive so that what is reported is the violated clause + witness;
5. a case whose real output breaks a property clause is a VIOLATION (KNOWN-FINDING when its
   site + structural tag match an open entry of known_findings.json); a case where only the
   model differs is a correspondence break (`no-failing-input-found`).
"""
import collections, hashlib, json, os, re, subprocess, time

from .common import VERIF, REPO, LEAN, sh

LEVEL = "proof"
POLICIES = ["CO", "EN", "WRD", "BIC", "DBG", "CHK", "NAN", "INF"]
SITE = {"div": "div_signed_int", "subMul": "sub_mul_int", "umod2exp": "umod_2exp_signed_int",
        "sqrt": "sqrt_signed_int", "lcm": "lcm_gcd_exact", "assignD": "assign_int_float", "assignF": "assign_int_float",
        "assignZ": "assign_int_mpz", "assignQ": "assign_int_mpq"}
PROPERTY_OBLIGATIONS = {"holds", "directed", "overflow", "stored", "bounded"}
DIRNAME = {0: "ROUND_DOWN", 1: "ROUND_UP", 6: "ROUND_IGNORE", 7: "ROUND_NOT_NEEDED"}
MIS_RE = re.compile(r"^MISMATCH (\S+) (\S+) (.*)$")


def parse_fields(rest):
    d = {}
    for tok in rest.split(" "):
        if "=" in tok:
            k, v = tok.split("=", 1)
            d[k] = v
    return d


def source_policy_flags(path, struct):
    """const_bool_nodef(name, value) members of `struct` in a header (text level; T1 for the one
    policy that cannot be instantiated from an mpz build)."""
    txt = open(path).read()
    m = re.search(r"struct\s+" + struct + r"\s*\{(.*?)\n\};", txt, re.S)
    if not m:
        return None
    flags = dict(re.findall(r"const_bool_nodef\(\s*(\w+)\s*,\s*(\w+)\s*\)", m.group(1)))
    order = ["check_overflow", "check_inf_add_inf", "check_inf_sub_inf", "check_inf_mul_zero", "check_div_zero",
             "check_inf_div_inf", "check_inf_mod", "check_sqrt_neg", "has_nan", "has_infinity"]
    return ["1" if flags.get(k) == "true" else "0" for k in order]


def replay(ctx, path):
    """Re-run one recorded case on the real library (current working tree) and re-judge it with the driver.
    Exit status 1 iff a property clause is still violated and the case matches no open known finding."""
    ctx.ensure_ppl()
    drv = ctx.ensure_pplv("pplv_c11")
    h = ctx.compile_harness("c11_checked.cc", flags=("-frounding-math",))
    rep = json.load(open(path))
    case = rep.get("case") or {}
    print("property=C11 what=%s" % rep.get("what"))
    plain = case.get("op") in ("neg", "abs", "add", "sub", "mul", "div", "idiv", "rem", "addMul", "subMul", "add2exp",
                               "sub2exp", "mul2exp", "div2exp", "smod2exp", "umod2exp", "sqrt", "gcd", "lcm")
    if not plain:
        print("case of kind %r: replayed by re-running its seed: VERIF_SEED=%s bin/check C11" % (case.get("op"), rep.get("seed")))
        print(json.dumps(rep, indent=1)[:3000])
        return 0
    cmd = "%s --mode one %s %s %s %s %s %s %s %s | %s" % (
        h, case["T"], case["P"], case["op"], case["dir"], case["to0"], case["x"], case["y"], case["e"], drv)
    env = dict(os.environ); env["LD_LIBRARY_PATH"] = os.path.join(REPO, "src", ".libs")
    r = subprocess.run(["bash", "-c", cmd], env=env, stdout=subprocess.PIPE, text=True)
    bad = False
    for line in r.stdout.splitlines():
        if line.startswith(("ok ", "MISMATCH ", "skip ", "CRASH ")):
            print(line[:600])
        m = MIS_RE.match(line)
        if m and set(m.group(2).split("+")) & PROPERTY_OBLIGATIONS:
            f_ = parse_fields(m.group(3))
            tags = [t for t in f_.get("tags", "").split(",") if t]
            k = ctx.match_known({"site": SITE.get(case["op"], case["op"]), "tags": tags})
            if k is not None:
                print("KNOWN-FINDING: property=C11 %s [%s]" % (k["what"][:200], k["id"]))
            else:
                print("VIOLATION property=C11 replay=%s" % path)
                bad = True
    return 1 if bad else 0


def run(ctx):
    ctx.ensure_ppl()
    # ---- T1: regenerate the enum tables from the source ---------------------------------------
    gen_out = os.path.join(LEAN, "PPLV", "Gen", "ResultTable.lean")
    r = sh(["python3", os.path.join(VERIF, "gen", "c11_tables.py"), REPO, gen_out])
    gen_broken = []
    if r.returncode:
        gen_broken.append("T1 translator failed: " + r.stdout[-400:])
    # ---- proofs ----------------------------------------------------------------------------------
    broken = gen_broken + ctx.prove(["PPLV.Props.C11", "PPLV.Gen.ResultTable"])
    if ctx.tier == "thorough":
        broken += ctx.leanchecker(["PPLV.Props.C11"])
    drv = ctx.ensure_pplv("pplv_c11")
    # -frounding-math as in PPL's own build: the inline float kernel relies on the run-time rounding mode
    h = ctx.compile_harness("c11_checked.cc", flags=("-frounding-math",))
    wd = ctx.workdir()

    # ---- the harness's copy of Bounded_Integer_Coefficient_Policy vs the source -------------------
    rc, cfg_out, _ = ctx.run([h, "--mode", "cfg"])
    cfg_lines = (cfg_out or "").splitlines()
    repairs = {l.split()[2]: l.split()[3] == "1" for l in cfg_lines if l.startswith("cfg fix ")}
    ctx.cov["repairs_detected_in_tree"] = repairs     # KF-C11-1..4 repairs (committed in /repo) still present?
    WITNESS = {"div": ("KF-C11-1", "div_signed_int", "int8_t 7 / -2 ROUND_DOWN must store -4 (V_GT), not -3"),
               "subMul": ("KF-C11-2", "sub_mul_int", "int8_t 0 - 2*64 ROUND_UP must not return V_LT_INF (exact result -128 is representable)"),
               "umod": ("KF-C11-3", "umod_2exp_signed_int", "int8_t/Extended_Number_Policy -1 umod 2^7 must not store 127 (= +inf) with V_EQ"),
               "isqrt": ("KF-C11-4", "sqrt_signed_int", "int8_t sqrt(64) ROUND_UP must store 8 (V_EQ), not 0 (V_LT)")}
    for name, (kf, site, wit) in WITNESS.items():
        if repairs.get(name) is False:
            # regression: the driver compares with the as-written variant, the violated clauses follow below
            ctx.violation("the repair of %s (%s) is absent from this tree: %s" % (kf, site, wit),
                          {"finding": kf, "site": site, "witness": wit, "replay_cmd": "%s --mode cfg" % h},
                          found_input=True, record={"site": site + ":regression", "tags": []})
    if len(repairs) != 4:
        broken.append("harness did not report the four repair measurements: %s" % repairs)
    bic = [l.split()[3:] for l in cfg_lines if l.startswith("cfg policy BIC ")]
    src_bic = source_policy_flags(os.path.join(REPO, "src", "Coefficient_types.hh"), "Bounded_Integer_Coefficient_Policy")
    if not bic or src_bic is None or bic[0] != src_bic:
        broken.append("harness copy of Bounded_Integer_Coefficient_Policy %s differs from src/Coefficient_types.hh %s"
                      % (bic[0] if bic else None, src_bic))

    # ---- correspondence: parallel pipelines --------------------------------------------------------
    count = 60000 if ctx.tier == "quick" else 600000
    t0 = time.time()
    procs = []
    env = dict(os.environ)
    env["LD_LIBRARY_PATH"] = os.path.join(REPO, "src", ".libs")
    for p in POLICIES:
        out8 = os.path.join(wd, "tab8_%s.out" % p)
        cmd = "%s --mode tab8 --policy %s --seed %d | %s > %s" % (h, p, ctx.seed, drv, out8)
        procs.append(("tab8", p, out8, None, subprocess.Popen(["bash", "-c", "set -o pipefail; " + cmd], env=env)))
        jw = os.path.join(wd, "wide_%s.journal" % p)
        outw = os.path.join(wd, "wide_%s.out" % p)
        cmd = "%s --mode wide --policy %s --seed %d --count %d | tee %s | %s > %s" % (h, p, ctx.seed, count, jw, drv, outw)
        procs.append(("wide", p, outw, jw, subprocess.Popen(["bash", "-c", "set -o pipefail; " + cmd], env=env)))
    # bounded builds: straight-line coefficient computations, Checked_Number<T, bounded policy> vs mpz_class
    nprog = 40000 if ctx.tier == "quick" else 1000000
    outp_ = os.path.join(wd, "prog.out")
    cmd = "%s --mode prog --seed %d --count %d | %s > %s" % (h, ctx.seed, nprog, drv, outp_)
    procs.append(("prog", "BIC", outp_, None, subprocess.Popen(["bash", "-c", "set -o pipefail; " + cmd], env=env)))
    for kind, p, outp, jw, pr in procs:
        rc = pr.wait()
        if rc != 0:
            ctx.fatal("pipeline %s/%s failed with exit status %d" % (kind, p, rc))
    pipe_s = time.time() - t0

    # ---- parse verdicts ------------------------------------------------------------------------------
    total = collections.Counter()
    per_op = collections.defaultdict(collections.Counter)
    per_type = collections.defaultdict(collections.Counter)
    samples, groups, crashes = [], {}, []
    exhaustive_cases = 0
    for kind, p, outp, jw, _ in procs:
        with open(outp) as f:
            for line in f:
                if line.startswith("ok ") or line.startswith("done ") or line.startswith("skip "):
                    continue
                line = line.rstrip("\n")
                if line.startswith("stat "):
                    toks = line.split(" ")
                    T, P, op = toks[1], toks[2], toks[3]
                    kv = dict(t.split("=") for t in toks[4:])
                    n, nt, sk, bad = int(kv["n"]), int(kv["nontrivial"]), int(kv["skipped"]), int(kv["bad"])
                    opk = op.split(":")[0]
                    for c in (total, per_op[opk], per_type[T]):
                        c["n"] += n; c["nontrivial"] += nt; c["out_of_contract"] += sk; c["flagged"] += bad
                    if kind == "tab8":
                        exhaustive_cases += n + sk
                elif line.startswith("sample "):
                    if len(samples) < 60:
                        samples.append(("8-bit exhaustive: " if kind == "tab8" else "wide: ") + line[7:])
                elif line.startswith("CRASH "):
                    crashes.append(line)
                else:
                    m = MIS_RE.match(line)
                    if not m:
                        continue
                    obligations = set(m.group(2).split("+"))
                    f_ = parse_fields(m.group(3))
                    tags = [t for t in f_.get("tags", "").split(",") if t]
                    prop = sorted(obligations & PROPERTY_OBLIGATIONS)
                    op = f_.get("op", "?")
                    opk = op.split(":")[0]
                    special = [t for t in tags if t not in ("signed", "unsigned", "directed", "undirected")]
                    key = (opk, "+".join(prop) if prop else "model", ",".join(special), "parse" if "parse" in obligations else "")
                    g = groups.setdefault(key, {"count": 0, "first": None, "fields": None, "tags": tags, "types": set(), "policies": set()})
                    g["count"] += 1
                    g["types"].add(f_.get("T")); g["policies"].add(f_.get("P"))
                    # keep the smallest witness (by |x| + |y|)
                    try:
                        size = abs(int(f_.get("x", "0"))) + abs(int(f_.get("y", "0"))) + abs(int(f_.get("to0", "0")))
                    except ValueError:
                        size = 1 << 70
                    if g["first"] is None or size < g["first"]:
                        g["first"], g["fields"], g["tags"] = size, f_, tags

    # distinct non-trivial wide cases (hash of the canonical case, result code != V_EQ)
    seen = set()
    wide_cases = 0
    for kind, p, outp, jw, _ in procs:
        if jw is None:
            continue
        with open(jw) as f:
            for line in f:
                if not line.startswith("c "):
                    continue
                wide_cases += 1
                toks = line.split(" ")
                if toks[-1].strip() != "1":
                    seen.add(hashlib.blake2b(" ".join(toks[2:10]).encode(), digest_size=8).digest())
        os.unlink(jw)
    # in the exhaustive tables every entry is a distinct case by construction
    exhaustive_nontrivial = 0
    for kind, p, outp, jw, _ in procs:
        if kind != "tab8":
            continue
        with open(outp) as f:
            for line in f:
                if line.startswith("total "):
                    kv = dict(t.split("=") for t in line.split(" ")[1:])
                    exhaustive_nontrivial += int(kv["nontrivial"])

    # ---- verdicts --------------------------------------------------------------------------------------
    for c in crashes:
        ctx.violation("the library trapped inside a checked operation: " + c,
                      {"crash": c, "replay_cmd": "%s --mode tab8 --policy <P>" % h}, found_input=True,
                      record={"site": "crash", "tags": []})
    n_model_only = 0
    for key, g in sorted(groups.items(), key=lambda kv: -kv[1]["count"]):
        opk, prop, special, parse = key
        f_ = g["fields"] or {}
        d = int(f_.get("dir", "0") or 0)
        replay = {"case": f_, "count_in_this_run": g["count"], "types": sorted(x for x in g["types"] if x),
                  "policies": sorted(x for x in g["policies"] if x), "obligations": prop,
                  "replay_cmd": "LD_LIBRARY_PATH=%s/src/.libs %s --mode one %s %s %s %s %s %s %s %s | %s" % (
                      REPO, h, f_.get("T"), f_.get("P"), opk, f_.get("dir"), f_.get("to0"), f_.get("x"), f_.get("y"),
                      f_.get("e"), drv)}
        if parse:
            ctx.violation("journal line not understood by the driver: %s" % f_, replay, found_input=False)
            continue
        if opk == "prog" and prop != "model":
            ctx.violation("a bounded-coefficient computation returned a different answer than mpz_class without throwing: %s" % f_,
                          replay, found_input=True, record={"site": "bounded_program", "tags": []})
        elif prop != "model":
            what = ("%s on %s/%s, %s: to0=%s x=%s y=%s e=%s: the library stored %s with result code %s, exact result %s: "
                    "clause(s) %s violated (%d such cases in this run)" % (
                        opk, f_.get("T"), f_.get("P"), DIRNAME.get(d & 7, str(d)), f_.get("to0"), f_.get("x"), f_.get("y"),
                        f_.get("e"), f_.get("real", "?").split(",")[0], f_.get("real", "?,?").split(",")[-1],
                        f_.get("exact"), prop, g["count"]))
            ctx.violation(what, replay, found_input=True,
                          record={"site": SITE.get(opk, opk), "tags": g["tags"]})
        else:
            n_model_only += g["count"]
            what = ("correspondence break: %s on %s/%s dir=%s to0=%s x=%s y=%s e=%s: library (stored,code)=%s, "
                    "model=%s; the real output satisfies every property clause (%d such cases)" % (
                        opk, f_.get("T"), f_.get("P"), f_.get("dir"), f_.get("to0"), f_.get("x"), f_.get("y"), f_.get("e"),
                        f_.get("real"), f_.get("model"), g["count"]))
            ctx.violation(what, replay, found_input=False)
    for b in broken:
        # a broken obligation: the correspondence above is the search for a failing input in the
        # implementation; here only the obligation itself is reported
        ctx.violation("proof obligation broken: " + b, {"obligation": b}, found_input=False)

    ctx.assumptions += [
        "division/remainder by zero with check_div_zero off, inf-inf / inf/inf / inf mod with the corresponding check off, "
        "sqrt of a negative number with check_sqrt_neg off are outside the contract (CHECK_P(false, c) is assert(!c)); such cases "
        "are not executed (they trap) or are skipped by the driver (counted as out_of_contract)",
        "smod_2exp with exp = 0 evaluates Type(1) << (exp - 1) (undefined behaviour) and is not generated",
        "Bounded_Integer_Coefficient_Policy is instantiated through a flag-identical local copy (flags compared with the source text at every run)",
        "theorems cover the native-integer kernel and the extended layer; conversions from mpz/mpq are modelled by their effect and "
        "checked by correspondence, conversions from double/float are judged on the real output only (K4 on the exact dyadic value); "
        "the mpz/mpq/float arithmetic kernels are not modelled (stage 2)",
        "the harness is compiled with -frounding-math like the library itself (without it GCC expands rint() inline assuming round-to-nearest "
        "and assign_r(int, negative non-integer double, ROUND_UP) returns floor with V_LT)",
    ]
    ctx.cov.update(
        evaluations=total["n"],
        distinct_nontrivial=exhaustive_nontrivial + len(seen),
        rule="non-trivial = the library's result code is not V_EQ (inexact, overflow, infinity, NaN class); distinct = every entry of "
             "an exhaustive table is a different (type, policy, op, dir, to, x, y, exp) by construction; wide cases are de-duplicated by hash",
        exhaustive=True,
        exhaustive_8bit_cases=exhaustive_cases,
        wide_cases=wide_cases,
        bounded_programs=per_op.get("prog", {}).get("n", 0),
        bounded_programs_that_threw=per_op.get("prog", {}).get("nontrivial", 0),
        wide_distinct_nontrivial=len(seen),
        out_of_contract_skipped=total["out_of_contract"],
        flagged_cases=total["flagged"],
        model_only_disagreements=n_model_only,
        traces_validated_against_impl=total["n"],
        histogram_per_op={k: dict(v) for k, v in sorted(per_op.items())},
        histogram_per_type={k: dict(v) for k, v in sorted(per_type.items())},
        policies=POLICIES,
        samples=samples[:40],
        pipeline_s=round(pipe_s, 1),
        translators=["gen/c11_tables.py (clang AST -> PPLV/Gen/ResultTable.lean, theorems re-checked at every run)",
                     "harness cfg lines: Larger<T> routing constants and policy flags of the build are read by the driver, not hard-coded"],
    )
