"""C11 — checked arithmetic reports true rounding relations; bounded builds never lie.

1. rebuild PPL; regenerate the enum tables from the clang AST (T1: gen/c11_tables.py) and the Lean model of the
   pure scalar functions of src/checked_int_inlines.hh (T2: gen/c11_t2.py -> PPLV/Gen/CheckedT2.lean);
2. `lake build PPLV.Props.C11 PPLV.Gen.ResultTable PPLV.Props.C11T2`, axiom audit, forbidden-construct grep;
   PPLV.Props.C11T2 proves every regenerated definition equal to the hand-written model: when it no longer builds the
   functions whose generated text changed are reported (diff against the committed text) and the correspondence below
   is the search for a concrete failing input;
3. compile harness/c11_checked.cc against the tree, check that its copy of
   Bounded_Integer_Coefficient_Policy carries the flags of src/Coefficient_types.hh;
4. run, in parallel, three pipelines (float, double, long double) of boundary-biased floating-point cases (every op of
   checked_float_inlines.hh, conversions from/to ints, mpz, mpq and the other widths, all rounding directions and the
   strict-relation flag), a pipeline of random straight-line coefficient computations (bounded policy with
   the real handle_result vs mpz_class: "bounded builds never lie" on the real code), one pipeline `harness | pplv_c11` per policy for the EXHAUSTIVE 8-bit tables
   (every operand pair x op x direction x policy) and one per policy for the boundary-biased /
   random 16/32/64-bit cases; the driver runs the code-shaped model and, independently,
   evaluates K4.holds / K4.directed / overflow claim / stored-value sanity on the REAL output;
   The harness measures on the witnesses of the repaired findings KF-C11-1..4 whether the tree still
   carries the repairs; if one is absent that is a VIOLATION, and the driver compares the library with
   the as-written variant of that primitive so that what is reported is the violated clause + witness;
5. a case whose real output breaks a property clause is a VIOLATION (KNOWN-FINDING when its
   site + structural tag match an open entry of known_findings.json); a case where only the
   model differs is a correspondence break (`no-failing-input-found`).
"""
import collections, hashlib, json, os, re, subprocess, time

from .common import VERIF, REPO, LEAN, sh, Lock

LEVEL = "proof"
# a private tree (VERIF_REPO) gets its own harness binaries: compile_harness drops "stale" binaries of the same name,
# which races with a concurrent run of this check on another tree
_REPO_TAG = "" if REPO == "/repo" else "_" + hashlib.sha256(REPO.encode()).hexdigest()[:8]
POLICIES = ["CO", "EN", "WRD", "BIC", "DBG", "CHK", "NAN", "INF"]
FSITE = {"sqrt": "sqrt_float", "smod2exp": "mod_2exp_float", "umod2exp": "mod_2exp_float", "assignQ": "assign_float_mpq",
         "assignZ": "assign_float_mpz", "addMul": "add_mul_float", "subMul": "add_mul_float"}
SITE = {"div": "div_signed_int", "subMul": "sub_mul_int", "umod2exp": "umod_2exp_signed_int",
        "sqrt": "sqrt_signed_int", "lcm": "lcm_gcd_exact", "assignD": "assign_int_float", "assignF": "assign_int_float",
        "assignZ": "assign_int_mpz", "assignQ": "assign_int_mpq", "gcdext": "gcdext_exact", "zFromQ": "assign_mpz_mpq"}
PROPERTY_OBLIGATIONS = {"holds", "directed", "overflow", "stored", "bounded", "bezout"}
DIRNAME = {0: "ROUND_DOWN", 1: "ROUND_UP", 6: "ROUND_IGNORE", 7: "ROUND_NOT_NEEDED"}
MIS_RE = re.compile(r"^MISMATCH (\S+) (\S+) (.*)$")


def parse_fields(rest):
    d = {}
    for tok in rest.split(" "):
        if "=" in tok:
            k, v = tok.split("=", 1)
            d[k] = v
    return d


def source_policy_flags(path, struct):
    """const_bool_nodef(name, value) members of `struct` in a header (text level; T1 for the one
    policy that cannot be instantiated from an mpz build)."""
    txt = open(path).read()
    m = re.search(r"struct\s+" + struct + r"\s*\{(.*?)\n\};", txt, re.S)
    if not m:
        return None
    flags = dict(re.findall(r"const_bool_nodef\(\s*(\w+)\s*,\s*(\w+)\s*\)", m.group(1)))
    order = ["check_overflow", "check_inf_add_inf", "check_inf_sub_inf", "check_inf_mul_zero", "check_div_zero",
             "check_inf_div_inf", "check_inf_mod", "check_sqrt_neg", "has_nan", "has_infinity"]
    return ["1" if flags.get(k) == "true" else "0" for k in order]


def replay(ctx, path):
    """Re-run one recorded case on the real library (current working tree) and re-judge it with the driver.
    Exit status 1 iff a property clause is still violated and the case matches no open known finding."""
    ctx.ensure_ppl()
    drv = ctx.ensure_pplv("pplv_c11")
    h = ctx.compile_harness("c11_checked.cc", out_name="c11_checked" + _REPO_TAG, flags=("-frounding-math",))
    rep = json.load(open(path))
    case = rep.get("case") or {}
    print("property=C11 what=%s" % rep.get("what"))
    plain = case.get("op") in ("neg", "abs", "add", "sub", "mul", "div", "idiv", "rem", "addMul", "subMul", "add2exp",
                               "sub2exp", "mul2exp", "div2exp", "smod2exp", "umod2exp", "sqrt", "gcd", "lcm")
    if not plain:
        print("case of kind %r: replayed by re-running its seed: VERIF_SEED=%s bin/check C11" % (case.get("op"), rep.get("seed")))
        print(json.dumps(rep, indent=1)[:3000])
        return 0
    cmd = "%s --mode one %s %s %s %s %s %s %s %s | %s" % (
        h, case["T"], case["P"], case["op"], case["dir"], case["to0"], case["x"], case["y"], case["e"], drv)
    env = dict(os.environ); env["LD_LIBRARY_PATH"] = os.path.join(REPO, "src", ".libs")
    r = subprocess.run(["bash", "-c", cmd], env=env, stdout=subprocess.PIPE, text=True)
    bad = False
    for line in r.stdout.splitlines():
        if line.startswith(("ok ", "MISMATCH ", "skip ", "CRASH ")):
            print(line[:600])
        m = MIS_RE.match(line)
        if m and set(m.group(2).split("+")) & PROPERTY_OBLIGATIONS:
            f_ = parse_fields(m.group(3))
            tags = [t for t in f_.get("tags", "").split(",") if t]
            k = ctx.match_known({"site": SITE.get(case["op"], case["op"]), "tags": tags})
            if k is not None:
                print("KNOWN-FINDING: property=C11 %s [%s]" % (k["what"][:200], k["id"]))
            else:
                print("VIOLATION property=C11 replay=%s" % path)
                bad = True
    return 1 if bad else 0



# ---- T2: the model regenerated from the C++ source ------------------------------------------------------
T2_GEN = os.path.join(LEAN, "PPLV", "Gen", "CheckedT2.lean")
T2_OP_ROOTS = {
    "neg": ["neg_signed_int", "neg_unsigned_int"], "abs": ["abs_generic", "assign_unsigned_int_unsigned_int"],
    "add": ["add_signed_int", "add_unsigned_int"], "sub": ["sub_signed_int", "sub_unsigned_int"],
    "mul": ["mul_signed_int", "mul_unsigned_int"], "div": ["div_signed_int", "div_unsigned_int"],
    "idiv": ["idiv_signed_int", "idiv_unsigned_int"], "rem": ["rem_signed_int", "rem_unsigned_int"],
    "addMul": ["add_mul_int"], "subMul": ["sub_mul_int"],
    "add2exp": ["add_2exp_signed_int", "add_2exp_unsigned_int"], "sub2exp": ["sub_2exp_signed_int", "sub_2exp_unsigned_int"],
    "mul2exp": ["mul_2exp_signed_int", "mul_2exp_unsigned_int"], "div2exp": ["div_2exp_signed_int", "div_2exp_unsigned_int"],
    "smod2exp": ["smod_2exp_signed_int", "smod_2exp_unsigned_int"], "umod2exp": ["umod_2exp_signed_int", "umod_2exp_unsigned_int"],
    "assign": ["assign_signed_int_signed_int", "assign_signed_int_unsigned_int", "assign_unsigned_int_signed_int",
               "assign_unsigned_int_unsigned_int"],
    "sqrt": ["sqrt_signed_int", "sqrt_unsigned_int", "round_gt_int", "assign_nan"],
    "gcd": ["abs_generic", "assign_unsigned_int_unsigned_int", "rem_signed_int", "rem_unsigned_int"],
    "lcm": ["abs_generic", "assign_unsigned_int_unsigned_int", "rem_signed_int", "rem_unsigned_int", "div_signed_int",
            "div_unsigned_int", "mul_signed_int", "mul_unsigned_int"],
}
# what the extended layer (checked_ext_inlines.hh) of every operation calls
T2_EXT_COMMON = ["assign_special_int", "assign_nan", "is_nan_int", "is_minf_int", "is_pinf_int", "classify_int", "sgn_generic"]


def t2_split_defs(text):
    return {m.group(1): m.group(2) for m in re.finditer(r"-- \[t2:(\w+)\]\n(.*?)\n-- \[end\]", text or "", re.S)}


def t2_baseline():
    """the generated text as last committed (git HEAD), else the snapshot shipped next to the translator"""
    r = sh(["git", "-C", VERIF, "show", "HEAD:lean/PPLV/Gen/CheckedT2.lean"], stderr=subprocess.DEVNULL)
    if r.returncode == 0 and "[t2:" in r.stdout:
        return r.stdout, "git HEAD:lean/PPLV/Gen/CheckedT2.lean"
    p = os.path.join(VERIF, "gen", "c11_t2_snapshot.txt")
    if os.path.exists(p):
        return open(p).read(), "gen/c11_t2_snapshot.txt"
    return None, None


def t2_regenerate(ctx, wd):
    """run the translator; returns (report dict, {function: unified diff} of the definitions that differ from the
    committed text, broken-obligation strings)"""
    import difflib
    t0 = time.time()
    rep_path = os.path.join(wd, "t2_report.json")
    r = sh(["python3", os.path.join(VERIF, "gen", "c11_t2.py"), REPO, T2_GEN, "--report", rep_path])
    rep = json.load(open(rep_path)) if os.path.exists(rep_path) else {}
    broken = []
    if r.returncode:
        unexpected = {k: v for k, v in rep.get("failed", {}).items() if k not in rep.get("expected_untranslated", {})}
        for k, v in sorted(unexpected.items()):
            broken.append("T2: `%s` is no longer in the C++ subset of the translator: %s" % (k, v))
        for b in rep.get("dispatch_rule_violations", []) + rep.get("larger_rule_violations", []):
            broken.append("T2 table: " + b)
        if not broken:
            broken.append("T2 translator failed: " + r.stdout[-600:])
    base, base_name = t2_baseline()
    new = open(T2_GEN).read() if os.path.exists(T2_GEN) else ""
    changed = {}
    if base is not None:
        old_d, new_d = t2_split_defs(base), t2_split_defs(new)
        for fn in sorted(set(old_d) | set(new_d)):
            if old_d.get(fn) != new_d.get(fn):
                changed[fn] = "\n".join(difflib.unified_diff((old_d.get(fn) or "").splitlines(), (new_d.get(fn) or "").splitlines(),
                                                            "committed t2_" + fn, "regenerated t2_" + fn, lineterm=""))
    ctx.cov["t2"] = {"translated": rep.get("translated", []), "not_translated": rep.get("failed", {}),
                     "expected_not_translated": rep.get("expected_untranslated", {}),
                     "externals_bound_to_the_hand_model": rep.get("externals_bound_to_the_hand_model", []),
                     "dispatchers": rep.get("dispatchers", []), "ast_cache_hit": rep.get("ast_cache_hit"),
                     "specialisation_lines_checked": rep.get("specialisation_lines_checked"),
                     "larger_specialisations_checked": rep.get("larger_specialisations_checked"),
                     "baseline": base_name, "definitions_differing_from_baseline": sorted(changed),
                     "translator_s": round(time.time() - t0, 1)}
    return rep, changed, broken


def t2_failed_theorems(log):
    """names of the agreement theorems at which `lake build PPLV.Props.C11T2` reports errors"""
    names, files = [], {}
    for m in re.finditer(r"^error: (?:\./)?(PPLV/[\w/]+\.lean):(\d+):\d+:", log, re.M):
        f, line = m.group(1), int(m.group(2))
        if f not in files:
            try:
                files[f] = open(os.path.join(LEAN, f)).read().splitlines()
            except OSError:
                files[f] = []
        name = None
        for l in files[f][:line][::-1]:
            mm = re.match(r"\s*(?:theorem|def|example)\s+([\w.]+)", l)
            if mm:
                name = mm.group(1); break
        tag = "%s:%s" % (f, name or line)
        if tag not in names:
            names.append(tag)
    return names


def t2_ops_reaching(fn, callgraph):
    """{operation of the harness: call distance} for the operations whose kernel reaches the C++ function `fn`
    (distance 0: `fn` is the primitive the operation is specialised to)"""
    ops = {}
    for op, roots in T2_OP_ROOTS.items():
        dist = {r: 0 for r in roots}
        for r in T2_EXT_COMMON:
            dist.setdefault(r, 1)
        todo = sorted(dist, key=dist.get)
        while todo:
            g = todo.pop(0)
            for c in callgraph.get(g, []):
                if c not in dist:
                    dist[c] = dist[g] + 1
                    todo.append(c)
        if fn in dist:
            ops[op] = dist[fn]
    return ops


T2_SEARCH_PRELUDE = """import PPLV.Gen.CheckedT2
open PPLV.Gen.T2 PPLV.Checked PPLV.Checked.Result
set_option linter.unusedVariables false
def rangeI (lo hi : Int) : List Int := (List.range (hi - lo + 1).toNat).map (fun (i : Nat) => lo + (i : Int))
def bvals (t : IntTy) : List Int :=
       ([t.cmin, t.cmin + 1, t.cmin + 2, t.cmin + 3, -(t.half / 2) - 1, -(t.half / 2), -(t.half / 2) + 1, -7, -3, -2, -1, 0, 1, 2, 3,
         5, 7, t.half / 2 - 1, t.half / 2, t.half / 2 + 1, t.half - 1, t.half, t.cmax - 3, t.cmax - 2, t.cmax - 1, t.cmax,
         pow2 (t.bits / 2) - 1, pow2 (t.bits / 2), pow2 (t.bits / 2) + 1, -(pow2 (t.bits / 2)), 3037000500, -3037000500].filter
        (fun v => decide (t.cmin ≤ v) && decide (v ≤ t.cmax))).eraseDups
def vals (t : IntTy) : List Int := if t.bits ≤ 8 then rangeI t.cmin t.cmax else bvals t
def nats : List Nat := [0, 1, 2, 3, 4, 5, 6, 7, 8, 9, 15, 16, 17, 31, 32, 33, 62, 63, 64, 65]
def dirs : List (String × Dir) := [("0", .down), ("1", .up), ("6", .ignore), ("7", .notNeeded)]
def clss : List (String × Cls) := [("nan", .nan), ("minf", .minf), ("pinf", .pinf), ("normal", .normal)]
class Fmt (α : Type) where fmt : α → String
instance : Fmt (Int × Result) := ⟨fun p => s!"{p.1},{p.2.toNat}"⟩
instance : Fmt Result := ⟨fun r => s!"{r.toNat}"⟩
instance : Fmt Bool := ⟨fun b => s!"{b}"⟩
instance : Fmt Int := ⟨fun b => s!"{b}"⟩
instance : Fmt Rel := ⟨fun r => s!"rel{r.toNat}"⟩
"""


def t2_model_search(ctx, fn, cfg_lines, wd):
    """search the regenerated definition of `fn` against the hand-written model (the two sides of the theorem
    C11.t2_<fn>_eq) for an input on which they differ: every operand of the 8-bit types, boundary values of the wider ones
    (boundary values only for the three-operand add_mul / sub_mul), every policy of the harness, every direction.  -> dict of the counterexample or None"""
    src = open(os.path.join(LEAN, "PPLV", "Props", "C11T2.lean")).read()
    m = re.search(r"theorem t2_%s_eq ((?:\([^()]*\)\s*)*):\s+(.*?) :=\s*\n" % re.escape(fn), src)
    if not m:
        return None
    binders = [(b.group(1).split(), b.group(2).strip()) for b in re.finditer(r"\(([^():]+):([^()]*)\)", m.group(1))]
    if " = " not in m.group(2):
        return None
    lhs, rhs = m.group(2).split(" = ", 1)
    tys = [l.split()[2:] for l in cfg_lines if l.startswith("cfg type ")]
    pols = [l.split()[2:] for l in cfg_lines if l.startswith("cfg policy ")]
    if not tys or not pols:
        return None
    b = lambda x: "true" if x == "1" else "false"
    ty_l = ", ".join('("%s", ({ bits := %s, signed := %s, useNeg := %s, useAdd := %s, useSub := %s, useMul := %s, lbits := %s } : IntTy))'
                     % (t[0], t[1], b(t[2]), b(t[3]), b(t[4]), b(t[5]), b(t[6]), t[7])
                     for t in sorted(tys, key=lambda t: (int(t[1]) <= 8, int(t[1]))))      # the wide types first (few values)
    pol_l = ", ".join('("%s", (⟨%s⟩ : Policy))' % (q[0], ", ".join(b(x) for x in q[1:11])) for q in pols)
    sg = {"t": None, "f": None}
    ma = re.match(r"assign_(signed|unsigned)_int_(signed|unsigned)_int$", fn)
    if ma:
        sg["t"], sg["f"] = ma.group(1) == "signed", ma.group(2) == "signed"
    elif fn.endswith("_unsigned_int"):
        sg["t"] = False
    elif fn.endswith("_signed_int") or fn == "abs_generic":
        sg["t"] = True
    int_names = [n for ns, ty in binders if ty == "Int" for n in ns]
    wide_to = int_names == ["to0"] or fn in ("add_mul_int", "sub_mul_int")
    loops, shown, filters = [], [], []
    for ns, ty in binders:
        for n in ns:
            if ty == "IntTy":
                loops.append("for (%sN, %s) in tys do" % (n, n))
                shown.append("%s={%sN}" % ("T" if n == "t" else "F", n))
                if sg.get(n) is not None:
                    filters.append("%s.signed == %s" % (n, "true" if sg[n] else "false"))
            elif ty == "Policy":
                if n in ("π", "πt", "πf"):
                    loops.append("for (%sN, %s) in pols do" % (n, n))
                    shown.append("%s={%sN}" % ("P" if n != "πf" else "PF", n))
                else:
                    loops.append("for %s in [(default : Policy)] do" % n)
            elif ty == "Dir":
                loops.append("for (%sN, %s) in dirs do" % (n, n)); shown.append("dir={%sN}" % n)
            elif ty == "Cls":
                loops.append("for (%sN, %s) in clss do" % (n, n)); shown.append("c={%sN}" % n)
            elif ty == "Bool":
                loops.append("for %s in [false, true] do" % n); shown.append("%s={%s}" % (n, n))
            elif ty == "Result":
                loops.append("for %s in [V_DIV_ZERO, V_EQ] do" % n); shown.append("%s={%s.toNat}" % (n, n))
            elif ty == "Nat":
                loops.append("for %s in nats do" % n); shown.append("%s={%s}" % (n, n))
            elif ty == "Int":
                owner = "f" if n == "frm" and any("f" in ns2 and ty2 == "IntTy" for ns2, ty2 in binders) else "t"
                if n == "to0" and not wide_to:
                    loops.append("for to0 in [(5 : Int)] do")
                else:
                    loops.append("for %s in %s %s do" % (n, "bvals" if fn in ("add_mul_int", "sub_mul_int") else "vals", owner))
                shown.append("%s={%s}" % ("x" if n in ("frm", "v") else n, n))
            elif re.match(r"^t\.signed = true$", ty):
                filters.append("t.signed == true")
            elif re.match(r"^t\.inRange \w+$", ty):
                v = ty.split()[-1]
                filters.append("decide (t.cmin ≤ %s) && decide (%s ≤ t.cmax)" % (v, v))
            else:
                return None
    # the IntTy / Policy / Dir loops outermost, the operands innermost; filters as early as possible is not needed
    order = {"tys": 0, "pols": 1, "[(default": 1, "dirs": 2, "clss": 2, "[false,": 2, "[V_DIV_ZERO,": 2, "nats": 3}
    loops.sort(key=lambda l: order.get(l.split(" in ")[1].split()[0], 4))
    body = "def search : String := Id.run do\n"
    ind = "  "
    for l in loops:
        body += ind + l + "\n"
        ind += "  "
    cond = " && ".join(["(%s)" % f for f in filters] + ["(%s) != (%s)" % (lhs, rhs)])
    body += ind + "if %s then\n" % cond
    body += ind + '  return s!"CEX %s generated={Fmt.fmt (%s)} model={Fmt.fmt (%s)}"\n' % (" ".join(shown), lhs, rhs)
    body += '  return "NONE"\n#eval search\n'
    path = os.path.join(wd, "t2_search_%s.lean" % fn)
    with open(path, "w") as f:
        f.write(T2_SEARCH_PRELUDE + "def tys : List (String × IntTy) := [%s]\ndef pols : List (String × Policy) := [%s]\n" % (ty_l, pol_l) + body)
    try:
        r = sh(["lake", "env", "lean", path], cwd=LEAN, timeout=240)
    except subprocess.TimeoutExpired:
        return {"error": "search timed out", "script": path}
    mm = re.search(r'"CEX ([^"]*)"', r.stdout)
    if not mm:
        return {"error": None if '"NONE"' in r.stdout else r.stdout[-600:], "script": path, "none": '"NONE"' in r.stdout}
    cex = dict(tok.split("=", 1) for tok in mm.group(1).split(" ") if "=" in tok)
    cex["script"] = path
    return cex


def t2_replay_on_library(ctx, fn, cex, h, drv):
    """run the counterexample of the equality on the real library (when `fn` is the primitive of an operation of the
    harness) -> (description, property clauses violated or None, crashed)"""
    ops = [op for op, roots in T2_OP_ROOTS.items() if fn in roots and op not in ("assign", "sqrt", "gcd", "lcm")]
    if len(ops) != 1 or "T" not in cex or "P" not in cex:
        return None
    op = ops[0]
    if op == "abs" and fn == "assign_unsigned_int_unsigned_int":
        return None
    args = [cex["T"], cex["P"], op, cex.get("dir", "0"), cex.get("to0", "0"), cex.get("x", "0"), cex.get("y", "0"), cex.get("e", cex.get("exp", "0"))]
    env = dict(os.environ); env["LD_LIBRARY_PATH"] = os.path.join(REPO, "src", ".libs")
    r = subprocess.run([h, "--mode", "one"] + args, env=env, stdout=subprocess.PIPE, stderr=subprocess.PIPE, text=True)
    cmd = "LD_LIBRARY_PATH=%s/src/.libs %s --mode one %s | %s" % (REPO, h, " ".join(args), drv)
    case = {"T": args[0], "P": args[1], "op": op, "dir": args[3], "to0": args[4], "x": args[5], "y": args[6], "e": args[7]}
    if r.returncode < 0 or r.returncode >= 128:
        return {"case": case, "replay_cmd": cmd, "crash": "the library traps on this input (exit status %d)" % r.returncode, "clauses": None}
    d = subprocess.run([drv], input=r.stdout, stdout=subprocess.PIPE, text=True)
    for line in d.stdout.splitlines():
        m = MIS_RE.match(line)
        if m:
            f_ = parse_fields(m.group(3))
            tags = [t for t in f_.get("tags", "").split(",") if t]
            clauses = sorted(set(m.group(2).split("+")) & PROPERTY_OBLIGATIONS)
            if clauses and ctx.match_known({"site": SITE.get(op, op), "tags": tags}) is not None:
                clauses = []
            return {"case": case, "replay_cmd": cmd, "crash": None, "clauses": clauses, "real": f_.get("real"), "model": f_.get("model"),
                    "exact": f_.get("exact")}
    return {"case": case, "replay_cmd": cmd, "crash": None, "clauses": [], "real": "= model", "model": None, "exact": None}


def t2_report_break(ctx, rep, changed, fail, groups, h, drv, cfg_lines, wd):
    """PPLV.Props.C11T2 no longer builds: one VIOLATION per C++ function whose regenerated definition changed, carrying
    the concrete failing input the correspondence found for an operation whose kernel reaches that function"""
    cg = rep.get("callgraph", {})
    where = rep.get("where", {})
    fns = sorted(changed)
    if not fns:      # nothing differs from the committed text: the hand-written side (or the proof) was edited
        fns = sorted(set(t.split(":")[-1].replace("_eq", "") for t in fail["failed_at"])) or ["?"]
    for fn in fns:
        ops = t2_ops_reaching(fn, cg)
        best = None
        for key, g in groups.items():
            opk, prop, special, parse = key
            if parse or opk == "prog" or "float" in (g.get("tags") or []) or not g.get("fields"):
                continue
            base = "assign" if opk.startswith("assign") else opk
            if ops and base not in ops:
                continue
            if prop != "model" and ctx.match_known({"site": SITE.get(opk, opk), "tags": g["tags"]}) is not None:
                continue
            rank = (0 if prop != "model" else 1, ops.get(base, 9), g["first"] if g["first"] is not None else 1 << 80)
            if best is None or rank < best[0]:
                best = (rank, opk, prop, g)
        what = ("T2: the Lean definition regenerated from the C++ source of `%s` (%s) is no longer the model the C11 theorems are "
                "about: PPLV.Props.C11T2 does not build (fails at %s)" % (
                    fn, where.get(fn, "src/checked_int_inlines.hh"), ", ".join(fail["failed_at"][:4]) or "?"))
        replay = {"t2_function": fn, "source": where.get(fn), "generated_definition_diff": changed.get(fn, "(the generated text equals the committed one)"),
                  "lake_errors": fail["errors"], "operations_reaching_the_function": sorted(ops),
                  "all_functions_whose_generated_text_changed": sorted(changed)}
        if best is not None:
            _, opk, prop, g = best
            f_ = g["fields"]
            d = int(f_.get("dir", "0") or 0)
            what += ("; concrete input: %s on %s/%s, %s: to0=%s x=%s y=%s e=%s: the library stored %s with result code %s, the model says %s%s"
                     % (opk, f_.get("T"), f_.get("P"), DIRNAME.get(d & 7, str(d)), f_.get("to0"), f_.get("x"), f_.get("y"), f_.get("e"),
                        f_.get("real", "?").split(",")[0], f_.get("real", "?,?").split(",")[-1], f_.get("model"),
                        (", exact result %s: clause(s) %s violated" % (f_.get("exact"), prop)) if prop != "model" else
                        " (every property clause still holds of the real output: a change of behaviour, not of the property)"))
            replay.update({"case": f_, "obligations": prop, "count_in_this_run": g["count"],
                           "replay_cmd": "LD_LIBRARY_PATH=%s/src/.libs %s --mode one %s %s %s %s %s %s %s %s | %s" % (
                               REPO, h, f_.get("T"), f_.get("P"), opk, f_.get("dir"), f_.get("to0"), f_.get("x"), f_.get("y"),
                               f_.get("e"), drv)})
        found = best is not None
        if best is None and (fn in rep.get("translated", []) or fn.startswith("Extended_Int_")):
            # no case of the correspondence names this function (the library may have trapped before reaching it):
            # search the two sides of the broken equality, then run what is found on the real library
            cex = t2_model_search(ctx, fn, cfg_lines, wd)
            replay["model_search"] = cex
            if cex and "generated" in cex:
                what += ("; input on which the regenerated definition and the model differ: %s: regenerated (stored,code)=%s, model=%s"
                         % (" ".join("%s=%s" % (k, v) for k, v in cex.items() if k not in ("generated", "model", "script")),
                            cex["generated"], cex["model"]))
                lib = t2_replay_on_library(ctx, fn, cex, h, drv)
                replay["on_the_real_library"] = lib
                if lib is not None:
                    replay["case"], replay["replay_cmd"] = lib["case"], lib["replay_cmd"]
                    if lib["crash"]:
                        what += "; " + lib["crash"]
                        found = True
                    elif lib["clauses"]:
                        what += "; on the real library: stored,code=%s, exact result %s: clause(s) %s violated" % (
                            lib.get("real"), lib.get("exact"), "+".join(lib["clauses"]))
                        found = True
                    elif lib.get("real") != "= model":
                        what += "; on the real library: stored,code=%s (the model: %s); every property clause holds of it" % (
                            lib.get("real"), lib.get("model"))
                        found = True
        ctx.violation(what, replay, found_input=found)


def run(ctx):
    ctx.ensure_ppl()
    # the generated Lean files are shared by every run (also runs against a private mutant tree): regenerate and build
    # them under one lock
    with Lock("c11-gen"):
        # ---- T1: regenerate the enum tables from the source ---------------------------------------
        gen_out = os.path.join(LEAN, "PPLV", "Gen", "ResultTable.lean")
        r = sh(["python3", os.path.join(VERIF, "gen", "c11_tables.py"), REPO, gen_out])
        gen_broken = []
        if r.returncode:
            gen_broken.append("T1 translator failed: " + r.stdout[-400:])
        wd = ctx.workdir()
        # ---- T2: regenerate the Lean model of the scalar kernel from the C++ source (gen/c11_t2.py) ----
        t2_rep, t2_changed, t2_broken = t2_regenerate(ctx, wd)
        gen_broken += t2_broken
        # ---- proofs ----------------------------------------------------------------------------------
        t2_t0 = time.time()
        t2_ok, t2_log = ctx.lake_build(["PPLV.Props.C11T2"])
        ctx.cov["t2"]["lake_build_s"] = round(time.time() - t2_t0, 1)
        broken = gen_broken + ctx.prove(["PPLV.Props.C11", "PPLV.Gen.ResultTable"] + (["PPLV.Props.C11T2"] if t2_ok else []))
        t2_fail = None
        if not t2_ok:
            # the regenerated definitions are no longer the model the C11 theorems are about: reported after the
            # correspondence below, which is the search for a concrete failing input
            thms = ctx.theorem_names(os.path.join(LEAN, "PPLV", "Props", "C11T2.lean"))
            ctx.obligations += len(thms)
            ctx.obligation_names += thms
            t2_fail = {"failed_at": t2_failed_theorems(t2_log), "errors": [l for l in t2_log.splitlines() if l.startswith("error")][:8],
                       "log_tail": t2_log[-2500:]}
            ctx.cov["t2"]["agreement_broken_at"] = t2_fail["failed_at"]
    if ctx.tier == "thorough":
        broken += ctx.leanchecker(["PPLV.Props.C11"] + (["PPLV.Props.C11T2"] if t2_ok else []))
    drv = ctx.ensure_pplv("pplv_c11")
    # -frounding-math as in PPL's own build: the inline float kernel relies on the run-time rounding mode
    h = ctx.compile_harness("c11_checked.cc", out_name="c11_checked" + _REPO_TAG, flags=("-frounding-math",))
    hf = ctx.compile_harness("c11_float.cc", out_name="c11_float" + _REPO_TAG, flags=("-frounding-math",))

    # ---- the harness's copy of Bounded_Integer_Coefficient_Policy vs the source -------------------
    rc, cfg_out, _ = ctx.run([h, "--mode", "cfg"])
    cfg_lines = (cfg_out or "").splitlines()
    repairs = {l.split()[2]: l.split()[3] == "1" for l in cfg_lines if l.startswith("cfg fix ")}
    ctx.cov["repairs_detected_in_tree"] = repairs     # KF-C11-1..4 repairs (committed in /repo) still present?
    WITNESS = {"div": ("KF-C11-1", "div_signed_int", "int8_t 7 / -2 ROUND_DOWN must store -4 (V_GT), not -3"),
               "subMul": ("KF-C11-2", "sub_mul_int", "int8_t 0 - 2*64 ROUND_UP must not return V_LT_INF (exact result -128 is representable)"),
               "umod": ("KF-C11-3", "umod_2exp_signed_int", "int8_t/Extended_Number_Policy -1 umod 2^7 must not store 127 (= +inf) with V_EQ"),
               "isqrt": ("KF-C11-4", "sqrt_signed_int", "int8_t sqrt(64) ROUND_UP must store 8 (V_EQ), not 0 (V_LT)"),
               "lcm": ("KF-C11-5", "lcm_gcd_exact", "int8_t lcm(1, -128) ROUND_DOWN must store 127 (V_GT_SUP), not leave the destination unchanged")}
    for name, (kf, site, wit) in WITNESS.items():
        if repairs.get(name) is False:
            # regression: the driver compares with the as-written variant, the violated clauses follow below
            ctx.violation("the repair of %s (%s) is absent from this tree: %s" % (kf, site, wit),
                          {"finding": kf, "site": site, "witness": wit, "replay_cmd": "%s --mode cfg" % h},
                          found_input=True, record={"site": site + ":regression", "tags": []})
    if len(repairs) != 5:
        broken.append("harness did not report the five repair measurements: %s" % repairs)
    bic = [l.split()[3:] for l in cfg_lines if l.startswith("cfg policy BIC ")]
    src_bic = source_policy_flags(os.path.join(REPO, "src", "Coefficient_types.hh"), "Bounded_Integer_Coefficient_Policy")
    if not bic or src_bic is None or bic[0] != src_bic:
        broken.append("harness copy of Bounded_Integer_Coefficient_Policy %s differs from src/Coefficient_types.hh %s"
                      % (bic[0] if bic else None, src_bic))

    # ---- correspondence: parallel pipelines --------------------------------------------------------
    count = 60000 if ctx.tier == "quick" else 600000
    t0 = time.time()
    procs = []
    env = dict(os.environ)
    env["LD_LIBRARY_PATH"] = os.path.join(REPO, "src", ".libs")
    for p in POLICIES:
        out8 = os.path.join(wd, "tab8_%s.out" % p)
        cmd = "%s --mode tab8 --policy %s --seed %d | %s > %s" % (h, p, ctx.seed, drv, out8)
        procs.append(("tab8", p, out8, None, subprocess.Popen(["bash", "-c", "set -o pipefail; " + cmd], env=env)))
        jw = os.path.join(wd, "wide_%s.journal" % p)
        outw = os.path.join(wd, "wide_%s.out" % p)
        cmd = "%s --mode wide --policy %s --seed %d --count %d | tee %s | %s > %s" % (h, p, ctx.seed, count, jw, drv, outw)
        procs.append(("wide", p, outw, jw, subprocess.Popen(["bash", "-c", "set -o pipefail; " + cmd], env=env)))
    # bounded builds: straight-line coefficient computations, Checked_Number<T, bounded policy> vs mpz_class
    nprog = 40000 if ctx.tier == "quick" else 1000000
    outp_ = os.path.join(wd, "prog.out")
    cmd = "%s --mode prog --seed %d --count %d | %s > %s" % (h, ctx.seed, nprog, drv, outp_)
    procs.append(("prog", "BIC", outp_, None, subprocess.Popen(["bash", "-c", "set -o pipefail; " + cmd], env=env)))
    # floating point (checked_float_inlines.hh and the float <-> mpz/mpq conversions): judged on the real output
    nfloat = 40000 if ctx.tier == "quick" else 500000
    for fmt in ("f32", "f64", "f80"):
        outf = os.path.join(wd, "float_%s.out" % fmt)
        cmd = "%s --mode float --fmt %s --seed %d --count %d | %s > %s" % (hf, fmt, ctx.seed, nfloat, drv, outf)
        procs.append(("float", fmt, outf, None, subprocess.Popen(["bash", "-c", "set -o pipefail; " + cmd], env=env)))
    for kind, p, outp, jw, pr in procs:
        rc = pr.wait()
        if rc != 0:
            ctx.fatal("pipeline %s/%s failed with exit status %d" % (kind, p, rc))
    pipe_s = time.time() - t0

    # ---- parse verdicts ------------------------------------------------------------------------------
    total = collections.Counter()
    per_op = collections.defaultdict(collections.Counter)
    per_type = collections.defaultdict(collections.Counter)
    samples, groups, crashes = [], {}, []
    exhaustive_cases = 0
    for kind, p, outp, jw, _ in procs:
        with open(outp) as f:
            for line in f:
                if line.startswith("ok ") or line.startswith("done ") or line.startswith("skip "):
                    continue
                line = line.rstrip("\n")
                if line.startswith("stat "):
                    toks = line.split(" ")
                    T, P, op = toks[1], toks[2], toks[3]
                    kv = dict(t.split("=") for t in toks[4:])
                    n, nt, sk, bad = int(kv["n"]), int(kv["nontrivial"]), int(kv["skipped"]), int(kv["bad"])
                    opk = op.split(":")[0]
                    for c in (total, per_op[opk], per_type[T]):
                        c["n"] += n; c["nontrivial"] += nt; c["out_of_contract"] += sk; c["flagged"] += bad
                    if kind == "tab8":
                        exhaustive_cases += n + sk
                elif line.startswith("sample "):
                    if len(samples) < 60:
                        samples.append(("8-bit exhaustive: " if kind == "tab8" else "wide: ") + line[7:])
                elif line.startswith("CRASH "):
                    crashes.append(line)
                else:
                    m = MIS_RE.match(line)
                    if not m:
                        continue
                    obligations = set(m.group(2).split("+"))
                    f_ = parse_fields(m.group(3))
                    tags = [t for t in f_.get("tags", "").split(",") if t]
                    prop = sorted(obligations & PROPERTY_OBLIGATIONS)
                    op = f_.get("op", "?")
                    opk = op.split(":")[0]
                    special = [t for t in tags if t not in ("signed", "unsigned", "directed", "undirected")]
                    key = (opk, "+".join(prop) if prop else "model", ",".join(special), "parse" if "parse" in obligations else "")
                    g = groups.setdefault(key, {"count": 0, "first": None, "fields": None, "tags": tags, "types": set(), "policies": set()})
                    g["count"] += 1
                    g["types"].add(f_.get("T")); g["policies"].add(f_.get("P"))
                    # keep the smallest witness (by |x| + |y|)
                    try:
                        size = abs(int(f_.get("x", "0"))) + abs(int(f_.get("y", "0"))) + abs(int(f_.get("to0", "0")))
                    except ValueError:
                        size = 1 << 70
                    if g["first"] is None or size < g["first"]:
                        g["first"], g["fields"], g["tags"] = size, f_, tags

    # distinct non-trivial wide cases (hash of the canonical case, result code != V_EQ)
    seen = set()
    wide_cases = 0
    for kind, p, outp, jw, _ in procs:
        if jw is None:
            continue
        with open(jw) as f:
            for line in f:
                if not line.startswith("c "):
                    continue
                wide_cases += 1
                toks = line.split(" ")
                if toks[-1].strip() != "1":
                    seen.add(hashlib.blake2b(" ".join(toks[2:10]).encode(), digest_size=8).digest())
        os.unlink(jw)
    # in the exhaustive tables every entry is a distinct case by construction
    exhaustive_nontrivial = 0
    for kind, p, outp, jw, _ in procs:
        if kind != "tab8":
            continue
        with open(outp) as f:
            for line in f:
                if line.startswith("total "):
                    kv = dict(t.split("=") for t in line.split(" ")[1:])
                    exhaustive_nontrivial += int(kv["nontrivial"])

    # ---- verdicts --------------------------------------------------------------------------------------
    for c in crashes:
        ctx.violation("the library trapped inside a checked operation: " + c,
                      {"crash": c, "replay_cmd": "%s --mode tab8 --policy <P>" % h}, found_input=True,
                      record={"site": "crash", "tags": []})
    n_model_only = 0
    for key, g in sorted(groups.items(), key=lambda kv: -kv[1]["count"]):
        opk, prop, special, parse = key
        f_ = g["fields"] or {}
        d = int(f_.get("dir", "0") or 0)
        replay = {"case": f_, "count_in_this_run": g["count"], "types": sorted(x for x in g["types"] if x),
                  "policies": sorted(x for x in g["policies"] if x), "obligations": prop,
                  "replay_cmd": "LD_LIBRARY_PATH=%s/src/.libs %s --mode one %s %s %s %s %s %s %s %s | %s" % (
                      REPO, h, f_.get("T"), f_.get("P"), opk, f_.get("dir"), f_.get("to0"), f_.get("x"), f_.get("y"),
                      f_.get("e"), drv)}
        if parse:
            ctx.violation("journal line not understood by the driver: %s" % f_, replay, found_input=False)
            continue
        if opk == "prog" and prop != "model":
            ctx.violation("a bounded-coefficient computation returned a different answer than mpz_class without throwing: %s" % f_,
                          replay, found_input=True, record={"site": "bounded_program", "tags": []})
        elif prop != "model":
            what = ("%s on %s/%s, %s: to0=%s x=%s y=%s e=%s: the library stored %s with result code %s, exact result %s: "
                    "clause(s) %s violated (%d such cases in this run)" % (
                        opk, f_.get("T"), f_.get("P"), DIRNAME.get(d & 7, str(d)), f_.get("to0"), f_.get("x"), f_.get("y"),
                        f_.get("e"), f_.get("real", "?").split(",")[0], f_.get("real", "?,?").split(",")[-1],
                        f_.get("exact"), prop, g["count"]))
            site = FSITE.get(opk, opk + "_float") if "float" in g["tags"] else SITE.get(opk, opk)
            ctx.violation(what, replay, found_input=True, record={"site": site, "tags": g["tags"]})
        else:
            n_model_only += g["count"]
            what = ("correspondence break: %s on %s/%s dir=%s to0=%s x=%s y=%s e=%s: library (stored,code)=%s, "
                    "model=%s; the real output satisfies every property clause (%d such cases)" % (
                        opk, f_.get("T"), f_.get("P"), f_.get("dir"), f_.get("to0"), f_.get("x"), f_.get("y"), f_.get("e"),
                        f_.get("real"), f_.get("model"), g["count"]))
            ctx.violation(what, replay, found_input=False)
    for b in broken:
        # a broken obligation: the correspondence above is the search for a failing input in the
        # implementation; here only the obligation itself is reported
        ctx.violation("proof obligation broken: " + b, {"obligation": b}, found_input=False)
    if t2_fail is not None:
        t2_report_break(ctx, t2_rep, t2_changed, t2_fail, groups, h, drv, cfg_lines, wd)

    ctx.assumptions += [
        "division/remainder by zero with check_div_zero off, inf-inf / inf/inf / inf mod with the corresponding check off, "
        "sqrt of a negative number with check_sqrt_neg off are outside the contract (CHECK_P(false, c) is assert(!c)); such cases "
        "are not executed (they trap) or are skipped by the driver (counted as out_of_contract)",
        "smod_2exp with exp = 0 evaluates Type(1) << (exp - 1) (undefined behaviour) and is not generated",
        "Bounded_Integer_Coefficient_Policy is instantiated through a flag-identical local copy (flags compared with the source text at every run)",
        "theorems cover the native-integer kernel and the extended layer; conversions from mpz/mpq are modelled by their effect and "
        "checked by correspondence, conversions from double/float are judged on the real output only (K4 on the exact dyadic value); "
        "the mpz/mpq arithmetic kernels are not modelled; the floating-point kernel (float, double, long double; policies CO, EN, WRD, DBG) "
        "is judged on its real output against the exact rational result by the proved judges (C11.float_judge_sound); only assign_float_mpz "
        "is modelled and proved for every format (C11.assign_float_mpz_holds); sqrt is compared through squares",
        "float contract: a NaN-producing situation that the policy checks neither specifically nor through check_fpu_nan_result, and a "
        "division / remainder by zero without check_div_zero, are outside the contract (skipped, counted)",
        "the harness is compiled with -frounding-math like the library itself (without it GCC expands rint() inline assuming round-to-nearest "
        "and assign_r(int, negative non-integer double, ROUND_UP) returns floor with V_LT)",
    ]
    ctx.cov.update(
        evaluations=total["n"],
        distinct_nontrivial=exhaustive_nontrivial + len(seen),
        rule="non-trivial = the library's result code is not V_EQ (inexact, overflow, infinity, NaN class); distinct = every entry of "
             "an exhaustive table is a different (type, policy, op, dir, to, x, y, exp) by construction; wide cases are de-duplicated by hash",
        exhaustive=True,
        exhaustive_8bit_cases=exhaustive_cases,
        wide_cases=wide_cases,
        float_cases=sum(v["n"] for k, v in per_type.items() if k.startswith("f")),
        bounded_programs=per_op.get("prog", {}).get("n", 0),
        bounded_programs_that_threw=per_op.get("prog", {}).get("nontrivial", 0),
        wide_distinct_nontrivial=len(seen),
        out_of_contract_skipped=total["out_of_contract"],
        flagged_cases=total["flagged"],
        model_only_disagreements=n_model_only,
        traces_validated_against_impl=total["n"],
        histogram_per_op={k: dict(v) for k, v in sorted(per_op.items())},
        histogram_per_type={k: dict(v) for k, v in sorted(per_type.items())},
        policies=POLICIES,
        samples=samples[:40],
        pipeline_s=round(pipe_s, 1),
        translators=["gen/c11_tables.py (clang AST -> PPLV/Gen/ResultTable.lean, theorems re-checked at every run)",
                     "gen/c11_t2.py (clang AST of the uninstantiated templates of checked_int_inlines.hh -> PPLV/Gen/CheckedT2.lean; "
                     "PPLV/Props/C11T2.lean proves every regenerated definition equal to the hand-written model at every run)",
                     "harness cfg lines: Larger<T> routing constants and policy flags of the build are read by the driver, not hard-coded"],
    )
