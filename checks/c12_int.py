"""C12, native bounded integers — Interval<int8_t … int64_t, Native_Integer_Box_Interval_Info> (the interval
types of Int8_Box … Int64_Box, interfaces/interfaced_boxes.hh) and Boundary_NS::adjust_boundary.

Obligations: the theorems of PPLV/Props/C12Int.lean (about PPLV/Interval/IntModel.lean: the C12 model instantiated
with Policy.integer and Rounding.native ty = checked conversion of the exact result (C11 model) + adjust_boundary).
Tie to /repo: harness/c12_interval.cc --types bBhil --adj 1 runs the real Interval operations on
  b int8_t, B uint8_t (all operators on the template pairs), h int16_t, i int32_t, l int64_t (arithmetic, neg/assign,
  join/meet/difference on the template pairs; all operators on the random pairs and chains)
with the destination boundaries poisoned (a boundary the library forgets to mark SPECIAL is a deterministic stale
value), and Boundary_NS::adjust_boundary directly on every Result code the checked layer can return for the side,
literal (adj) and obtained from the real checked operations near the limits (adjop); and chains of
Int8_Box::affine_image on 2-dimensional boxes near the limits (box: judged on the real box only).  The native driver pplv_c12
replays the model and demands identical bounds / bits / returned codes (model) and judges the REAL output:
enclose / empty / exact (the library is exact whenever the integer hull of the image is representable) / pred / okinv.
Called from checks/c12.py; returns the broken proof obligations (the caller reports them).
"""
import collections, os, shutil, subprocess, time
from fractions import Fraction
from .common import BUILD

PROPS = ["PPLV.Props.C12Int"]
TYPES = "bBhil"
RANGE = {"b": (-2**7, 2**7 - 1), "B": (0, 2**8 - 1), "h": (-2**15, 2**15 - 1), "i": (-2**31, 2**31 - 1),
         "l": (-2**63, 2**63 - 1)}
CTYPE = {"b": "int8_t", "B": "uint8_t", "h": "int16_t", "i": "int32_t", "l": "int64_t"}
ADJ_SITE = "Boundary_NS::adjust_boundary"
BOX_SITE = "Box::affine_image"
RESULT_NAME = {1: "V_EQ", 2: "V_LT", 3: "V_LE", 4: "V_GT", 5: "V_GE", 66: "V_LT_INF", 68: "V_GT_SUP",
               17: "V_EQ_MINUS_INFINITY", 20: "V_GT_MINUS_INFINITY", 33: "V_EQ_PLUS_INFINITY", 34: "V_LT_PLUS_INFINITY",
               145: "V_EQ_MINUS_INFINITY|V_UNREPRESENTABLE", 148: "V_GT_MINUS_INFINITY|V_UNREPRESENTABLE",
               161: "V_EQ_PLUS_INFINITY|V_UNREPRESENTABLE", 162: "V_LT_PLUS_INFINITY|V_UNREPRESENTABLE"}


def parse_itv(tok):
    """None (empty) or (lo, hi) with lo / hi an int or None (infinite); 'bad' when not an interval token."""
    if tok == "E":
        return None
    if len(tok) < 5 or tok[0] not in "[(" or tok[-1] not in "])":
        return "bad"
    a, _, b = tok[1:-1].partition(",")
    try:
        return (None if a == "-inf" else int(a), None if b == "+inf" else int(b))
    except ValueError:
        return "bad"


def exact_hull(op, I, J):
    """exact lower / upper end of the image for bounded non-empty operands (None: not computed)."""
    if I in (None, "bad") or None in I:
        return None
    if op == "neg":
        return (-I[1], -I[0])
    if J in (None, "bad") or None in J:
        return None
    if op == "add":
        return (I[0] + J[0], I[1] + J[1])
    if op == "sub":
        return (I[0] - J[1], I[1] - J[0])
    if op == "mul":
        c = [a * b for a in I for b in J]
        return (min(c), max(c))
    if op == "div":
        if J[0] <= 0 <= J[1]:
            return None
        c = [Fraction(a, b) for a in I for b in J]
        return (min(c), max(c))
    return None


def run(ctx):
    t0 = time.time()
    broken = ctx.prove(PROPS)
    if ctx.tier == "thorough":
        broken += ctx.leanchecker(PROPS)
    drv = ctx.ensure_pplv("pplv_c12")
    t_prove = time.time() - t0
    t0 = time.time()
    h = ctx.compile_harness("c12_interval.cc", flags=("-frounding-math",))
    t_cc = time.time() - t0
    wd = os.path.join(BUILD, "run-%s-int-%d" % (ctx.pid, os.getpid()))
    shutil.rmtree(wd, ignore_errors=True)
    os.makedirs(wd)
    nrandom = 3000 if ctx.tier == "quick" else 45000
    nbox = 3000 if ctx.tier == "quick" else 45000
    journal = os.path.join(wd, "journal.txt")
    t0 = time.time()
    rc, _, err = ctx.run([h, "--types", TYPES, "--adj", "1", "--box", str(nbox), "--seed", str(ctx.seed),
                          "--random", str(nrandom)],
                         stdout_path=journal, timeout=1500)
    if rc != 0:
        ctx.fatal("native-integer interval harness failed rc=%s %s" % (rc, (err or "")[-500:]))
    t_harness = time.time() - t0

    events, probes, crashes, order = {}, {}, [], []
    for line in open(journal):
        t = line.split()
        if not t:
            continue
        if t[0] == "probe":
            probes[t[1]] = (t[2] == "1", " ".join(t[3:]))
        elif t[0] == "crash":
            crashes.append((line.strip(), order[-1] if order else None))
        elif len(t) == 7 and not t[0].startswith("#"):
            events[t[0]] = t
            order.append(t[0])
    if "d3" not in probes or "d12" not in probes:
        ctx.fatal("harness did not report the defect probes")
    d3, d12 = probes["d3"][0], probes["d12"][0]
    drv_args = ["--d3", "1" if d3 else "0", "--d12", "1" if d12 else "0"]
    seen_types = set(events[e][1] for e in order)
    for ty in TYPES:
        if ty not in seen_types and not crashes:
            ctx.fatal("no events journalled for the native type %s (%s)" % (ty, CTYPE[ty]))

    # one driver process per type, in parallel
    t0 = time.time()
    by_type = collections.defaultdict(list)
    for eid in order:
        by_type[events[eid][1]].append(" ".join(events[eid]))
    procs = []
    for ty, lines in sorted(by_type.items()):
        jp = os.path.join(wd, "journal-%s.txt" % ty)
        vp = os.path.join(wd, "verdicts-%s.txt" % ty)
        with open(jp, "w") as f:
            f.write("\n".join(lines) + "\n")
        procs.append((ty, vp, subprocess.Popen([drv] + drv_args, stdin=open(jp), stdout=open(vp, "w"),
                                               stderr=subprocess.PIPE, env=dict(os.environ))))
    verdict_lines = []
    for ty, vp, pr in procs:
        _, err = pr.communicate(timeout=3000)
        if pr.returncode != 0:
            ctx.fatal("driver failed on type %s rc=%s %s" % (ty, pr.returncode, (err or b"")[-500:]))
        verdict_lines += open(vp).read().splitlines()
    t_driver = time.time() - t0

    n_ok = 0
    mism = collections.defaultdict(list)       # id -> [(obligation, tags, detail)]
    for line in verdict_lines:
        if line.startswith("ok "):
            n_ok += 1
        elif line.startswith("MISMATCH "):
            t = line.rstrip("\n").split(" ", 4)
            tags = [] if t[3] == "tags=-" else t[3][5:].split(",")
            mism[t[1]].append((t[2], tags, t[4] if len(t) > 4 else ""))
    if n_ok + len(mism) != len(events):
        ctx.fatal("driver judged %d of %d native-integer events" % (n_ok + len(mism), len(events)))

    from . import c12 as main      # site_of, sign_class, PROPERTY_OBLIGATIONS (lazily: c12 imports this module)

    def site_of(op):
        if op.startswith("cvt:"):
            return "Interval::assign"
        return ADJ_SITE if op.startswith("adj") else BOX_SITE if op.startswith("box:") else main.site_of(op)

    replay_cmd = "bin/check C12 --replay <this file>   # = %s --one '<ty> <op> <I> <J>' | %s %s" % (
        os.path.basename(h), os.path.basename(drv), " ".join(drv_args))

    # ---- crashes (abort() at PPL_UNREACHABLE in the NDEBUG build, …): attributed to the event after the last journalled one
    for c, last in crashes:
        ctx.violation("the native-integer interval harness crashed (%s) after event %s" % (c, " ".join(events[last]) if last else None),
                      {"crash": c, "last_event": events.get(last), "replay_cmd": replay_cmd},
                      found_input=True, record={"site": "crash", "tags": []})

    # ---- verdicts
    reported = collections.Counter()
    model_only = []
    obligation_hist = collections.Counter()
    for eid in order:
        if eid not in mism:
            continue
        ev = events[eid]
        op = ev[2]
        site = site_of(op)
        prop = [m for m in mism[eid] if m[0] in main.PROPERTY_OBLIGATIONS]
        for ob, tags, detail in mism[eid]:
            obligation_hist["%s %s %s" % (ev[1], ":".join(op.split(":")[:1]), ob)] += 1
        if prop:
            ob, tags, detail = prop[0]
            key = (site, ev[1], ob, tuple(tags))
            reported[key] += 1
            if reported[key] > 1:      # same class (site, type, obligation, tags): one replay
                continue
            what = "%s on Interval<%s, Native_Integer_Box_Interval_Info>: %s %s %s = %s violates '%s': %s" % (
                site, CTYPE.get(ev[1], ev[1]), ev[3], op, ev[4], ev[5], ob, detail)
            robj = {"event": " ".join(ev), "type": ev[1], "op": op, "I": ev[3], "J": ev[4]}
            if op.startswith("cvt:"):      # conversion from another interval type: the recorded journal line is re-judged
                robj = {"event": " ".join(ev), "conversion": op, "source_interval": ev[3]}
            if op.startswith("box:"):      # no --one for box chains: the recorded journal line is re-judged (replay_generic)
                robj = {"event": " ".join(ev), "box_type": "Int8_Box", "affine_image": op, "argument_box": ev[3]}
            ctx.violation(what, dict(robj, **{
                                 "real_result": ev[5], "obligation": ob, "detail": detail,
                                 "all_mismatches": mism[eid], "replay_cmd": replay_cmd,
                                 "history": [" ".join(ev)], "driver": "pplv_c12", "driver_args": drv_args}),
                          found_input=True, record={"site": site, "tags": tags, "obligation": ob})
        elif any(m[0] == "parse" for m in mism[eid]):
            ctx.fatal("driver could not parse event %s: %s" % (" ".join(ev), mism[eid]))
        else:
            model_only.append((ev, mism[eid]))
    if model_only:
        # the real output satisfies the property on these inputs but is not what the proved model dictates
        ev, ms = model_only[0]
        by_op = collections.Counter(e[2].split(":")[0] + "/" + e[1] for e, _ in model_only)
        ctx.violation("the library no longer behaves as the model PPLV/Interval/IntModel.lean (native bounded integers) on %d events (%s); first: %s : %s"
                      % (len(model_only), dict(by_op), " ".join(ev), ms[0][2]),
                      {"event": " ".join(ev), "op": ev[2], "mismatches": ms, "count": len(model_only),
                       "theorems": "PPLV.Props.C12Int (all: they are statements about the model)", "replay_cmd": replay_cmd,
                       "type": ev[1], "I": ev[3], "J": ev[4], "real_result": ev[5],
                       "history": [" ".join(e) for e, _ in model_only[:50]], "driver": "pplv_c12", "driver_args": drv_args},
                      found_input=False, record={"site": site_of(ev[2]), "tags": ["model_correspondence"]})

    # ---- coverage
    t0 = time.time()
    per = collections.Counter()
    per_type = collections.Counter()
    special_overflow = collections.Counter()     # type op side -> results whose side is SPECIAL although the exact end is finite
    saturated = collections.Counter()            # type op side -> lower == max / upper == min from an out-of-range exact end
    exact_repr = collections.Counter()           # type op -> results whose integer hull is representable (judged exact)
    mulcells, divcells = collections.Counter(), collections.Counter()
    adj_codes, adjop_codes = collections.Counter(), collections.Counter()
    box_results = collections.Counter()
    nontrivial = 0
    for eid in order:
        ev = events[eid]
        ty, op = ev[1], ev[2]
        opn = op.split(":")[0]
        per_type[ty] += 1
        per[ty + " " + opn] += 1
        if opn == "adj":
            f = op.split(":")
            adj_codes["%s %s %s" % (ty, f[1], RESULT_NAME.get(int(f[3]), f[3]))] += 1
            continue
        if opn == "box":
            box_results["empty" if ev[5] == "E" else "unbounded side" if "inf" in ev[5] else "bounded"] += 1
            continue
        if opn == "adjop":
            f = op.split(":")
            r = ev[5].split(",")
            adjop_codes["%s %s %s returned=%s special=%s" % (ty, f[1], f[2], RESULT_NAME.get(int(r[3]), r[3]), r[1])] += 1
            continue
        if ev[3] != "E" and ev[4] != "E" and ev[5] not in ("E", "(-inf,+inf)"):
            nontrivial += 1
        if opn == "mul":
            mulcells[ty + " " + main.sign_class(ev[3]) + main.sign_class(ev[4])] += 1
        if opn == "div":
            divcells[ty + " " + main.sign_class(ev[3]) + main.sign_class(ev[4])] += 1
        if opn in ("add", "sub", "mul", "div", "neg"):
            R = parse_itv(ev[5])
            hull = exact_hull(opn, parse_itv(ev[3]), parse_itv(ev[4]) if ev[4] != "-" else None)
            if hull is None or R in (None, "bad"):
                continue
            lo, hi = RANGE[ty]
            if R[0] is None:
                special_overflow["%s %s lower" % (ty, opn)] += 1
            elif R[0] == hi and hull[0] > hi:
                saturated["%s %s lower=max" % (ty, opn)] += 1
            if R[1] is None:
                special_overflow["%s %s upper" % (ty, opn)] += 1
            elif R[1] == lo and hull[1] < lo:
                saturated["%s %s upper=min" % (ty, opn)] += 1
            if lo <= hull[0] and hull[1] <= hi:
                exact_repr["%s %s" % (ty, opn)] += 1
    t_cov = time.time() - t0
    ctx.cov["native_int"] = {
        "interval_types": {k: "Interval<%s, Native_Integer_Box_Interval_Info>" % v for k, v in CTYPE.items()},
        "evaluations": len(events),
        "traces_validated_against_impl": n_ok,
        "events_with_mismatch": len(mism),
        "mismatch_histogram": dict(obligation_hist),
        "nontrivial": nontrivial,
        "rule": "non-trivial: both operands non-empty and the real result neither empty nor the universe",
        "events_per_type": dict(per_type),
        "per_type_op": dict(per),
        "bounded_operands_special_bound_from_overflow": dict(special_overflow),
        "bounded_operands_saturated_bound": dict(saturated),
        "bounded_operands_hull_representable_judged_exact": dict(exact_repr),
        "mul_sign_cells": dict(mulcells),
        "div_sign_cells": dict(divcells),
        "adjust_boundary_literal_codes": dict(adj_codes),
        "adjust_boundary_after_checked_operation": dict(adjop_codes),
        "int8_box_affine_image_chains": nbox,
        "int8_box_affine_image_results": dict(box_results),
        "random_pairs_per_type": nrandom,
        "harness_crashes": len(crashes),
        "samples": [" ".join(events[e]) for e in order[60000:60004]] + [" ".join(events[e]) for e in order[-3:]],
        "phase_seconds": {"lake (incl. waiting for the shared lock)": round(t_prove, 1), "harness compile": round(t_cc, 1),
                          "harness run": round(t_harness, 1), "drivers (parallel per type)": round(t_driver, 1),
                          "coverage": round(t_cov, 1)},
    }
    ctx.assumptions += [
        "native bounded integers: an interval denotes a set of rationals (as for every other boundary type); the result must "
        "contain the exact image, and be the integer hull of the image whenever that hull is a value of the type",
        "native bounded integers: the raw value stored under a SPECIAL bit is unspecified; the harness fixes it (poison) before every operation",
    ]
    if not mism and not crashes:
        shutil.rmtree(wd, ignore_errors=True)
    return broken
