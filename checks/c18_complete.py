"""C18 stage 3 — the Farkas encodings are COMPLETE (helper of checks/c18.py).

proof:  PPLV.Props.C18Complete — Farkas' lemma / Motzkin transposition proved by induction over the
        verified Fourier-Motzkin kernel K1 (lean/PPLV/Farkas/*: every row K1 derives is a non-negative
        combination of the input rows), and from it: ms_complete, pr_original_complete, pr_complete
        (before/after form: for functions bounded from below on the guard), the exact answers
        termination_test_MS_iff / _PR_original_iff / _PR_iff (closed relations, empty or not; non-empty
        relations with strict rows through ranking_closure_iff), all_affine_ranking_functions_MS_exact.
tie:    no new harness.  The judge pplv_term (lean/Driver/Term.lean) prints per case `dec=` (the certifying
        existence decider), `ms_model=` / `pr_model=` (CERTIFIED verdict of the code-shaped model of the
        encoding on the relaxed system).  Before this stage "the real test says false although a ranking
        function exists" was an agreement requirement; it is now a theorem (C18.ms_certified_verdict,
        C18.pr_original_certified_verdict, C18.termination_test_PR_iff), so
          * the reference answer E = "an affine ranking function of the relation exists" is taken from the
            decider and, where the decider is undecided, from ms_model (sound AND complete);
          * E = true  => termination_test / one_affine / all_affine of MS and PR must say true, also for
            NON-EMPTY relations with strict constraints (previously: closed relations only); the before/after
            PR form is excused exactly when its own encoding is certified infeasible and the guard does not
            entail what `after` implies about x (KF-C18-1; pr_complete_guard_entailed says it cannot happen
            otherwise);
          * E = false => every verdict must be false, also where the decider alone was undecided;
          * a certified model verdict that differs from the real test (MODELDIFF) is a wrong answer of the code;
          * the three reference sources must agree with each other where the theorems say so (a disagreement
            would be an error in the trusted base, reported as a broken obligation with the relation).
"""
import collections, json, os

PROPS = ["PPLV.Props.C18Complete"]
KEYS = ("t_MS", "o_MS", "s_MS", "t_PR", "o_PR", "s_PR")


def _verdicts(info):
    out = {}
    for item in (info.get("verdicts") or "").split(","):
        k, _, v = item.partition("=")
        if k in KEYS and v in ("0", "1"):
            out[k] = v == "1"
    return out


def reference(info):
    """-> (E, source).  E: True/False/None = does an affine ranking function of the relation exist."""
    closed, empty = info.get("closed") == "1", info.get("empty") == "1"
    usable = closed or not empty              # hypothesis of C18.ms_certified_verdict
    dec, msm = info.get("dec"), info.get("ms_model")
    if dec in ("0", "1"):
        return dec == "1", "decider"
    if usable and msm in ("0", "1"):
        return msm == "1", "ms_model"
    return None, "none"


def consistency(info):
    """disagreements between verified procedures that the theorems exclude -> list of strings"""
    bad = []
    closed, empty = info.get("closed") == "1", info.get("empty") == "1"
    usable = closed or not empty
    dec, msm, prm = info.get("dec"), info.get("ms_model"), info.get("pr_model")
    form2 = info.get("form") == "2"
    if usable and dec in ("0", "1") and msm in ("0", "1") and dec != msm:
        bad.append("decider=%s but ms_model=%s (C18.ms_certified_verdict)" % (dec, msm))
    E, _ = reference(info)
    if E is not None and prm in ("0", "1"):
        if not form2 and usable and (prm == "1") != E:
            bad.append("exists=%s but pr_model=%s in the single-relation form (C18.pr_original_certified_verdict)" % (int(E), prm))
        if form2 and prm == "1" and not E:
            bad.append("pr_model=1 but no ranking function exists (C18.pr_sound)")
        if form2 and closed and not empty and prm == "0" and E and info.get("guard_entailed") == "1":
            bad.append("guard entails after, ranking function exists, pr_model=0 (C18.pr_complete_guard_entailed)")
    return bad


def _event_line(lines, key):
    kind, m = key.split("_")
    pre = "%s %s " % (kind, m)
    for i, l in enumerate(lines):
        if l.startswith(pre):
            return i, l
    return None, ""


def judge_case(info, lines, verd_at):
    """-> list of (index in lines, event line, what) for NEW failures (those the driver did not flag itself)."""
    out = []
    closed, empty = info.get("closed") == "1", info.get("empty") == "1"
    usable = closed or not empty
    E, src = reference(info)
    vs = _verdicts(info)
    for key, v in vs.items():
        i, l = _event_line(lines, key)
        if i is None:
            continue
        already = any(k == "MISMATCH" for k, _ in verd_at(i))
        if already or E is None:
            continue
        if v and not E:
            out.append((i, l, "verdict_true_no_ranking %s (reference: %s)" % (key, src)))
        elif (not v) and E and usable:
            out.append((i, l, "verdict_false_but_ranking_exists %s (reference: %s%s)" % (
                key, src, "" if closed else ", non-empty relation with strict rows: C18.termination_test_MS_iff_nnc")))
    # certified model verdict differs from the real test
    if usable:
        for i, l in enumerate(lines):
            for k, what in verd_at(i):
                if k != "MODELDIFF":
                    continue
                if any(k2 == "MISMATCH" for k2, _ in verd_at(i)) or any(x[0] == i for x in out):
                    continue
                # "MS model=1 code=0"
                t = what.split()
                model1 = "model=1" in t
                if model1:
                    out.append((i, l, "verdict_false_but_ranking_exists t_%s (certified model of the encoding is satisfiable: C18.ms_sound / pr_sound)" % t[0]))
                elif t[0] == "MS" or info.get("form") != "2":
                    out.append((i, l, "verdict_true_no_ranking t_%s (certified model of the encoding is infeasible: C18.ms_complete / pr_original_complete)" % t[0]))
                elif E is False:
                    out.append((i, l, "verdict_true_no_ranking t_%s" % t[0]))
    return out


def _report(ctx, base, info, lines, l, what, cmd):
    site, tags = base.classify(info, l, what)
    tags = list(tags) + ["stage3_completeness"]
    return ctx.violation("%s: %s | case: %s | event: %s" % (site, what, lines[0], l[:200]),
                         {"stage": "c18_complete", "case": lines, "event": l, "verdict": what, "site": site, "tags": tags,
                          "caseinfo": {k: v for k, v in info.items() if k != "_ln"}, "harness_args": cmd[1:] if cmd else [],
                          "replay_cmd": "bin/check C18 --replay <this file>  (re-runs the real library on the recorded relation)"},
                         found_input=True, record={"site": site, "tags": tags})


def run(ctx, cases=None, verd=None, info_by_ln=None, cmd=None):
    """proves the stage-3 module and cross-checks every case of the journal checks/c18.py already produced.
    Returns the list of broken proof obligations (the caller reports them)."""
    from . import c18 as base
    broken = ctx.prove(PROPS)
    cases, verd, info_by_ln = cases or [], verd or {}, info_by_ln or {}
    src_hist, scope = collections.Counter(), collections.Counter()
    must = collections.Counter()
    new_fail = collections.Counter()
    incons = 0
    sizes = collections.Counter()
    for start, lines in cases:
        info = info_by_ln.get(start)
        if not info or "ms_model" not in info:
            scope["no_caseinfo"] += 1
            continue
        E, src = reference(info)
        src_hist[src] += 1
        closed, empty = info.get("closed") == "1", info.get("empty") == "1"
        cls = ("closed" if closed else "strict") + ("_empty" if empty else "_nonempty")
        scope[cls] += 1
        for b in consistency(info):
            incons += 1
            broken.append("verified procedures disagree on a relation: %s | %s | %s" % (b, lines[0], " / ".join(lines[1:4])[:300]))
        if E is not None and (closed or not empty):
            for key, v in _verdicts(info).items():
                must[("%s must be %d" % (key, int(E)))] += 1
            if E:
                sizes["n=%s rows=%s form=%s" % (info.get("n"), info.get("rows"), info.get("form"))] += 1
        for i, l, what in judge_case(info, lines, lambda i, s=start: verd.get(s + i, [])):
            new_fail[what.split()[0]] += 1
            if new_fail[what.split()[0]] <= 5:
                _report(ctx, base, info, lines, l, what, cmd)
    top_sizes = dict(sorted(sizes.items(), key=lambda kv: -kv[1])[:12])
    ctx.cov["c18_complete"] = {
        "cases": len(cases), "reference_answer_from": dict(src_hist), "relation_classes": dict(scope),
        "verdict_obligations_by_theorem": dict(must),
        "decided_only_through_ms_model(theorem)": src_hist["ms_model"],
        "strict_nonempty_cases_now_required_exact": scope["strict_nonempty"],
        "failures_not_seen_by_the_agreement_check": dict(new_fail),
        "inconsistencies_between_verified_procedures": incons,
        "completeness_direction_exercised_on(n,rows,form) top": top_sizes,
        "rule": "per case: reference E (decider, else certified ms_model where C18.ms_certified_verdict applies); every "
                "verdict of termination_test/one_affine/all_affine (MS, PR) must equal E on closed relations and on non-empty "
                "relations with strict rows; PR before/after `false` is excused only by KF-C18-1 (pr_model=0, guard not entailed)",
    }
    ctx.assumptions += [
        "stage 3: `ms_model` / `pr_model` are used as reference answers only when CERTIFIED (a verified rational point or verified "
        "Motzkin multipliers, K1 certify); by C18.ms_certified_verdict / pr_original_certified_verdict a certified verdict of the "
        "model decides existence of a ranking function (closed relations; non-empty relations with strict rows)",
        "stage 3: an EMPTY relation with strict rows whose closure is non-empty is out of scope of exactness (C18.closure_needs_nonempty): "
        "a `false` verdict there is accepted",
    ]
    return broken


def replay(ctx, path):
    """Re-run the REAL library on the recorded relation, re-judge with pplv_term and with the stage-3 cross-check."""
    from . import c18 as base
    rp = json.load(open(path))
    case = rp.get("case", [])
    print("property=%s what=%s" % (rp.get("property"), rp.get("what")))
    ctx.ensure_ppl()
    drv = ctx.ensure_pplv("pplv_term")
    h = ctx.compile_harness("c18_term.cc")
    wd = ctx.workdir()
    inp = os.path.join(wd, "replay_case.txt")
    with open(inp, "w") as f:
        f.write("\n".join(l for l in case if l.split()[0] in ("case", "R0", "B0", "A0")) + "\n")
    rc, out, err = ctx.run([h, "--replay-file", inp], timeout=300)
    journal = (out or "").splitlines()
    print("\n".join(l[:200] for l in journal))
    verd, infos, _ = base.run_driver(ctx, drv, journal, wd, nproc=1)
    cases = base.split_cases(journal)
    info_by_ln = {i["_ln"]: i for i in infos}
    rcode = 0
    for start, lines in cases:
        info = info_by_ln.get(start, {})
        print("caseinfo: " + " ".join("%s=%s" % kv for kv in sorted(info.items()) if kv[0] != "_ln"))
        fails = [(lines[i], what) for i in range(len(lines)) for k, what in verd.get(start + i, []) if k == "MISMATCH"]
        fails += [(l, what) for _, l, what in judge_case(info, lines, lambda i, s=start: verd.get(s + i, []))]
        for b in consistency(info):
            print("INCONSISTENT verified procedures: " + b)
            rcode = 1
        for l, what in fails:
            site, tags = base.classify(info, l, what)
            print("MISMATCH %s: %s | %s" % (site, what, l[:160]))
            k = ctx.match_known({"site": site, "tags": tags})
            if k is not None:
                print("KNOWN-FINDING: property=%s %s [%s]" % (ctx.pid, k["what"], k["id"]))
            else:
                rcode = 1
    if rcode:
        print("VIOLATION property=%s replay=%s" % (ctx.pid, path))
    else:
        print("no (new) mismatch when re-executed and re-judged")
    return rcode
