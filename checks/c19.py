"""C19 — Watchdog / weight watcher: timeouts fire once, in order, never early, never after death.

proof      : lake build PPLV.Props.C19 (statement-level transition system of Watchdog.cc /
             Time_inlines.hh / Pending_List / Threshold_Watcher; invariants over all schedules)
             + axiom audit.
tie        : harness/c19_watchdog.cc runs the REAL library under a virtual clock (it defines
             setitimer/getitimer/sigaction itself; libppl.so binds to them) on seeded sequences of
             creations/destructions with the timer expiring between operations and at every timer
             system-call boundary inside the critical sections; the native driver pplv_c19 replays
             the same schedule on the Lean model, diffs the traces (handler firings with times,
             timer calls with values, exceptions) and judges the clauses on the REAL trace.
verdict    : clause failures of the real trace, and any difference between the model's trace and the
             library's (model = code is part of the claim).  The variant of `Time::operator==` (as written /
             repaired) is MEASURED (`eqbug 0|1` printed by the harness), never assumed.
"""
import collections, hashlib, json, os, re, sys

LEVEL = "proof"

# cause tag (computed by the driver from the real trace + the model state) -> site of the finding
SITE = {
    "time_eq_ignores_microseconds": "Time::operator==",
    "after_deferred_signal": "Watchdog::reschedule",
    "negative_csecs": "Watchdog::Watchdog",
    "weight_equals_threshold_exactly": "Threshold_Watcher::check",
}


def split_cases(journal_path):
    """name -> list of journal lines (inputs and observations) of that case"""
    cases, cur, name, eqbug = collections.OrderedDict(), None, None, None
    with open(journal_path) as f:
        for line in f:
            line = line.rstrip("\n")
            t = line.split(" ")
            if t[0] == "eqbug":
                eqbug = int(t[1]); continue
            if t[0] == "case":
                name = "%s-%s" % (t[2], t[1]); cur = [line]; continue
            if t[0] == "wcase":
                name = "weight-%s" % t[1]; cur = [line]; continue
            if cur is not None:
                cur.append(line)
                if t[0] == "end":
                    cases[name] = cur; cur = None
    if cur is not None and name is not None:      # crashed case: keep what was written
        cases[name] = cur
    return cases, eqbug


def to_script(lines):
    """journal of a watchdog case -> script for `c19_watchdog --script` (same placements)"""
    ops, at, k, pend, in_call = [], [], 0, 0, False
    cur_boundary = None

    def flush_idle():
        nonlocal pend
        if pend:
            ops.append("advance %d" % pend); pend = 0
    acc = {}
    for l in lines:
        t = l.split(" ")
        if t[0] == "call":
            flush_idle(); in_call = True; cur_boundary = None
            ops.append("create %s %s" % (t[2], t[3]) if t[1] == "create" else "destroy %s" % t[2])
        elif t[0] == "senter":
            cur_boundary = k; k += 1
        elif t[0] == "sexit":
            cur_boundary = k; k += 1
        elif t[0] == "tick":
            if in_call and cur_boundary is not None:
                acc[cur_boundary] = acc.get(cur_boundary, 0) + int(t[1])
            else:
                pend += int(t[1])
        elif t[0] in ("ret", "exc"):
            in_call = False; cur_boundary = None
    flush_idle()
    return ["at %d %d" % (b, d) for b, d in sorted(acc.items())] + ops


def case_features(lines):
    calls = [l for l in lines if l.startswith("call ") or l.startswith("wcall ")]
    fired = sum(1 for l in lines if l.startswith("obs fired") or l.startswith("obs wfired"))
    hset = sum(1 for l in lines if l.startswith("obs hset"))
    live = maxlive = 0
    incall, crit_ticks = False, 0
    for l in lines:
        if l.startswith("call create") or l.startswith("wcall create"):
            live += 1; maxlive = max(maxlive, live)
        elif l.startswith("call destroy") or l.startswith("wcall destroy"):
            live -= 1
        if l.startswith("call "):
            incall = True
        elif l in ("ret",) or l.startswith("exc"):
            incall = False
        elif l.startswith("tick") and incall:
            crit_ticks += 1
    rearm = sum(1 for i, l in enumerate(lines) if l.startswith("call destroy") and i + 1 < len(lines) and lines[i + 1].startswith("senter"))
    return {"calls": len(calls), "fired": fired, "handler_timer_calls": hset, "max_live": maxlive,
            "ticks_inside_calls": crit_ticks, "rearm_on_removal": rearm}


def run(ctx):
    ctx.ensure_ppl()
    broken = ctx.prove(["PPLV.Props.C19"])
    drv = ctx.ensure_pplv("pplv_c19")
    h = ctx.compile_harness("c19_watchdog.cc")
    wd = ctx.workdir()
    thorough = ctx.tier == "thorough"
    if thorough:
        broken += ctx.leanchecker(["PPLV.Props.C19"])

    # -------------------------------------------------------------- replay of one recorded case
    if ctx.replay:
        obj = json.load(open(ctx.replay))
        jp = os.path.join(wd, "replay.journal")
        with open(jp, "w") as f:
            f.write("eqbug %d\n" % obj.get("eqbug", 1))
            f.write("\n".join(obj["journal"]) + "\n")
        rc, out, err = ctx.run([drv, "--trace"], stdin_path=jp)
        print(out)
        if obj.get("script"):
            sp = os.path.join(wd, "replay.script")
            open(sp, "w").write("\n".join(obj["script"]) + "\n")
            rc, out2, err = ctx.run([h, "--script", sp])
            print("--- the same schedule on the current library:")
            print(out2)
            jp2 = os.path.join(wd, "replay2.journal"); open(jp2, "w").write(out2)
            rc, out3, err = ctx.run([drv], stdin_path=jp2)
            print(out3)
        return

    # -------------------------------------------------------------- correspondence + verdict
    scale = 12 if thorough else 1
    n_rand, n_exh, n_weight, n_neg = 6000 * scale, 150 * scale, 3000 * scale, 4
    jp = os.path.join(wd, "journal.txt")
    rc, _, err = ctx.run([h, "--seed", str(ctx.seed), "--rand", str(n_rand), "--exh", str(n_exh),
                          "--weight", str(n_weight), "--neg", str(n_neg)], stdout_path=jp, timeout=900)
    if rc != 0:
        ctx.fatal("harness failed rc=%s: %s" % (rc, (err or "")[-500:]))
    vp = os.path.join(wd, "verdicts.txt")
    rc, _, err = ctx.run([drv], stdin_path=jp, stdout_path=vp, timeout=900)
    if rc != 0:
        ctx.fatal("driver failed rc=%s: %s" % (rc, (err or "")[-500:]))
    cases, eqbug = split_cases(jp)
    if eqbug is None:
        ctx.fatal("harness did not report the variant of Time::operator==")

    n_ok = 0
    trace_diff = []
    fails = collections.defaultdict(list)          # case -> [(clause, detail, tags)]
    eq_hits = defer_cases = model_deferrals = 0
    summary = None
    for line in open(vp):
        line = line.rstrip("\n")
        if line.startswith("ok "):
            n_ok += 1
            m = re.search(r"eqhits=(\d+) defer=(\d+)", line)
            if m:
                eq_hits += int(m.group(1)) > 0; defer_cases += int(m.group(2)) > 0
            m = re.search(r"mdefer=(\d+)", line)
            if m:
                model_deferrals += int(m.group(1)) > 0
        elif line.startswith("MISMATCH "):
            t = line.split(" ")
            name, clause = t[1], t[2]
            m = re.search(r"tags=(\S*)$", line)
            tags = [x for x in (m.group(1).split(",") if m else []) if x]
            detail = " ".join(t[3:])
            if clause == "trace":
                trace_diff.append((name, detail))
            else:
                fails[name].append((clause, detail, tags))
        elif line.startswith("summary"):
            summary = line
    if summary is None:
        ctx.fatal("driver produced no summary")

    clause_hist = collections.Counter()
    known_hist = collections.Counter()
    reported = collections.Counter()           # unexplained failures reported as VIOLATION, per clause
    suppressed = 0
    for name, lst in fails.items():
        lines = cases.get(name, [])
        script = to_script(lines) if not name.startswith("weight") else None
        for clause, detail, tags in lst:
            clause_hist[clause] += 1
            what = "C19 clause %s fails on the real library: case %s: %s" % (clause, name, detail)
            replay = {"case": name, "clause": clause, "detail": detail, "journal": lines, "eqbug": eqbug,
                      "script": script, "harness": "c19_watchdog.cc",
                      "how": "bin/check C19 --replay <this file>  (driver verdict + re-run of the schedule on the current library)"}
            rec = None
            for tg in tags:
                r = {"site": SITE.get(tg, "?"), "tags": [tg]}
                if ctx.match_known(r) is not None:
                    rec = r; break
            if rec is not None:
                known_hist[rec["tags"][0]] += 1
            elif reported[clause] >= 3 or sum(reported.values()) >= 10:
                suppressed += 1                  # same clause already reported with 3 inputs
                continue
            else:
                reported[clause] += 1
            ctx.violation(what, replay, found_input=True, record=rec)

    # model = code is what ties the theorems to /repo: a trace difference (handler firings with times,
    # timer calls with values, exceptions) means the proofs are about a different program than the one
    # that exists, so the tie obligation is broken; the schedule is the failing input.  (The clauses
    # above were judged on the real trace independently.)
    for name, detail in trace_diff[:3]:
        lines = cases.get(name, [])
        ctx.violation("C19 correspondence broken: the Lean transition system and the library disagree on case %s: %s"
                      % (name, detail),
                      {"case": name, "clause": "correspondence", "detail": detail, "journal": lines, "eqbug": eqbug,
                       "script": to_script(lines) if not name.startswith("weight") else None,
                       "harness": "c19_watchdog.cc",
                       "how": "bin/check C19 --replay <this file>; re-align PPLV/Watchdog/Model.lean with src/Watchdog.cc"},
                      found_input=True)
    for name, detail in trace_diff[3:8]:
        print("CORRESPONDENCE-DIFF C19 %s %s" % (name, detail), flush=True)

    # -------------------------------------------------------------- broken proof obligations
    for b in broken:
        # the correspondence run above is the search for a failing input; if it found an unexplained
        # clause failure the violation is already reported with its input
        ctx.violation("C19 proof obligation broken: %s" % b,
                      {"obligation": b, "searched_cases": len(cases)}, found_input=False)

    # -------------------------------------------------------------- coverage figures
    distinct, nontrivial = set(), 0
    hist = collections.Counter()
    kinds = collections.Counter()
    samples = []
    for name, lines in cases.items():
        inputs = [l for l in lines if not l.startswith("obs") and not l.startswith("case") and not l.startswith("wcase")]
        hsh = hashlib.sha256("\n".join(inputs).encode()).hexdigest()[:16]
        kinds[name.split("-")[0]] += 1
        if hsh in distinct:
            continue
        distinct.add(hsh)
        f = case_features(lines)
        if name.startswith("weight"):
            nt = f["fired"] >= 1 or any(l == "wcall check" for l in lines) and f["max_live"] >= 1
        else:
            nt = f["max_live"] >= 2 and (f["fired"] >= 1 or f["rearm_on_removal"] >= 1)
        nontrivial += bool(nt)
        hist["max_live=%d" % f["max_live"]] += 1
        hist["fired>=1"] += f["fired"] >= 1
        hist["tick_inside_call"] += f["ticks_inside_calls"] >= 1
        hist["deferred_signal"] += (f["handler_timer_calls"] >= 1 and any(l.startswith("obs hset 10000") for l in lines))
        hist["rearm_on_removal"] += f["rearm_on_removal"] >= 1
        if nt and len(samples) < 4 and len(lines) < 40:
            samples.append({"case": name, "journal": lines})
    ctx.cov.update(
        evaluations=len(cases),
        distinct_nontrivial=nontrivial,
        distinct=len(distinct),
        rule="watchdog case: >=2 watchdogs alive at once and (>=1 handler firing or a re-arm on removal of the first pending event); "
             "weight case: >=1 firing, or a check with a live threshold; distinct by sha256 of the input lines of the case",
        samples=samples,
        traces_validated_against_impl=len(cases) - len(trace_diff),
        trace_differences=len(trace_diff),
        time_eq_variant_measured="as written (y.microseconds()==y.microseconds())" if eqbug else "repaired",
        cases_by_kind=dict(kinds),
        histogram=dict(hist),
        clause_failures=dict(clause_hist),
        unexplained_failures_reported=dict(reported),
        unexplained_failures_not_reported_again=suppressed,
        clause_failures_explained_by_known_finding=dict(known_hist),
        driver_summary=summary,
        cases_with_a_timer_expiry_inside_a_critical_section=model_deferrals,
    )
    ctx.assumptions += [
        "the handler body is atomic and takes no time (the signal is blocked while its handler runs); signal latency is outside the model",
        "quick tier places timer expiries between public operations and at the entry/exit of every timer system call of the bookkeeping code; "
        "the point between reading `expired` and `in_critical_section = true` in the destructor is covered by the model only",
        "arithmetic on `long` does not overflow",
    ]
