"""C17 — integer-aware operators never discard an integer point of the concrete semantics.

harness/c17_wrap.cc runs wrap_assign / drop_some_non_integer_points / contains_integer_point of the
real library on every simple domain; lean/Driver/Wrap.lean (pplv_wrap) judges each journalled case:
spec images of the window's integer points must be in the REAL result, drop results are subsets that
keep the integer points, contains_integer_point agrees with the proved reference.
Theorems: lean/PPLV/Props/C17.lean (generic algorithm of wrap_assign.hh sound for every abstract domain).
"""
import collections, concurrent.futures as cf, hashlib, os, shutil
from fractions import Fraction
from . import c17_grid

LEVEL = "proof"
GENERIC = ("C", "N", "BQ", "BZ", "BI", "OQ", "OZ", "PC", "PN")
POLY = ("C", "N", "PC", "PN")
BOX = ("RB", "ZB")


# ------------------------------------------------------------------------------- journal parsing
def split_parts(line):
    parts, cur = [], []
    for t in line.split():
        if t == "|":
            parts.append(cur); cur = []
        else:
            cur.append(t)
    parts.append(cur)
    return parts


def take_cs(ts, i, n):
    m = int(ts[i]); i += 1
    rows = []
    for _ in range(m):
        rows.append((ts[i], int(ts[i + 1]), [int(x) for x in ts[i + 2:i + 2 + n]]))
        i += 2 + n
    return rows, i


def take_cgs(ts, i, n):
    m = int(ts[i]); i += 1
    rows = []
    for _ in range(m):
        rows.append((int(ts[i]), int(ts[i + 1]), [int(x) for x in ts[i + 2:i + 2 + n]]))
        i += 2 + n
    return rows, i


def take_elem(ts, i, n):
    nd = int(ts[i]); i += 1
    ds = []
    for _ in range(nd):
        cs, i = take_cs(ts, i, n)
        cgs, i = take_cgs(ts, i, n)
        ds.append((cs, cgs))
    return ds, i


class Case:
    """a judged journal line"""
    def __init__(self, line):
        self.line = line
        parts = split_parts(line)
        head = parts[0]
        self.kind, self.id = head[0], head[1]
        d = head[2:]
        self.desc = " ".join(d)
        self.dom, self.n = d[1], int(d[2])
        self.vars, self.w, self.r, self.o, self.guard, self.thr, self.ind, self.cc, self.hasvars = [], 8, "u", "w", False, 16, False, "A", False
        i = 3
        if self.kind == "wrap":
            nv = int(d[i]); self.vars = [int(x) for x in d[i + 1:i + 1 + nv]]; i += 1 + nv
            self.w, self.r, self.o = int(d[i]), d[i + 1], d[i + 2]; i += 3
            self.guard = d[i] == "1"; i += 1
            if self.guard:
                _, i = take_cs(d, i, self.n)
            self.thr, self.ind = int(d[i]), d[i + 1] == "1"
        elif self.kind == "drop":
            self.hasvars = d[i] == "1"; i += 1
            if self.hasvars:
                nv = int(d[i]); self.vars = [int(x) for x in d[i + 1:i + 1 + nv]]; i += 1 + nv
            self.cc = d[i]
        self.arg = self.res = None
        self.exc = None
        self.parts = parts
        try:
            if len(parts) > 1 and parts[1][:1] == ["A"] and len(parts[1]) > 1:
                self.arg, _ = take_elem(parts[1], 1, self.n)
            if len(parts) > 2 and parts[2][:1] == ["R"] and len(parts[2]) > 1 and self.kind != "cip":
                self.res, _ = take_elem(parts[2], 1, self.n)
        except (ValueError, IndexError):
            pass
        for p in parts[1:]:
            if p[:1] == ["X"]:
                self.exc = " ".join(p[1:])


def unary_bounds(cs, n):
    """per variable (lo, hi) as Fractions or None, from the rows with a single non-zero coefficient"""
    lo, hi = [None] * n, [None] * n
    for rel, k, a in cs:
        nz = [j for j in range(n) if a[j] != 0]
        if len(nz) != 1:
            continue
        j = nz[0]
        b = Fraction(-k, a[j])
        if rel == "=" or a[j] > 0:
            lo[j] = b if lo[j] is None else max(lo[j], b)
        if rel == "=" or a[j] < 0:
            hi[j] = b if hi[j] is None else min(hi[j], b)
    return lo, hi


def classify(c, detail, ginfo):
    """(site, tags): the structural class of a failing case (narrow predicates of known_findings.json)"""
    tags = []
    if c.kind == "drop":
        site = ("Polyhedron" if c.dom in POLY else "Grid" if c.dom == "G" else "Box" if c.dom in BOX else
                "BD_Shape" if c.dom.startswith("B") else "Octagonal_Shape") + "::drop_some_non_integer_points"
        if c.n == 0 and c.arg is not None and all(not cs and not cgs for cs, cgs in c.arg) and c.arg:
            tags.append("zero_dim_universe")
        return site, tags
    if c.kind == "cip":
        site = ("Polyhedron" if c.dom in POLY else "Grid" if c.dom == "G" else "Box" if c.dom in BOX else
                "BD_Shape" if c.dom.startswith("B") else "Octagonal_Shape") + "::contains_integer_point"
        if c.dom in ("N", "PN") and c.arg:
            from math import gcd
            for cs, _ in c.arg:
                for rel, k, a in cs:
                    g = 0
                    for x in a:
                        g = gcd(g, abs(x))
                    if rel == ">" and g > 1 and k % g != 0:
                        tags.append("strict_row_gcd_not_dividing_inhomogeneous_term")
        return site, sorted(set(tags))
    if c.dom in BOX:
        site = "Interval::wrap_assign" if c.o == "w" else "Box::wrap_assign"
        P = 2 ** c.w
        mn, mx = (0, P - 1) if c.r == "u" else (-P // 2, P // 2 - 1)
        if c.arg:
            lo, hi = unary_bounds(c.arg[0][0], c.n)
            for x in c.vars:
                if x >= c.n or lo[x] is None or hi[x] is None:
                    continue
                if c.o == "w" and hi[x] - lo[x] == P:
                    tags.append("width_eq_2_pow_w")
                if c.o == "u" and c.dom == "ZB" and hi[x] == mx + 1 and lo[x] >= mn:
                    tags.append("undefined_integer_box_upper_eq_max_plus_1")
        return site, sorted(set(tags))
    if c.dom == "G":
        site = "Grid::wrap_assign"
        P = 2 ** c.w
        mn, mx = (0, P - 1) if c.r == "u" else (-P // 2, P // 2 - 1)
        for (x, ok, fn, fd, vn, vd) in ginfo.get(c.id, []):
            if not ok:
                # frequency_no_check() fails: the variable takes a continuum of values (it moves along a line)
                if c.o in ("w", "i"):
                    tags.append("variable_without_frequency_left_unchanged")
                continue
            unique_branch = fn != 0 and ((c.o == "i" and 2 * fn >= P) or fn == P) and c.o != "u" and not (c.o == "w" and fn != P)
            if c.o == "i" and fn != 0 and P <= 2 * fn < 2 * P:
                tags.append("overflow_impossible_half_le_frequency_lt_2w")
            if c.o == "w" and c.r == "s" and fn == 0 and vd == 1 and (vn > mx or vn < mn):
                tags.append("signed_constant_out_of_range")
            if unique_branch and vd != 1:
                tags.append("unique_value_from_non_integral_representative")
            if unique_branch and c.r == "s" and vd == 1 and (vn > mx or vn < mn):
                tags.append("signed_unique_value_out_of_range")
        return site, sorted(set(tags))
    site = "Implementation::wrap_assign"
    if " trip=" in detail and c.o == "w" and not c.ind:
        tags.append("collective_too_complex_variable_left_unwrapped")
    return site, tags


# ------------------------------------------------------------------------------- running
def run_driver(ctx, drv, lines, wd, nproc=14):
    judged = [l for l in lines if l.startswith(("wrap ", "drop ", "cip ", "trace "))]
    if not judged:
        return {}
    per = max(1, (len(judged) + nproc - 1) // nproc)
    chunks = [judged[k:k + per] for k in range(0, len(judged), per)]

    def work(idx):
        cp = os.path.join(wd, "chunk%d.txt" % idx)
        with open(cp, "w") as f:
            f.write("\n".join(chunks[idx]) + "\n")
        rc, out, err = ctx.run([drv], stdin_path=cp, timeout=1500)
        if rc != 0:
            ctx.fatal("driver pplv_wrap failed rc=%s %s" % (rc, (err or "")[-500:]))
        return out

    verd = {}
    with cf.ThreadPoolExecutor(nproc) as ex:
        for out in ex.map(work, range(len(chunks))):
            for l in out.splitlines():
                t = l.split(None, 2)
                if len(t) >= 2 and t[0] in ("ok", "skip", "MISMATCH", "DIVERGE"):
                    verd[t[1]] = (t[0], t[2] if len(t) > 2 else "")
    return verd


def parse_ginfo(lines):
    g = {}
    for l in lines:
        if l.startswith("ginfo "):
            t = l.split()
            rec = []
            for k in range(2, len(t) - 5, 6):
                rec.append((int(t[k]), t[k + 1] == "1") + tuple(int(x) for x in t[k + 2:k + 6]))
            g[t[1]] = rec
    return g


def report(ctx, c, verdict, ginfo, extra=None):
    """turn a MISMATCH into a violation / known finding; returns True when it is a fresh violation"""
    obligation, _, detail = verdict.partition(" ")
    site, tags = classify(c, detail, ginfo)
    what = "%s %s (%s): %s — %s" % (c.kind, c.dom, site, obligation, detail)
    replay = {"description": c.desc, "journal_line": c.line, "obligation": obligation, "detail": detail,
              "site": site, "tags": tags, "how": "bin/check C17 --replay <this file>"}
    if extra:
        replay.update(extra)
    return ctx.violation(what, replay, found_input=True, record={"site": site, "tags": tags})


def run_lines(ctx, drv, h, wd, stdin_lines=None, harness_args=()):
    jpath = os.path.join(wd, "journal.txt")
    if stdin_lines is not None:
        ip = os.path.join(wd, "replay_in.txt")
        with open(ip, "w") as f:
            f.write("\n".join(stdin_lines) + "\n")
        rc, _, err = ctx.run([h, "--replay"], stdin_path=ip, stdout_path=jpath, timeout=600)
    else:
        rc, _, err = ctx.run([h] + list(harness_args), stdout_path=jpath, timeout=1500)
    if rc != 0:
        ctx.fatal("harness failed rc=%s %s" % (rc, (err or "")[-500:]))
    lines = open(jpath).read().splitlines()
    return lines, run_driver(ctx, drv, lines, wd), parse_ginfo(lines)


def desc_unbounded(desc):
    """does the argument described by a case description look unbounded?  (a generator system with a ray or
    a line; a constraint system leaving some variable without a unary lower or upper bound)"""
    d = desc.split()
    try:
        kind, n = d[0], int(d[2])
        i = 3
        if kind == "W":
            nv = int(d[i]); i += 1 + nv + 3
            g = d[i] == "1"; i += 1
            if g:
                _, i = take_cs(d, i, n)
            i += 2
        elif kind == "D":
            hv = d[i] == "1"; i += 1
            if hv:
                i += 1 + int(d[i])
            i += 1
        nd = int(d[i]); i += 1
        for _ in range(nd):
            mode = d[i]; i += 1
            if mode == "g":
                m = int(d[i]); i += 1
                for _ in range(m):
                    if d[i] in ("r", "l"):
                        return True
                    i += 2 + n
            else:
                cs, i = take_cs(d, i, n)
                _, i = take_cgs(d, i, n)
                lo, hi = unary_bounds(cs, n)
                if any(lo[x] is None or hi[x] is None for x in range(n)):
                    return True
    except (ValueError, IndexError):
        return False
    return False


def crash_record(desc, sig):
    d = desc.split()
    site, tags = "crash", []
    if len(d) > 2 and d[0] == "Q" and d[1] in POLY:
        site = "Polyhedron::contains_integer_point"
        if sig.split()[0] in ("SIGXCPU", "SIGKILL") and desc_unbounded(desc):
            tags.append("no_answer_within_cpu_limit_unbounded_set")
    return {"site": site, "tags": tags}


def crashes(lines):
    """(description, signal) of every operation during which the library died"""
    out, last = [], None
    for l in lines:
        if l.startswith("begin "):
            last = l.split(None, 2)
        elif l.startswith(("wrap ", "drop ", "cip ")):
            last = None
        elif l.startswith("crash "):
            out.append((last[2] if last and len(last) > 2 else "?", l[6:], last[1] if last else "?"))
            last = None
    return out


def replay(ctx, path):
    """bin/check C17 --replay replays/C17-….json : run the recorded case description on the real library of
    the current tree and judge it again; 1 = it still fails (and is not an open known finding)."""
    import json
    obj = json.load(open(path))
    if obj.get("gridwrap"):
        return c17_grid.replay(ctx, path)      # stage 3: Grid::wrap_assign model tie
    ctx.ensure_ppl()
    drv = ctx.ensure_pplv("pplv_wrap")
    h = ctx.compile_harness("c17_wrap.cc")
    wd = ctx.workdir()
    print("property=C17 what=%s" % str(obj.get("what", "-"))[:300])
    desc = obj.get("description")
    if not desc:
        print("the replay carries no case description (a broken proof obligation has none)")
        return 0
    lines, verd, ginfo = run_lines(ctx, drv, h, wd, stdin_lines=[desc])
    rc = 0
    for l in lines:
        if l.startswith(("wrap ", "drop ", "cip ", "trace ")):
            t = l.split(None, 2)
            v = verd.get(t[1], ("skip", "no verdict"))
            print("  %s -> %s %s" % (l[:300], v[0], v[1][:400]), flush=True)
            if v[0] == "MISMATCH" and report(ctx, Case(l), v[1], ginfo):
                rc = 1
            if v[0] == "DIVERGE":
                print("VIOLATION property=C17 replay=%s no-failing-input-found" % path)
                rc = 1
    for d, sig, _ in crashes(lines):
        print("  the library died (%s) during: %s" % (sig, d[:300]))
        if ctx.violation("the library died (%s) during: %s" % (sig, d[:300]), {"description": d, "crash": sig},
                         found_input=True, record=crash_record(d, sig)):
            rc = 1
    if rc == 0:
        print("replay: no (new) violation on this tree")
    shutil.rmtree(wd, ignore_errors=True)
    return rc


def run(ctx):
    ctx.ensure_ppl()
    broken = ctx.prove(["PPLV.Props.C17"])
    drv = ctx.ensure_pplv("pplv_wrap")
    h = ctx.compile_harness("c17_wrap.cc")
    wd = ctx.workdir()

    quick = ctx.tier == "quick"
    nb, per = (14, 190) if quick else (56, 1200)
    lines, verd, ginfo = run_lines(ctx, drv, h, wd, harness_args=["--seed", str(ctx.seed), "--first", "0", "--last", str(nb), "--cases", str(per)])

    st = collections.Counter()
    hist = collections.defaultdict(collections.Counter)
    distinct, nontrivial_keys, samples = set(), set(), []
    planted = {}
    for l in lines:
        if not l.startswith(("wrap ", "drop ", "cip ")):
            continue
        c = Case(l)
        v = verd.get(c.id)
        if v is None:
            st["no_verdict"] += 1
            continue
        st[c.kind + "_" + v[0]] += 1
        key = hashlib.sha256(c.desc.encode()).hexdigest()
        is_planted = c.id.startswith("p")
        if is_planted:
            planted[c.id] = (c, v)
        kv = dict(x.split("=", 1) for x in v[1].split() if "=" in x) if v[0] == "ok" else {}
        hist["domain"][c.dom] += 1
        hist["kind"][c.kind] += 1
        if c.kind == "wrap":
            hist["overflow"][c.o] += 1
            hist["representation"][c.r] += 1
            hist["width"][c.w] += 1
            hist["threshold"][c.thr] += 1
            hist["individually"][int(c.ind)] += 1
            hist["guard"][int(c.guard)] += 1
            hist["wrapped_vars"][len(c.vars)] += 1
            if kv:
                hist["quadrants_spanned_by_window_points"][kv.get("span", "?")] += 1
                hist["window_exhaustive"][kv.get("exh", "?")] += 1
                st["points"] += int(kv.get("pts", 0)); st["images"] += int(kv.get("imgs", 0))
        elif c.kind == "drop":
            hist["drop_overload"]["vars" if c.hasvars else "all"] += 1
            hist["complexity_class"][c.cc] += 1
            if kv:
                hist["drop_subset_decided"][kv.get("subset", "?")] += 1
                st["points"] += int(kv.get("pts", 0))
        if v[0] == "MISMATCH":
            report(ctx, c, v[1], ginfo)
        if c.kind == "wrap" and " iv=" in " " + v[1]:
            iv = v[1].split("iv=")[1].split()[0]
            st["interval_model_" + iv] += 1
            if iv == "none":
                ctx.violation("the model boxWrap/ivWrap is no longer the transliteration of Box::wrap_assign / Interval::wrap_assign "
                              "(it does not explain the real result)", {"description": c.desc, "journal_line": c.line}, found_input=False,
                              record={"site": "interval-model", "tags": []})
            elif iv == "prefix":
                ctx.notes.append("Interval::wrap_assign behaves like the comparison before the fix of defect 12 on: " + c.desc[:200])
        if v[0] == "skip" and "exception" in v[1]:
            hist["exceptions"][c.exc or v[1]] += 1
        if key not in distinct:
            distinct.add(key)
            nt = False
            if v[0] == "ok" and c.kind == "wrap":
                nt = int(kv.get("pts", 0)) > 0 and kv.get("resempty") == "0" and (int(kv.get("span", 0)) >= 2 or kv.get("clipped") == "1")
            elif v[0] == "ok" and c.kind == "drop":
                nt = int(kv.get("pts", 0)) > 0 and c.parts[1][1:] != c.parts[2][1:]
            elif v[0] == "ok" and c.kind == "cip":
                nt = True
            elif v[0] == "MISMATCH":
                nt = True
            if nt and not is_planted:
                nontrivial_keys.add(key)
                if len(samples) < 6:
                    samples.append(c.desc[:400])
    for desc, sig, cid in crashes(lines):
        ctx.violation("the library died (%s) during: %s" % (sig, desc[:300]), {"description": desc, "crash": sig},
                      found_input=True, record=crash_record(desc, sig))
        st["crash"] += 1

    # the model against the real template: symbolic traces of Implementation::wrap_assign<Trace_PSET>
    for l in lines:
        if not l.startswith("trace "):
            continue
        t = l.split(None, 2)
        v = verd.get(t[1])
        if v is None:
            st["trace_no_verdict"] += 1
        elif v[0] == "ok":
            kv = dict(x.split("=", 1) for x in v[1].split() if "=" in x)
            st["trace_" + kv.get("trace", "?")] += 1
            st["trace_trips"] += int(kv.get("trips", 0))
        elif v[0] == "DIVERGE":
            st["trace_diverge"] += 1
            desc = l.split(" | ")[0].split(None, 2)[2]
            ctx.violation("the model wrapAssign is no longer the transliteration of Implementation::wrap_assign (theorem wrap_sound does "
                          "not cover this run): " + v[1][:400], {"description": desc, "trace_line": l[:4000], "verdict": v[1][:4000]},
                          found_input=False, record={"site": "trace", "tags": []})
        else:
            st["trace_skip"] += 1

    # which variant of the generic algorithm does the library implement?  (KF-C17-3: before / after the repair)
    kf3 = st["trace_beforefix"] > 0
    if kf3 and st["trace_repaired"] > 0:
        ctx.violation("the symbolic traces of Implementation::wrap_assign match the model before the repair of KF-C17-3 in some runs and "
                      "only the repaired model in others", {"counts": dict(st)}, found_input=False, record={"site": "trace", "tags": []})
    kf10 = st["interval_model_kf10"] > 0
    if kf10:
        msg = ("note: the library implements the quadrant test of Box::wrap_assign BEFORE the repair of KF-C17-10 (%d cases explained "
               "only by it): theorem box_wrap_sound_before_fix_partial applies, box_wrap_sound does not" % st["interval_model_kf10"])
        print(msg, flush=True); ctx.notes.append(msg)
    if kf3:
        msg = ("note: the library implements the variant of wrap_assign BEFORE the repair of KF-C17-3 (%d tripping traces): theorem "
               "wrap_sound (repaired body) covers its non-tripping runs (wrap_sound_before_fix_partial); tripping runs are KF-C17-3"
               % st["trace_beforefix"])
        print(msg, flush=True); ctx.notes.append(msg)

    # the literal witnesses of the open known findings are re-run in batch 0: say so when one no longer fails
    for f in ctx.findings:
        if f.get("property") == "C17" and f.get("status") == "open":
            w = (f.get("witness") or {}).get("description")
            hit = [pid for pid, (c, v) in planted.items() if c.desc == w]
            if w and hit and planted[hit[0]][1][0] != "MISMATCH":
                msg = "note: the witness of %s no longer fails on this tree (entry is stale / defect repaired)" % f["id"]
                print(msg, flush=True); ctx.notes.append(msg)

    for b in broken:
        ctx.violation("proof obligation broken: " + b, {"obligation": b}, found_input=False)

    c17_grid.run(ctx)                          # stage 3: Grid::wrap_assign (model, theorems, equality tie with the real function)

    judged = sum(v for k, v in st.items() if k.endswith(("_ok", "_MISMATCH")))
    ctx.cov.update(
        evaluations=judged, distinct_nontrivial=len(nontrivial_keys), distinct_cases=len(distinct),
        rule="distinct = hash of the case description; wrap: the window holds at least one integer point of the argument, the "
             "result is not empty and the points span >= 2 quadrants or the argument is unbounded on a wrapped dimension; "
             "drop: the result differs from the argument and the window holds integer points; cip: decided by the proved reference; "
             "the planted degenerate witnesses (ids p*) are counted separately",
        planted_degenerate=len(planted), samples=samples, counts=dict(st),
        histograms={k: dict(v) for k, v in hist.items()},
        traces_validated_against_impl=st["trace_both"] + st["trace_repaired"] + st["trace_beforefix"] + st["interval_model_written"] + st["interval_model_kf10"],
        defect_switches_measured={"kf3_collective_too_complex_variable_left_unwrapped": kf3,
                                  "kf10_closed_bound_quadrant_test": kf10,
                                  "traces_distinguishing_the_variants": st["trace_beforefix"] + st["trace_repaired"]},
        box_model_matching_real_result=st["interval_model_written"], box_model_matching_only_pre_fix_comparison=st["interval_model_prefix"],
        traces_matching_both_variants=st["trace_both"], traces_matching_repaired_variant_only=st["trace_repaired"],
        traces_matching_variant_before_repair_only=st["trace_beforefix"],
        notes=ctx.notes)
    ctx.assumptions += [
        "the theorem wrap_sound is about the code-shaped model of wrap_assign.hh over an abstract domain whose operations are sound (these "
        "soundness fields are the properties C02/C03 of the concrete domains); the correspondence judges the composed behaviour of the real "
        "code on windows of integer points (exhaustive when the budget allows, otherwise quadrant boundaries + end points + stride)",
        "undefined overflow is read per coordinate: an in-range coordinate did not overflow and keeps its value, an out-of-range coordinate may "
        "take any in-range integer (a sample of them is checked)",
        "Grid frequencies reported by the library are used only to classify (tag) a failure already established by the Lean judge",
    ]
    if not ctx.violations:
        shutil.rmtree(wd, ignore_errors=True)   # the journal is reproducible from the seed
