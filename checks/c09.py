"""C09 — powersets denote the union of their disjuncts and every operation respects it.

proof:  PPLV.Props.C09 — for every K5 domain and every disjunct list: omega_reduce_union,
        collapse_spec, add_disjunct_union, lub_union, pairwise_apply_meet, entails_sound, eq_sound,
        transformer_exact/sound, pairwise_reduce_union, linear_partition_spec, difference_exact,
        covers_iff, geometrically_equals_iff, simplify_ctx; the DNF judge dnfSubset_iff/dnfEquiv_iff.
tie:    harness/c09_powerset.cc runs seeded histories over pools of Pointset_Powerset<PSET>
        (C_Polyhedron, NNC_Polyhedron, BD_Shape<mpq_class>, Rational_Box): redundant / empty /
        overlapping / adjacent disjuncts, copies kept alive (copy-on-write), reduction forced at random
        moments; every printed state and every Boolean answer is judged by the native driver pplv_ps:
        the model of a slot is advanced by the *specification* of the operation on unions (DNF with the
        K1 deciders), and compared with the union of the printed disjuncts.
stage 2 (checks/c09_exact.py): PPLV.Props.C09Exact + the exact tie `pplv_ps --exact`: the code-shaped model
        lean/PPLV/Powerset/Exact.lean is replayed on the disjunct LIST and the `reduced` flag of every slot before /
        after every step of `c09_powerset --exact 1` and must give the same list (disjunct i == disjunct i as sets).
"""
import collections, hashlib, os, re
from . import poly_common as pc
from . import c09_exact

LEVEL = "proof"
PROPS = ["PPLV.Props.C09"]
DOMS = {"C": "C_Polyhedron", "N": "NNC_Polyhedron", "D": "BD_Shape<mpq_class>", "B": "Rational_Box"}


def last_op_on_slot(lines, idx, slot):
    for l in reversed(lines[:idx]):
        t = l.split()
        if t[0] == "op" and t[1] == slot:
            return t[2]
        if t[0] in ("new", "newu", "newe") and t[1] == slot:
            return t[0]
        if t[0] == "copy" and t[1] == slot:
            return "copy"
        if t[0] == "swap" and slot in t[1:3]:
            return "swap"
    return "?"


BINOPS = ("meet", "ub", "diff", "concat", "simplify")


def taint_cause(lines, idx, slot):
    """why is the `reduced' flag of `slot` stale at event idx: the operator that left it set
    (fold / closure), possibly inherited through copies, swaps and binary operators whose argument
    was already in that state (their omega_reduce() of the argument is then a no-op)."""
    taint, last = {}, {}
    for l in lines[: idx + 1]:
        t = l.split()
        if t[0] == "op":
            last[t[1]] = (t[2], t[3] if t[2] in BINOPS and len(t) > 3 else None)
        elif t[0] == "copy":
            if t[2] in taint:
                taint[t[1]] = taint[t[2]]
            else:
                taint.pop(t[1], None)
            last[t[1]] = ("copy", t[2])
        elif t[0] == "swap":
            a, b = t[1], t[2]
            ta, tb = taint.pop(a, None), taint.pop(b, None)
            if ta: taint[b] = ta
            if tb: taint[a] = tb
            last[a], last[b] = last.get(b, ("?", None)), last.get(a, ("?", None))
        elif t[0] in ("new", "newu", "newe", "okagain"):
            taint.pop(t[1], None)
        elif t[0] == "notok":
            op, arg = last.get(t[1], ("?", None))
            if op == "fold":
                taint[t[1]] = "reduced_flag_stale_after_fold"
            elif op == "closure":
                taint[t[1]] = "reduced_flag_stale_after_closure"
            elif arg is not None and arg in taint:
                taint[t[1]] = taint[arg]
            elif t[1] in taint:
                pass
            else:
                taint[t[1]] = None
    return taint.get(slot)


def classify(lines, idx, what, dom):
    """site + tags (structural class of the failing case) for known_findings matching"""
    line = lines[idx]
    t = line.split()
    tags = ["dom_" + dom]
    site = "?"
    if what.startswith("simplify_"):
        site = "simplify_using_context_assign"
        if "base=broken" in what:
            # the base-level PSET::simplify_using_context_assign (replayed with the public API just
            # before the operation) broke its documented contract on one of the calls of this run
            fam = {"C": "poly", "N": "poly", "D": "bds", "B": "box"}.get(dom, dom)
            for key, name in (("not-an-enlargement", "not_enlargement"), ("not-meet-preserving", "not_meet_preserving"),
                              ("false-on-nonempty-meet", "false_on_nonempty_meet")):
                if key in what:
                    tags.append("base_simplify_" + name)
                    tags.append(fam + "_base_simplify_" + name)
        else:
            tags.append("base_ok")
    elif what.startswith("relation_with(constraint)"):
        site = "relation_with"
        if "onlyS=1" in what and "emptyDisjunct=1" in what and re.search(r"library D\d S1", what):
            tags.append("spurious_strictly_intersects_with_empty_disjunct")
    elif what.startswith("OK() returned false"):
        site = "OK()"
        op = last_op_on_slot(lines, idx, t[1])
        tags.append("after_" + op)
        cause = taint_cause(lines, idx, t[1])
        if cause:
            tags.append(cause)
    elif t[0] == "ps":
        site = "state:after:" + last_op_on_slot(lines, idx, t[1])
    elif t[0] == "q":
        site = "query:" + t[2]
    elif t[0] == "crash":
        prev = [l for l in lines[:idx] if l.split()[0] in ("op", "q", "new", "copy", "swap")]
        site = "crash:" + (" ".join(prev[-1].split()[:3:2]) if prev else "?")
    elif t[0] == "exc":
        prev = [l for l in lines[:idx] if l.startswith("op ")]
        site = "exc:" + (prev[-1].split()[2] if prev else "?")
    elif t[0] == "hintg":
        site = "hint"
    return site, tags


def run_driver_parallel(ctx, drv, journal, wd, nproc=12):
    """split the journal at `hist` boundaries, one driver per chunk; verdicts keyed by global line number"""
    import concurrent.futures as cf
    starts = [i for i, l in enumerate(journal) if l.startswith("hist ")]
    if not starts:
        return {}, ""
    per = max(1, (len(starts) + nproc - 1) // nproc)
    chunks = []
    for k in range(0, len(starts), per):
        a = starts[k]
        b = starts[k + per] if k + per < len(starts) else len(journal)
        chunks.append((a, b))

    def work(idx):
        a, b = chunks[idx]
        cp = os.path.join(wd, "chunk%d.txt" % idx)
        with open(cp, "w") as f:
            f.write("\n".join(journal[a:b]) + "\n")
        rc, out, err = ctx.run([drv], stdin_path=cp, timeout=3000)
        if rc != 0:
            ctx.fatal("driver failed rc=%s %s" % (rc, (err or "")[-500:]))
        return a, out

    verd, tot = {}, collections.Counter()
    with cf.ThreadPoolExecutor(nproc) as ex:
        for a, out in ex.map(work, range(len(chunks))):
            for l in out.splitlines():
                t = l.split(None, 2)
                if not t:
                    continue
                if t[0] in ("ok", "skip", "MISMATCH", "note"):
                    verd[int(t[1]) + a] = (t[0], t[2].strip() if len(t) > 2 else "")
                elif t[0] == "summary":
                    for item in l.split()[1:]:
                        k, _, v = item.partition("=")
                        if v.isdigit():
                            tot[k] += int(v)
    return verd, "summary " + " ".join("%s=%d" % kv for kv in sorted(tot.items()))


def run_histories(ctx, n_hist, length, maxdim, first=0, dom=None):
    drv = ctx.ensure_pplv("pplv_ps")
    h = ctx.compile_harness("c09_powerset.cc")
    wd = ctx.workdir()
    jpath = os.path.join(wd, "journal.txt")
    cmd = [h, "--seed", str(ctx.seed), "--first", str(first), "--last", str(first + n_hist), "--len", str(length),
           "--maxdim", str(maxdim), "--batch", "20"]
    if dom:
        cmd += ["--dom", dom]
    rc, _, err = ctx.run(cmd, stdout_path=jpath, timeout=3000)
    if rc != 0:
        ctx.fatal("harness failed rc=%s %s" % (rc, (err or "")[-500:]))
    journal = open(jpath).read().splitlines()
    verd, summary = run_driver_parallel(ctx, drv, journal, wd)
    return cmd, journal, verd, summary


def judge(ctx, cmd, journal, verd, stats, opc, qc, domc, notes):
    hists = pc.split_histories(journal)
    distinct, nontrivial, samples = set(), 0, []
    for start, lines in hists:
        dom = lines[0].split()[3] if len(lines[0].split()) > 3 else "?"
        domc[dom] += 1
        key = hashlib.sha256("\n".join(l for l in lines if not l.startswith("hist ")).encode()).hexdigest()
        muts, multi, cow = 0, False, False
        for l in lines:
            t = l.split()
            if t[0] == "op":
                opc[t[2]] += 1; muts += 1
            elif t[0] == "q":
                qc[t[2]] += 1
            elif t[0] == "copy":
                cow = True
            elif t[0] == "ps" and len(t) > 3 and t[3].isdigit() and int(t[3]) >= 2:
                multi = True
        if key not in distinct:
            distinct.add(key)
            if muts >= 3 and multi:
                nontrivial += 1
                if len(samples) < 2:
                    samples.append([x[:160] for x in lines[:12]])
        if cow:
            stats["histories_with_live_copies"] += 1
        for i, l in enumerate(lines):
            v = verd.get(start + i)
            if not v:
                continue
            stats[v[0]] += 1
            if v[0] == "skip":
                stats["skip:" + v[1].split()[0]] += 1
            elif v[0] == "note":
                notes[v[1][:90]] += 1
            elif v[0] == "MISMATCH":
                if len(ctx.violations) >= 25:      # enough replays for one run; the rest is counted
                    stats["mismatch_not_reported_individually"] += 1
                    continue
                site, tags = classify(lines, i, v[1], dom)
                hid = lines[0].split()[1]
                args = list(cmd[1:])
                # replay = the same harness run restricted to this history
                for k, a in enumerate(args):
                    if a == "--first":
                        args[k + 1] = hid
                    if a == "--last":
                        args[k + 1] = str(int(hid) + 1)
                ctx.violation("%s [%s]: %s | event: %s" % (site, DOMS.get(dom, dom), v[1], l[:240]),
                              {"history": lines[: i + 1], "verdict": v[1], "site": site, "tags": tags,
                               "driver": "pplv_ps", "harness": "c09_powerset.cc", "harness_args": args,
                               "replay_cmd": "bin/check C09 --replay <this file>   (re-runs the history on the current tree)"},
                              found_input=True, record={"site": site, "tags": tags})
    return len(hists), nontrivial, samples


def run(ctx):
    ctx.ensure_ppl()
    broken = ctx.prove(PROPS)
    quick = ctx.tier == "quick"
    stats, opc, qc, domc, notes = (collections.Counter() for _ in range(5))
    n_hist, length = (1600, 12) if quick else (40000, 20)
    cmd, journal, verd, summary = run_histories(ctx, n_hist, length, 3)
    nh, nontrivial, samples = judge(ctx, cmd, journal, verd, stats, opc, qc, domc, notes)
    broken += c09_exact.run(ctx)          # stage 2: exact tie on disjunct lists and the reduced flag (proof + replay)
    for b in broken:
        ctx.violation("proof obligation broken: " + b, {"obligation": b}, found_input=False)
    ctx.cov.update({
        "evaluations": nh, "distinct_nontrivial": nontrivial,
        "rule": "seeded histories (len %d, dim<=3) over a pool of 4 Pointset_Powerset<PSET>; distinct by hash of the journal text; "
                "non-trivial = at least 3 mutators and some printed state with >= 2 disjuncts" % length,
        "samples": samples, "traces_validated_against_impl": nh,
        "observations_decided": stats["ok"], "observations_mismatch": stats["MISMATCH"],
        "mismatch_not_reported_individually": stats["mismatch_not_reported_individually"],
        "observations_skipped": {k[5:]: v for k, v in stats.items() if k.startswith("skip:")},
        "sequence_level_notes": dict(notes.most_common(12)),
        "histories_with_live_copies": stats["histories_with_live_copies"],
        "domain_histogram": {DOMS.get(k, k): v for k, v in domc.items()},
        "op_histogram": dict(opc), "query_histogram": dict(qc), "driver_summary": summary,
    })
    ctx.assumptions += [
        "the K5 hypothesis fields (soundness / exactness of the base-level operators) are the content of C01-C05 for the real domains; "
        "the correspondence judges the composed behaviour of the real code end to end",
        "the judge (DNF inclusion by successive K1 difference) is proved sound and complete (C09.dnfSubset_iff); "
        "'all histories' of the real code is sampled by seeded histories",
        "collapse: equality with the base-level upper bound is judged for polyhedra (hull from generator hints verified by K1); "
        "for BD shapes and boxes only containment and the number of disjuncts",
        "difference_assign on C polyhedra is judged as: exact difference <= result <= union of the relaxed (closed) pieces; "
        "on boxes / BD shapes as: result >= exact difference",
        "Pointset_Powerset<Grid> is not exercised (no decision procedure for inclusion of unions of grids in the kernels)",
        "abandon_expensive_computations is never set by the harness (the deadline variants are proved: omega_reduce_deadline, check_containment_deadline)",
    ]


def replay(ctx, path):
    """re-run the recorded history on the real library (current tree) and re-judge it"""
    import json
    r = json.load(open(path))
    print("property=%s what=%s" % (r.get("property"), r.get("what")))
    if "harness_args" not in r:
        print(json.dumps(r, indent=1)[:3000]); return 0
    if r.get("exact"):
        return c09_exact.replay(ctx, r, path)
    ctx.ensure_ppl()
    drv = ctx.ensure_pplv("pplv_ps")
    h = ctx.compile_harness(r.get("harness", "c09_powerset.cc"))
    wd = ctx.workdir()
    jpath = os.path.join(wd, "journal.txt")
    rc, _, err = ctx.run([h] + r["harness_args"], stdout_path=jpath, timeout=600)
    rc, out, err = ctx.run([drv], stdin_path=jpath, timeout=600)
    journal = open(jpath).read().splitlines()
    bad = [l for l in (out or "").splitlines() if l.startswith("MISMATCH")]
    for b in bad:
        ln = int(b.split()[1])
        print("  event: " + journal[ln - 1][:300])
        print("  " + b)
    if bad:
        print("VIOLATION property=%s replay=%s" % (ctx.pid, path))
        return 1
    print("no mismatch when re-run on the current tree")
    return 0
