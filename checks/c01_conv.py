"""C01 stage 3 — the double-description engine of Polyhedron (helper of checks/c01.py).

proof:  PPLV.Props.C01Conv (stage 3: soundness, exact saturation matrix, span facts, simplify_sound) and
        PPLV.Props.C01ConvComplete (stage 4: COMPLETENESS of conversion - the Double Description lemma with the
        adjacency criterion and both quick tests, by induction over the main loop; "empty" reports of minimize
        are right) and PPLV.Props.C01ConvMinimal (simplify drops only redundant rows, minimize returns the same
        set in minimal form: gauss echelon facts proved) over the code-shaped model
        lean/PPLV/Conv/{Model,Simplify}.lean of Polyhedron::conversion / simplify / minimize / add_and_minimize
        (static templates of src/Polyhedron_{conversion,simplify,minimize}_templates.hh).
tie:    harness/c01_conv.cc calls the REAL static members on seeded systems (both directions, C and NNC,
        dimension 0..4, degenerate shapes; plus Linear_System::sort_rows() as the head of minimize) and journals input rows, output rows IN ORDER, the returned
        value and the saturation matrix; the native driver pplv_conv replays the model and requires the
        identical result, then checks the theorems' conclusions on the real output (soundness and
        saturation bits by scalar products, completeness / same set by the K1 deciders).
A `model` difference with the property checks passing is a broken correspondence (VIOLATION …
no-failing-input-found); a failed property check on the real output is a VIOLATION with the call as replay.
"""
import collections, concurrent.futures as cf, hashlib, os, shutil
from .common import BUILD

PROPS = ["PPLV.Props.C01Conv", "PPLV.Props.C01ConvComplete", "PPLV.Props.C01ConvMinimal", "PPLV.Props.C01ConvFacet"]


def _split_cases(journal):
    """-> list of (case header, lines of the case)"""
    cases, cur = [], None
    for l in journal:
        if l.startswith("case "):
            cur = [l]
            cases.append(cur)
        elif cur is not None:
            cur.append(l)
    return cases


def run(ctx):
    """returns the list of broken proof obligations (the caller reports them)."""
    broken = ctx.prove(PROPS)
    quick = ctx.tier == "quick"
    drv = ctx.ensure_pplv("pplv_conv")
    h = ctx.compile_harness("c01_conv.cc")
    wd = os.path.join(BUILD, "run-%s-conv-%d" % (ctx.pid, os.getpid()))
    shutil.rmtree(wd, ignore_errors=True)
    os.makedirs(wd)
    n_cases = 1000 if quick else 40000
    jpath = os.path.join(wd, "journal.txt")
    cmd = [h, "--seed", str(ctx.seed), "--first", "0", "--last", str(n_cases), "--batch", "100"]
    rc, _, err = ctx.run(cmd, stdout_path=jpath, timeout=3000)
    if rc != 0:
        ctx.fatal("harness c01_conv failed rc=%s %s" % (rc, (err or "")[-500:]))
    journal = open(jpath).read().splitlines()
    cases = _split_cases(journal)
    by_id = {}
    for c in cases:
        by_id[c[0].split()[1]] = c
    nproc = 14
    per = max(1, (len(cases) + nproc - 1) // nproc)
    chunks = [cases[k:k + per] for k in range(0, len(cases), per)]

    def work(idx):
        cp = os.path.join(wd, "chunk%d.txt" % idx)
        with open(cp, "w") as f:
            for c in chunks[idx]:
                f.write("\n".join(c) + "\n")
        rc2, out, err2 = ctx.run([drv, "--maxcols", "4", "--maxgens", "7" if quick else "9"], stdin_path=cp, timeout=3000)
        if rc2 != 0:
            ctx.fatal("driver pplv_conv failed rc=%s %s" % (rc2, (err2 or "")[-500:]))
        return out

    verdicts = []
    with cf.ThreadPoolExecutor(nproc) as ex:
        for out in ex.map(work, range(len(chunks))):
            verdicts += out.splitlines()

    kinds = collections.Counter()
    mism = collections.Counter()
    hist = collections.defaultdict(collections.Counter)
    n_ok = n_bad = n_skip = n_k1 = n_k1_skip = 0
    distinct = set()
    samples = []
    crashes = sum(1 for l in journal if l.startswith("crash ")) + sum(1 for l in journal if l.startswith("setup-exc"))
    for v in verdicts:
        t = v.split()
        if not t:
            continue
        if t[0] == "summary":
            continue
        if t[0] == "ok":
            n_ok += 1
            kind, cid = t[1], t[2]
            kinds[kind] += 1
            kvs = dict(x.split("=", 1) for x in t[3:] if "=" in x)
            for k in ("ncols", "rows", "dest", "lines", "removed", "kept", "rank"):
                if k in kvs:
                    hist[kind + "." + k][kvs[k]] += 1
            if kvs.get("dd") == "1" or kvs.get("same") == "1":
                n_k1 += 1
            elif kvs.get("dd") == "skip" or kvs.get("same") == "skip":
                n_k1_skip += 1
            if kind == "conv":
                c = by_id.get(cid, [])
                inl = next((l for l in c if l.startswith("in conv ")), "")
                distinct.add(hashlib.sha256(inl.split(" ", 3)[-1].encode()).hexdigest()[:12])
                if len(samples) < 5 and int(kvs.get("rows", "0")) >= 4:
                    samples.append(inl[:300])
        elif t[0] == "skip":
            n_skip += 1
        elif t[0] == "MISMATCH":
            n_bad += 1
            kind, cid = t[1], t[2]
            rest = v.split(" ", 3)[3] if len(t) > 3 else ""
            case = by_id.get(cid, [])
            site = "dd-engine:" + kind
            replay = {"history": case, "driver": "pplv_conv", "verdict": rest, "site": site, "harness_args": cmd[1:],
                      "replay_cmd": "harness c01_conv %s | pplv_conv  (case %s)" % (" ".join(cmd[1:]), cid)}
            if rest.startswith("crash"):
                cat, found = "crash", True
                what = "double-description engine: the real %s dies (%s) on a valid input" % (kind, rest)
            else:
                model_part, _, prop_part = rest.partition(" | prop ")
                if model_part.startswith("model exception-in-the-real-call"):
                    cat, found = "exception", True
                    what = "double-description engine: the real %s throws on a valid input (the journal shows the exception class)" % kind
                elif not prop_part.startswith("ok"):
                    cat, found = (prop_part.split() or ["prop"])[0], True
                    what = ("double-description engine: the real %s breaks a proved conclusion on its output: %s (%s)"
                            % (kind, prop_part[:500], model_part[:200]))
                else:
                    cat, found = "model-diff", False
                    what = ("double-description engine: the real %s differs from the code-shaped model (%s); the conclusions "
                            "checked on the real output hold" % (kind, model_part[:600]))
            mism[(kind, cat)] += 1
            if mism[(kind, cat)] <= 2:          # two replays per (function, kind of failure); the rest is counted
                ctx.violation(what, replay, found_input=found, record={"site": site, "tags": [cat]})
    ctx.cov["dd_engine"] = {
        "cases": len(cases), "calls_judged": n_ok + n_bad, "calls_identical_to_model": n_ok, "calls_mismatch": n_bad,
        "calls_skipped": n_skip, "calls_per_kind": dict(kinds),
        "mismatches_by_function_and_kind": {"%s:%s" % k: v for k, v in sorted(mism.items())}, "k1_certified": n_k1, "k1_skipped_too_large": n_k1_skip,
        "harness_crashes_or_setup_exceptions": crashes,
        "distinct_conversion_inputs": len(distinct),
        "histograms": {k: dict(sorted(v.items(), key=lambda kv: (len(kv[0]), kv[0]))) for k, v in sorted(hist.items())},
        "samples": samples,
        "rule": "every call of sort_rows / conversion / simplify / minimize / add_and_minimize made by harness/c01_conv.cc (both directions, "
                "C and NNC, dimension 0..4, <= 8 random rows + low-level rows; shapes: duplicates, boxes with redundant bounds, "
                "paired inequalities, empty, universe, sums of rows, opposite rays) is replayed on the model: identical rows, order, "
                "returned value, saturation bits; distinct = hash of the conversion input; K1 checks (checkDD / equivB on the "
                "homogeneous cones) for <= 4 columns and <= 7 rows (9 in the thorough tier)",
    }
    ctx.assumptions += [
        "double-description engine: conversion / simplify / minimize / add_and_minimize are modelled row for row (PPLV/Conv); NOT modelled: "
        "the `sorted` flags and pending index they leave (ghost inputs of the status-protocol model), maybe_abandon / WEIGHT accounting, the "
        "std::length_error of Variable(j-1) for a pivot in column 0 inside gauss/back_substitute (inconsistent systems never reach simplify)",
        "double-description engine: completeness of conversion (dest generates the whole cone; adjacency criterion and both quick "
        "tests) is PROVED for the model (Props/C01ConvComplete) under: no dimension_type overflow (num_columns, number of source rows "
        "< 2^64), and for the incremental entry (add_and_minimize) the invariant CExtra on the pair handed in; the per-run K1 deciders "
        "checkDD / equivB on the real output stay in place (they certify the real run, the theorems the model); simplify / minimize (Props/C01ConvMinimal): the rows dropped are "
        "redundant (gauss echelon form, rank < num_columns because some generator is not the zero row, no zero pivot in "
        "back_substitute: all proved), no inequality returned is implied by the other rows returned, no ray returned is generated by "
        "the lines and the other rays; NOT proved: the generator-to-constraint call minimize(false, ...) is the same conversion on "
        "swapped arguments (the conversion theorems apply; its empty/point clauses are specific to con_to_gen)",
    ]
    shutil.rmtree(wd, ignore_errors=True)
    return broken
