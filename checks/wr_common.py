"""Shared driver of the weakly-relational checks C03 / C04 (harness c04_shapes.cc, driver pplv_wr)."""
import collections, concurrent.futures as cf, hashlib, os, re, sys
if hasattr(sys, "set_int_max_str_digits"):
    sys.set_int_max_str_digits(0)      # long double bounds have thousands of digits

# type name -> translation unit of harness/c04_shapes.cc
TU = {
    "bds_mpq": 0, "oct_mpq": 1, "box_mpq": 2,
    "bds_mpz": 3, "bds_int8": 3, "bds_int16": 4, "bds_int32": 4, "bds_int64": 5, "bds_float": 5,
    "bds_double": 6, "bds_ldouble": 6,
    "oct_mpz": 7, "oct_int8": 7, "oct_int16": 8, "oct_int32": 8, "oct_int64": 9, "oct_float": 9,
    "oct_double": 10, "oct_ldouble": 10,
    "box_z": 11, "box_int8": 11, "box_int16": 11, "box_int32": 12, "box_int64": 12, "box_uint8": 12,
    "box_uint16": 13, "box_uint32": 13, "box_uint64": 13,
    "box_float": 14, "box_double": 14, "box_ldouble": 14,
    "box_rt_r_oc": 15, "box_fl_r_oc": 15, "box_db_r_oc": 15, "box_ld_r_oc": 15,
}
C04_TYPES = ["bds_mpq", "oct_mpq", "box_mpq"]
ALL_TYPES = sorted(TU, key=lambda t: (TU[t], t))

CLASS = {"box": "Box", "bds": "BD_Shape", "oct": "Octagonal_Shape"}
METHOD = {
    "add_cons": "add_constraints", "refine_cons": "refine_with_constraints", "add_cgs": "add_congruences",
    "refine_cgs": "refine_with_congruences", "meet": "intersection_assign", "join": "upper_bound_assign",
    "join_if_exact": "upper_bound_assign_if_exact", "diff": "difference_assign", "concat": "concatenate_assign",
    "time_elapse": "time_elapse_assign", "aff_img": "affine_image", "aff_pre": "affine_preimage",
    "gen_img": "generalized_affine_image(var)", "gen_pre": "generalized_affine_preimage(var)",
    "gen_img2": "generalized_affine_image(lhs)", "gen_pre2": "generalized_affine_preimage(lhs)",
    "bnd_img": "bounded_affine_image", "bnd_pre": "bounded_affine_preimage", "unconstrain": "unconstrain",
    "closure": "topological_closure_assign", "add_dims_embed": "add_space_dimensions_and_embed",
    "add_dims_project": "add_space_dimensions_and_project", "remove_dims": "remove_space_dimensions",
    "remove_higher": "remove_higher_space_dimensions", "map_dims": "map_space_dimensions",
    "expand": "expand_space_dimension", "fold": "fold_space_dimensions", "simplify_ctx": "simplify_using_context_assign",
    # queries
    "is_empty": "is_empty", "is_universe": "is_universe", "is_bounded": "is_bounded", "is_closed": "is_topologically_closed",
    "contains": "contains", "strictly_contains": "strictly_contains", "disjoint": "is_disjoint_from", "equals": "operator==",
    "constrains": "constrains", "affdim": "affine_dimension", "relcon": "relation_with(Constraint)",
    "relcg": "relation_with(Congruence)", "relgen": "relation_with(Generator)", "bounds_above": "bounds_from_above",
    "bounds_below": "bounds_from_below", "max": "maximize", "min": "minimize", "maxp": "maximize(point)", "minp": "minimize(point)", "has_ub": "has_upper_bound", "has_lb": "has_lower_bound",
}


def split_histories(journal_lines):
    hists, cur, start = [], None, 0
    for i, l in enumerate(journal_lines, 1):
        if l.startswith("hist "):
            if cur is not None:
                hists.append((start, cur))
            cur, start = [l], i
        elif cur is not None:
            cur.append(l)
    if cur is not None:
        hists.append((start, cur))
    return hists


def nonzero(coeffs):
    return [i for i, c in enumerate(coeffs) if c != 0]


def parse_expr(toks, n):
    """<k> <a_0..a_{n-1}> -> (k, [a]) , rest"""
    k = int(toks[0]); a = [int(x) for x in toks[1:1 + n]]
    return (k, a), toks[1 + n:]


def parse_cs_rows(toks, n):
    m = int(toks[0]); rows = []; p = 1
    for _ in range(m):
        rel, k = toks[p], int(toks[p + 1]); a = [int(x) for x in toks[p + 2:p + 2 + n]]
        rows.append((rel, k, a)); p += 2 + n
    return rows, toks[p:]


def rows_of_slot(lines, upto, slot):
    """rows of the last reported constraint system of `slot` before line `upto` (None if unknown)"""
    for l in reversed(lines[:upto]):
        t = l.split()
        if t[0] in ("arg", "res") and t[1] == slot and t[3] == "cons":
            try:
                return parse_cs_rows(t[4:], int(t[2]))[0]
            except Exception:
                return None
    return None


def readings_of_slot(lines, upto, slot):
    """every reported reading of `slot` before line `upto`, back to its last mutation"""
    out = []
    for l in reversed(lines[:upto]):
        t = l.split()
        if t[0] in ("arg", "res", "obs") and t[1] == slot and len(t) > 4:
            try: out.append(parse_cs_rows(t[4:], int(t[2]))[0])
            except Exception: pass
            if t[0] == "res" and t[3] == "cons": break
        elif t[0] in ("new", "reset") and t[1] == slot: break
        elif t[0] == "copy" and t[1] == slot: slot = t[2]
    return out


def dim_of_slot(lines, upto, slot):
    for l in reversed(lines[:upto]):
        t = l.split()
        if t[0] in ("arg", "res") and t[1] == slot:
            return int(t[2])
    return 0


def classify(lines, idx, verdict):
    """site + tags (structural class of the failing input) of the event `lines[idx]` judged `verdict`."""
    hist = lines[0].split()
    kind, tname = hist[3], hist[4]
    cls = CLASS.get(kind, kind)
    line = lines[idx]
    t = line.split()
    oblig = verdict.split()[0] if verdict else "?"
    tshort = tname.split("_", 1)[1]
    tags = [oblig, "T_" + tshort, "T_" + type_class(tshort)]
    if len(hist) > 6 and hist[6] == "lim=1": tags.append("limit_history")
    # the operation a `res`/`exc`/`crash` line belongs to
    op = None
    for l in reversed(lines[:idx + 1]):
        if l.startswith("op ") or l.startswith("new "):
            op = l.split(); break
    # slots in a state where OK() is false
    tainted = {}
    for li, l in enumerate(lines[:idx + 1]):
        u = l.split()
        if u[0] == "op" and kind == "bds" and u[2] in ("gen_img2", "gen_pre2") and li < idx:
            try:
                nn = dim_of_slot(lines, li, u[1])
                (k1, a1), _ = parse_expr(u[4:], nn)
                if len(nonzero(a1)) >= 2 and "SPR" in status_flags(lines, li, u[1]):
                    tainted.setdefault(u[1], "gen_img2_stale_reduced")
            except Exception:
                pass
        elif u[0] == "reset":
            tainted.pop(u[1], None)
        if u[0] == "note" and u[1] == "okfalse":
            origin = None
            for m in reversed(lines[:lines.index(l)]):
                if m.startswith("op ") or m.startswith("new "):
                    origin = m.split(); break
            oname = (origin[2] if origin and origin[0] == "op" else "new") if origin else "?"
            if origin and origin[0] == "op" and dim_of_slot(lines, lines.index(l), u[3]) == 0: oname += "_zero_dim"
            tainted.setdefault(u[3], oname)
        elif u[0] == "new":
            tainted.pop(u[1], None)
        elif u[0] == "copy":
            if u[2] in tainted: tainted[u[1]] = tainted[u[2]]
            else: tainted.pop(u[1], None)
        elif u[0] == "swap":
            a, b = tainted.get(u[1]), tainted.get(u[2])
            for s, v in ((u[1], b), (u[2], a)):
                if v is None: tainted.pop(s, None)
                else: tainted[s] = v
    site = "?"
    if t[0] == "crash":
        tags.append("crash_" + "_".join(t[1:]))
        if op is not None and op[0] == "op":
            name = op[2]
            site = "%s::%s" % (cls, METHOD.get(name, name))
            opi = max(i for i in range(idx + 1) if lines[i].split() == op)
            n = dim_of_slot(lines, opi, op[1])
            tags += op_tags(name, op[3:], n, kind)
            tags += ["recv_" + f for f in status_flags(lines, opi, op[1])]
            rr = rows_of_slot(lines, opi, op[1])
            if rr is not None and n >= 2 and any(r[0] != "=" and len(nonzero(r[2])) == 1 for r in rr):
                tags.append("recv_unary_inequality_dim_ge_2")
            if rr is not None: tags += limit_tags(rr, tname)
            r2x = rows_of_slot(lines, opi, op[3]) if len(op) == 4 else None
            tags += overflow_tags([rr, r2x], op[3:], tname, cls)
            if op[1] in tainted: tags.append("operand_not_OK_after_" + tainted[op[1]])
            if name == "simplify_ctx" and t[1:] == ["SIGABRT"] and type_class(tshort) != "rational":
                tags.append("simplify_target_never_reached_inexact_T")
            # the crash may come from printing the result of the op (res lines already written)
            if any(l.startswith("res " + op[1] + " ") for l in lines[opi:idx]): tags.append("crash_after_result_reported")
        elif op is not None:
            site = "%s::%s(%s)" % (cls, cls, op[3])
            opi = max(i for i in range(idx + 1) if lines[i].split() == op)
            tags += arg_number_tags(op[4:], tname, tags)
            tags += overflow_tags([], op[4:], tname, cls)
            if any(l.startswith("res " + op[1] + " ") for l in lines[opi:idx]): tags.append("crash_after_result_reported")
        else:
            site = cls + "::?"
        if "crash_after_result_reported" in tags:
            # the result had been printed through constraints(): the crash is in OK(), minimized_constraints() of a copy,
            # the conversion to a polyhedron or ascii_dump() of the result
            site = cls + "::minimized_constraints"
            rr = rows_of_slot(lines, idx, op[1])
            if rr is not None: tags += [x for x in overflow_tags([rr], [], tname, cls) if x not in tags]
    elif t[0] == "q":
        site = "%s::%s" % (cls, METHOD.get(t[2], t[2]))
        slots = [t[1]] + ([t[3]] if t[2] in ("contains", "strictly_contains", "disjoint", "equals") else [])
        for s in slots:
            if s in tainted:
                tags.append("operand_not_OK_after_" + tainted[s])
        n = dim_of_slot(lines, idx, t[1])
        if n == 0: tags.append("zero_dim")
        if t[2] == "disjoint" and "[no-single-direction-separates]" in verdict:
            tags.append("no_single_direction_separates")
        recv_rows = rows_of_slot(lines, idx, t[1])
        if recv_rows is not None and len(recv_rows) == 0: tags.append("universe_receiver")
        if recv_rows is not None:
            tags += limit_tags(recv_rows, tname)
            allr = []
            for sl in slots: allr += readings_of_slot(lines, idx, sl)
            tags += overflow_tags(allr, t[3:], tname, cls)
        if t[2] in ("max", "min", "maxp", "minp", "bounds_above", "bounds_below"):
            try:
                (k0, a0), _ = parse_expr(t[3:], n)
                if not nonzero(a0):
                    tags.append("constant_expr")
                    if "universe_receiver" in tags: tags.append("universe_receiver_constant_expr")
            except Exception: pass
        if t[2] == "relcon" and recv_rows is not None:
            try:
                rel, k0 = t[3], int(t[4]); a0 = [int(x) for x in t[5:5 + n]]
                nz = nonzero(a0)
                if not nz:
                    tags.append("trivial_constraint")
                    if rel == "=" and k0 != 0: tags.append("trivially_false_equality")
                if len(nz) == 1:
                    v = nz[0]; tags.append("interval_constraint")
                    has_ub = any(len(nonzero(r[2])) == 1 and r[2][v] != 0 and (r[0] == "=" or r[2][v] < 0) for r in recv_rows)
                    has_lb = any(len(nonzero(r[2])) == 1 and r[2][v] != 0 and (r[0] == "=" or r[2][v] > 0) for r in recv_rows)
                    if rel != "=" and a0[v] < 0 and not has_ub: tags.append("upper_bound_constraint_var_unbounded_above")
                    if rel != "=" and a0[v] > 0 and not has_lb: tags.append("lower_bound_constraint_var_unbounded_below")
                    if rel == "=" and not has_lb: tags.append("equality_constraint_var_unbounded_below")
                    if rel == "=" and not has_ub: tags.append("equality_constraint_var_unbounded_above")
            except Exception: pass
        if t[2] == "relcg":
            m = int(t[3]); a = [int(x) for x in t[5:5 + n]]
            tags.append("proper_congruence" if m != 0 else "equality_congruence")
            if not nonzero(a):
                tags.append("all_coefficients_zero")
                if m == 0 and int(t[4]) != 0: tags.append("trivially_false_equality")
            mm = re.search(r"library D(\d) S(\d) I(\d) T(\d), set dictates D(\d) S(\d) I(\d)", verdict)
            if mm:
                g = [int(x) for x in mm.groups()]
                if g[1] == 1 and g[6] == 1: tags.append("included_reported_strictly_intersects")
                if g[0] == 1 and g[4] == 0: tags.append("reported_disjoint_but_intersects")
                if g[0] == 0 and g[4] == 1: tags.append("disjoint_not_reported")
                if m != 0:
                    tags += ["proper_congruence_" + x for x in tags if x in ("included_reported_strictly_intersects", "reported_disjoint_but_intersects", "disjoint_not_reported")]
    elif t[0] == "note" and any(l.startswith("q " + t[3] + " ") for l in lines[max(i for i in range(idx) if lines[i].split()[0] in ("op", "new", "hist")):idx]):
        # OK() became false during an observation phase: attribute to the last query on that slot
        lastq = [l for l in lines[:idx] if l.startswith("q " + t[3] + " ")][-1].split()
        site = "%s::%s" % (cls, METHOD.get(lastq[2], lastq[2]))
        tags.append("during_observation")
        if t[1] == "nan": tags.append("nan_entry")
    elif t[0] in ("res", "exc", "note"):
        if t[0] == "note" and t[1] == "nan": tags.append("nan_entry")
        if op is None:
            site = cls + "::?"
        elif op[0] == "new":
            how = op[3]
            site = "%s::%s(%s)" % (cls, cls, {"cons": "Constraint_System", "gens": "Generator_System", "poly": "Polyhedron",
                                               "grid": "Grid", "from": "shape:" + (op[4] if len(op) > 4 else "?"),
                                               "univ": "UNIVERSE", "empty": "EMPTY"}.get(how, how))
            if how in ("poly",):
                tags.append("complexity_" + op[5])
                try:
                    prow = parse_cs_rows(op[7:], int(op[2]))[0]
                    if any(sum(1 for c in r[2] if c < 0) >= 2 or (r[0] == "=" and len(nonzero(r[2])) >= 2) for r in prow):
                        tags.append("row_two_negative_coefficients")
                except Exception:
                    pass
            if how in ("grid", "from"): tags.append("complexity_" + (op[4] if how == "grid" else op[5]))
            if how == "grid" and int(op[5]) > 1: tags.append("grid_has_direction")
            if how == "from": tags.append("source_" + op[4])
            tags += arg_number_tags(op[4:], tname, tags)
            tags += overflow_tags([], op[4:], tname, cls)

        else:
            name = op[2]
            site = "%s::%s" % (cls, METHOD.get(name, name))
            if op[1] in tainted and tainted[op[1]] != name:
                tags.append("operand_not_OK_after_" + tainted[op[1]])
            opi = max(i for i in range(idx + 1) if lines[i].split() == op)
            n = dim_of_slot(lines, opi, op[1])
            tags += op_tags(name, op[3:], n, kind)
            tags += ["recv_" + f for f in status_flags(lines, opi, op[1])]
            if len(op) == 4 and name in ("meet", "join", "join_if_exact", "diff", "concat", "time_elapse", "simplify_ctx"):
                tags += ["arg_" + f for f in status_flags(lines, opi, op[3])]
                if op[3] == op[1]: tags.append("aliased")
            if n == 0: tags.append("zero_dim")
            if n == 0 and "arg_EM" in tags: tags.append("zero_dim_arg_marked_empty")
            # the receiver denotes the empty set (a reduced / converted reading since its last mutation says so) but is not marked empty
            if "recv_EM" not in tags:
                for l2 in reversed(lines[:opi]):
                    u2 = l2.split()
                    if u2[0] in ("res", "obs") and u2[1] == op[1] and u2[3] in ("mcons", "poly"):
                        if u2[4] == "1" and u2[5] == "=" and u2[6] not in ("0",) and all(x == "0" for x in u2[7:]):
                            tags.append("recv_empty_not_yet_detected")
                        break
                    if u2[0] in ("op", "new", "reset", "copy", "swap") and u2[1] == op[1]: break
            rr = rows_of_slot(lines, opi, op[1])
            if rr is not None:
                if n >= 2 and any(r[0] != "=" and len(nonzero(r[2])) == 1 for r in rr): tags.append("recv_unary_inequality_dim_ge_2")
            if rr is not None: tags += limit_tags(rr, tname)
            if len(op) == 4:
                r2 = rows_of_slot(lines, opi, op[3])
                if r2 is not None and name in ("meet", "join", "join_if_exact", "diff", "concat", "time_elapse", "simplify_ctx"):
                    tags += [x for x in limit_tags(r2, tname) if x not in tags]
                    if name == "join_if_exact" and "ret" in tags and "library answers 0" in verdict and \
                            any(r[0] == ">" for r in (rr or []) + r2):
                        tags.append("exact_union_denied_open_bound_involved")
            if "lhs_ge2_vars" in tags and "recv_SPR" in tags: tags.append("lhs_ge2_vars_recv_reduced")
            if "refine_ge_unit_coefficient_on_later_var" in tags:
                try:
                    v0, us = refine_ge_candidates(name, op[3:], n)
                    def has_lb(u):
                        return any(len(nonzero(r[2])) == 1 and r[2][u] != 0 and (r[0] == "=" or r[2][u] > 0) for r in (rr or []))
                    if any(not has_lb(u) for u in us): tags.append("refine_ge_later_var_unbounded_below")
                except Exception:
                    pass
            if kind == "box" and "T_float" in tags and name in ("refine_cons", "refine_cgs", "add_cgs", "bnd_img", "bnd_pre", "gen_img", "gen_img2", "gen_pre", "gen_pre2"):
                tags.append("float_propagation_via_refine")     # these call refine_with_constraint / propagate_constraint_no_check
            tags += arg_number_tags(op[3:], tname, tags)
            r2x = rows_of_slot(lines, opi, op[3]) if len(op) == 4 else None
            tags += overflow_tags([rr, r2x], op[3:], tname, cls)

        if t[0] == "res":
            try:
                resrows = parse_cs_rows(t[4:], int(t[2]))[0]
                tags += [x for x in overflow_tags([resrows], [], tname, cls) if x not in tags]
            except Exception:
                pass
        if t[0] == "res" and t[3] != "cons":
            tags.append("reading_" + t[3])
        # BD_Shape<inexact T>::minimized_constraints prints `v = b' for every member of a zero-equivalence class from one
        # rounded matrix entry; a class is recognised through a chain of exactly tight pairs, so the second and later
        # equalities need not hold of the set that constraints() describes
        if t[0] == "res" and t[3] == "mcons" and oblig == "readings" and kind == "bds" and type_class(tshort) != "rational":
            try:
                if sum(1 for r in parse_cs_rows(t[4:], int(t[2]))[0] if r[0] == "=") >= 2:
                    site = cls + "::minimized_constraints"
                    tags.append("reduced_reading_ge2_equalities_inexact_T")
            except Exception:
                pass
    elif t[0] in ("arg", "obs"):
        # the set changed without a mutator: attribute to the last observer on that slot
        last = None
        for l in reversed(lines[:idx]):
            u = l.split()
            if u[0] == "q" and u[1] == t[1]:
                last = u[2]; break
            if u[0] in ("op", "new", "copy", "swap"):
                last = u[0] + ":" + (u[2] if u[0] == "op" else ""); break
        site = "%s::history(%s)" % (cls, METHOD.get(last, last))
        if t[1] in tainted: tags.append("operand_not_OK_after_" + tainted[t[1]])
        try:
            now = parse_cs_rows(t[4:], int(t[2]))[0]
            if t[0] == "obs" and kind == "bds" and type_class(tshort) != "rational" and sum(1 for r in now if r[0] == "=") >= 2 \
                    and (t[3] == "mcons" or "SPR" in status_flags(lines, idx, t[1])):
                # the same reading, taken by an observer (constraints() of a reduced shape is minimized_constraints())
                site = cls + "::minimized_constraints"
                tags += ["reading_mcons", "reduced_reading_ge2_equalities_inexact_T"]
            before = rows_of_slot(lines, idx, t[1])
            tags += overflow_tags([now, before], [], tname, cls)
        except Exception:
            pass
    return site, tags


def type_class(tshort):
    if tshort in ("mpq", "rt_r_oc"): return "rational"
    if tshort in ("mpz", "z"): return "unbounded_int"
    if "int" in tshort: return "native_int"
    return "float"


LIMITS = {"int8": 127, "int16": 32767, "int32": 2**31 - 1, "int64": 2**63 - 1, "uint8": 255, "uint16": 65535,
          "uint32": 2**32 - 1, "uint64": 2**64 - 1, "float": 2**128, "fl_r_oc": 2**128, "double": 2**1024, "db_r_oc": 2**1024,
          "ldouble": 2**16384, "ld_r_oc": 2**16384}


def limit_tags(rows, tname):
    """a bound of the receiver has magnitude >= max(T)/4"""
    hi = LIMITS.get(tname.split("_", 1)[1])
    if hi is None: return []
    for rel, k, a in rows:
        nz = nonzero(a)
        if nz and abs(k) * 4 >= hi * abs(a[nz[0]]):
            return ["bound_near_limit_of_T"]
    return []


def arg_number_tags(args, tname, tags):
    """tags derived from the integers written in the arguments of an operation"""
    out = []
    ints = []
    for a in args:
        try: ints.append(int(a))
        except ValueError: pass
    hi = LIMITS.get(tname.split("_", 1)[1])
    if hi is not None and any(abs(v) * 4 >= hi for v in ints) and "bound_near_limit_of_T" not in tags:
        out.append("bound_near_limit_of_T")
    if "T_native_int" in tags and any(v < 0 for v in ints):
        out.append("native_int_negative_coefficient")
    return out


def overflow_tags(rows_list, args, tname, cls):
    """bounded T: structural overflow classes of the operands (rows) and of the integers in the arguments
       * native_int_product_overflows_T : T a bounded integer type and |coefficient| * |bound| (or |bound| + |constant|)
                                          exceeds the largest finite value of T
       * bound_ge_half_max_of_T         : a bound b with 2*|b| beyond the finite range (octagons store 2*b for unary constraints)"""
    tshort = tname.split("_", 1)[1]
    hi = LIMITS.get(tshort)
    if hi is None: return []
    big = 0
    for rows in rows_list:
        for rel, k, a in rows or []:
            nz = nonzero(a)
            if nz: big = max(big, abs(k) // max(1, abs(a[nz[0]])))
    ints = [1]
    for a in args:
        try: ints.append(abs(int(a)))
        except ValueError: pass
    out = []
    # an integer of the arguments (coefficient, denominator, inhomogeneous term) that T cannot represent exactly
    prec = {"float": 24, "fl_r_oc": 24, "double": 53, "db_r_oc": 53, "ldouble": 64, "ld_r_oc": 64}.get(tshort)
    if (prec is not None and any(v > 2 ** prec and v % 2 == 1 for v in ints)) or (prec is None and max(ints) > hi):
        out.append("coefficient_or_denominator_not_representable_in_T")
    # the two largest magnitudes among the bounds of the operands and the integers of the arguments
    # (integers that T cannot represent at all are the other class, coefficient_or_denominator_not_representable_in_T)
    vals = (sorted([v for v in [big] + ints if v <= hi], reverse=True) + [1, 1])[:2]
    if type_class(tshort) == "native_int" and (vals[0] + vals[1] > hi or (vals[1] >= 2 and vals[0] * vals[1] > hi)):
        out.append("native_int_product_overflows_T")
    if big * 2 >= hi or max(ints) * 2 >= hi:
        out.append("bound_ge_half_max_of_T")
    return out


def status_flags(lines, upto, slot):
    """flags set (+XX) in the last ascii_dump status line of `slot` before line `upto`"""
    for l in reversed(lines[:upto]):
        u = l.split()
        if u[0] == "st" and u[1] == slot:
            return [f[1:] for f in u[2:] if f.startswith("+")]
        if u[0] in ("copy",) and u[1] == slot:
            return status_flags(lines, lines.index(l), u[2])
    return []


def op_tags(name, args, n, kind):
    tags = []
    try:
        if name in ("aff_img", "aff_pre"):
            v, d = int(args[0]), int(args[1]); (k, a), _ = parse_expr(args[2:], n)
            nz = nonzero(a)
            if not nz: tags.append("constant_expr")
            elif len(nz) == 1:
                tags.append("one_var_expr")
                tags.append("expr_var_is_var" if nz[0] == v else "expr_var_is_other")
                if a[nz[0]] == d: tags.append("coeff_eq_den")
                elif a[nz[0]] == -d: tags.append("coeff_eq_minus_den")
            else: tags.append("general_expr")
            if v not in nz: tags.append("expr_omits_var")
            if d < 0: tags.append("negative_den")
        elif name in ("gen_img", "gen_pre"):
            v, rel, d = int(args[0]), args[1], int(args[2]); (k, a), _ = parse_expr(args[3:], n)
            nz = nonzero(a)
            tags.append("rel_" + {"<": "lt", "<=": "le", "=": "eq", ">=": "ge", ">": "gt"}[rel])
            if not nz: tags.append("constant_expr")
            elif len(nz) == 1: tags += ["one_var_expr", "expr_var_is_var" if nz[0] == v else "expr_var_is_other"]
            else: tags.append("general_expr")
            if v in nz:
                tags.append("expr_mentions_var")
                if name == "gen_pre": tags.append("inverse_relation_divides_by_minus_coefficient")
            else:
                tags.append("expr_omits_var")
                if rel != "=": tags.append("expr_omits_var_rel_not_eq")
            if d < 0: tags.append("negative_den")
        elif name in ("gen_img2", "gen_pre2"):
            rel = args[0]; (k1, a1), rest = parse_expr(args[1:], n); (k2, a2), _ = parse_expr(rest, n)
            tags.append("rel_" + {"<": "lt", "<=": "le", "=": "eq", ">=": "ge", ">": "gt"}[rel])
            tags.append("lhs_%d_vars" % min(len(nonzero(a1)), 3))
            tags.append("rhs_%d_vars" % min(len(nonzero(a2)), 3))
            if len(nonzero(a1)) >= 2: tags.append("lhs_ge2_vars")
            if len(nonzero(a1)) >= 3: tags.append("lhs_ge3_vars")
            if set(nonzero(a1)) & set(nonzero(a2)): tags.append("lhs_rhs_share_var")
        elif name in ("bnd_img", "bnd_pre"):
            v, d = int(args[0]), int(args[1]); (k1, a1), rest = parse_expr(args[2:], n); (k2, a2), _ = parse_expr(rest, n)
            tags.append("lb_%d_vars" % min(len(nonzero(a1)), 2)); tags.append("ub_%d_vars" % min(len(nonzero(a2)), 2))
            if v in nonzero(a1) or v in nonzero(a2): tags.append("bounds_mention_var")
            if v not in nonzero(a1) or v not in nonzero(a2): tags.append("bound_expr_omits_var")
            if d < 0: tags.append("negative_den")
            if v in nonzero(a1) and v in nonzero(a2):
                tags.append("var_in_both_bounds")
                if d < 0: tags.append("var_in_both_bounds_negative_den")
        elif name in ("refine_cons", "add_cons"):
            rows, _ = parse_cs_rows(args, n)
            if any(r[0] == ">" and nonzero(r[2]) for r in rows): tags.append("strict_row")
            if any(len(nonzero(r[2])) > 2 for r in rows): tags.append("row_3_vars")
            if any(sum(1 for c in r[2] if c < 0) >= 2 or (r[0] == "=" and len(nonzero(r[2])) >= 2) for r in rows):
                tags.append("row_two_negative_coefficients")
        # Octagonal_Shape::refine(var, >=, expr, den) is reached with an expression omitting var; its branch for a single
        # unbounded variable u > var with coefficient == den writes the cell of `var + u <= sum' (KF: refine_ge_...)
        if kind == "oct" and name in ("gen_pre", "gen_pre2", "bnd_pre"):
            cand = refine_ge_candidates(name, args, n)
            if cand: tags.append("refine_ge_unit_coefficient_on_later_var")
    except Exception:
        tags.append("unparsed_args")
    return tags


def refine_ge_candidates(name, args, n):
    """variables u that Octagonal_Shape::refine(var, >=, expr, den) may pick in its `pinf_count == 1, coefficient == den,
    pinf_index > var_id' branch: (var, [u...]) or None when the operation does not reach refine(var, >=, ...) that way"""
    if name == "gen_pre":
        v, rel, d = int(args[0]), args[1], int(args[2]); (k, a), _ = parse_expr(args[3:], n)
    elif name == "gen_pre2":
        rel = args[0]; (k1, a1), rest = parse_expr(args[1:], n); (k, a), _ = parse_expr(rest, n)
        nz1 = nonzero(a1)
        if len(nz1) != 1: return None
        v = nz1[0]; d = a1[v]
        if d < 0: rel = {"<=": ">=", ">=": "<=", "<": ">", ">": "<"}.get(rel, rel)
    elif name == "bnd_pre":
        v, d = int(args[0]), int(args[1]); (k, a), _ = parse_expr(args[2:], n); rel = ">="
    else:
        return None
    nz = nonzero(a)
    if rel != ">=" or v in nz or len(nz) < 2: return None
    us = [u for u in nz if u > v and a[u] == d]
    return (v, us) if us else None


def run_driver_parallel(ctx, drv, journal, wd, tag, mode, nproc=14):
    starts = [i for i, l in enumerate(journal) if l.startswith("hist ")]
    if not starts:
        return {}, collections.Counter()
    per = max(1, (len(starts) + nproc - 1) // nproc)
    chunks = []
    for k in range(0, len(starts), per):
        a = starts[k]
        b = starts[k + per] if k + per < len(starts) else len(journal)
        chunks.append((a, b))

    def work(idx):
        a, b = chunks[idx]
        cp = os.path.join(wd, "%s.chunk%d.txt" % (tag, idx))
        with open(cp, "w") as f:
            f.write("\n".join(journal[a:b]) + "\n")
        rc, out, err = ctx.run([drv, "--mode", mode], stdin_path=cp, timeout=3000)
        if rc != 0:
            ctx.fatal("driver failed rc=%s %s" % (rc, (err or "")[-500:]))
        return a, out

    verd, tot = {}, collections.Counter()
    with cf.ThreadPoolExecutor(nproc) as ex:
        for a, out in ex.map(work, range(len(chunks))):
            for l in out.splitlines():
                t = l.split(None, 2)
                if not t:
                    continue
                if t[0] in ("ok", "skip", "MISMATCH", "info"):
                    verd.setdefault(int(t[1]) + a, []).append((t[0], t[2].strip() if len(t) > 2 else ""))
                elif t[0] == "summary":
                    for item in l.split()[1:]:
                        k, _, v = item.partition("=")
                        if v.isdigit():
                            tot[k] += int(v)
    return verd, tot


def run_shapes(ctx, mode, types, n_hist, length, maxdim, batch=10, nproc=14):
    import time
    t0 = time.time()
    drv = ctx.ensure_pplv("pplv_wr")
    wd = ctx.workdir()
    t1 = time.time()
    tus = sorted(set(TU[t] for t in types))
    from .common import REPO
    # (one binary name per library tree: checks run against different trees must not evict each other's binaries)
    rtag = "" if REPO == "/repo" else "_" + hashlib.md5(REPO.encode()).hexdigest()[:6]
    with cf.ThreadPoolExecutor(min(len(tus), 8)) as ex:
        bins = dict(zip(tus, ex.map(lambda k: ctx.compile_harness("c04_shapes.cc", out_name="c04_shapes%s_tu%d" % (rtag, k),
                                                                   flags=("-DPPLV_TU=%d" % k,), opt="-O0"), tus)))

    def gen(t):
        jpath = os.path.join(wd, "%s.journal.txt" % t)
        cmd = [bins[TU[t]], "--type", t, "--seed", str(ctx.seed), "--first", "0", "--last", str(n_hist), "--len", str(length),
               "--maxdim", str(maxdim), "--batch", str(batch)]
        rc, _, err = ctx.run(cmd, stdout_path=jpath, timeout=3000)
        if rc != 0:
            ctx.fatal("harness failed rc=%s %s" % (rc, (err or "")[-500:]))
        return t, cmd, open(jpath).read().splitlines()

    t2 = time.time()
    with cf.ThreadPoolExecutor(8) as ex:
        journals = list(ex.map(gen, types))
    t3 = time.time()

    stats = collections.Counter()
    opc, qc, statusc, precise = collections.Counter(), collections.Counter(), collections.Counter(), collections.Counter()
    emptyops = collections.Counter()
    per_type = {}
    distinct, nontrivial, n_hists = set(), 0, 0
    samples = []
    totals = collections.Counter()
    for t, cmd, journal in journals:
        verd, tot = run_driver_parallel(ctx, drv, journal, wd, t, mode, nproc)
        totals.update(tot)
        hists = split_histories(journal)
        n_hists += len(hists)
        tstat = collections.Counter()
        for start, lines in hists:
            if lines[0].endswith("lim=1"):
                stats["limit_histories:" + type_class(t.split("_", 1)[1])] += 1
            key = hashlib.sha256("\n".join(lines[1:]).encode()).hexdigest()
            sts, has_mut, has_set = set(), False, False
            for l in lines:
                u = l.split()
                if not u: continue
                if u[0] == "op": opc[u[2]] += 1; has_mut = True
                elif u[0] == "new": opc["new:" + u[3]] += 1
                elif u[0] == "q": qc[u[2]] += 1
                elif u[0] == "st":
                    s = " ".join(u[2:]); statusc[t.split("_")[0] + " " + s] += 1; sts.add(s)
                elif u[0] == "note": stats["note:" + u[1]] += 1
                elif u[0] == "res" and u[3] == "cons" and len(u) > 4 and u[4] not in ("0",) and not (u[4] == "1" and u[5] == "="and u[6] == "-1"):
                    has_set = True
            if key not in distinct:
                distinct.add(key)
                if len(sts) >= 2 and has_mut and has_set:
                    nontrivial += 1
                    if len(samples) < 2:
                        samples.append(lines[:12])
            for i, l in enumerate(lines):
                for v in verd.get(start + i, []):
                    if v[0] == "info":
                        w = v[1].split()
                        if w and w[0] == "precise": precise[" ".join(w[2:]) + ":" + w[1]] += 1
                        if w and w[0] == "emptyops":
                            # operands of a binary predicate / operator that denote the empty set, by lazy state
                            u = l.split()
                            role = "operator" if u[0] == "op" else "predicate"
                            for slot_, emp, who in ((u[1], w[1], "receiver"), (u[3], w[2], "argument")):
                                emptyops[role + "_total"] += 1 if who == "receiver" else 0
                                if emp == "1":
                                    marked = "EM" in status_flags(lines, i, slot_)
                                    emptyops["%s_%s_empty_%s" % (role, who, "marked" if marked else "not_yet_detected")] += 1
                        continue
                    stats[v[0]] += 1; tstat[v[0]] += 1
                    if v[0] == "skip":
                        stats["skip:" + v[1].split()[0]] += 1
                    if v[0] == "MISMATCH":
                        site, tags = classify(lines, i, v[1])
                        ctx.violation("%s [%s]: %s | event: %s" % (site, t, v[1], l[:300]),
                                      {"history": lines[: i + 1], "verdict": v[1], "site": site, "tags": tags, "type": t,
                                       "harness": {"seed": ctx.seed, "hist": int(lines[0].split()[1]), "len": length, "maxdim": maxdim},
                                       "replay_cmd": " ".join(cmd[:1] + cmd[1:7] + ["--first", lines[0].split()[1], "--last",
                                                                                   str(int(lines[0].split()[1]) + 1)] + cmd[11:]),
                                       "judge": "pplv_wr --mode " + mode, "driver": "pplv_wr", "driver_args": ["--mode", mode]},
                                      found_input=True, record={"site": site, "tags": tags})
        per_type[t] = dict(tstat)
    ctx.cov.update({
        "phase_seconds": {"driver_build": round(t1 - t0, 1), "harness_compile": round(t2 - t1, 1), "harness_run": round(t3 - t2, 1),
                          "judge": round(time.time() - t3, 1)},
        "evaluations": n_hists, "distinct_nontrivial": nontrivial,
        "rule": "seeded histories over a pool of 4 shapes per instantiation (dim<=%d, %d mutators each, types %s); distinct by hash of the journal text; "
                "non-trivial = at least one mutator, a reported result that is neither universe nor empty and >=2 distinct lazy-status lines" % (maxdim, length, ",".join(types)),
        "samples": samples, "traces_validated_against_impl": n_hists,
        "observations_decided": stats["ok"], "observations_mismatch": stats["MISMATCH"],
        "observations_skipped": {k[5:]: v for k, v in stats.items() if k.startswith("skip:")},
        "notes": {k[5:]: v for k, v in stats.items() if k.startswith("note:")},
        "empty_operands_of_binary_predicates_and_operators": dict(emptyops),
        "limit_histories": {k.split(":", 1)[1]: v for k, v in stats.items() if k.startswith("limit_histories:")},
        "limit_history_policy": "a quarter of the histories of every bounded T place bounds / denominators at and beyond the finite range of T; "
                                "for floating-point T such a history applies only constructors from constraint systems, add_constraints, meet, join, "
                                "upper_bound_assign_if_exact, concatenation, dimension operators, copies and observers: the other transformers are skipped "
                                "(counted in notes as limit-skip / limit-skip-ctor) because their behaviour at the range limit of a floating-point T is not understood yet",
        "per_type": per_type,
        "op_histogram": dict(opc), "query_histogram": dict(qc),
        "distinct_status_lines": len(statusc), "status_histogram": dict(statusc.most_common(60)),
        "precision_of_sound_only_transformers(info)": dict(precise),
        "driver_summary": dict(totals),
    })
    return stats


def run_replay(ctx, mode):
    """bin/check CNN --replay <file>: re-execute the recorded history on the current tree and judge it again."""
    import json
    obj = json.load(open(ctx.replay))
    t, hz = obj["type"], obj["harness"]
    drv = ctx.ensure_pplv("pplv_wr")
    wd = ctx.workdir()
    k = TU[t]
    h = ctx.compile_harness("c04_shapes.cc", out_name="c04_shapes_tu%d" % k, flags=("-DPPLV_TU=%d" % k,), opt="-O0")
    jpath = os.path.join(wd, "replay.journal.txt")
    cmd = [h, "--type", t, "--seed", str(hz["seed"]), "--first", str(hz["hist"]), "--last", str(hz["hist"] + 1),
           "--len", str(hz["len"]), "--maxdim", str(hz["maxdim"]), "--batch", "1"]
    rc, _, err = ctx.run(cmd, stdout_path=jpath, timeout=600)
    journal = open(jpath).read().splitlines()
    verd, _ = run_driver_parallel(ctx, drv, journal, wd, "replay", mode, 1)
    n = 0
    for start, lines in split_histories(journal):
        for i, l in enumerate(lines):
            for v in verd.get(start + i, []):
                if v[0] == "MISMATCH":
                    site, tags = classify(lines, i, v[1])
                    if site != obj.get("site"):
                        continue
                    n += 1
                    ctx.violation("%s [%s]: %s | event: %s" % (site, t, v[1], l[:300]),
                                  {"history": lines[: i + 1], "verdict": v[1], "site": site, "tags": tags, "type": t, "harness": hz},
                                  found_input=True, record={"site": site, "tags": tags})
    print("replay: %d mismatching event(s) at %s reproduced on the current tree" % (n, obj.get("site")), flush=True)
    ctx.cov.update({"evaluations": 1, "distinct_nontrivial": 1, "rule": "replay of one recorded history", "samples": [journal[:10]],
                    "traces_validated_against_impl": 1})
