"""C13 stage 2 — the MOVING mechanics of the library (helper of checks/c13.py).

proof:  PPLV.Props.C13Move over the code-shaped heap-with-ownership models lean/PPLV/Value/Move.lean (Swapping_Vector:
        reserve / resize by swapping into a new vector, erase(first, last), erase(iterator) [after the repair of KF-C13-17], clear, m_swap; Linear_System: insert / insert_pending of a
        row and of a system with Recycle_Input, the const overloads that copy first, copy constructors, operator=,
        assign_with_pending, m_swap, clear), MovePoly.lean (Constraint_System::insert(Constraint&, Recycle_Input),
        merge_rows_assign, Polyhedron::add_recycled_constraints / add_recycled_generators / add_constraints / m_swap /
        operator= / copy constructor, the system parts of intersection_assign / poly_hull_assign / concatenate_assign with
        the argument being *this, Congruence_System::insert(cgs, Recycle_Input), Grid::add_recycled_congruences,
        Pointset_Powerset::add_disjunct / m_swap on the Determinate machine) and MoveRepr.lean (representation change,
        generic std::swap).
tie:    harness/c13_move.cc (#define private public) journals, before and after ONE call of each of these functions on
        seeded objects in every lazy state, every row with the canonical ADDRESS of its storage (Linear_Expression::impl),
        kind / topology / modulus, coefficients, vector capacities and all scalar members; the executable's allocator never
        reuses a block.  pplv_c13 --move rebuilds the model state from the `pre` part, runs the model function and demands
        the IDENTICAL `post` part (which storage ends up where, what the argument holds afterwards), the same liveness of
        every cell seen before the call, no double delete, no address owned twice; and judges the theorems' conclusions on
        the REAL output: receiver after the recycling / aliased call = receiver after the call on copies (row for row with
        flags, and K1 equivB of the constraint systems), OK() of receiver and argument.
verdicts: MISMATCH ownership / live / exc -> the model does not say what the library did (CORRESPONDENCE-DIFF);
          MISMATCH rows_eq_copy / value_eq_copy / ok_flag / faults / double_owner -> the property is broken on that input;
          crash -> the library died in the case named by the last `mbegin`.  Every one is a VIOLATION with the case as replay.
"""
import collections, concurrent.futures as cf, json, os, shutil
from .common import BUILD

PROPS = ["PPLV.Props.C13Move"]
NPROC = 12
PROPERTY_OBLIGATIONS = ("rows_eq_copy", "value_eq_copy", "ok_flag", "faults", "double_owner", "exc_copy")


def _chunk(ctx, h, drv, wd, k, seed, first, last):
    jp = os.path.join(wd, "move.%d.txt" % k)
    rc, _, err = ctx.run([h, "--seed", str(seed), "--first", str(first), "--last", str(last), "--batch", "100"], stdout_path=jp, timeout=1200)
    if rc != 0:
        ctx.fatal("harness c13_move failed rc=%s %s" % (rc, (err or "")[-500:]))
    rc, out, err = ctx.run([drv, "--move"], stdin_path=jp, timeout=1200)
    if rc != 0:
        ctx.fatal("driver pplv_c13 --move failed rc=%s %s" % (rc, (err or "")[-500:]))
    return open(jp).read().splitlines(), out.splitlines()


def run(ctx, replay=None):
    """returns the list of broken proof obligations (the caller reports them)."""
    broken = [] if replay else ctx.prove(PROPS)
    quick = ctx.tier == "quick"
    drv = ctx.ensure_pplv("pplv_c13")
    h = ctx.compile_harness("c13_move.cc")
    wd = os.path.join(BUILD, "run-%s-move-%d" % (ctx.pid, os.getpid()))
    shutil.rmtree(wd, ignore_errors=True)
    os.makedirs(wd)
    cov = {"paths": collections.Counter(), "ops": collections.Counter(), "skipped": collections.Counter(),
           "mismatch_obligations": collections.Counter(), "crashes": 0, "cases_lost_after_crash": 0}
    if replay:
        a = replay.get("harness_args", [])
        if "--erase-one" in a:          # replay files written before erase(iterator) became an ordinary case
            rc, out, err = ctx.run([h] + [str(x) for x in a], timeout=60)
            if "erase_one_returned" not in (out or ""):
                ctx.violation("Swapping_Vector::erase(iterator) does not return: %s" % (out or "")[:200], {"move": True, "harness_args": a},
                              found_input=True, record={"site": "Swapping_Vector::erase(iterator)", "tags": ["not_last_element"]})
            return broken
        seed, ranges = int(a[a.index("--seed") + 1]), [(int(a[a.index("--first") + 1]), int(a[a.index("--last") + 1]))]
    else:
        n = 12000 if quick else 240000
        seed = ctx.seed
        ranges = [(n * k // NPROC, n * (k + 1) // NPROC) for k in range(NPROC)]
    with cf.ThreadPoolExecutor(NPROC) as ex:
        outs = list(ex.map(lambda kr: _chunk(ctx, h, drv, wd, kr[0], seed, kr[1][0], kr[1][1]), enumerate(ranges)))
    ncases = 0
    samples = []
    planned = sum(b - a for a, b in ranges)
    for journal, verdicts in outs:
        by_id, last_begin, lost = {}, None, 0
        begun = sum(1 for l in journal if l.startswith("mbegin "))
        for l in journal:
            t = l.split(None, 3)
            if t and t[0] == "mv":
                by_id[t[1]] = l
                ncases += 1
            elif t and t[0] == "mbegin":
                last_begin = t[1]
            elif t and t[0] == "crash":
                cov["crashes"] += 1
                cid = last_begin
                if sum(1 for v in ctx.violations) >= 40:
                    continue
                ctx.violation("crash %s in the moving operation of case %s (SIGXCPU = the call did not return within the CPU limit of its batch)" % (" ".join(t[1:]), cid),
                              {"move": True, "harness_args": ["--seed", str(seed), "--first", str(cid), "--last", str(int(cid or 0) + 1)],
                               "replay_cmd": "bin/check C13 --replay <this file>"},
                              found_input=True, record={"site": "move:crash", "tags": ["crash"]})
        reported = collections.Counter()
        for v in verdicts:
            t = v.split(None, 4)
            if not t:
                continue
            if t[0] == "ok":
                cov["paths"]["%s %s" % (t[2], t[3] if len(t) > 3 else "")] += 1
                cov["ops"][t[2]] += 1
                if len(samples) < 4 and t[2].startswith("ph_add_recycled") and "moved" in v:
                    samples.append(by_id.get(t[1], "")[:600])
            elif t[0] == "skip":
                cov["skipped"]["%s %s" % (t[2], t[3] if len(t) > 3 else "")] += 1
            elif t[0] == "MISMATCH":
                cid, obl, op = t[1], t[2], (t[3] if len(t) > 3 else "?")
                cov["mismatch_obligations"]["%s %s" % (op, obl)] += 1
                reported[cid] += 1
                if reported[cid] > 2 or sum(cov["mismatch_obligations"].values()) > 60:
                    continue
                kind = "the property is broken on the real output" if obl in PROPERTY_OBLIGATIONS else "CORRESPONDENCE-DIFF (model vs library)"
                ctx.violation("move %s [%s]: %s: %s" % (op, obl, kind, v[:700]),
                              {"move": True, "case": cid, "op": op, "obligation": obl, "verdict": v[:3000], "journal_line": by_id.get(cid, "")[:6000],
                               "harness_args": ["--seed", str(seed), "--first", cid, "--last", str(int(cid) + 1)],
                               "replay_cmd": "bin/check C13 --replay <this file>"},
                              found_input=True, record={"site": "move:" + op, "tags": ["obl_" + obl]})
    cov["cases_lost_after_crash"] = planned - ncases      # the rest of a batch after a crash is not run
    if not quick and not broken and not replay:
        broken += ctx.leanchecker(PROPS)
    ctx.cov["c13_move"] = {
        "cases": ncases, "rule": "one moving call per case on seeded objects (dimension 0..3, up to 6 rows, sorted / unsorted / pending rows, "
                                 "dense or sparse argument systems, polyhedra in every lazy state reached by short public histories)",
        "verified_cases": sum(cov["ops"].values()), "ops": dict(cov["ops"]), "paths": dict(cov["paths"]),
        "skipped_not_modelled": dict(cov["skipped"]), "mismatch_obligations": dict(cov["mismatch_obligations"]),
        "crashes": cov["crashes"], "cases_lost_after_crash": cov["cases_lost_after_crash"], "samples": samples,
    }
    shutil.rmtree(wd, ignore_errors=True)
    ctx.assumptions += [
        "C13 stage 2 (moving mechanics): rows and systems of one representation are modelled; a sparse argument handed to the dense systems of a "
        "Polyhedron is converted row by row (new storage, old deleted) — modelled as a conversion pass before the move and replayed; the lazy "
        "conversions (process_pending_*, update_*, minimize) are not part of this model: the harness brings the receiver into a state where the call "
        "does not need them (cases where the model answers notModelled are counted in c13_move.skipped_not_modelled); NNC add_recycled_generators "
        "(add_corresponding_closure_points) and Grid::add_recycled_grid_generators (normalize_divisors) are not modelled",
    ]
    return broken
