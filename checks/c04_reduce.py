"""C04 stage 2 — shortest-path / strong reduction and the exact-join tests of BD_Shape / Octagonal_Shape (helper of checks/c04.py).

proof:  PPLV.Props.C04Reduce over the code-shaped models lean/PPLV/WR/Reduce.lean (compute_predecessors, compute_leaders,
        compute_leader_indices, shortest_path_reduction_assign, minimized_constraints, constraints, affine_dimension,
        is_shortest_path_reduced, BHZ09_upper_bound_assign_if_exact) and lean/PPLV/WR/ReduceOct.lean (compute_successors,
        compute_leaders x2, non_redundant_matrix_entries, strong_reduction_assign, affine_dimension, constraints,
        upper_bound_assign_if_exact), exact rational bounds with +infinity.
tie:    harness/c04_reduce.cc calls the REAL code on seeded non-empty BD_Shape<mpq_class> / Octagonal_Shape<mpq_class>
        (from constraint systems with equality chains, zero cycles, coinciding sums, unbounded entries; from matrices written
        into dbm / matrix; through short histories that start from an object already marked reduced) and journals the closed
        matrix, redundancy_dbm / the output of non_redundant_matrix_entries, the matrix left by strong_reduction_assign,
        minimized_constraints(), constraints(), affine_dimension(), is_shortest_path_reduced(), and for pairs of shapes the
        answer and result of upper_bound_assign_if_exact.  The native driver pplv_wrr
          (a) replays the models and demands the IDENTICAL bits, matrices, constraint lists (in order) and answers,
          (b) judges the conclusions of the theorems on the real output: closing the kept entries gives back the closed
              matrix (all sizes); K1 equivB of the constraint readings, K1 affineDim, K1 subsetUnion for the exact-join
              answer in both polarities (dimension <= 3).
verdicts: MISMATCH   -> the model does not say what the library computed: CORRESPONDENCE-DIFF (VIOLATION; when a JUDGE-FAIL
                        comes with it the property itself is violated on that input).
          JUDGE-FAIL -> the real output contradicts the property (reduced form denotes another set / a kept entry is
                        redundant / wrong affine dimension / wrong exact-join answer): VIOLATION with the journal line as replay.
          CRASH      -> the library died in the case named by the last `begin` marker: VIOLATION (replay re-executes that
                        case); the cases of the batch after it are lost and counted in coverage.cases_lost_after_crash.
          EXC        -> an exception out of a call whose arguments are dimension-compatible and in range: VIOLATION.
"""
import collections, concurrent.futures as cf, hashlib, json, os, shutil
from .common import BUILD

PROPS = ["PPLV.Props.C04Reduce"]
DRIVER = "pplv_wrr"
HARNESS = "c04_reduce.cc"
NPROC = 16
SITE = {"bred": "BD_Shape::shortest_path_reduction_assign", "ored": "Octagonal_Shape::strong_reduction_assign",
        "bub": "BD_Shape::upper_bound_assign_if_exact", "oub": "Octagonal_Shape::upper_bound_assign_if_exact"}


def _run_chunk(ctx, h, drv, wd, k, seed, first, last, per, ub, extra=()):
    jp = os.path.join(wd, "journal.%d.txt" % k)
    cmd = [h, "--seed", str(seed), "--first", str(first), "--last", str(last), "--per", str(per), "--ub", str(ub)] + list(extra)
    rc, _, err = ctx.run(cmd, stdout_path=jp, timeout=3000)
    if rc != 0:
        ctx.fatal("harness c04_reduce failed rc=%s %s" % (rc, (err or "")[-500:]))
    rc, out, err = ctx.run([drv], stdin_path=jp, timeout=3000)
    if rc != 0:
        ctx.fatal("driver pplv_wrr failed rc=%s %s" % (rc, (err or "")[-500:]))
    return open(jp).read().splitlines(), out.splitlines(), (last - first) * (2 * per + 2 * ub)


def _examine(ctx, journal, verdicts, harness_args, cov):
    by_id = {}
    for l in journal:
        t = l.split(None, 1)
        if t:
            by_id[t[0]] = l
    per_id = collections.defaultdict(list)
    for v in verdicts:
        t = v.split()
        if len(t) >= 2:
            per_id[t[1]].append(v)
    reported = collections.Counter()
    for vid, vs in per_id.items():
        line = by_id.get(vid, "")
        head = vs[0].split()
        kind = head[2] if len(head) > 2 else "?"
        site = SITE.get(kind, "BD_Shape::?")
        if head[0] == "ok":
            cov["verdicts"]["ok"] += 1
            tags = dict(t.split("=", 1) for t in head[3:] if "=" in t)
            cov["per_kind"][kind] += 1
            cov["scenario"]["%s %s" % (kind, tags.get("scen", "?").split(".")[0].split("+")[0])] += 1
            cov["sizes"]["%s n=%s" % (kind, tags.get("n"))] += 1
            if "k1" in head:
                cov["judged_by_K1"] += 1
            if kind in ("bred", "ored"):
                cov["classes"]["%s classes=%s nonsingleton=%s" % (kind, tags.get("classes"), tags.get("nonsingleton"))] += 1
                cov["max_class_size"]["%s %s" % (kind, tags.get("maxclass"))] += 1
                cov["affine_dimension"]["%s n=%s d=%s" % (kind, tags.get("n"), tags.get("affdim"))] += 1
            if kind == "bred":
                cov["leader_pairs"]["kept"] += int(tags.get("leaderpairs_kept", 0))
                cov["leader_pairs"]["dropped_finite"] += int(tags.get("leaderpairs_dropped", 0))
            if kind == "ored":
                cov["octagon_singular_class"][tags.get("sing", "?")] += 1
                cov["octagon_cells"]["kept"] += int(tags.get("kept", 0))
                cov["octagon_cells"]["finite"] += int(tags.get("finite", 0))
                cov["octagon_cells"]["kept_but_plus_infinity"] += int(tags.get("kept_pinf", 0))
            if kind in ("bub", "oub"):
                cov["exact_join_answers"]["%s n=%s %s" % (kind, tags.get("n"), "exact" if tags.get("answer") == "1" else "not_exact")] += 1
            continue
        jfail = [v for v in vs if v.startswith("JUDGE-FAIL")]
        mism = [v for v in vs if v.startswith("MISMATCH")]
        for v in vs:
            cov["verdicts"][v.split()[0]] += 1
        scen = (line.split() + ["?"] * 4)[3]
        replay = {"stage": "c04_reduce", "history": [line], "driver": DRIVER, "verdicts": vs, "site": site,
                  "harness_args": harness_args + ["--only", vid],
                  "how_to_replay": "bin/check C04 --replay <this file>   (re-executes the seeded case on the current tree: "
                                   "build/c04_reduce-* <harness_args> | lean/.lake/build/bin/pplv_wrr ; the recorded outcome "
                                   "alone: lean/.lake/build/bin/pplv_wrr < history)"}
        if mism:
            what_m = mism[0].split()[3] if len(mism[0].split()) > 3 else "?"
            tags = ["op_" + kind, "model_mismatch", "mismatch_" + what_m, "scenario_" + scen] + (["judge_fail"] if jfail else [])
            cls = (site, "MISMATCH", what_m)
            reported[cls] += 1
            if reported[cls] <= 3:
                what = ("CORRESPONDENCE-DIFF %s: the code-shaped model (lean/PPLV/WR/Reduce*.lean) does not compute what the library "
                        "computes on this input%s | %s | event: %s" % (
                            site, " AND the real output contradicts the property: " + jfail[0][:300] if jfail else
                            " (the judges of the property accept the real output)", mism[0][:500], line[:500]))
                ctx.violation(what, dict(replay, tags=tags), found_input=True, record={"site": site, "tags": tags})
        elif jfail:
            what_j = jfail[0].split()[3].rstrip(":") if len(jfail[0].split()) > 3 else "?"
            tags = ["op_" + kind, "judge_fail", "judge_" + what_j, "scenario_" + scen]
            cls = (site, "JUDGE", what_j)
            reported[cls] += 1
            if reported[cls] <= 3:
                what = "%s: the real output contradicts the property | %s | event: %s" % (site, jfail[0][:500], line[:500])
                ctx.violation(what, dict(replay, tags=tags), found_input=True, record={"site": site, "tags": tags})
    cov["reported_classes"] = {" ".join(map(str, k)): v for k, v in reported.items()}


def _split_journal(ctx, journal, harness_args, cov):
    """separate the case markers from the events; report crashes and exceptions (each class at most 3 times)"""
    events, begun, last_begin, finished = [], 0, None, set()
    reported = collections.Counter()
    for l in journal:
        t = l.split()
        if not t:
            continue
        if t[0] == "begin":
            begun += 1
            last_begin = (t[1], t[2] if len(t) > 2 else "?")
        elif t[0] == "crash":
            vid, kind = last_begin if last_begin and last_begin[0] not in finished else ("?", "?")
            sig = " ".join(t[1:])
            cov["crashes"]["%s %s" % (kind, sig)] += 1
            site = SITE.get(kind, "BD_Shape::?")
            tags = ["op_" + kind, "crash", "crash_" + sig.replace(" ", "_")]
            reported[(kind, sig)] += 1
            if reported[(kind, sig)] <= 3:
                ctx.violation("%s: the library crashes (%s) in the seeded case %s (the later cases of its batch are lost)" % (site, sig, vid),
                              {"stage": "c04_reduce", "history": ["begin %s %s" % (vid, kind), l], "site": site, "tags": tags,
                               "harness_args": harness_args + ["--only", vid]},
                              found_input=(vid != "?"), record={"site": site, "tags": tags})
        elif t[0] == "end":
            continue
        elif len(t) > 1 and t[1] == "exc":
            finished.add(t[0])
            kind = last_begin[1] if last_begin and last_begin[0] == t[0] else "?"
            cls = t[3] if len(t) > 3 else "?"
            cov["exceptions"]["%s %s" % (kind, cls)] += 1
            site = SITE.get(kind, "BD_Shape::?")
            tags = ["op_" + kind, "exception", "exception_" + cls]
            reported[(kind, "exc", cls)] += 1
            if reported[(kind, "exc", cls)] <= 3:
                ctx.violation("%s: exception %s out of calls with dimension-compatible, in-range arguments (case %s)" % (site, cls, t[0]),
                              {"stage": "c04_reduce", "history": [l], "site": site, "tags": tags, "harness_args": harness_args + ["--only", t[0]]},
                              found_input=True, record={"site": site, "tags": tags})
        else:
            finished.add(t[0])
            events.append(l)
    return events, begun


def run(ctx):
    """returns the list of broken proof obligations (the caller reports them)."""
    broken = ctx.prove(PROPS)
    quick = ctx.tier == "quick"
    drv = ctx.ensure_pplv(DRIVER)
    h = ctx.compile_harness(HARNESS)
    wd = os.path.join(BUILD, "run-%s-reduce-%d" % (ctx.pid, os.getpid()))
    shutil.rmtree(wd, ignore_errors=True)
    os.makedirs(wd)
    n_batches, per, ub = (64, 60, 30) if quick else (1600, 80, 40)
    chunk = (n_batches + NPROC - 1) // NPROC
    jobs = [(k, k * chunk, min(n_batches, (k + 1) * chunk)) for k in range(NPROC) if k * chunk < n_batches]
    journal, verdicts, configured = [], [], 0
    with cf.ThreadPoolExecutor(NPROC) as ex:
        for j, v, c in ex.map(lambda a: _run_chunk(ctx, h, drv, wd, a[0], ctx.seed, a[1], a[2], per, ub), jobs):
            journal += j
            verdicts += v
            configured += c
    harness_args = ["--seed", str(ctx.seed), "--per", str(per), "--ub", str(ub)]
    cov = {k: collections.Counter() for k in ("verdicts", "per_kind", "scenario", "sizes", "classes", "max_class_size",
                                              "affine_dimension", "leader_pairs", "octagon_singular_class", "octagon_cells",
                                              "exact_join_answers")}
    cov["judged_by_K1"] = 0
    cov["crashes"], cov["exceptions"] = collections.Counter(), collections.Counter()
    journal, begun = _split_journal(ctx, journal, harness_args, cov)
    # every journalled event must have a verdict
    ids_j = set(l.split(None, 1)[0] for l in journal if l.split())
    ids_v = set(v.split()[1] for v in verdicts if len(v.split()) >= 2)
    for vid in sorted(ids_j - ids_v)[:3]:
        ctx.violation("c04_reduce: no verdict for journalled event " + vid, {"stage": "c04_reduce", "history": [l for l in journal if l.startswith(vid + " ")]},
                      found_input=True, record={"site": "c04_reduce", "tags": ["no_verdict"]})
    _examine(ctx, journal, verdicts, harness_args, cov)
    events = [l for l in journal if len(l.split()) > 4 and l.split()[1] in SITE]
    distinct = set(hashlib.sha256(" ".join(l.split()[1:3] + l.split()[4:]).encode()).hexdigest() for l in events)
    def nontrivial(l):
        t = l.split()
        if t[1] == "bred":     # some finite leader-leader entry was dropped or some class is not a singleton
            return "0" in t[5] and t[6] != t[7]
        if t[1] == "ored":
            return t[4] != t[6]
        return True
    nontriv = set(hashlib.sha256(" ".join(l.split()[1:3] + l.split()[4:]).encode()).hexdigest() for l in events if nontrivial(l))
    out = {k: (dict(sorted(v.items())) if isinstance(v, collections.Counter) else v) for k, v in cov.items()}
    out.update({
        "events": len(events), "distinct": len(distinct), "distinct_nontrivial": len(nontriv),
        "cases_configured": configured, "cases_begun": begun,
        "cases_lost_after_crash": configured - begun,
        "cases_skipped_by_generator": begun - len(events) - sum(cov["exceptions"].values()) - sum(cov["crashes"].values()),
        "batches": n_batches, "reduction_cases_per_domain_per_batch": per, "exact_join_cases_per_domain_per_batch": ub,
        "rule": "seeded calls of the real reduction / exact-join code; distinct by hash of (kind, n, matrices, outputs); "
                "non-trivial = the reduced form differs from the closed one (bred: minimized_constraints() != constraints(); "
                "ored: strong_reduction_assign changed the matrix); every exact-join pair counts; cases_skipped_by_generator = the "
                "seeded shape was empty / zero-dimensional / over the dimension limit (no library result to compare)",
        "samples": events[:3],
    })
    ctx.cov["c04_reduce"] = out
    ctx.assumptions += [
        "stage 2 (reduction): the models are tied to the code by exact replay of every journalled call (BD_Shape<mpq_class>, "
        "Octagonal_Shape<mpq_class>, dimension 1..5 resp. 1..4); the FM-based K1 judges run for dimension <= 3, the re-closure "
        "judge (complete by C03.closure_canonical for BD shapes) for every size; inexact T is outside (KF-C03-61); "
        "the hypotheses of the theorems (closed / strongly closed matrix) are established by the code-shaped closure models "
        "(bds_closure_closed, oct_strong_closure_closed); soundness and completeness of both exact-join tests are proved",
    ]
    shutil.rmtree(wd, ignore_errors=True)
    return broken


def is_replay(path):
    try:
        return json.load(open(path)).get("stage") == "c04_reduce"
    except Exception:
        return False


def replay(ctx, path):
    """bin/check C04 --replay <file>: re-execute the recorded seeded case on the current tree and judge the fresh outcome."""
    obj = json.load(open(path))
    drv = ctx.ensure_pplv(DRIVER)
    h = ctx.compile_harness(HARNESS)
    wd = ctx.workdir()
    print("recorded    : %s" % "\n".join(obj.get("history", []))[:900])
    args = list(obj.get("harness_args", []))
    vid = args[args.index("--only") + 1] if "--only" in args else ""
    batch = vid.split(".")[1] if vid.count(".") >= 2 else "0"
    jp = os.path.join(wd, "replay.journal.txt")
    rc, _, err = ctx.run([h] + args + ["--first", batch, "--last", str(int(batch) + 1)], stdout_path=jp, timeout=600)
    now = open(jp).read().splitlines()
    print("current tree: %s" % "\n".join(now)[:900])
    rc, out, err = ctx.run([drv], stdin_path=jp, timeout=600)
    verd = (out or "").splitlines()
    print("\n".join(verd))
    bad = [l for l in verd if l.split()[:1] and l.split()[0] in ("MISMATCH", "JUDGE-FAIL")]
    bad += [l for l in now if l.split()[:1] == ["crash"] or (len(l.split()) > 1 and l.split()[1] == "exc")]
    if bad or not verd:
        print("VIOLATION property=%s replay=%s" % (ctx.pid, path))
        return 1
    print("no difference when re-executed on the current tree")
    return 0
