"""C03 stage 3 — the sign-case transformers of BD_Shape<T> (helper of checks/c03.py).

proof:  PPLV.Props.C03Trans over the code-shaped model lean/PPLV/WR/Trans.lean (refine_no_check, add_constraint,
        affine_image, generalized_affine_image(var), bounded_affine_image, unconstrain, affine_preimage,
        generalized_affine_preimage(var), for every bound type T through the directed operations `Rnd`), and
        lean/PPLV/WR/TransOct.lean (Octagonal_Shape<T>::affine_image).
tie:    harness/c03_trans.cc calls the REAL transformers of BD_Shape<mpq_class | mpz_class | int8_t | double> (and
        Octagonal_Shape<mpz_class | int8_t | mpq_class | double>::affine_image) on matrices written directly into `dbm`
        (`#define private public`), journals the matrix before, the arguments and the matrix after (or E / the exception);
        the native driver pplv_wrt
          (a) replays the model with the rounding of T and demands the IDENTICAL matrix (mode dbl: the model with exact
              arithmetic must be entrywise <= the real matrix),
          (b) independently judges the real output with the proved K1 deciders: `before` and `after` read as constraint
              systems, the exact result computed with the RefPoly operators, `exact ⊆ after` demanded.
stage 5: PPLV.Props.C03Trans2 (+ C03Trans2Oct / C03Trans2Lhs / C03Trans2Lat) over the code-shaped models lean/PPLV/WR/TransOct2*.lean
        (Octagonal_Shape: add_constraint, refine_no_check, private refine(var, ...), generalized_affine_image(var), bounded_affine_image,
        affine_preimage, generalized_affine_preimage(var), unconstrain), Trans2Lhs.lean / TransOct2Lhs.lean (both domains:
        generalized_affine_(pre)image(lhs, relsym, rhs); BD_Shape's private refine) and Trans2Lat.lean / TransOct2Lat.lean (both
        domains: intersection / upper_bound / difference / concatenate / embed / project / remove_(higher_)space_dimensions /
        map / expand / fold); same harness (`--s5 <cases>`), same driver, same two obligations (a) identical matrix, closed flag and
        space dimension, (b) K1 judge on the REAL output: the exact result is a union of reference polyhedra (join: both arguments;
        difference: x minus each row of y; fold: one piece per folded variable; time_elapse: x, and no row of the result decreases
        along y), exactness on gamma demanded where the operation is exact for every T.  difference_assign is replayed over the
        REAL results of its callees (contains, constraints, relation_with, add_constraint, is_empty: executed by the harness on
        copies and journalled); time_elapse_assign has no model (C_Polyhedron round trip): verdict `judged`.
verdicts: MISMATCH   -> the model does not say what the code does on this input: CORRESPONDENCE-DIFF (a VIOLATION: the
                        theorems are about the model); when the judge also fails on the same input the property itself
                        is violated there.
          JUDGE-FAIL -> the real result cuts away points of the exact result: VIOLATION with the journal line as replay.
          NAN        -> a Not-a-Number entry (or the `throw(0)` of sgn() applied to one): the open findings
                        native_int_product_overflows_T / coefficient_or_denominator_not_representable_in_T when the
                        structural predicate of those findings holds of the input, a VIOLATION otherwise.
"""
import collections, concurrent.futures as cf, hashlib, json, os, shutil
from .common import BUILD, LEAN

PROPS = ["PPLV.Props.C03Trans"]
# stage 5: octagon transformers, lhs-expression transformers, lattice / dimension operations (modules that exist are proved)
PROPS5 = ["PPLV.Props.C03Trans2", "PPLV.Props.C03Trans2Oct", "PPLV.Props.C03Trans2Lhs", "PPLV.Props.C03Trans2Lat"]
DRIVER = "pplv_wrt"
HARNESS = "c03_trans.cc"
NPROC = 16
HI_INT8 = 127          # as LIMITS["int8"] of wr_common: the structural predicates are the ones of wr_common.overflow_tags

SITE = {"refine": "BD_Shape::refine_no_check", "addc": "BD_Shape::add_constraint", "aff": "BD_Shape::affine_image",
        "gaff": "BD_Shape::generalized_affine_image(var)", "baff": "BD_Shape::bounded_affine_image",
        "unc": "BD_Shape::unconstrain", "oaff": "Octagonal_Shape::affine_image",
        "apre": "BD_Shape::affine_preimage", "gapre": "BD_Shape::generalized_affine_preimage(var)"}
TNAME = {"id": "mpq", "ceil": "mpz", "range:-126:126": "int8", "dbl": "double"}
N_ARGS = {"refine": 4, "addc": 4, "aff": 4, "gaff": 5, "baff": 6, "unc": 1, "oaff": 4, "apre": 4, "gapre": 5}
# stage 5 (harness section `stage 5`); octagon codes = "o" + code
_N5 = {"addc": 4, "refine": 4, "apre": 4, "refv": 5, "gaff": 5, "gapre": 5, "gaffl": 5, "gaprel": 5, "baff": 6, "unc": 1,
       "embed": 1, "project": 1, "rmdims": 1, "rmhi": 1, "mapdims": 1, "meet": 2, "join": 2, "diff": 4, "tel": 2,
       "expand": 2, "fold": 2, "concat": 3}
_NAME5 = {"addc": "add_constraint", "refine": "refine_no_check", "refv": "refine(var)", "gaff": "generalized_affine_image(var)",
          "baff": "bounded_affine_image", "apre": "affine_preimage", "gapre": "generalized_affine_preimage(var)",
          "unc": "unconstrain", "gaffl": "generalized_affine_image(lhs)", "gaprel": "generalized_affine_preimage(lhs)",
          "meet": "intersection_assign", "join": "upper_bound_assign", "diff": "difference_assign", "tel": "time_elapse_assign",
          "concat": "concatenate_assign", "embed": "add_space_dimensions_and_embed", "project": "add_space_dimensions_and_project",
          "rmdims": "remove_space_dimensions", "rmhi": "remove_higher_space_dimensions", "mapdims": "map_space_dimensions",
          "expand": "expand_space_dimension", "fold": "fold_space_dimensions"}
S5_OPS = set()
for _k, _v in _N5.items():
    for _pre, _dom in (("", "BD_Shape"), ("o", "Octagonal_Shape")):
        if _pre + _k not in N_ARGS:
            N_ARGS[_pre + _k] = _v
            SITE[_pre + _k] = "%s::%s" % (_dom, _NAME5[_k])
            S5_OPS.add(_pre + _k)
_LATTICE = set(p + k for p in ("", "o") for k in ("meet", "join", "diff", "tel", "concat", "embed", "project", "rmdims", "rmhi",
                                                   "mapdims", "expand", "fold"))


def parse_line(line):
    """journal line -> dict (id, op, mode, n, closed, before, args, after) or None"""
    t = line.split()
    if len(t) < 7 or t[1] not in N_ARGS:
        return None
    k = N_ARGS[t[1]]
    rest = t[6:]
    return {"id": t[0], "op": t[1], "mode": t[2], "n": int(t[3]), "closed": t[4], "before": t[5],
            "args": rest[:k], "after": " ".join(rest[k:]), "stage5": t[1] in S5_OPS}


def _ints_of_args(op, args):
    """the integers written in the arguments (coefficients, denominator, inhomogeneous terms), variable ids left out"""
    out = []
    if op in _LATTICE:
        return out                      # matrices, dimensions, variable ids: nothing is converted to T
    base = op[1:] if op.startswith("o") and op != "oaff" else op
    skip_first = {"aff": 1, "gaff": 2, "baff": 1, "unc": 1, "oaff": 1, "refine": 2, "addc": 2, "apre": 1, "gapre": 2,
                  "refv": 2, "gaffl": 1, "gaprel": 1}[base]
    for a in args[skip_first:]:
        for x in a.split(","):
            try:
                out.append(int(x))
            except ValueError:
                pass
    return out


def _bounds(mat):
    out = []
    for row in mat.split(";"):
        for e in row.split(","):
            if e in ("+inf", "-inf", "nan"):
                continue
            p, _, q = e.partition("/")
            try:
                out.append(abs(int(p)) // (int(q) if q else 1))
            except ValueError:
                pass
    return out


def structural_tags(ev, maxb=0):
    """the structural class of the input (the predicates of the open findings, as wr_common.overflow_tags builds them)"""
    tn = TNAME.get(ev["mode"], ev["mode"])
    tags = ["T_" + tn, "op_" + ev["op"]]
    if tn != "int8":
        return tags
    tags.append("T_native_int")
    hi = HI_INT8
    big = max(_bounds(ev["before"]) + [maxb])        # maxb: the bounds after the closure at the head of the transformer
    ints = [1] + [abs(v) for v in _ints_of_args(ev["op"], ev["args"])]
    if max(ints) > hi:
        tags.append("coefficient_or_denominator_not_representable_in_T")
    vals = (sorted([v for v in [big] + ints if v <= hi], reverse=True) + [1, 1])[:2]
    if vals[0] + vals[1] > hi or (vals[1] >= 2 and vals[0] * vals[1] > hi):
        tags.append("native_int_product_overflows_T")
    return tags


def _run_chunk(ctx, h, drv, wd, k, seed, first, last, per, oct_per, s5_per=0):
    jp = os.path.join(wd, "journal.%d.txt" % k)
    cmd = [h, "--seed", str(seed), "--first", str(first), "--last", str(last), "--per", str(per), "--oct", str(oct_per),
           "--s5", str(s5_per)]
    rc, _, err = ctx.run(cmd, stdout_path=jp, timeout=3000)
    if rc != 0:
        ctx.fatal("harness c03_trans failed rc=%s %s" % (rc, (err or "")[-500:]))
    rc, out, err = ctx.run([drv], stdin_path=jp, timeout=3000)
    if rc != 0:
        ctx.fatal("driver pplv_wrt failed rc=%s %s" % (rc, (err or "")[-500:]))
    return open(jp).read().splitlines(), out.splitlines()


def _examine(ctx, journal, verdicts, harness_args, cov_all):
    """classify every verdict; report; fill the coverage counters (cov_all["s3"]: stage 3, cov_all["s5"]: stage 5)"""
    by_id = {}
    for l in journal:
        t = l.split(None, 1)
        if t:
            by_id[t[0]] = l
    per_id = collections.defaultdict(list)
    for v in verdicts:
        t = v.split()
        if len(t) >= 2:
            per_id[t[1]].append(v)
    reported = collections.Counter()
    for vid, vs in per_id.items():
        line = by_id.get(vid, "")
        ev = parse_line(line) or {"id": vid, "op": "?", "mode": "?", "n": 0, "before": "", "args": [], "after": ""}
        tn = TNAME.get(ev["mode"], ev["mode"])
        site = SITE.get(ev["op"], "BD_Shape::?")
        jfail = next((v for v in vs if v.startswith("JUDGE-FAIL")), None)
        head = vs[0].split()
        kind = head[0]
        counts = cov_all["s5" if ev.get("stage5") else "s3"]["verdicts"]
        counts[kind] += 1
        if jfail and kind != "JUDGE-FAIL":
            counts["JUDGE-FAIL"] += 1
        replay = {"stage": "c03_trans", "history": [line], "driver": DRIVER, "verdicts": vs, "site": site, "type": tn,
                  "harness_args": harness_args + ["--id", vid],
                  "how_to_replay": "bin/check C03 --replay <this file>   (or: echo '<history[0]>' > l.txt ; build/c03_trans-* --replay l.txt "
                                   "| lean/.lake/build/bin/pplv_wrt ; the recorded outcome alone: lean/.lake/build/bin/pplv_wrt < l.txt)"}
        if ev.get("stage5"):
            cov = cov_all["s5"]
        else:
            cov = cov_all["s3"]
        if kind in ("ok", "okle", "judged"):
            op, tag, jf = head[2], head[3], head[4] if len(head) > 4 else "-"
            if kind == "judged":
                cov["no_model_judged_only"][op] += 1
            if op in ("baff", "obaff") and ":lb." in tag:      # ub.<form of ub_expr>:lb.<form of lb_expr>/<sign of den>[/bigden]
                ub, lb = tag.split(":lb.", 1)
                lbf, _, sfx = lb.partition("/")
                cov["branches"]["%s %s %s/%s" % (tn, op, ub, sfx)] += 1
                cov["baff_lower_bound_forms"]["%s lb.%s/%s" % (tn, lbf, sfx)] += 1
            else:
                cov["branches"]["%s %s %s" % (tn, op, tag)] += 1
            cov["per_type_op"]["%s %s" % (tn, op)] += 1
            cov["sizes"][str(ev["n"])] += 1
            cov["closed_flag"][ev["closed"]] += 1
            if jf == "J":
                cov["judged_sound"] += 1
            out = "E" if ev["after"] == "E" else "throws" if ev["after"].startswith("X:") else "matrix"
            cov["outcomes"]["%s %s" % (ev["op"], out)] += 1
        elif kind == "skip":
            cov["skipped_coefficient_not_representable"] += 1
        if kind == "MISMATCH":
            # a divergence of model and code is never one of the open findings (their classes end in the verdict NAN,
            # and the model says what the unchanged code does on every other input): the structural predicates are left out
            tags = ["T_" + tn, "op_" + ev["op"], "model_mismatch"] + (["judge_fail"] if jfail else [])
            cls = (site, tn, "MISMATCH")
            reported[cls] += 1
            if reported[cls] <= 3:
                what = ("CORRESPONDENCE-DIFF %s [%s]: the code-shaped model (lean/PPLV/WR/Trans*.lean) does not compute what the "
                        "library computes on this input%s | %s | event: %s" % (
                            site, tn, " AND the real result cuts away points of the exact result (K1 judge)" if jfail else
                            " (the real result still contains the exact result)", vs[0][:500], line[:400]))
                ctx.violation(what, dict(replay, tags=tags), found_input=True, record={"site": site, "tags": tags})
        elif kind == "NAN":
            maxb = next((int(x[5:]) for x in head if x.startswith("maxb=") and x[5:].lstrip("-").isdigit()), 0)
            tags = structural_tags(ev, maxb) + ["nan_entry" if "entry" in head[4:] else "nan_throw_int"]
            cov["nan"]["%s %s %s" % (tn, ev["op"], "threw_int" if "threw" in head[4:] else "entry")] += 1
            # the open findings: same site, predicate = the structural class of the input
            pred = ("coefficient_or_denominator_not_representable_in_T" if "coefficient_or_denominator_not_representable_in_T" in tags
                    else "native_int_product_overflows_T")
            rec_tags = [pred] if pred in tags else [t for t in tags if t not in (
                "native_int_product_overflows_T", "coefficient_or_denominator_not_representable_in_T")]
            # the private refine(var, ...) is reached from generalized_affine_preimage(var) / bounded_affine_preimage: the open
            # Not-a-Number findings name the public function
            nan_site = {"BD_Shape::refine(var)": "BD_Shape::generalized_affine_preimage(var)",
                        "Octagonal_Shape::refine(var)": "Octagonal_Shape::generalized_affine_preimage(var)"}.get(site, site)
            cls = (site, tn, "NAN", pred in tags)
            reported[cls] += 1
            if reported[cls] <= 3:
                what = ("%s [%s]: a Not-a-Number %s | %s | event: %s" % (
                    site, tn, "reaches sgn(), which throws the int 0" if "threw" in head[4:] else "is stored in the matrix",
                    vs[0][:200], line[:400]))
                ctx.violation(what, dict(replay, tags=tags), found_input=True, record={"site": nan_site, "tags": rec_tags})
        elif kind == "CRASH":
            tags = structural_tags(ev) + ["crash", head[3] if len(head) > 3 else "?"]
            cls = (site, tn, "CRASH")
            reported[cls] += 1
            if reported[cls] <= 3:
                ctx.violation("%s [%s]: the library crashes (%s) | event: %s" % (site, tn, " ".join(head[3:]), line[:400]),
                              dict(replay, tags=tags), found_input=True, record={"site": site, "tags": tags})
        if jfail and kind != "MISMATCH":
            tags = structural_tags(ev) + ["judge_fail"]
            # the structural class of KF-C03-75..78 (Octagonal_Shape::refine, GREATER_OR_EQUAL, one unbounded variable u >= var
            # with coefficient == den: the cell of `v + u` is written instead of the one of `u - v`), read off the branch tag
            if len(head) > 3 and "ge.ref.g.c1.eqden.uGEv" in head[3]:
                tags.append("refine_ge_later_var_unbounded_below")
            cls = (site, tn, "JUDGE")
            reported[cls] += 1
            if reported[cls] <= 3:
                what = ("%s [%s]: the result does not contain the exact result (K1 judge on the real matrices) | %s | event: %s" % (
                    site, tn, jfail[:400], line[:400]))
                ctx.violation(what, dict(replay, tags=tags), found_input=True, record={"site": site, "tags": tags})
    cov_all["s3"]["reported_classes"] = {" ".join(map(str, k)): v for k, v in reported.items()}


def _new_cov():
    return {"verdicts": collections.Counter(), "branches": collections.Counter(), "baff_lower_bound_forms": collections.Counter(),
            "per_type_op": collections.Counter(), "sizes": collections.Counter(), "closed_flag": collections.Counter(),
            "outcomes": collections.Counter(), "nan": collections.Counter(), "no_model_judged_only": collections.Counter(),
            "judged_sound": 0, "skipped_coefficient_not_representable": 0}


def _hash(l):
    return hashlib.sha256(" ".join(l.split()[1:]).encode()).hexdigest()


def _nontrivial(e):
    a = e["after"]
    if a == "E" or a.startswith("X:"):
        return False
    return a.split("|")[-1] != e["before"]


def run(ctx):
    """returns the list of broken proof obligations (the caller reports them)."""
    props5 = [m for m in PROPS5 if os.path.exists(os.path.join(LEAN, *m.split(".")) + ".lean")]
    broken = ctx.prove(PROPS + props5)
    quick = ctx.tier == "quick"
    drv = ctx.ensure_pplv(DRIVER)
    h = ctx.compile_harness(HARNESS)
    wd = os.path.join(BUILD, "run-%s-trans-%d" % (ctx.pid, os.getpid()))
    shutil.rmtree(wd, ignore_errors=True)
    os.makedirs(wd)
    oct_modelled = os.path.exists(os.path.join(LEAN, "PPLV", "WR", "TransOct.lean"))
    n_batches, per, oct_per, s5_per = (96, 30, 12 if oct_modelled else 0, 12) if quick else (1600, 40, 16 if oct_modelled else 0, 30)
    chunk = (n_batches + NPROC - 1) // NPROC
    jobs = [(k, k * chunk, min(n_batches, (k + 1) * chunk)) for k in range(NPROC) if k * chunk < n_batches]
    journal, verdicts = [], []
    with cf.ThreadPoolExecutor(NPROC) as ex:
        for j, v in ex.map(lambda a: _run_chunk(ctx, h, drv, wd, a[0], ctx.seed, a[1], a[2], per, oct_per, s5_per), jobs):
            journal += j
            verdicts += v
    harness_args = ["--seed", str(ctx.seed), "--per", str(per), "--oct", str(oct_per), "--s5", str(s5_per)]
    cov_all = {"s3": _new_cov(), "s5": _new_cov()}
    _examine(ctx, journal, verdicts, harness_args, cov_all)
    parsed = [(l, parse_line(l)) for l in journal]
    for key, stage5, covname in (("s3", False, "c03_trans"), ("s5", True, "c03_trans2")):
        events = [l for l, e in parsed if e and bool(e.get("stage5")) == stage5]
        distinct = set(_hash(l) for l in events)
        nontrivial = set(_hash(l) for l, e in parsed if e and bool(e.get("stage5")) == stage5 and _nontrivial(e))
        out = {k: (dict(sorted(v.items())) if isinstance(v, collections.Counter) else v) for k, v in cov_all[key].items()}
        out.update({"events": len(events), "distinct": len(distinct), "distinct_nontrivial": len(nontrivial), "batches": n_batches,
                    "samples": events[:3]})
        if not stage5:
            out.update({
                "per_type_per_batch": per, "octagon_cases_per_type_per_batch": oct_per,
                "rule": "seeded calls of the real transformers on matrices written into dbm (closed first in 3/4 of the cases); distinct "
                        "by hash of (op, T, n, closed, before, args, after); non-trivial = the call returned a matrix different from "
                        "`before`; branch = the path through the C++ function (t0 | t1.w==v/w!=v.a=+-den | general with the pinf "
                        "counts of the upper/lower sums, y/n = the single-unbounded-variable constraint was added) / sign of den"})
        else:
            out.update({
                "cases_per_type_per_batch": s5_per, "proved_modules": props5,
                "rule": "stage 5: seeded calls of the real Octagonal_Shape transformers (add_constraint, refine_no_check, private refine, "
                        "generalized_affine_image(var), bounded_affine_image, affine_preimage, generalized_affine_preimage(var), unconstrain), "
                        "of generalized_affine_(pre)image(lhs, relsym, rhs) and BD_Shape's private refine, and of the lattice / dimension "
                        "operations of both domains, on matrices written into dbm / matrix; distinct by hash of the journal line; "
                        "non-trivial = a matrix different from `before` came back; branch = form of the expressions / flags of the "
                        "arguments; verdict `judged` = no model for this operation, only the K1 judge speaks"})
        ctx.cov[covname] = out
    ctx.assumptions += [
        "stage 3 (transformers): the model is tied to the code by exact replay of every journalled call (mpq, mpz, int8); for "
        "double only `model with exact arithmetic <= real matrix` is demanded (binary rounding is not reproduced) and the real "
        "matrix is judged sound by K1; calls with a coefficient that T cannot represent are outside the model (counted as skip, "
        "still judged by K1); calls where only the denominator is not representable are replayed (branch tag .../bigden)",
        "stage 5: the same tie for the octagon transformers, the lhs-expression transformers and the lattice / dimension operations; "
        "the K1 judge reads the exact result as a union of reference polyhedra (join: both arguments, difference: x minus each row of y, "
        "fold: one piece per folded variable) and demands exactness on gamma where the operation is exact for every T",
    ]
    shutil.rmtree(wd, ignore_errors=True)
    return broken


def is_replay(path):
    try:
        return json.load(open(path)).get("stage") == "c03_trans"
    except Exception:
        return False


def replay(ctx, path):
    """bin/check C03 --replay <file>: re-execute the recorded call (matrix, closed flag, arguments of the recorded journal
    line; harness --replay) on the current tree and judge the fresh outcome with the driver."""
    obj = json.load(open(path))
    drv = ctx.ensure_pplv(DRIVER)
    h = ctx.compile_harness(HARNESS)
    wd = ctx.workdir()
    rp = os.path.join(wd, "recorded.txt")
    open(rp, "w").write("\n".join(obj.get("history", [])) + "\n")
    print("recorded    : %s" % "\n".join(obj.get("history", []))[:700])
    jp = os.path.join(wd, "replay.journal.txt")
    rc, _, err = ctx.run([h, "--replay", rp], stdout_path=jp, timeout=600)
    now = open(jp).read().splitlines()
    print("current tree: %s" % "\n".join(now)[:700])
    rc, out, err = ctx.run([drv], stdin_path=jp, timeout=600)
    verd = (out or "").splitlines()
    print("\n".join(verd))
    bad = [l for l in verd if l.split()[:1] and l.split()[0] in ("MISMATCH", "JUDGE-FAIL", "NAN", "CRASH")]
    if bad:
        print("VIOLATION property=%s replay=%s" % (ctx.pid, path))
        return 1
    print("no difference when re-executed on the current tree")
    return 0
