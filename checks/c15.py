"""C15 — ascii_dump / ascii_load round-trips every object in every internal state.

translator: gen/c15_tables.py regenerates lean/PPLV/Gen/StatusTables.lean (tokens, order, separators, masks,
        per-flag load actions of the five *_Status classes) from the current sources at every run.
proof:  PPLV.Props.C15 — load_dump for every modelled grammar (status flags over the regenerated tables,
        Linear_System header, Bit_Matrix, DB/OR matrices, number words, keyword enumerations), any receiver
        under the side condition `compat` (status_load_dump_partial, box_load_dump_partial), the failure of
        Box's loader as written on a concrete state (box_load_dump_fails), the repaired loaders.
tie:    harness/c15_dumpload.cc: histories of 36 classes/instantiations; after every step real dump -> real
        load into (a) a default-constructed object and (b) an object with other prior content, must succeed,
        OK(), re-dump byte-identical; lock-step continuation of original and loaded twin (dumps, exceptions,
        queries).  The native driver pplv_c15 parses every harvested real status line / header / matrix /
        box dump with the Lean loader, reprints it byte for byte with the Lean printer, and predicts the flags
        the real Status::ascii_load leaves in a receiver from the regenerated table.
"""
import collections, hashlib, importlib.util, json, os, re

LEVEL = "proof"
VERIF = os.path.dirname(os.path.dirname(os.path.abspath(__file__)))


def load_translator():
    spec = importlib.util.spec_from_file_location("c15_tables", os.path.join(VERIF, "gen", "c15_tables.py"))
    m = importlib.util.module_from_spec(spec)
    spec.loader.exec_module(m)
    return m


def unesc(s):
    out, i = [], 0
    while i < len(s):
        if s[i] == "\\" and i + 1 < len(s):
            out.append({"n": "\n", "p": "|", "\\": "\\"}.get(s[i + 1], s[i + 1])); i += 2
        else:
            out.append(s[i]); i += 1
    return "".join(out)


FLAG = re.compile(r"^[+-][A-Z]+$")


def flag_tokens(line):
    """leading flag tokens of a status-like line -> list of (sign, name)"""
    out = []
    for w in line.split():
        if not FLAG.match(w):
            break
        out.append((w[0], w[1:]))
    return out


class Sites:
    """which status grammar a flag line belongs to: by its keyword sequence (and, for the two classes that
    share all keywords, by the separator after the last one) - read from the regenerated tables"""

    def __init__(self, tabs):
        self.by_sig = collections.defaultdict(list)
        for t in tabs:
            sig = tuple(r["tok"] for r in t["rows"])
            self.by_sig[sig].append(t)

    def site(self, raw_line):
        toks = flag_tokens(raw_line)
        sig = tuple(n for _, n in toks)
        cands = self.by_sig.get(sig, [])
        if len(cands) == 1:
            return cands[0]["site"] + "::ascii_load"
        for t in cands:   # Polyhedron (separator after the last flag is a blank) vs Grid (newline)
            last_sep = t["rows"][-1]["sep"]
            rest = raw_line[raw_line.rfind(toks[-1][1]) + len(toks[-1][1]):] if toks else ""
            if (last_sep == " ") == rest.startswith(" "):
                return t["site"] + "::ascii_load"
        return None


ORIGINAL_PHASES = {"orig_make", "orig_op", "orig_dump", "orig_OK", "orig_view", "orig_query", "receiver_make"}


def classify(f, sites):
    """f: dict of a `fail` journal line -> list of (site, tags, explanation): the defects that together explain the
    failure (every one must be a known finding for the failure to be excused); tags == [] means unexplained"""
    cls, what, tags = f["class"], f["what"], f["tags"]
    if tags.startswith("appended_to_prior_content") and what == "redump_differs":
        base = "MIP_Problem" if cls.startswith("MIP") else "PIP_Problem"
        return [(base + "::ascii_load", ["receiver_has_prior_content"], tags)]
    if tags == "dead_parts_only" and what == "redump_differs":
        return [("Pointset_Powerset::ascii_load", ["out_of_date_parts_of_disjunct_dropped"], tags)]
    if tags.startswith("bad_negative_float") and what == "load_false":
        return [("float_mpq_to_string", ["negative_float_sign_after_leading_zeros"], tags)]
    if cls == "PIP_Problem" and what.startswith("suffix_") and tags == "loaded_pip_tree_has_decision_node":
        # the twin was loaded from a text whose solution tree has a decision node: its children have no parent pointer
        return [("PIP_Decision_Node::ascii_load", ["children_loaded_without_parent_pointer"], what)]
    unexplained = lambda why: [(cls + "::" + ("ascii_load" if not what.startswith("section") else what), [], why)]
    if what == "redump_differs" and f["diff"] and f["diff"] != "structural":
        # every differing line must be a status line in which only flags go from '-' (text) to '+' (loaded) and the
        # receiver held that flag before the load.  One consequence is admitted: a Grid that stays marked empty does
        # not read its `dimension_kinds` (Grid::ascii_load tests marked_empty()).
        prior = [flag_tokens(l) for l in f["prior_flags"].split(";;") if l]
        found, dimkinds = {}, False
        for pair in f["diff"].split(";;"):
            if "=>" not in pair:
                return unexplained("unparsed diff")
            a, b = pair.split("=>", 1)
            if a.startswith("dimension_kinds") and b.startswith("dimension_kinds"):
                dimkinds = True
                continue
            ta, tb = flag_tokens(a), flag_tokens(b)
            if len(ta) < 2 or [n for _, n in ta] != [n for _, n in tb]:
                return unexplained("non-status line differs: %s" % pair[:120])
            if a.split()[len(ta):] != b.split()[len(tb):]:
                return unexplained("status line differs outside the flags: %s" % pair[:120])
            site = sites.site(a)
            if site is None:
                return unexplained("status line of an unknown grammar differs: %s" % pair[:120])
            names = [n for _, n in ta]
            for (sa, n), (sb, _) in zip(ta, tb):
                if sa == sb:
                    continue
                if not (sa == "-" and sb == "+"):
                    return [(site, [], "flag %s goes %s -> %s" % (n, sa, sb))]
                if not any([m for _, m in p] == names and ("+", n) in p for p in prior):
                    return [(site, [], "flag %s set by the load although the receiver did not hold it" % n)]
                found.setdefault(site, set()).add(n)
        if dimkinds and not any(s.startswith("Grid::") and "EM" in fl for s, fl in found.items()):
            return unexplained("dimension_kinds differs")
        if found:
            return [(s, ["flag_minus_into_set_flag"], "flags %s: '-' in the text, '+' in the receiver, never cleared" % sorted(fl))
                    for s, fl in sorted(found.items())]
    return unexplained(what)


def parse_journal(lines):
    cases, cur = [], None
    fails, sums, states, crashes = [], collections.Counter(), collections.defaultdict(set), []
    for i, l in enumerate(lines):
        if l.startswith("case "):
            t = l.split(" ", 3)
            cur = {"id": int(t[1]), "class": t[2], "line": i, "fails": [], "stat": {}}
            cases.append(cur)
        elif l.startswith("fail|"):
            t = l.split("|")
            t += [""] * (8 - len(t))
            f = {"class": t[1], "recv": t[2], "what": t[3], "tags": t[4], "prior_flags": unesc(t[5]),
                 "diff": unesc(t[6]), "detail": unesc(t[7]), "case": cur["id"] if cur else -1}
            fails.append(f)
            if cur:
                cur["fails"].append(f)
        elif l.startswith("cstat|") and cur:
            for kv in l.split("|")[1:]:
                k, _, v = kv.partition("=")
                cur["stat"][k] = v
        elif l.startswith("sum|"):
            t = l.split("|")
            for kv in t[2:]:
                k, _, v = kv.partition("=")
                sums[(t[1], k)] += int(v)
        elif l.startswith("note|"):
            sums[("note", l[5:])] += 1
        elif l.startswith("state|"):
            t = l.split("|", 2)
            states[t[1]].add(unesc(t[2]).strip())
        elif l.startswith("crash|"):
            t = l.split("|") + ["", "", "", ""]
            crashes.append({"signal": t[1], "case": int(t[2]) if t[2].lstrip("-").isdigit() else -1, "phase": t[3], "note": t[4],
                            "class": cur["class"] if cur else "?"})
        elif l.startswith("crash"):
            crashes.append({"signal": l, "case": cur["id"] if cur else -1, "phase": "?", "note": "", "class": cur["class"] if cur else "?"})
    return cases, fails, sums, states, crashes


def run(ctx):
    ctx.ensure_ppl()
    # ---- T1: regenerate the status tables from the current sources
    tr = load_translator()
    from .common import REPO, LEAN
    gen_broken, tabs = [], []
    try:
        tabs = tr.translate(REPO)
        tr.write_if_changed(os.path.join(LEAN, "PPLV", "Gen", "StatusTables.lean"), tr.emit_lean(tabs))
    except (tr.TranslateError, OSError, ValueError) as e:
        gen_broken.append("gen/c15_tables.py cannot translate the *_Status sources: %s" % e)
    broken = gen_broken + ctx.prove(["PPLV.Props.C15"])
    drv = ctx.ensure_pplv("pplv_c15")
    h = ctx.compile_harness("c15_dumpload.cc")
    wd = ctx.workdir()
    quick = ctx.tier == "quick"
    seed_used, len_used = ctx.seed, ("8" if quick else "12")
    if ctx.replay:
        # re-run the one history named by a replay file (harness_args carry seed, length and case id)
        rp = json.load(open(ctx.replay))
        args = rp.get("harness_args") or ["--seed", str(rp.get("seed", ctx.seed)), "--len", "8", "--first", str(rp["case"]), "--last", str(rp["case"] + 1)]
        if "--seed" in args:
            seed_used = int(args[args.index("--seed") + 1])
        if "--len" in args:
            len_used = args[args.index("--len") + 1]
        n_cases = 1
    else:
        n_cases = 16000 if quick else 200000
        args = ["--seed", str(ctx.seed), "--first", "0", "--last", str(n_cases), "--len", "8" if quick else "12", "--batch", "200"]
    jpath, vpath = os.path.join(wd, "journal.txt"), os.path.join(wd, "verdicts.txt")
    rc, _, err = ctx.run([h] + args, stdout_path=jpath, timeout=3000)
    if rc != 0:
        ctx.fatal("harness failed rc=%s %s" % (rc, (err or "")[-500:]))
    rc, _, err = ctx.run([drv], stdin_path=jpath, stdout_path=vpath, timeout=3000)
    if rc != 0:
        ctx.fatal("driver failed rc=%s %s" % (rc, (err or "")[-500:]))
    journal = open(jpath, errors="replace").read().splitlines()
    cases, fails, sums, states, crashes = parse_journal(journal)
    sites = Sites(tabs)
    base_args = ["--seed", str(seed_used), "--len", len_used]

    def replay_obj(f, extra=None):
        o = {"case": f["case"], "class": f["class"], "receiver": f["recv"], "what": f["what"], "detail": f["detail"][:600],
             "differing_lines": f["diff"][:1500], "receiver_status_lines": f["prior_flags"][:600],
             "harness_args": base_args + ["--first", str(f["case"]), "--last", str(f["case"] + 1), "--verbose", "1"],
             "replay_cmd": "build/c15_dumpload-* " + " ".join(base_args + ["--first", str(f["case"]), "--last", str(f["case"] + 1), "--verbose", "1"])}
        if extra:
            o.update(extra)
        return o

    # PIP_Problem::solve() reads freed memory on objects that were never loaded (valgrind: invalid read in column_lower /
    # is_better_pivot, PIP_Tree.cc; originals crash in orig_op too), so a PIP twin can die or diverge by accident of the
    # heap layout.  A PIP failure after the load is therefore judged only if it shows again when the history is re-run
    # alone (other heap layout); the null-parent crash of KF-C15-10 does.
    rerun_budget = [12]
    rerun_cache = {}

    def pip_reproducible(case):
        if case in rerun_cache:
            return rerun_cache[case]
        if rerun_budget[0] <= 0:
            return True
        rerun_budget[0] -= 1
        again = False
        for _ in range(2):
            rc2, out2, _e = ctx.run([h] + base_args + ["--first", str(case), "--last", str(case + 1)], timeout=300)
            _c, f2, _s, _st, cr2 = parse_journal((out2 or "").splitlines())
            if any(x["what"].startswith("suffix_") for x in f2) or any(x["phase"] not in ORIGINAL_PHASES for x in cr2):
                again = True
                break
        rerun_cache[case] = again
        return again

    flaky_pip = collections.Counter()
    # ---- the property itself, judged on the real output
    fail_hist, kf_hist, seen_viol = collections.Counter(), collections.Counter(), set()
    for f in fails:
        recs = classify(f, sites)
        fail_hist["%s|%s|%s" % (f["class"], f["recv"], f["what"])] += 1
        if f["class"] == "PIP_Problem" and f["what"].startswith("suffix_") and not pip_reproducible(f["case"]):
            flaky_pip["%s|not reproducible alone" % f["what"]] += 1
            continue
        unknown = [(site, tags, why) for site, tags, why in recs if ctx.match_known({"site": site, "tags": tags}) is None]
        if not unknown:
            for site, tags, why in recs:
                kf_hist[site + ":" + ",".join(tags)] += 1
                ctx.violation("", {}, record={"site": site, "tags": tags})      # prints KNOWN-FINDING once per entry
            continue
        site, tags, why = unknown[0]
        key = (site, tuple(tags), f["class"], f["what"], "" if tags else f["detail"][:60])
        if key in seen_viol or len(seen_viol) >= 12:
            continue
        seen_viol.add(key)
        ctx.violation("%s: %s into receiver '%s': %s (%s) | %s" % (site, f["what"], f["recv"], why, f["class"], f["detail"][:300]),
                      replay_obj(f, {"site": site, "tags": tags}), found_input=True, record={"site": site, "tags": tags})
    crash_orig = collections.Counter()
    for c in crashes:
        if c["phase"] in ORIGINAL_PHASES:
            # the history itself died (on the object that was never loaded): a defect of the operation, not of dump/load
            crash_orig["%s|%s|%s" % (c["class"], c["phase"], c["signal"])] += 1
            continue
        if c["class"] == "PIP_Problem" and not pip_reproducible(c["case"]):
            flaky_pip["crash %s in %s|not reproducible alone" % (c["signal"], c["phase"])] += 1
            continue
        rec = {"site": "crash:" + c["class"], "tags": [c["phase"]]}
        if c["class"] == "PIP_Problem" and c["phase"].startswith("twin_") and c["note"] == "loaded_pip_tree_has_decision_node" and c["signal"] == "SIGSEGV":
            # the twin was loaded from a text whose solution tree has a decision node; it dies in an operation the original survives
            rec = {"site": "PIP_Decision_Node::ascii_load", "tags": ["children_loaded_without_parent_pointer"]}
        if ctx.match_known(rec) is not None:
            kf_hist[rec["site"] + ":" + ",".join(rec["tags"])] += 1
            ctx.violation("", {}, record=rec)
            continue
        if len(seen_viol) < 12:
            seen_viol.add(("crash", c["case"]))
            ctx.violation("crash (%s) in phase '%s' of a dump/load history of %s: the original object survived the same step" % (c["signal"], c["phase"], c["class"]),
                          {"case": c["case"], "class": c["class"], "phase": c["phase"],
                           "harness_args": base_args + ["--first", str(c["case"]), "--last", str(c["case"] + 1)]},
                          found_input=True, record=rec)

    # ---- the model against the real text (driver verdicts)
    n_ok, mism, info = 0, [], ""
    for l in open(vpath, errors="replace"):
        if l.startswith("ok "):
            n_ok += 1
        elif l.startswith("MISMATCH "):
            t = l.rstrip("\n").split(" ", 3)
            mism.append((int(t[1]), t[2], t[3] if len(t) > 3 else ""))
        elif l.startswith("info tables"):
            info = l.strip()
    ob_seen = set()
    for ln, ob, detail in mism:
        ev = journal[ln - 1] if 0 < ln <= len(journal) else ""
        kind = ev.split("|", 1)[0]
        if (kind, ob) in ob_seen:
            continue
        ob_seen.add((kind, ob))
        # a model/code disagreement: the round trip of the real objects is judged above by the harness; here the
        # correspondence "the Lean grammar is the grammar of the code" is broken
        ctx.violation("model does not describe the real %s text (%s): %s | event: %s" % (kind, ob, detail[:300], ev[:300]),
                      {"event": ev[:2000], "obligation": ob, "detail": detail[:1000]}, found_input=False,
                      record={"site": "model:" + kind, "tags": [ob]})
    if not quick and not broken:
        broken += ctx.leanchecker(["PPLV.Props.C15"])
    for b in broken:
        ctx.violation("proof obligation broken: " + b, {"obligation": b}, found_input=False)

    # ---- coverage
    digests, nontrivial, samples = set(), 0, []
    per_class = collections.Counter()
    for c in cases:
        per_class[c["class"]] += 1
        d = c["stat"].get("digest")
        if d is None or (c["class"], d) in digests:
            continue
        digests.add((c["class"], d))
        if int(c["stat"].get("dumps", "0")) >= 3 and int(c["stat"].get("lock", "0")) >= 1:
            nontrivial += 1
            if len(samples) < 3:
                samples.append(journal[c["line"]: c["line"] + 6])
    notes = {k: v for (cl, k), v in sums.items() if cl == "note"}
    rt = sum(v for (cl, k), v in sums.items() if k == "rt")
    lock = sum(v for (cl, k), v in sums.items() if k == "lock")
    harvested = collections.Counter(l.split("|", 1)[0] for l in journal if l.split("|", 1)[0] in ("st", "hdr", "bm", "dbm", "orm", "box", "enum"))
    ctx.cov.update({
        "evaluations": rt, "distinct_nontrivial": nontrivial,
        "rule": "one evaluation = one real ascii_dump -> ascii_load -> OK() -> re-dump comparison (receivers: default-constructed and "
                "objects with other prior content); cases are seeded histories (length %s) of one class, distinct by hash of the sequence "
                "of dumps; non-trivial = the history passed through >= 3 distinct dumps and at least one lock-step operation was compared "
                "between the original and a loaded twin" % args[args.index("--len") + 1] if "--len" in args else "replay",
        "samples": samples, "traces_validated_against_impl": len(cases),
        "histories": len(cases), "histories_per_class": dict(per_class),
        "lockstep_operations_compared": lock,
        "round_trips_per_class": {cl: v for (cl, k), v in sums.items() if k == "rt"},
        "original_objects_not_OK_skipped_OK_check": sum(v for (cl, k), v in sums.items() if k == "orig_not_ok"),
        "notes_batches_in_which_seen": notes,
        "status_states_reached": {cl: sorted(v) for cl, v in states.items()},
        "status_states_reached_count": {cl: len(v) for cl, v in states.items()},
        "failures_histogram": dict(fail_hist.most_common(60)),
        "known_finding_hits": dict(kf_hist),
        "crashes_in_the_original_history_not_judged": dict(crash_orig),
        "pip_failures_after_load_not_reproducible_alone_not_judged": dict(flaky_pip),
        "real_texts_checked_by_lean_model": n_ok, "real_texts_mismatch": len(mism),
        "real_texts_by_kind": dict(harvested),
        "tables": info,
        "model_switch": {t["key"]: ("as_written_round0" if any(r["minus"][0] == "nop" and r["test"][0] == "any" for r in t["rows"]) else "every_flag_cleared_on_minus") for t in tabs},
        "translator": "gen/c15_tables.py: %d classes, %d fields" % (len(tabs), sum(len(t["rows"]) for t in tabs)),
    })
    ctx.assumptions += [
        "the theorems are about the dump grammars (token order, keywords, separators, per-flag load actions, loader control flow); that the C++ "
        "implements these grammars is sampled: every real status line / header / matrix / box text of the histories is parsed and reprinted "
        "byte for byte by the Lean model, and the status loader's effect on receivers with prior flags is predicted from the regenerated table",
        "numbers are abstract tokens with a round-trip law in the matrix grammars (concrete codecs proved for dimension_type, mpz, mpz-or-+inf); "
        "mpq/double/float/int8/int32 number I/O is exercised on the real library only",
        "Polyhedron / Grid / shape / powerset / product / MIP / PIP bodies beyond the modelled sub-grammars are covered by the real round trips only",
        "'every internal state' of the C++ objects = the states reached by the seeded histories (reported per class in status_states_reached)",
    ]


def replay(ctx, path):
    """bin/check C15 --replay <file>: re-run the recorded history on the current tree and judge it again
    (prints VIOLATION / KNOWN-FINDING as a full run would; the evidence file is left alone)."""
    ctx.replay = path
    run(ctx)
    print("replayed %s: %d violation(s), %d known finding(s)" % (path, len(ctx.violations), len(ctx.known_hits)))
    return 1 if ctx.violations else 0
