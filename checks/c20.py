"""C20 — the C interface is a faithful, exception-tight wrapper of the C++ library.

 1. rebuild libppl / libppl_c from the working tree (the m4 templates regenerate interfaces/C/ppl_c_*.cc);
 2. translator gen/c20_table.py: clang AST of every TU of interfaces/C  ->  table of every extern "C"
    entry point  ->  lean/PPLV/Gen/CIfaceTable.lean (data) ; the theorems of PPLV/Props/C20.lean are
    re-checked against the regenerated table (lake build + axiom audit);
 3. the same predicates are evaluated in python over the same table to name the entry point /
    exception class that breaks a theorem; known findings of the unchanged tree are matched by narrow
    predicates (known_findings.json), anything else is a VIOLATION;
 4. harness harness/c20_ciface.cc (its call table generated from the same table by gen/c20_harness.py)
    runs on the real library: every entry point with well- and ill-formed arguments (calling protocol,
    const arguments unchanged, handles usable), every exception class thrown under every printer wrapper
    (verdicts by the native Lean driver pplv_c20 from `documentedCode`), memory exhaustion through a
    failing operator new / strdup, both timeouts, and a C++ oracle for ~45 operations x 13 domains.
"""
import hashlib, json, os, re, subprocess, sys, time

from checks import common
from checks.common import Lock, REPO, VERIF, BUILD, LEAN, sh

sys.path.insert(0, os.path.join(VERIF, "gen"))
import c20_table, c20_harness  # noqa: E402

LEVEL = "proof"
PROPS = "PPLV.Props.C20"

# ---------------------------------------------------------------- python mirror of PPLV/CIface/Model.lean
ANCESTORS = {
    "invalid_argument": ["logic_error", "exception"], "domain_error": ["logic_error", "exception"],
    "length_error": ["logic_error", "exception"], "out_of_range": ["logic_error", "exception"],
    "overflow_error": ["runtime_error", "exception"], "underflow_error": ["runtime_error", "exception"],
    "range_error": ["runtime_error", "exception"], "bad_alloc": ["exception"], "logic_error": ["exception"],
    "runtime_error": ["exception"], "exception": [], "timeout": [], "det_timeout": [], "unknown": [],
}
DOCUMENTED = {
    "bad_alloc": "PPL_ERROR_OUT_OF_MEMORY", "invalid_argument": "PPL_ERROR_INVALID_ARGUMENT",
    "domain_error": "PPL_ERROR_DOMAIN_ERROR", "length_error": "PPL_ERROR_LENGTH_ERROR",
    "out_of_range": "PPL_ERROR_LOGIC_ERROR", "logic_error": "PPL_ERROR_LOGIC_ERROR",
    "overflow_error": "PPL_ARITHMETIC_OVERFLOW", "underflow_error": "PPL_ERROR_INTERNAL_ERROR",
    "range_error": "PPL_ERROR_INTERNAL_ERROR", "runtime_error": "PPL_ERROR_INTERNAL_ERROR",
    "exception": "PPL_ERROR_UNKNOWN_STANDARD_EXCEPTION", "timeout": "PPL_TIMEOUT_EXCEPTION",
    "det_timeout": "PPL_TIMEOUT_EXCEPTION", "unknown": "PPL_ERROR_UNEXPECTED_ERROR",
}
DOC_VALUES = {"PPL_ERROR_OUT_OF_MEMORY": -2, "PPL_ERROR_INVALID_ARGUMENT": -3, "PPL_ERROR_DOMAIN_ERROR": -4,
              "PPL_ERROR_LENGTH_ERROR": -5, "PPL_ARITHMETIC_OVERFLOW": -6, "PPL_STDIO_ERROR": -7,
              "PPL_ERROR_INTERNAL_ERROR": -8, "PPL_ERROR_UNKNOWN_STANDARD_EXCEPTION": -9,
              "PPL_ERROR_UNEXPECTED_ERROR": -10, "PPL_TIMEOUT_EXCEPTION": -11, "PPL_ERROR_LOGIC_ERROR": -12}
RESET_OF = {"timeout": "reset_timeout", "det_timeout": "reset_deterministic_timeout"}
OBJ_OF_RESET = {"reset_timeout": "p_timeout_object", "reset_deterministic_timeout": "p_deterministic_timeout_object"}


def catches(clause, e):
    if clause["exc"] == "ellipsis":
        return True
    return clause["exc"] == e or clause["exc"] in ANCESTORS.get(e, [])


def dispatch(clauses, e):
    for c in clauses:
        if catches(c, e):
            return c
    return None


def ptr_tight(f, codes):
    """pointer-returning entry point: handlers catch every class, each notifies the documented code of its own
    class and returns the null pointer (mirror of PPLV.CIface.ptrTight)."""
    for c in f["catches"]:
        own = "unknown" if c["exc"] == "ellipsis" else c["exc"]
        if own not in DOCUMENTED:
            return False
        if not (c["wf"] and c["ret"] == "lit:0" and c["notifyBeforeRet"] and codes.get(c["notify"]) == DOC_VALUES[DOCUMENTED[own]]):
            return False
    return all(dispatch(f["catches"], e) is not None for e in ANCESTORS)


def tight(f, catch_all, codes):
    return (f["try"] and f["catches"] == catch_all) or (f["calls"] == 0 and f["throws"] == 0 and f["news"] == 0) \
        or (not f["retInt"] and f["try"] and ptr_tight(f, codes))


def diagnose(tab):
    """Evaluate the FULL property statements over the table; returns [(theorem, site, tags, what, extra)]."""
    out = []
    codes = tab["errorCodes"]
    ca = tab["catchAll"]
    E = tab["entries"]
    # error_codes_documented
    if list(codes.items()) != list(DOC_VALUES.items()):
        out.append(("error_codes_documented", "ppl_enum_error_code", ["error_code_values_changed"],
                    "enum ppl_enum_error_code is %s, documented %s" % (codes, DOC_VALUES), {}))
    # dispatch_correct
    for e in ANCESTORS:
        c = dispatch(ca, e)
        want = DOC_VALUES[DOCUMENTED[e]]
        if c is None:
            out.append(("dispatch_correct", "CATCH_ALL", ["escapes", e], "no clause of CATCH_ALL catches %s" % e, {"class": e}))
            continue
        got_ret = codes.get(c["ret"]) if c["ret"] else None
        got_not = codes.get(c["notify"]) if c["notify"] and c["notifyBeforeRet"] else None
        ok = c["wf"] and got_ret == want and got_not == want and c["reset"] == RESET_OF.get(e)
        if not ok:
            out.append(("dispatch_correct", "CATCH_ALL", ["wrong_clause_selected", e],
                        "an exception of class %s is handled by the clause `catch (%s)`: returns %s (%s), notifies %s, reset %s; documented code %s (%d)"
                        % (e, c["exc"], c["ret"], got_ret, c["notify"] if c["notifyBeforeRet"] else None, c["reset"], DOCUMENTED[e], want),
                        {"class": e, "clause": c}))
    # tightness (full statement: no retInt hypothesis)
    for f in E:
        if not tight(f, ca, codes):
            tags = ["no_try_block" if not f["try"] else "handlers_differ_from_CATCH_ALL",
                    "returns_int" if f["retInt"] else "no_try_block_non_int_return" if not f["try"] else "non_int_return"]
            out.append(("all_tight", f["name"], tags,
                        "%s (%s:%d) is not exception-tight: try block=%s, %d handlers (CATCH_ALL has %d), %d call-like nodes in the body"
                        % (f["name"], f["file"], f["line"], f["try"], len(f["catches"]), len(ca), f["calls"]), {}))
        # const handles
        for p in f["params"]:
            if p["kind"] == "constHandle":
                bad = [c for c in p["convs"] if c in ("to_nonconst", "pass_nonconst")]
                if bad or p["other"]:
                    out.append(("const_handles", f["name"], ["const_handle_misused"],
                                "%s: const handle parameter `%s` (%s) is used through %s, %d other uses"
                                % (f["name"], p["name"], p["type"], bad, p["other"]), {}))
        if f["constcast"]:
            out.append(("const_handles", f["name"], ["casts_away_const"],
                        "%s contains %d cast(s) that remove const" % (f["name"], f["constcast"]), {}))
        # Boolean answers
        for t in f["terns"]:
            if t["neg"] or t["t"] != 1 or t["e"] != 0:
                out.append(("bool_wrappers", f["name"], ["boolean_not_faithful"],
                            "%s: `c ? %d : %d` with negated=%s" % (f["name"], t["t"], t["e"], t["neg"]), {}))
        for r in f["rets"]:
            if r["k"] == "boolv" and r["neg"]:
                out.append(("bool_wrappers", f["name"], ["boolean_not_faithful"], "%s returns a negated bool" % f["name"], {}))
        # return convention
        for r in f["rets"]:
            okr = True
            if f["retConv"] == "status":
                okr = (r["k"] == "lit" and r["v"] == 0) or r["k"] in ("err", "delegate")
            elif f["retConv"] == "bool":
                okr = (r["k"] == "lit" and r["v"] in (0, 1)) or r["k"] in ("err", "delegate", "tern", "boolv")
            if not okr:
                out.append(("return_convention", f["name"], ["bad_return"], "%s returns %s" % (f["name"], r), {}))
        # silent error returns (full statement: only PPL_STDIO_ERROR)
        for r in f["rets"]:
            if r["k"] == "err" and not r.get("notified") and r["name"] != "PPL_STDIO_ERROR":
                tags = ["silent_error_return", r["name"]]
                site = f["name"]
                if f["name"].startswith("ppl_io_asprint_") and r["name"] == "PPL_ERROR_OUT_OF_MEMORY":
                    tags.append("strdup_failure_not_notified")
                    site = "ppl_io_asprint"
                out.append(("silent_errors", site, tags,
                            "%s returns %s directly, without calling the error handler" % (f["name"], r["name"]), {"entry": f["name"]}))
        # delete
        if f["kind"] == "delete":
            if f["deleteParams"] != [0] or not f["params"] or f["params"][0]["kind"] not in ("handle", "constHandle"):
                out.append(("delete_once", f["name"], ["delete_count"], "%s contains %d delete expression(s) on parameters %s"
                            % (f["name"], f["deletes"], f["deleteParams"]), {}))
        elif f["deletes"]:
            out.append(("delete_once", f["name"], ["delete_outside_delete_function"], "%s contains a delete expression" % f["name"], {}))
        # naming
        if f["promised"] and not any(m in f["callees"] for m in f["promised"]):
            out.append(("wraps_named_method", f["name"], ["wrong_callee"],
                        "%s promises a call of %s but calls %s" % (f["name"], f["promised"], f["callees"]), {}))
    dels = set(f["cls"] for f in E if f["kind"] == "delete")
    for f in E:
        if f["kind"] == "new" and f["cls"] not in dels:
            out.append(("new_has_delete", f["name"], ["no_delete_function"], "%s creates a %s but there is no ppl_delete_%s" % (f["name"], f["cls"], f["cls"]), {}))
    # timeouts
    for f in E:
        for a in f["arms"]:
            c = dispatch(ca, a["throws"]) if a["throws"] else None
            r = c["reset"] if c else None
            info = tab["resets"].get(r) if r else None
            ok = bool(info) and info["deletes"] == [a["object"]] and info["clearsFlag"]
            if not ok:
                out.append(("timeout_disarmed", f["name"], ["deterministic_timeout_not_disarmed" if "deterministic" in f["name"] else "timeout_not_disarmed"],
                            "%s stores the armed watchdog in %s and registers an exception of class %s; its handler calls %s, which deletes %s"
                            % (f["name"], a["object"], a["throws"], r, info["deletes"] if info else None), {}))
    if len(E) < 1800:
        out.append(("table_size", "table", ["table_too_small"], "only %d entry points found" % len(E), {}))
    return out


# ---------------------------------------------------------------- journal judgement
def fields(parts):
    d = {}
    for x in parts:
        if "=" in x:
            k, v = x.split("=", 1)
            d[k] = v
    return d


CRASH_KNOWN = [
    (re.compile(r"^ppl_\w+_Box_has_(upper|lower)_bound$"), "1", "Box_has_bound", "var_out_of_range_segv"),
    (re.compile(r"^ppl_(MIP|PIP)_Problem_constraint_at_index$"), "1", "constraint_at_index", "index_out_of_range_assert_abort"),
]


class Judge:
    def __init__(self, ctx, tab, repo, harness, seed):
        self.ctx, self.tab, self.repo, self.h, self.seed = ctx, tab, repo, harness, seed
        self.events = 0
        self.hashes = set()
        self.nontrivial = set()
        self.samples = []
        self.hist = {}
        self.cxx_crashes = []
        self.disp_lines = []
        self.reported = {}
        self.suppressed = 0
        self.cur_seed = seed

    def count(self, key):
        self.hist[key] = self.hist.get(key, 0) + 1

    def viol(self, what, site, tags, args, line):
        key = tags[0]
        if self.reported.get(key, 0) >= 3:          # same kind of failure on yet another entry point: count only
            if self.ctx.match_known({"site": site, "tags": tags}) is None:
                self.suppressed += 1
                return
        rep = {"entry_point": site, "harness_args": args, "observed": line, "repo": self.repo,
               "how": "VERIF_REPO=%s bin/check C20 --replay <this file>  (runs the harness with harness_args)" % self.repo}
        if self.ctx.violation(what, rep, found_input=True, record={"site": site, "tags": tags}):
            self.reported[key] = self.reported.get(key, 0) + 1

    def note(self, line, nontrivial):
        self.events += 1
        # sweep/disp ids are table positions (dropped); an oracle id names (domain, case, operation): with the seed
        # it identifies the random input, so it stays in the canonical form
        canon = line + " seed=%s" % self.cur_seed if line.startswith("orc ") else re.sub(r"^(\w+) \d+ ", r"\1 ", line)
        h = hashlib.sha256(canon.encode()).hexdigest()[:16]
        self.hashes.add(h)
        if nontrivial:
            self.nontrivial.add(h)
        if len(self.samples) < 12 and (nontrivial and len(self.samples) % 2 == 0 or len(self.hashes) % 997 == 1):
            self.samples.append(line)

    def sweep_line(self, line):
        p = line.split()
        d = fields(p[3:])
        name, mode = p[2], d["mode"]
        ret, hc, hcode = int(d["ret"]), int(d["hcalls"]), int(d["hcode"])
        args = ["--what", "sweep", "--only", name]
        self.note(line, ret < 0 or d["esc"] != "-")
        self.count("sweep mode=%s %s" % (mode, "ok" if ret >= 0 else "ret=%d" % ret))
        if d["esc"] != "-":
            tags = ["exception_escapes", d["esc"]]
            return self.viol("a C++ exception (%s) crossed the language boundary in %s (argument mode %s)" % (d["esc"], name, mode), name, tags, args, line)
        if ret < 0 and ret != -7 and not (hc == 1 and hcode == ret):
            return self.viol("%s returned %d but the error handler was called %d time(s) (last code %d)" % (name, ret, hc, hcode),
                             name, ["handler_not_notified"], args, line)
        if ret >= 0 and hc:
            return self.viol("%s returned %d (success) although the error handler was called with %d" % (name, ret, hcode), name, ["handler_without_error"], args, line)
        if ret < 0 and ret not in (-3, -7):
            return self.viol("%s returned the unexpected error code %d for %s arguments (dimension-incompatible or out-of-range arguments must give PPL_ERROR_INVALID_ARGUMENT)"
                             % (name, ret, "ill-formed" if mode == "1" else "well-formed"), name, ["unexpected_error_code"], args, line)
        if int(d["constchg"]):
            return self.viol("%s modified an object passed through a const handle" % name, name, ["const_handle_modified"], args, line)
        if int(d["unusable"]):
            tags = ["handle_unusable_after_call"]
            if name == "ppl_assign_PIP_Problem_from_PIP_Problem" and ret == 0:
                tags.append("solved_source_dst_not_OK")
            return self.viol("after %s returned %d an argument handle fails its OK() check" % (name, ret), name, tags, args, line)
        if int(d["delfail"]):
            return self.viol("a ppl_delete_* call failed after %s" % name, name, ["delete_failed"], args, line)
        if int(d["hout"]):
            return self.viol("the error handler was invoked outside the call under test around %s" % name, name, ["handler_outside"], args, line)

    def crash_line(self, line):
        p = line.split()
        self.events += 1
        if p[2] == "sweep":
            name, mode = p[4], fields(p[5:]).get("mode", "?")
            self.count("crash sweep")
            for rx, m, site, tag in CRASH_KNOWN:
                if rx.match(name) and mode == m:
                    return self.viol("%s: the process dies with %s on an out-of-range index instead of returning PPL_ERROR_INVALID_ARGUMENT" % (name, p[1]),
                                     site, [tag], ["--what", "sweep", "--only", name], line)
            return self.viol("%s: the process dies with %s (argument mode %s)" % (name, p[1], mode), name, ["crash", p[1]],
                             ["--what", "sweep", "--only", name], line)
        if p[2] == "oracle":
            d = fields(p[5:])
            if d.get("side") in ("cxx", "cxx_post"):
                self.cxx_crashes.append(line)          # the C++ operation itself crashes: not the wrapper's doing
                self.count("oracle: C++ library crash (%s %s)" % (p[3], p[4]))
                return
            site, tags = "ppl_%s_%s" % (p[3], p[4]), ["crash", p[1]]
            if p[4] == "remove_higher_space_dimensions" and "Grid" in p[3]:
                # Grid::remove_higher_space_dimensions with minimized generators corrupts the grid (KF-C05-14); whether the
                # C++ clone or the C handle trips over the corrupted object first is not deterministic
                site, tags = "Grid_remove_higher_space_dimensions", ["crash", "grid_remove_higher_dims_corrupts_object"]
            return self.viol("ppl_%s_%s: %s in the C entry point (or right after it) while the C++ operation on a clone completed" % (p[3], p[4], p[1]),
                             site, tags, ["--what", "oracle", "--seed", d.get("seed", "1")], line)
        return self.viol("harness child died: " + line, " ".join(p[2:4]), ["crash", p[1]], ["--what", p[2]], line)

    def oom_line(self, line):
        p = line.split()
        name, d = p[1], fields(p[2:])
        ret, hc, hcode = int(d["ret"]), int(d["hcalls"]), int(d["hcode"])
        self.note(line, True)
        self.count("oom %s" % ("ok" if ret >= 0 else "ret=%d" % ret if d["esc"] == "-" else "escape"))
        args = ["--what", "faults"]
        if d["esc"] != "-":
            tags = ["exception_escapes", d["esc"]]
            f = [x for x in self.tab["entries"] if x["name"] == name]
            if f and not f[0]["try"] and not f[0]["retInt"]:
                tags.append("no_try_block_non_int_return")
            return self.viol("memory exhaustion inside %s (operator new failing at allocation %s): %s crosses the language boundary" % (name, d["k"], d["esc"]),
                             name, tags, args, line)
        if ret >= 0:
            return
        fe = [x for x in self.tab["entries"] if x["name"] == name]
        if fe and not fe[0]["retInt"] and ret == -1 and hc == 1 and hcode == -2:
            return          # pointer-returning entry point: null pointer after one handler call with PPL_ERROR_OUT_OF_MEMORY
        if not (ret == -2 and hc == 1 and hcode == -2):
            return self.viol("memory exhaustion inside %s: returned %d, handler called %d time(s) with %d; documented PPL_ERROR_OUT_OF_MEMORY (-2) after one handler call"
                             % (name, ret, hc, hcode), name, ["oom_wrong_report"], args, line)
        if d["usable"] != "1":
            return self.viol("after memory exhaustion inside %s the handle fails OK()" % name, name, ["handle_unusable_after_call"], args, line)

    def strdup_line(self, line):
        p = line.split()
        name, d = p[1], fields(p[2:])
        self.note(line, True)
        ret, hc = int(d["ret"]), int(d["hcalls"])
        self.count("strdup ret=%d hcalls=%d" % (ret, hc))
        if ret == -2 and hc == 0:
            return self.viol("%s: a failed strdup is reported as PPL_ERROR_OUT_OF_MEMORY without invoking the error handler" % name,
                             "ppl_io_asprint", ["silent_error_return", "strdup_failure_not_notified"], ["--what", "faults"], line)
        if not (ret == -2 and hc == 1):
            return self.viol("%s with a failing strdup returned %d (handler calls %d)" % (name, ret, hc), name, ["oom_wrong_report"], ["--what", "faults"], line)

    def timeout_line(self, line):
        p = line.split()
        kind, d = p[1], fields(p[2:])
        self.note(line, True)
        site = "ppl_set_deterministic_timeout" if kind == "det" else "ppl_set_timeout"
        ret, hc, hcode = int(d["ret"]), int(d["hcalls"]), int(d["hcode"])
        self.count("timeout %s ret=%d same=%s fresh=%s" % (kind, ret, d["same"], d["fresh"]))
        args = ["--what", "timeouts"]
        if not (ret == -11 and hc == 1 and hcode == -11):
            return self.viol("%s: the interrupted computation returned %d (handler calls %d, code %d); documented PPL_TIMEOUT_EXCEPTION (-11) after one handler call"
                             % (site, ret, hc, hcode), site, ["timeout_wrong_report"], args, line)
        if int(d["same"]) < 0 or int(d["fresh"]) < 0:
            return self.viol("after the %s timeout expired, later calls keep failing (is_empty on the interrupted handle: %s, operation on a fresh object: %s) until the client resets the timeout"
                             % ("deterministic" if kind == "det" else "wall-clock", d["same"], d["fresh"]), site,
                             ["deterministic_timeout_not_disarmed" if kind == "det" else "timeout_not_disarmed"], args, line)
        if int(d["afterreset"]) < 0:
            return self.viol("%s: still failing after an explicit reset (%s)" % (site, d["afterreset"]), site, ["timeout_not_disarmed"], args, line)

    def orc_line(self, line):
        p = line.split()
        dom, op, d = p[2], p[3], fields(p[4:])
        self.note(line, True)
        self.count("oracle %s" % ("C++ threw" if d["cxx"].startswith("exc") else "compared"))
        if d["same"] != "1":
            name = "ppl_%s_%s" % (dom, op)
            why = p[-1] if not p[-1].startswith("same=") else "?"
            self.viol("%s disagrees with the C++ operation on a clone (%s): C returned %s, C++ %s" % (name, why, d["c"], d["cxx"]), name,
                      ["oracle_disagreement", why], ["--what", "oracle", "--seed", str(self.seed)], line)

    def run_lines(self, text):
        for line in text.splitlines():
            if not line:
                continue
            k = line.split(" ", 1)[0]
            if k == "sweep":
                self.sweep_line(line)
            elif k == "crash":
                self.crash_line(line)
            elif k == "disp":
                self.disp_lines.append(line)
            elif k == "oom":
                self.oom_line(line)
            elif k == "strdup":
                self.strdup_line(line)
            elif k == "timeout":
                self.timeout_line(line)
            elif k == "orc":
                self.orc_line(line)
            elif k in ("end", "oomsum"):
                self.count(line if k == "end" else "oomsum")

    def judge_disp(self, drv, work):
        if not self.disp_lines:
            return
        jp = os.path.join(work, "disp.txt")
        with open(jp, "w") as f:
            f.write("\n".join(self.disp_lines) + "\n")
        rc, out, err = self.ctx.run([drv], stdin_path=jp, timeout=120)
        if rc != 0:
            self.ctx.fatal("pplv_c20 failed: %s" % (err or "")[:500])
        by_id = {l.split()[1]: l for l in self.disp_lines}
        for v in out.splitlines():
            w = v.split()
            if not w:
                continue
            line = by_id.get(w[1], "")
            if w[0] == "ok":
                self.note(line, True)
                self.count("dispatch ok")
            elif w[0] == "skip":
                self.events += 1
                self.count("dispatch not thrown")
            elif w[0] == "MISMATCH":
                self.note(line, True)
                p = line.split()
                name, cls = p[2], p[3]
                esc = "escaped=" in v
                args = ["--what", "dispatch", "--only", name] if int(w[1]) < 1000000 else ["--what", "oracle", "--seed", str(self.seed)]
                self.viol("%s: an exception of class %s thrown under the wrapper %s — %s" % (
                    name, cls, "crosses the language boundary" if esc else "is not reported as documented", " ".join(w[3:])),
                    name, ["exception_escapes" if esc else "wrong_error_code", cls], args, line)


# ---------------------------------------------------------------- the check
def build_c_interface(ctx):
    # libppl, then `make -C interfaces/C SUBDIRS=.`: the m4 templates regenerate ppl_c_*.cc, ppl_c.h
    ctx.ensure_ppl(c_interface=True)


def translate(ctx, prove=True):
    """regenerate table + Lean data (+ harness call table); returns (tab, broken, inc_path, inc_hash)."""
    with Lock("c20"):
        tt = time.time()
        tab = c20_table.build_table(REPO, jobs=4)
        text, strs = c20_table.emit_lean(tab)
        changed = c20_table.write_if_changed(os.path.join(LEAN, "PPLV", "Gen", "CIfaceTable.lean"), text)
        with open(os.path.join(BUILD, "c20_table.json"), "w") as f:
            json.dump(tab, f, sort_keys=True)
        ctx.cov["translator_s"] = round(time.time() - tt, 1)
        ctx.cov["translator_cache_hits"] = "%d/%d TUs" % (tab["cacheHits"], tab["tus"])
        ctx.cov["lean_table_rewritten"] = changed
        broken = []
        if prove:
            tp = time.time()
            broken = ctx.prove([PROPS])
            ctx.cov["prove_s"] = round(time.time() - tp, 1)
            if not broken:
                verdicts, bad = audit_verdicts(ctx)
                ctx.cov["full_strength_verdicts"] = verdicts
                broken += bad
            if ctx.tier == "thorough":
                broken += ctx.leanchecker([PROPS])
        inc_path, inc_hash = c20_harness.write(tab, os.path.join(BUILD, "c20gen"))
    return tab, broken, inc_path, inc_hash


VERDICTS = {"all_tight_verdict": "all_tight", "silent_errors_verdict": "silent_errors",
            "timeout_disarmed_verdict": "timeout_disarmed"}


def audit_verdicts(ctx):
    """The three clauses the unchanged tree violates are `Verdict P` definitions that check on either side of the
    repair; ask Lean which constructor each one is, and audit its axioms."""
    audit = os.path.join(BUILD, "audit_c20v_%d.lean" % os.getpid())
    with open(audit, "w") as f:
        f.write("import %s\n" % PROPS)
        for v in VERDICTS:
            f.write("#print axioms C20.%s\n#eval IO.println (\"verdict %s \" ++ C20.%s.name)\n" % (v, v, v))
    r = sh(["lake", "env", "lean", audit], cwd=LEAN)
    os.unlink(audit)
    out = r.stdout.replace("\n", " ")
    res, bad = {}, []
    for v in VERDICTS:
        ctx.obligations += 1
        ctx.obligation_names.append("C20." + v)
        m = re.search(r"verdict %s (holds|fails)" % v, out)
        ax = re.search(r"'C20\.%s' depends on axioms: \[([^\]]*)\]" % v, out)
        axs = set(a.strip() for a in ax.group(1).split(",")) if ax else (set() if "'C20.%s' does not depend" % v in out else None)
        if not m or axs is None:
            bad.append("no verdict for C20." + v)
        elif not axs <= common.ALLOWED_AXIOMS:
            bad.append("C20.%s uses %s" % (v, sorted(axs - common.ALLOWED_AXIOMS)))
        else:
            ctx.discharged += 1
            res[VERDICTS[v]] = m.group(1)
    return res, bad


def harness_binary(ctx, inc_path, inc_hash):
    flags = ("-I" + os.path.dirname(inc_path), "-DC20_GEN_HASH=0x%s" % inc_hash)
    tc = time.time()
    hbin = ctx.compile_harness("c20_ciface.cc", flags=flags, c_iface=True, opt="-O0")
    ctx.cov["harness_compile_s"] = round(time.time() - tc, 1)
    return hbin


def replay(ctx, path):
    """bin/check C20 --replay <file>: re-run the recorded failing case on the current tree."""
    rp = json.load(open(path))
    print("property=%s what=%s" % (rp.get("property"), rp.get("what")), flush=True)
    build_c_interface(ctx)
    tab, _, inc_path, inc_hash = translate(ctx, prove=False)
    if rp.get("theorem") and not rp.get("harness_args"):
        thm = rp["theorem"].split(".")[-1]
        hits = [d for d in diagnose(tab) if d[0] == thm and (rp.get("entry_point") in (d[1], d[4].get("entry")) or d[4].get("class") == rp.get("class"))]
        for d in hits[:3]:
            print("  still fails: C20.%s: %s" % (d[0], d[3]))
        if hits:
            print("VIOLATION property=C20 replay=%s" % path)
            return 1
        print("C20.%s holds for %s on the regenerated table" % (thm, rp.get("entry_point")))
        return 0
    hbin = harness_binary(ctx, inc_path, inc_hash)
    drv = ctx.ensure_pplv("pplv_c20")
    work = ctx.workdir()
    a = list(rp.get("harness_args") or ["--what", "all"])
    if "--seed" not in a:
        a += ["--seed", str(rp.get("seed", ctx.seed))]
    jp = os.path.join(work, "journal.txt")
    ctx.run([hbin] + a, stdout_path=jp, timeout=1500)
    J = Judge(ctx, tab, REPO, hbin, int(rp.get("seed", ctx.seed)))
    J.run_lines(open(jp).read())
    J.judge_disp(drv, work)
    print("re-ran: c20_ciface %s -> %d events, %d violation(s), %d known finding(s)" % (" ".join(a), J.events, len(ctx.violations), len(ctx.known_hits)))
    return 1 if ctx.violations else 0


def theorem_at(lines, lineno):
    name = None
    for i, l in enumerate(lines[:lineno], 1):
        m = re.match(r"\s*(?:private\s+)?theorem\s+(\S+)", l)
        if m:
            name = m.group(1)
        elif re.match(r"\s*example\b", l):
            name = "example@%d" % i
    return name


def run(ctx):
    t0 = time.time()
    build_c_interface(ctx)
    seed = ctx.seed
    tab, broken, inc_path, inc_hash = translate(ctx)
    E = tab["entries"]
    ctx.cov.update(entry_points=len(E), translation_units=len(tab["files"]), catch_all_clauses=len(tab["catchAll"]),
                   error_codes=len(tab["errorCodes"]), try_blocks=sum(1 for f in E if f["try"]),
                   const_handle_params=sum(1 for f in E for p in f["params"] if p["kind"] == "constHandle"),
                   boolean_ternaries=sum(len(f["terns"]) for f in E), naming_promises=sum(1 for f in E if f["promised"]),
                   by_kind={k: sum(1 for f in E if f["kind"] == k) for k in ("new", "delete", "assign", "method", "io", "global")})

    # ---- cross-check of the table against the shared object the harness links with
    so = os.path.join(REPO, "interfaces", "C", ".libs", "libppl_c.so")
    r = sh(["nm", "-D", "--defined-only", so])
    syms = set(l.split()[2] for l in r.stdout.splitlines() if len(l.split()) == 3 and l.split()[1] in "TW" and l.split()[2].startswith("ppl_"))
    names = set(f["name"] for f in E)
    ctx.cov["exported_symbols"] = len(syms)
    if syms != names:
        ctx.violation("the entry-point table and the exported text symbols of libppl_c.so differ: only in library %s, only in table %s"
                      % (sorted(syms - names)[:5], sorted(names - syms)[:5]), {"entry_point": "table", "repo": REPO}, found_input=True,
                      record={"site": "table", "tags": ["table_incomplete"]})
    for n in tab["declaredNotDefined"]:
        ctx.violation("%s is declared (and documented) in ppl_c.h but defined nowhere in interfaces/C: any client calling it fails to link" % n,
                      {"entry_point": n, "repo": REPO}, found_input=True, record={"site": n, "tags": ["declared_not_defined"]})

    # ---- which entry point / class breaks which statement (python over the same table)
    diag = diagnose(tab)
    ctx.cov["full_statement_failures"] = len(diag)
    demo = []
    static_reported, static_suppressed = {}, 0
    diag_theorems = set()
    seen = set()
    for thm, site, tags, what, extra in diag:
        diag_theorems.add(thm)
        key = (thm, site, tuple(tags[:1]))
        if key in seen and site in ("ppl_io_asprint",):
            continue
        seen.add(key)
        kind = (thm, tuple(tags[:1]))
        if static_reported.get(kind, 0) >= 3 and ctx.match_known({"site": site, "tags": tags}) is None:
            static_suppressed += 1
            continue
        rep = {"theorem": "C20." + thm, "entry_point": extra.get("entry", site), "repo": REPO, "source": "table regenerated from the clang AST"}
        rep.update({k: v for k, v in extra.items() if k != "entry"})
        if ctx.violation("C20.%s fails on the regenerated table: %s" % (thm, what), rep, found_input=True, record={"site": site, "tags": tags}):
            demo.append((thm, site))
            static_reported[kind] = static_reported.get(kind, 0) + 1

    # ---- Lean's verdict on the three finding-tied clauses must agree with the table search
    for clause, v in (ctx.cov.get("full_strength_verdicts") or {}).items():
        py_fails = clause in diag_theorems
        if (v == "fails") != py_fails:
            ctx.violation("Lean proves that C20.%s %s on the regenerated table but the table search %s a failing entry point"
                          % (clause, v, "found" if py_fails else "did not find"), {"theorem": "C20." + clause, "repo": REPO}, found_input=False)

    # ---- a theorem that no longer checks although python finds nothing wrong
    if broken:
        src = open(os.path.join(LEAN, "PPLV", "Props", "C20.lean")).read().splitlines()
        log = ctx.cov.get("lake_log_tail", "") + "\n".join(broken)
        bad = set()
        for m in re.finditer(r"Props/C20\.lean:(\d+):\d+: error", log):
            t = theorem_at(src, int(m.group(1)))
            if t:
                bad.add(t)
        ctx.cov["broken_obligations"] = sorted(bad) or broken[:3]
        repaired = []
        others = sorted(bad)
        explained = set()
        for t in others:
            base = t.replace("_partial", "").replace("'", "")
            if base in diag_theorems or (base in ("boundary", "untried_cannot_throw") and "all_tight" in diag_theorems) \
                    or (base in ("catch_all_total", "boundary") and "dispatch_correct" in diag_theorems) \
                    or t.startswith("example@"):
                explained.add(t)
        for t in repaired:
            ctx.notes.append("theorem C20.%s no longer holds: the finding it records seems repaired; drop it and promote the _partial statement" % t)
            print("  note: C20.%s no longer holds on this tree (known finding repaired?)" % t, flush=True)
        unexplained = [t for t in others if t not in explained]
        if (unexplained or (not bad and not repaired)) and not ctx.violations:
            ctx.violation("proof obligations of %s no longer check (%s) and no failing entry point was found by the table search: %s"
                          % (PROPS, ", ".join(unexplained) or "build failure", " | ".join(broken)[:400]),
                          {"theorems": sorted(unexplained), "log": log[-1500:], "repo": REPO}, found_input=False)
        elif unexplained:
            print("  note: also broken: %s" % ", ".join(unexplained), flush=True)

    # ---- the real library
    hbin = harness_binary(ctx, inc_path, inc_hash)
    drv = ctx.ensure_pplv("pplv_c20")
    work = ctx.workdir()
    J = Judge(ctx, tab, REPO, hbin, seed)
    cases = 40 if ctx.tier == "quick" else 600
    runs = [["--what", "sweep"], ["--what", "dispatch"], ["--what", "faults"], ["--what", "timeouts"],
            ["--what", "oracle", "--seed", str(seed), "--cases", str(cases)]]
    if ctx.tier == "thorough":
        for s in range(1, 6):
            runs.append(["--what", "oracle", "--seed", str(seed * 100 + s), "--cases", str(cases)])
    th = time.time()
    for i, a in enumerate(runs):
        if "--seed" not in a:
            a = a + ["--seed", str(seed)]
        jp = os.path.join(work, "journal%d.txt" % i)
        rc, _, err = ctx.run([hbin] + a, stdout_path=jp, timeout=1500)
        if rc != 0:
            ctx.violation("the harness %s died (rc %s): %s" % (" ".join(a), rc, (err or "")[-300:]),
                          {"harness_args": a, "repo": REPO}, found_input=True, record={"site": "harness", "tags": ["harness_died"]})
        J.cur_seed = a[a.index("--seed") + 1]
        J.run_lines(open(jp).read())
    J.judge_disp(drv, work)
    ctx.cov["harness_run_s"] = round(time.time() - th, 1)

    # every entry point must have been called by the sweep, by cleanup (delete) or by hand-written code
    ctx.cov.update(
        evaluations=J.events, distinct_nontrivial=len(J.nontrivial), distinct_events=len(J.hashes),
        rule="an event is one call of an entry point (or one oracle comparison); non-trivial = the call took an error path "
             "(negative code, exception thrown under the wrapper, injected fault, timeout) or its result was compared with the C++ "
             "operation on a clone; distinct by sha256 of the journal line without its sequence number",
        samples=J.samples, harness_histogram=dict(sorted(J.hist.items())),
        traces_validated_against_impl=len([1 for k in J.hist if k.startswith("dispatch ok")]) and J.hist.get("dispatch ok", 0),
        further_failures_of_an_already_reported_kind=J.suppressed + static_suppressed,
        cxx_library_crashes_seen_by_oracle=len(J.cxx_crashes), cxx_library_crash_samples=J.cxx_crashes[:4],
        theorem_count=len(ctx.obligation_names), notes=ctx.notes, total_s=round(time.time() - t0, 1),
        level_note="proof over the regenerated table (tightness, dispatch, constness, Boolean convention, delete, naming); "
                   "faithfulness of results = correspondence (oracle on 13 domains x ~45 operations + protocol sweep over every entry point)")
    ctx.assumptions += [
        "clang++-14's AST of the TU equals what g++ compiled (same flags except optimisation)",
        "catch handlers themselves do not throw (notify_error calls a C callback; e.what() and the reset functions are noexcept in practice)",
        "the std::exception hierarchy is the ISO one; PPL throws only the modelled classes",
        "naming table gen/c20_naming.json states which C++ callee a name promises",
    ]
