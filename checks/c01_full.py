"""C01/C02 integration stage — ONE executable model of the whole `Polyhedron` object (helper of checks/c01.py).

proof:  PPLV.Props.C01Full — the full model (lean/PPLV/PolyFull/*.lean: rows + status word + sat_c / sat_g, the
        private helpers of Polyhedron_nonpublic.cc calling the engine model PPLV/Conv where the C++ calls
        conversion / simplify, the row-level operators of PPLV/PolyOps after the preparation the C++ performs)
        refines the verified reference operators of PPLV/Lin/Ops*.lean on the denoted set, GIVEN the conversion
        contract `ConvContract`; by induction every observer answer after any history is the reference's answer.
tie:    harness/c01_full.cc builds polyhedra in every lazy state and runs HISTORIES of 4-10 public calls
        (observers between mutators, the converting ones included), journalling after every call the RAW state
        (`#define private public`): con_sys / gen_sys rows with pending rows, index_first_pending, sorted flags,
        status word, sat_c, sat_g, and the observer's answer.  The native driver pplv_polyfull runs the model
        from the initial raw state through the whole history and demands, after EVERY step, the same dimension,
        status word, rows IN ORDER (every description the real status declares up to date, `sort_rows` /
        `obtain_sorted_*` / `merge_rows_assign` / `remove_row` swaps included — nothing is compared as a
        multiset), index_first_pending, sorted flags, saturation matrices (those flagged up to date) and answers.
        In parallel a reference world (K1) follows the history; every real post-state and answer is judged
        against it (sem=ok / noref / BAD).
verdicts: a difference with sem=BAD (or a step whose rows agree but whose set / answer is wrong) is a violation of
        C01/C02 with the history as replay; a difference with the sets right is a broken correspondence
        (VIOLATION ... no-failing-input-found).
"""
import collections, concurrent.futures as cf, hashlib, os, shutil, time
from .common import BUILD

PROPS = ["PPLV.Props.C01Full"]


def _run_histories(ctx, h, drv, wd, tag, first, last, nproc=14, maxdim=3, maxlen=10, chunk=25, chunk_timeout=240,
                   deadline_s=840):
    """Harness on `nproc` ranges, then the journal is cut into chunks of `chunk` histories and one driver runs per
    chunk (thread pool).  A chunk that exceeds `chunk_timeout`, or that would start after `deadline_s`, is NOT an
    error: the verdicts it has written so far are kept, its remaining histories are counted as skipped.
    -> (histories by id, verdict lines, stats)"""
    per = max(1, (last - first + nproc - 1) // nproc)
    jobs = [(a, min(last, a + per)) for a in range(first, last, per)]

    def gen(j):
        a, b = j
        jp = os.path.join(wd, "%s-%d.journal" % (tag, a))
        cmd = [h, "--seed", str(ctx.seed), "--first", str(a), "--last", str(b), "--batch", "20",
               "--maxdim", str(maxdim), "--maxlen", str(maxlen)]
        rc, _, err = ctx.run(cmd, stdout_path=jp, timeout=1800)
        if rc != 0:
            ctx.fatal("harness c01_full failed rc=%s %s" % (rc, (err or "")[-400:]))
        return open(jp).read().splitlines()

    hist, order = {}, []
    with cf.ThreadPoolExecutor(nproc) as ex:
        for jl in ex.map(gen, jobs):
            cur = None
            for l in jl:
                if l.startswith("begin "):
                    cur = l.split()[1]
                    hist[cur] = [l]
                    order.append(cur)
                elif cur is not None:
                    hist[cur].append(l)
    chunks = [order[k:k + chunk] for k in range(0, len(order), chunk)]
    t0 = time.time()
    stats = collections.Counter()

    def work(idx):
        ids = chunks[idx]
        if time.time() - t0 > deadline_s:
            return ids, [], "deadline"
        cp = os.path.join(wd, "%s-chunk%d.txt" % (tag, idx))
        op = os.path.join(wd, "%s-chunk%d.out" % (tag, idx))
        with open(cp, "w") as f:
            for i in ids:
                f.write("\n".join(hist[i]) + "\n")
        rc, _, err = ctx.run([drv, "--resync"], stdin_path=cp, stdout_path=op, timeout=chunk_timeout)
        raw = open(op).read() if os.path.exists(op) else ""
        out = raw.splitlines()
        if rc == -999:
            if raw and not raw.endswith("\n"):
                out = out[:-1]          # a line cut in the middle
            return ids, out, "timeout"
        if rc != 0:
            ctx.fatal("driver pplv_polyfull failed rc=%s %s" % (rc, (err or "")[-400:]))
        return ids, out, "done"

    verdicts = []
    with cf.ThreadPoolExecutor(nproc) as ex:
        for ids, out, how in ex.map(work, range(len(chunks))):
            verdicts += out
            stats["chunks_" + how] += 1
            if how != "done":
                ended = {l.split()[1] for l in out if l.startswith(("ok ", "exc ", "skip "))}
                left = [i for i in ids if i not in ended]
                stats["histories_skipped_" + how] += len(left)
                for i in left:
                    hist.pop(i, None)       # not judged: neither ok nor crashed
    stats["chunks"] = len(chunks)
    return hist, verdicts, stats


def _kv(toks, key):
    return next((x[len(key):] for x in toks if x.startswith(key)), "")


def run(ctx):
    """returns the list of broken proof obligations (the caller reports them)."""
    broken = ctx.prove(PROPS)
    quick = ctx.tier == "quick"
    if not quick:
        broken += ctx.leanchecker(PROPS)
    drv = ctx.ensure_pplv("pplv_polyfull")
    h = ctx.compile_harness("c01_full.cc")
    wd = os.path.join(BUILD, "run-%s-full-%d" % (ctx.pid, os.getpid()))
    shutil.rmtree(wd, ignore_errors=True)
    os.makedirs(wd)
    n_hist = 420 if quick else 5000
    t0 = time.time()
    hist, verdicts, rstats = _run_histories(ctx, h, drv, wd, "main", 0, n_hist, chunk=15 if quick else 25,
                                            chunk_timeout=120 if quick else 240, deadline_s=150 if quick else 780)
    t_run = time.time() - t0
    n_skipped = rstats.get("histories_skipped_timeout", 0) + rstats.get("histories_skipped_deadline", 0)
    if n_skipped:
        print("  note: full Polyhedron model: %d of %d histories not judged (driver chunk over its time budget: %d, started after "
              "the deadline: %d) - counted as skipped, not an alarm" % (n_skipped, n_hist, rstats.get("chunks_timeout", 0),
                                                                       rstats.get("chunks_deadline", 0)), flush=True)

    per_op = collections.defaultdict(collections.Counter)
    trans = collections.Counter()
    lens = collections.Counter()
    dims = collections.Counter()
    sem = collections.Counter()
    excs = collections.Counter()
    n_steps = n_hist_ok = n_conv = 0
    distinct = set()
    bad = collections.defaultdict(list)        # (op, kind) -> [(hid, k, line)]
    for l in verdicts:
        t = l.split()
        if not t:
            continue
        if t[0] == "s":
            n_steps += 1
            op, pre, post = t[3], _kv(t, "pre="), _kv(t, "post=")
            per_op[op]["steps"] += 1
            per_op[op]["nnc" if _kv(t, "nnc=") == "1" else "closed"] += 1
            # a step after which both descriptions are minimized although they were not before, or that
            # consumed pending rows, or that discovered emptiness, ran the engine
            conv = (post[3:5] == "11" and pre[3:5] != "11") or (pre[7:9] != "00" and post[7:9] == "00") or \
                   (pre[0] == "0" and post[0] == "1" and pre[1:3] != "00")
            if conv:
                n_conv += 1
                per_op[op]["engine_ran"] += 1
            trans[(pre, post)] += 1
            dims[_kv(t, "dim=")] += 1
            s = _kv(t, "sem=")
            sem[s] += 1
        elif t[0] == "ok":
            n_hist_ok += 1
            lens[_kv(t, "steps=")] += 1
            hl = hist.get(t[1])
            if hl:
                distinct.add(hashlib.sha256("\n".join(x.split(" S ")[0] for x in hl).encode()).hexdigest()[:16])
        elif t[0] == "exc":
            excs[" ".join(t[3:6])] += 1
            if not (len(t) > 4 and t[3] == "add_generator" and t[4] == "invalid_argument"):
                bad[(t[3] if len(t) > 3 else "?", "exception")].append((t[1], t[2] if len(t) > 2 else "?", l))
        elif t[0] == "MISMATCH":
            hid, k, op, kind = (t + ["?"] * 5)[1:5]
            if kind == "crash" or op == "?":
                bad[("?", "crash")].append((hid, k, l))
            elif "sem=BAD" in l:
                bad[(op, "set_wrong")].append((hid, k, l))
            else:
                bad[(op, "rows_differ")].append((hid, k, l))
    # histories that began but neither ended nor were reported (harness crash inside the history)
    for hid, hl in hist.items():
        if any(x.startswith("crash ") for x in hl):
            bad[("?", "crash")].append((hid, "?", hl[-1]))

    for (op, kind), lst in sorted(bad.items()):
        hid, k, line = lst[0]
        hl = hist.get(hid, [])
        site = "full:" + op
        cmd = "harness c01_full --seed %d --first %s --last %s | pplv_polyfull --resync" % (
            ctx.seed, hid, (int(hid) + 1) if hid.isdigit() else hid)
        if kind == "set_wrong":
            what = ("full Polyhedron model, step %s (%s) of history %s: the real state / answer does not agree with the verified "
                    "reference operator applied to the denoted set | %s" % (k, op, hid, line[:600]))
            found = True
        elif kind == "crash":
            what = "full Polyhedron model: the library dies inside history %s | %s" % (hid, line[:300])
            found = True
        elif kind == "exception":
            what = "full Polyhedron model: %s throws on valid arguments in history %s | %s" % (op, hid, line[:300])
            found = True
        else:
            what = ("full Polyhedron model, step %s (%s) of history %s: the raw state after the call (rows in order / status / "
                    "saturation matrices / sorted flags / answer) differs from the code-shaped model (%d such steps); the sets "
                    "judged with K1 are right: broken correspondence | %s" % (k, op, hid, len(lst), line[:700]))
            found = False
        ctx.violation(what, {"history": hl, "driver": "pplv_polyfull", "verdict": line, "site": site, "replay_cmd": cmd},
                      found_input=found, record={"site": site, "tags": [kind]})

    ctx.cov["full_model"] = {
        "histories": n_hist, "histories_judged": len(hist), "histories_replayed_to_the_end": n_hist_ok,
        "skipped_timeout": rstats.get("histories_skipped_timeout", 0), "skipped_deadline": rstats.get("histories_skipped_deadline", 0),
        "driver_chunks": {k: v for k, v in rstats.items() if k.startswith("chunks")}, "steps_identical_to_model": n_steps,
        "steps_in_which_the_engine_ran": n_conv, "harness_and_driver_wall_s": round(t_run, 1),
        "distinct_histories": len(distinct),
        "mismatches": {"%s:%s" % k: len(v) for k, v in sorted(bad.items())},
        "reference_judgement": dict(sem),
        "exceptions": dict(excs),
        "history_length_histogram": dict(sorted(lens.items(), key=lambda kv: int(kv[0]) if kv[0].isdigit() else 0)),
        "dimension_histogram": dict(dims),
        "per_operation": {op: dict(c) for op, c in sorted(per_op.items())},
        "status_transitions_seen": len(trans),
        "most_frequent_status_transitions": ["%s->%s:%d" % (a, b, n) for (a, b), n in trans.most_common(12)],
        "rule": "three polyhedra per history (C or NNC, dimension 0-3, results up to 4-5), each built in one of 7 lazy states; 4-10 "
                "public calls drawn from 31 (is_empty, constraints, generators, minimized_*, contains, ==, relation_with(g), bounds, "
                "max/min, add_constraint, refine_with_constraint, add_generator, affine_(pre)image, generalized_affine_image (all relation symbols), bounded_affine_image, "
                "add_space_dimensions_*, remove_(higher_)space_dimensions, unconstrain, topological_closure_assign, intersection, "
                "poly_hull, time_elapse, concatenate, copy, expand_space_dimension, fold_space_dimensions, map_space_dimensions "
                "(permutations and empty codomain)); a receiver already marked empty is taken less often; identical = dimension, 9 status flags, rows IN ORDER with "
                "index_first_pending and sorted flag of every up-to-date description, sat_c / sat_g when flagged up to date, "
                "observer answer, after every step, the model never re-seeded before the first difference; status word = "
                "E CU GU CM GM SC SG CP GP",
    }
    ctx.assumptions += [
        "full Polyhedron model: stale members (a system or matrix whose status flag is off) are not compared; the MIP_Problem "
        "call inside strongly_minimize_constraints is replaced by K1's supB on the same system; exceptions end a history; NOT in "
        "the model: poly_difference_assign, "
        "simplify_using_context_assign, the system-valued add_constraints / add_generators / refine_with_constraints, "
        "relation_with(Constraint), the general (non-permutation) case of map_space_dimensions",
        "full Polyhedron model, theorems (Props/C01Full.lean): the conversion contract ConvContract is a hypothesis (clauses "
        "proved for the engine model: the closed-topology 'not empty' and 'empty' reports down to K1's semantics of the raw rows; "
        "the cone-level DD-pair / minimal-form theorems of C01Conv* are listed there; NOT derived: the cone-to-K1 bridge for NNC, the "
        "generator-to-constraint direction, the incremental entries, EnginePair / LowLevel / genWF of the outputs); "
        "full_refines_reference / full_history_correct cover 13 operations on a pool of objects (is_empty, contains, copy, add_constraint, "
        "intersection_assign, unconstrain, affine_image, affine_preimage (invertible case included), generalized_affine_image (<= = >=), "
        "remove_space_dimensions, remove_higher_space_dimensions, poly_hull_assign, time_elapse_assign) with the answers of is_empty "
        "and contains; operator== (`_partial`: TVB_FALSE answers of quick_equivalence_test), relation_with(g), embed / project / "
        "concatenate (`_partial`: hEng when both descriptions are up to date), topological_closure_assign (`_partial`: hLow) have "
        "their own end-to-end theorems; NOT covered by a theorem: add_generator (points), bounds / max_min, minimized_* (NNC strong "
        "minimization), expand / fold / map, bounded_affine_image, strict generalized_affine_image",
    ]
    return broken
