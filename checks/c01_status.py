"""C01 stage 2 — the lazy status protocol of Polyhedron (helper of checks/c01.py).

proof:  PPLV.Props.C01Status (status_inv, observers_keep_set, …) over the code-shaped model
        lean/PPLV/PolyStatus/*.lean.
tie:    harness/c01_poly.cc --status-trace 1 brackets every public call with the real status line
        (flags, dimension, sorted flags and pending rows of both systems, read with ascii_dump on
        the object itself); the native driver pplv_polystatus replays each call on the model from the
        OBSERVED pre-status, for every resolution of the ghost inputs (data the abstract state does
        not hold), and the observed post-status must be among the results.
shape:  for every modelled C++ function the multiset of status-changing calls in its source text
        (set_*/clear_* of Polyhedron_inlines.hh, the private helpers) is compared with the multiset
        of the corresponding primitives in the Lean definition: a clear_*() removed from a path no
        reachable state exercises (the flag is already clear there) is still reported.
A MISMATCH / shape difference is a correspondence break: reported as a VIOLATION of C01 with the
history as replay (the model says what the unchanged code does at seeds 1,2,3,7,42).
"""
import collections, hashlib, os, re, shutil
from .common import VERIF, BUILD, LEAN, REPO
from . import poly_common as pc

PROPS = ["PPLV.Props.C01Status"]


def _shape_census(ctx):
    """-> list of differences between the status-call census of the C++ functions and of the Lean model."""
    try:
        from . import c01_status_shape as shp
    except Exception:
        return None, []
    return shp.compare(REPO, LEAN)


def run(ctx):
    """returns the list of broken proof obligations (the caller reports them)."""
    broken = ctx.prove(PROPS)
    quick = ctx.tier == "quick"
    drv = ctx.ensure_pplv("pplv_polystatus")
    h = ctx.compile_harness("c01_poly.cc")
    wd = os.path.join(BUILD, "run-%s-status-%d" % (ctx.pid, os.getpid()))
    shutil.rmtree(wd, ignore_errors=True)
    os.makedirs(wd)
    n_hist, length = (600, 12) if quick else (8000, 25)
    jpath = os.path.join(wd, "journal.txt")
    cmd = [h, "--seed", str(ctx.seed), "--first", "0", "--last", str(n_hist), "--len", str(length), "--maxdim", "3",
           "--ops", "all", "--batch", "10", "--status-trace", "1"]
    rc, _, err = ctx.run(cmd, stdout_path=jpath, timeout=3000)
    if rc != 0:
        ctx.fatal("harness (status trace) failed rc=%s %s" % (rc, (err or "")[-500:]))
    journal = open(jpath).read().splitlines()
    verd, summary = pc.run_driver_parallel(ctx, drv, journal, wd)
    hists = pc.split_histories(journal)
    starts = [s for s, _ in hists]

    def history_of(lineno):          # lineno: 0-based index in the journal
        import bisect
        k = bisect.bisect_right(starts, lineno + 1) - 1
        if k < 0:
            return []
        s, lines = hists[k]
        return lines[: lineno + 1 - (s - 1)]

    trans = collections.Counter()          # (method, pre, post) -> count
    per_method = collections.Counter()
    n_ok = n_bad = n_skip = 0
    for ln in sorted(verd):
        kind, rest = verd[ln]
        t = rest.split()
        if kind == "ok":
            n_ok += 1
            method = t[0]
            pre = next((x[4:] for x in t if x.startswith("pre=")), "")
            post = next((x[5:] for x in t if x.startswith("post=")), "")
            trans[(method, pre, post)] += 1
            per_method[method] += 1
        elif kind == "skip":
            n_skip += 1
        elif kind == "MISMATCH":
            n_bad += 1
            method = t[0]
            forbidden = "forbidden=1" in rest
            hist = history_of(ln)
            what = ("status protocol: %s leaves a status the model does not allow%s | %s" % (
                method, " (the invariant forbids it: a flag is set over a description this call modified without "
                        "re-validating it)" if forbidden else "", rest[:900]))
            ctx.violation(what, {"history": hist, "driver": "pplv_polystatus", "verdict": rest, "site": "status:" + method,
                                 "harness_args": cmd[1:], "invariant_forbids": forbidden,
                                 "replay_cmd": "harness c01_poly %s | pplv_polystatus" % " ".join(cmd[1:])},
                          found_input=True,
                          record={"site": "status:" + method, "tags": ["invariant_forbids" if forbidden else "not_allowed"]})
    # source shape
    shape_ok, diffs = _shape_census(ctx)
    for d in diffs:
        ctx.violation("status protocol: the flag logic of %s in the source differs from the model: %s" % (d["function"], d["what"]),
                      {"function": d["function"], "difference": d, "site": "status-shape:" + d["function"]},
                      found_input=False, record={"site": "status-shape:" + d["function"], "tags": ["shape"]})
    table = collections.defaultdict(list)
    for (m, pre, post), c in sorted(trans.items()):
        table[m].append({"pre": pre, "post": post, "count": c})
    status_words = set()
    for (m, pre, post) in trans:
        for part in (pre.split(";") + post.split(";")):
            if part and part not in ("-", "alias"):
                status_words.add(",".join(part.split(",")[:10]))
    ctx.cov["status_protocol"] = {
        "histories": len(hists), "history_length": length, "calls_judged": n_ok + n_bad, "calls_agree": n_ok,
        "calls_mismatch": n_bad, "calls_skipped": n_skip,
        "distinct_transitions": len(trans), "methods_seen": len(per_method),
        "calls_per_method": dict(per_method.most_common()),
        "distinct_status_words": len(status_words), "status_words": sorted(status_words),
        "transition_table": {m: v for m, v in table.items()},
        "driver_summary": summary,
        "source_shape_functions_compared": shape_ok,
        "source_shape_differences": diffs,
        "rule": "every public call of the C01/C02 histories (ops=all) bracketed by ascii_dump status lines; a call is judged when "
                "both lines exist (a call that throws is not judged); transition = (method, observed pre-status, observed post-status) "
                "with status = 10 flags + dimension + sorted flag / pending rows of con_sys and gen_sys",
    }
    ctx.assumptions += [
        "status protocol: conversion/simplify, the Linear_System row operations and the Bit_Matrix operations are parameters of the "
        "model (assumed to do what they document); the model is tied to the code by replaying every observed call from its observed "
        "pre-status and by the census of status-changing calls per function",
        "status protocol: ghost inputs (data the abstract state does not hold) are resolved existentially: the observed post-status "
        "must be reachable for SOME value of: all-pending-rows-duplicate, sorted flags after conversion, insertion keeps sortedness, "
        "observer fast path taken, strong minimisation/closure changed something, the set is/becomes empty",
    ]
    return broken
