"""C01 stage 2 — the lazy status protocol of Polyhedron (helper of checks/c01.py).

proof:  PPLV.Props.C01Status (status_inv, observers_keep_set, …) over the code-shaped model
        lean/PPLV/PolyStatus/*.lean.
tie:    harness/c01_poly.cc --status-trace 1 brackets every public call with the real status line
        (flags, dimension, sorted flags and pending rows of both systems, read with ascii_dump on
        the object itself); the native driver pplv_polystatus replays each call on the model from the
        OBSERVED pre-status, for every resolution of the ghost inputs (data the abstract state does
        not hold), and the observed post-status must be among the results.
shape:  for every modelled C++ function the multiset of status-changing calls in its source text
        (set_*/clear_* of Polyhedron_inlines.hh, the private helpers) is compared with the multiset
        of the corresponding primitives in the Lean definition: a clear_*() removed from a path no
        reachable state exercises (the flag is already clear there) is still reported.
A MISMATCH / shape difference is a correspondence break: reported as a VIOLATION of C01 with the
history as replay (the model says what the unchanged code does at seeds 1,2,3,7,42).
"""
import collections, hashlib, os, re, shutil
from .common import VERIF, BUILD, LEAN, REPO
from . import poly_common as pc

PROPS = ["PPLV.Props.C01Status"]


def _shape_census(ctx):
    """-> (functions compared, differences) between the status-call census of the C++ functions and of the Lean model."""
    return shape_compare(REPO, LEAN)


def run(ctx):
    """returns the list of broken proof obligations (the caller reports them)."""
    broken = ctx.prove(PROPS)
    quick = ctx.tier == "quick"
    drv = ctx.ensure_pplv("pplv_polystatus")
    h = ctx.compile_harness("c01_poly.cc")
    wd = os.path.join(BUILD, "run-%s-status-%d" % (ctx.pid, os.getpid()))
    shutil.rmtree(wd, ignore_errors=True)
    os.makedirs(wd)
    n_hist, length = (600, 12) if quick else (8000, 25)
    jpath = os.path.join(wd, "journal.txt")
    cmd = [h, "--seed", str(ctx.seed), "--first", "0", "--last", str(n_hist), "--len", str(length), "--maxdim", "3",
           "--ops", "all", "--batch", "10", "--status-trace", "1"]
    rc, _, err = ctx.run(cmd, stdout_path=jpath, timeout=3000)
    if rc != 0:
        ctx.fatal("harness (status trace) failed rc=%s %s" % (rc, (err or "")[-500:]))
    journal = open(jpath).read().splitlines()
    verd, summary = pc.run_driver_parallel(ctx, drv, journal, wd)
    hists = pc.split_histories(journal)
    starts = [s for s, _ in hists]

    def history_of(lineno):          # lineno: 0-based index in the journal
        import bisect
        k = bisect.bisect_right(starts, lineno + 1) - 1
        if k < 0:
            return []
        s, lines = hists[k]
        return lines[: lineno + 1 - (s - 1)]

    trans = collections.Counter()          # (method, pre, post) -> count
    per_method = collections.Counter()
    n_ok = n_bad = n_skip = 0
    for ln in sorted(verd):
        kind, rest = verd[ln]
        t = rest.split()
        if kind == "ok":
            n_ok += 1
            method = t[0]
            pre = next((x[4:] for x in t if x.startswith("pre=")), "")
            post = next((x[5:] for x in t if x.startswith("post=")), "")
            trans[(method, pre, post)] += 1
            per_method[method] += 1
        elif kind == "skip":
            n_skip += 1
        elif kind == "MISMATCH":
            n_bad += 1
            method = t[0]
            forbidden = "forbidden=1" in rest
            hist = history_of(ln)
            what = ("status protocol: %s leaves a status the model does not allow%s | %s" % (
                method, " (the invariant forbids it: a flag is set over a description this call modified without "
                        "re-validating it)" if forbidden else "", rest[:900]))
            ctx.violation(what, {"history": hist, "driver": "pplv_polystatus", "verdict": rest, "site": "status:" + method,
                                 "harness_args": cmd[1:], "invariant_forbids": forbidden,
                                 "replay_cmd": "harness c01_poly %s | pplv_polystatus" % " ".join(cmd[1:])},
                          found_input=True,
                          record={"site": "status:" + method, "tags": ["invariant_forbids" if forbidden else "not_allowed"]})
    # source shape
    shape_ok, diffs = _shape_census(ctx)
    for d in diffs:
        ctx.violation("status protocol: the flag logic of %s in the source differs from the model: %s" % (d["function"], d["what"]),
                      {"function": d["function"], "difference": d, "site": "status-shape:" + d["function"]},
                      found_input=False, record={"site": "status-shape:" + d["function"], "tags": ["shape"]})
    table = collections.defaultdict(list)
    for (m, pre, post), c in sorted(trans.items()):
        table[m].append({"pre": pre, "post": post, "count": c})
    status_words = set()
    for (m, pre, post) in trans:
        for part in (pre.split(";") + post.split(";")):
            if part and part not in ("-", "alias"):
                status_words.add(",".join(part.split(",")[:10]))
    ctx.cov["status_protocol"] = {
        "histories": len(hists), "history_length": length, "calls_judged": n_ok + n_bad, "calls_agree": n_ok,
        "calls_mismatch": n_bad, "calls_skipped": n_skip,
        "distinct_transitions": len(trans), "methods_seen": len(per_method),
        "calls_per_method": dict(per_method.most_common()),
        "distinct_status_words": len(status_words), "status_words": sorted(status_words),
        "transition_table": {m: v for m, v in table.items()},
        "driver_summary": summary,
        "source_shape_functions_compared": shape_ok,
        "source_shape_differences": diffs,
        "rule": "every public call of the C01/C02 histories (ops=all) bracketed by ascii_dump status lines; a call is judged when "
                "both lines exist (a call that throws is not judged); transition = (method, observed pre-status, observed post-status) "
                "with status = 10 flags + dimension + sorted flag / pending rows of con_sys and gen_sys",
    }
    ctx.assumptions += [
        "status protocol: conversion/simplify, the Linear_System row operations and the Bit_Matrix operations are parameters of the "
        "model (assumed to do what they document); the model is tied to the code by replaying every observed call from its observed "
        "pre-status and by the census of status-changing calls per function",
        "status protocol: ghost inputs (data the abstract state does not hold) are resolved existentially: the observed post-status "
        "must be reachable for SOME value of: all-pending-rows-duplicate, sorted flags after conversion, insertion keeps sortedness, "
        "observer fast path taken, strong minimisation/closure changed something, the set is/becomes empty",
    ]
    return broken


# ---------------------------------------------------------------------------------------------------
# source shape: the status-changing calls of every modelled C++ function vs. the primitives of its Lean model
# ---------------------------------------------------------------------------------------------------
_PRIMS = {   # C++ call -> Lean primitive
    "set_constraints_up_to_date": "setConstraintsUpToDate", "set_generators_up_to_date": "setGeneratorsUpToDate",
    "set_constraints_minimized": "setConstraintsMinimized", "set_generators_minimized": "setGeneratorsMinimized",
    "set_constraints_pending": "setConstraintsPending", "set_generators_pending": "setGeneratorsPending",
    "set_sat_c_up_to_date": "setSatCUpToDate", "set_sat_g_up_to_date": "setSatGUpToDate", "clear_empty": "clearEmpty",
    "clear_constraints_minimized": "clearConstraintsMinimized", "clear_generators_minimized": "clearGeneratorsMinimized",
    "clear_pending_constraints": "clearPendingConstraints", "clear_pending_generators": "clearPendingGenerators",
    "clear_sat_c_up_to_date": "clearSatCUpToDate", "clear_sat_g_up_to_date": "clearSatGUpToDate",
    "clear_constraints_up_to_date": "clearConstraintsUpToDate", "clear_generators_up_to_date": "clearGeneratorsUpToDate",
    "set_empty": "setEmpty", "set_zero_dim_univ": "setZeroDimUniv",
}
# C++ function (file, name, overload index) -> Lean definitions whose bodies together model it (Lean-only helpers inlined)
_SHAPE = [
    ("Polyhedron_nonpublic.cc", "process_pending_constraints", 0, ["ppcPrepare", "ppcFinish"]),
    ("Polyhedron_nonpublic.cc", "process_pending_generators", 0, ["ppgPrepare", "ppgFinish"]),
    ("Polyhedron_nonpublic.cc", "remove_pending_to_obtain_constraints", 0, ["removePendingToObtainConstraints"]),
    ("Polyhedron_nonpublic.cc", "remove_pending_to_obtain_generators", 0, ["removePendingToObtainGenerators"]),
    ("Polyhedron_nonpublic.cc", "update_constraints", 0, ["updateConstraints"]),
    ("Polyhedron_nonpublic.cc", "update_generators", 0, ["updateGenerators"]),
    ("Polyhedron_nonpublic.cc", "update_sat_c", 0, ["updateSatC"]),
    ("Polyhedron_nonpublic.cc", "update_sat_g", 0, ["updateSatG"]),
    ("Polyhedron_nonpublic.cc", "obtain_sorted_constraints", 0, ["obtainSortedConstraints"]),
    ("Polyhedron_nonpublic.cc", "obtain_sorted_generators", 0, ["obtainSortedGenerators"]),
    ("Polyhedron_nonpublic.cc", "obtain_sorted_constraints_with_sat_c", 0, ["obtainSortedConstraintsWithSatC"]),
    ("Polyhedron_nonpublic.cc", "obtain_sorted_generators_with_sat_g", 0, ["obtainSortedGeneratorsWithSatG"]),
    ("Polyhedron_nonpublic.cc", "strongly_minimize_constraints", 0, ["smcTail"]),
    ("Polyhedron_nonpublic.cc", "strongly_minimize_generators", 0, ["smgTail"]),
    ("Polyhedron_nonpublic.cc", "refine_no_check", 0, ["refineNoCheck"]),
    ("Polyhedron_public.cc", "add_constraint", 0, ["addConstraint"]),
    ("Polyhedron_public.cc", "add_generator", 0, ["addGenerator", "firstPoint", "insertGens"]),
    ("Polyhedron_public.cc", "add_recycled_constraints", 0, ["addConstraints", "insertCons"]),
    ("Polyhedron_public.cc", "add_recycled_generators", 0, ["addGenerators", "swapGens", "insertGens"]),
    ("Polyhedron_public.cc", "refine_with_constraints", 0, ["refineWithConstraints", "insertCons"]),
    ("Polyhedron_public.cc", "unconstrain", 0, ["unconstrain", "insertGens"]),
    ("Polyhedron_public.cc", "unconstrain", 1, ["unconstrain", "insertGens"]),
    ("Polyhedron_public.cc", "intersection_assign", 0, ["intersectionAssign", "insertCons"]),
    ("Polyhedron_public.cc", "poly_hull_assign", 0, ["polyHullAssign", "insertGens"]),
    ("Polyhedron_public.cc", "time_elapse_assign", 0, ["timeElapseAssign", "insertGens"]),
    ("Polyhedron_public.cc", "topological_closure_assign", 0, ["closureTail"]),
    ("Polyhedron_public.cc", "affine_image", 0, ["affineImage"]),
    ("Polyhedron_public.cc", "affine_preimage", 0, ["affinePreimage"]),
    ("Polyhedron_public.cc", "generalized_affine_image", 0, ["strictImageTail"]),
    ("Polyhedron_chdims.cc", "concatenate_assign", 0, ["concatenateAssign"]),
    ("Polyhedron_chdims.cc", "remove_space_dimensions", 0, ["removeDims"]),
    ("Polyhedron_chdims.cc", "remove_higher_space_dimensions", 0, ["removeHigherSpaceDimensions"]),
    ("Polyhedron_chdims.cc", "add_space_dimensions_and_project", 0, ["addSpaceDimensionsAndProject"]),
]
# differences of presentation (not of behaviour), per function: added to the C++ census before comparing
_SHAPE_NOTES = {
    # refine_no_check / the add-constraints family: the zero-dimensional `set_empty()` and the 0-dim
    # `status.set_empty()` are the same primitive on the status word
    # time_elapse_assign has one `x.set_empty()` for four reasons (either operand marked / found empty); the model
    # writes one per reason
    ("time_elapse_assign", 0): {"setEmpty": +2},
    # insertGens is shared by the pending / non-pending branches of time_elapse (written twice in the model)
}


def _strip_cpp(src):
    src = re.sub(r"/\*.*?\*/", "", src, flags=re.S)
    return re.sub(r"//[^\n]*", "", src)


def _cpp_bodies(path):
    src = _strip_cpp(open(path).read())
    out = collections.defaultdict(list)
    for m in re.finditer(r"^PPL::Polyhedron::\s*\n?\s*(\w+)\s*\(", src, flags=re.M):
        i = src.find("{\n", m.end())
        j = src.find("\n}\n", i)
        if i >= 0 and j > i:
            out[m.group(1)].append(src[i:j])
    return out


def _census_cpp(body):
    c = collections.Counter()
    body = re.sub(r"status\.set_empty\s*\(", "STATUS_SET_EMPTY(", body)
    for k, v in _PRIMS.items():
        n = len(re.findall(r"(?<![\w.])(?:x\.|y\.)?%s\s*\(" % k, body))
        if n:
            c[v] += n
    n = body.count("STATUS_SET_EMPTY(")
    if n:
        c["stSetEmpty"] += n
    return c


def _lean_defs(paths):
    defs = {}
    for p in paths:
        src = open(p).read()
        src = re.sub(r"/-.*?-/", "", src, flags=re.S)
        src = re.sub(r"--[^\n]*", "", src)
        for m in re.finditer(r"^def (\w+)[^\n]*?:=(.*?)(?=^def |^theorem |^structure |^end |^abbrev |^namespace |\Z)", src, flags=re.M | re.S):
            defs[m.group(1)] = m.group(2)
    return defs


def _census_lean(body):
    c = collections.Counter()
    for v in list(_PRIMS.values()) + ["stSetEmpty"]:
        n = len(re.findall(r"(?<![\w.])%s\b" % v, body))
        if n:
            c[v] += n
    return c


def shape_compare(repo, lean):
    """-> (number of functions compared, list of differences)"""
    ldefs = _lean_defs([os.path.join(lean, "PPLV", "PolyStatus", f) for f in ("Helpers.lean", "Ops.lean", "Ops2.lean")])
    cache, diffs, n = {}, [], 0
    for fn, name, idx, leans in _SHAPE:
        path = os.path.join(repo, "src", fn)
        if path not in cache:
            cache[path] = _cpp_bodies(path)
        bodies = cache[path].get(name, [])
        if idx >= len(bodies):
            diffs.append({"function": name, "what": "not found in src/%s" % fn})
            continue
        missing = [l for l in leans if l not in ldefs]
        if missing:
            diffs.append({"function": name, "what": "Lean definition(s) %s not found" % missing})
            continue
        cc = _census_cpp(bodies[idx])
        for k, v in _SHAPE_NOTES.get((name, idx), {}).items():
            cc[k] += v
        lc = collections.Counter()
        for l in leans:
            lc.update(_census_lean(ldefs[l]))
        n += 1
        if +cc != +lc:
            delta = {k: (cc.get(k, 0), lc.get(k, 0)) for k in sorted(set(cc) | set(lc)) if cc.get(k, 0) != lc.get(k, 0)}
            diffs.append({"function": name, "overload": idx,
                          "what": "status-changing calls (source count, model count): %s" % delta})
    return n, diffs
